#!/usr/bin/env python3
"""Shared machinery of /verif/check: Coq build, theorem inventory, harness build/run,
cases_*.v generation and evaluation, verdicts, known findings, evidence."""
import fcntl, glob, hashlib, json, os, re, shutil, subprocess, sys, time
from concurrent.futures import ThreadPoolExecutor

# Every process linking 99designs/keyring (git-bug, the harness, go test) would otherwise auto-launch a
# dbus session daemon at start-up and leave it behind: with the address set, godbus does not autolaunch.
os.environ.setdefault("DBUS_SESSION_BUS_ADDRESS", "unix:path=/nonexistent")

ROOT = os.path.dirname(os.path.abspath(__file__))
WORK = os.path.join(ROOT, ".work")
COQ = os.path.join(ROOT, "coq")
REPO = os.environ.get("VERIF_REPO", "/repo")
# binaries built against another tree than /repo (VERIF_REPO) get their own names: two checks running at the same
# time against different trees must not hand each other their harness
REPO_TAG = "" if REPO == "/repo" else "-" + hashlib.sha1(REPO.encode()).hexdigest()[:8]
GOENV = dict(os.environ, GOFLAGS="-mod=mod", GOPROXY="off", GOSUMDB="off", GOTOOLCHAIN="local",
             GOCACHE=os.environ.get("GOCACHE", os.path.expanduser("~/.cache/go-build")))
NCPU = os.cpu_count() or 4

FORBIDDEN = re.compile(r"\b(Admitted|admit|Axiom|Axioms|Parameter|Parameters|Conjecture|Hypothesis|Variable)\b|Unset Guard|bypass_check|Admit Obligations|-type-in-type")


class FrameworkError(Exception):
    pass


def log(*a):
    print(*a, file=sys.stderr, flush=True)


def sh(cmd, cwd=None, env=None, timeout=None, check=False):
    p = subprocess.run(cmd, cwd=cwd, env=env, timeout=timeout, stdout=subprocess.PIPE, stderr=subprocess.STDOUT, text=True,
                       shell=isinstance(cmd, str))
    if check and p.returncode != 0:
        raise FrameworkError("command failed: %s\n%s" % (cmd, p.stdout[-4000:]))
    return p.returncode, p.stdout


class Lock:
    def __init__(self, name):
        os.makedirs(WORK, exist_ok=True)
        self.path = os.path.join(WORK, name + ".lock")

    def __enter__(self):
        self.f = open(self.path, "w")
        fcntl.flock(self.f, fcntl.LOCK_EX)
        return self

    def __exit__(self, *a):
        fcntl.flock(self.f, fcntl.LOCK_UN)
        self.f.close()


# ------------------------------------------------------------------ Coq side

def strip_comments(src):
    out, depth, i = [], 0, 0
    while i < len(src):
        if src.startswith("(*", i):
            depth += 1; i += 2
        elif src.startswith("*)", i) and depth > 0:
            depth -= 1; i += 2
        else:
            if depth == 0:
                out.append(src[i])
            i += 1
    return "".join(out)


def scan_forbidden():
    """No Admitted/admit/Axiom/Parameter/... anywhere in the development (Section variables are
    allowed only inside sections: checked by requiring 'Section' bracketing in that file)."""
    bad = []
    for f in sorted(glob.glob(os.path.join(COQ, "*.v"))):
        src = strip_comments(open(f).read())
        for m in FORBIDDEN.finditer(src):
            w = m.group(0)
            if w in ("Variable", "Hypothesis", "Variables", "Hypotheses"):
                # must be inside a Section
                before = src[:m.start()]
                opened = len(re.findall(r"^\s*Section\s+\w+", before, re.M))
                closed = len(re.findall(r"^\s*End\s+\w+\s*\.", before, re.M))
                mods = len(re.findall(r"^\s*Module\s+\w+", before, re.M))
                if opened + mods - closed > 0:
                    continue
            bad.append("%s: %s" % (os.path.basename(f), w))
    return bad


def build_coq():
    """Full .vo build (never -vos). Returns (ok, output)."""
    with Lock("coq"):
        mk = os.path.join(COQ, "Makefile")
        cp = os.path.join(COQ, "_CoqProject")
        # _CoqProject is generated: every .v of coq/ (generated cases_*.v never live there)
        want = "-Q . GB\n" + "".join(f + "\n" for f in sorted(os.path.basename(x) for x in glob.glob(os.path.join(COQ, "*.v")) if not os.path.basename(x).startswith("cases_")))
        if not os.path.exists(cp) or open(cp).read() != want:
            open(cp, "w").write(want)
        if not os.path.exists(mk) or os.path.getmtime(mk) < os.path.getmtime(cp):
            sh(["coq_makefile", "-f", "_CoqProject", "-o", "Makefile"], cwd=COQ, check=True)
        rc, out = sh(["timeout", "1500", "make", "-j%d" % NCPU], cwd=COQ)
        return rc == 0, out


def theorem_inventory(prop):
    """Re-compiles coq/P_<prop>.v and reads the Print Assumptions answers.
    Returns dict(theorems=[...], discharged=int, axioms=[...], output=str, ok=bool)."""
    pf = os.path.join(COQ, "P_%s.v" % prop)
    src = strip_comments(open(pf).read())
    thms = re.findall(r"^\s*(?:Theorem|Corollary)\s+(\w+)", src, re.M)
    examples = re.findall(r"^\s*Example\s+(\w+)", src, re.M)
    printed = re.findall(r"Print Assumptions\s+(\w+)", src)
    with Lock("coq"):
        rc, out = sh(["timeout", "600", "coqc", "-Q", ".", "GB", "P_%s.v" % prop], cwd=COQ)
    closed = out.count("Closed under the global context")
    axioms = []
    for m in re.finditer(r"Axioms:\n((?:.+\n)+?)(?=\S|\Z)", out):
        axioms.append(m.group(1).strip())
    ax_names = sorted(set(re.findall(r"^(\w[\w.']*)\s*:", "\n".join(axioms), re.M)))
    ok = rc == 0 and set(thms) <= set(printed)
    discharged = len(thms) if ok else 0
    return dict(theorems=thms, examples=examples, discharged=discharged, closed=closed, axioms=ax_names,
                output=out[-3000:], ok=ok, missing_print=sorted(set(thms) - set(printed)))


def coqchk(prop):
    """Independent re-check of the compiled property file and everything it depends on (thorough tier)."""
    with Lock("coq"):
        rc, out = sh(["timeout", "2400", "coqchk", "-silent", "-o", "-Q", ".", "GB", "GB.P_%s" % prop], cwd=COQ)
    axioms = []
    m = re.search(r"\* Axioms:\s*(.*?)(?:\n\s*\n|\* |\Z)", out, re.S)
    if m:
        axioms = [l.strip() for l in m.group(1).splitlines() if l.strip()]
    return dict(ok=rc == 0, axioms=axioms, tail=out[-1500:])


def eval_shard(prop, kmod, idx, terms, outdir, extra_imports="", explain=False):
    """Writes cases_<idx>.v with the given case terms and evaluates mismatches/failing."""
    name = "cases_%s_%d" % (prop, idx)
    path = os.path.join(outdir, name + ".v")
    with open(path, "w") as f:
        f.write("From Coq Require Import List NArith ZArith String.\nImport ListNotations.\n")
        f.write("From GB Require Import %s.\n%s\n" % (kmod, extra_imports))
        f.write("Definition cases : list %s.case := [\n" % kmod)
        f.write(";\n".join("(" + t + ")" for t in terms))
        f.write("\n].\n")
        f.write("Definition M := Eval vm_compute in %s.mismatches cases.\n" % kmod)
        f.write("Definition F := Eval vm_compute in %s.failing cases.\n" % kmod)
        f.write("Print M.\nPrint F.\n")
        if explain:
            f.write("Definition X := Eval vm_compute in map %s.explain cases.\nPrint X.\n" % kmod)
    rc, out = sh(["timeout", "1200", "coqc", "-Q", COQ, "GB", name + ".v"], cwd=outdir)
    if rc != 0:
        return None, None, out
    flat = " ".join(out.split())
    def grab(n):
        m = re.search(r"\b%s = \[(.*?)\] : list nat" % n, flat)
        if m is None:
            return None
        body = m.group(1).strip()
        return [int(x) for x in body.split(";")] if body else []
    return grab("M"), grab("F"), out


# ------------------------------------------------------------------ harness side

def build_harness():
    """Builds the Go harness against /repo's current working tree, tag verif. Returns (ok, output, binary)."""
    with Lock("harness"):
        bdir = os.path.join(WORK, "harness-build" + REPO_TAG)
        os.makedirs(bdir, exist_ok=True)
        for f in glob.glob(os.path.join(bdir, "*.go")):
            os.remove(f)
        for f in glob.glob(os.path.join(ROOT, "harness", "*.go")) + [os.path.join(ROOT, "harness", "go.mod")]:
            shutil.copy(f, bdir)
        shutil.copy(os.path.join(REPO, "go.sum"), os.path.join(bdir, "go.sum"))
        gm = os.path.join(bdir, "go.mod")
        txt = open(gm).read().replace("github.com/MichaelMure/git-bug => /repo", "github.com/MichaelMure/git-bug => " + REPO)
        open(gm, "w").write(txt)
        binp = os.path.join(WORK, "bin", "harness" + REPO_TAG)
        os.makedirs(os.path.dirname(binp), exist_ok=True)
        rc, out = sh(["timeout", "1200", "go", "build", "-tags", "verif", "-o", binp, "."], cwd=bdir, env=GOENV)
        return rc == 0, out, binp


def build_gitbug():
    """Builds the git-bug CLI from /repo's working tree (used by process-level checks)."""
    with Lock("gitbug"):
        binp = os.path.join(WORK, "bin", "git-bug" + REPO_TAG)
        rc, out = sh(["timeout", "1200", "go", "build", "-tags", "verif", "-o", binp, "."], cwd=REPO, env=GOENV)
        return rc == 0, out, binp


def read_jsonl(p):
    res = []
    with open(p) as f:
        for l in f:
            l = l.strip()
            if l:
                res.append(json.loads(l))
    return res


# ------------------------------------------------------------------ findings / evidence

def load_findings():
    """known_findings.json plus the per-property fragments findings/*.json (same format)."""
    res = []
    for p in [os.path.join(ROOT, "known_findings.json")] + sorted(glob.glob(os.path.join(ROOT, "findings", "*.json"))):
        if os.path.exists(p):
            res += json.load(open(p))["findings"]
    return res


def write_evidence(prop, ev):
    os.makedirs(os.path.join(ROOT, "evidence"), exist_ok=True)
    p = os.path.join(ROOT, "evidence", prop + ".json")
    tmp = p + ".tmp%d" % os.getpid()
    with open(tmp, "w") as f:
        json.dump(ev, f, indent=1, sort_keys=True)
        f.write("\n")
    os.replace(tmp, p)


def histogram(cases):
    h = {}
    for c in cases:
        for t in c.get("tags") or []:
            h[t] = h.get(t, 0) + 1
    return dict(sorted(h.items()))
