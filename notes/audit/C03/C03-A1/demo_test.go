// Place this file in: entity/dag/   (package dag, it uses the package-internal operationPack)
// Run with:
//   export GOFLAGS=-mod=mod GOPROXY=off GOSUMDB=off GOTOOLCHAIN=local DBUS_SESSION_BUS_ADDRESS=unix:path=/nonexistent
//   go test -count=1 -run 'TestC03A1' ./entity/dag/
//
// C03: "Histories whose logical clocks [...] jump implausibly far [...] are refused instead of
// being ordered."
//
// The hop limit of read() (1,000,000) is only applied to commits with exactly one entry in their
// parent list. Any commit with two parent entries escapes it, including a commit that lists the
// SAME parent twice (a "merge" that merges nothing). A well-formed history can therefore jump from
// edit time 1 to 2^64-2 in one hop, is accepted and ordered, and its clocks are witnessed: the
// local edit clock ends on the uint64 rollover the limit is documented to protect from.
package dag

import (
	"fmt"
	"math"
	"testing"

	"github.com/stretchr/testify/require"

	"github.com/MichaelMure/git-bug/repository"
	"github.com/MichaelMure/git-bug/util/lamport"
)

func TestC03A1_FarJumpThroughTwoParentCommit(t *testing.T) {
	const far = lamport.Time(math.MaxUint64 - 1)

	build := func(t *testing.T, gogit bool, duplicateParent bool) (repository.ClockedRepo, Definition, func() (*Foo, error), []Operation) {
		var repo repository.ClockedRepo
		if gogit {
			repo = repository.CreateGoGitTestRepo(t, false)
		} else {
			repo = repository.NewMockRepo()
		}
		id1, _, resolvers, def := makeTestContextInternal(repo)

		write := func(opp *operationPack, parents ...repository.Hash) repository.Hash {
			h, err := opp.Write(def, repo, parents...)
			require.NoError(t, err)
			return h
		}

		opRoot := newOp1(id1, "root")
		opA := newOp2(id1, "a")
		opB := newOp2(id1, "b")
		opC := newOp2(id1, "after the jump")

		root := write(&operationPack{Author: id1, Operations: []Operation{opRoot}, CreateTime: 1, EditTime: 1})

		var jump repository.Hash
		if duplicateParent {
			// R(1) <== J(2^64-2, no operation, parents [R, R]) <-- C(2^64-1)
			jump = write(&operationPack{Author: id1, EditTime: far}, root, root)
		} else {
			// R(1) <-- A(2), R(1) <-- B(2), J(2^64-2, no operation, parents [A, B]) <-- C(2^64-1)
			a := write(&operationPack{Author: id1, Operations: []Operation{opA}, EditTime: 2}, root)
			b := write(&operationPack{Author: id1, Operations: []Operation{opB}, EditTime: 2}, root)
			jump = write(&operationPack{Author: id1, EditTime: far}, a, b)
		}
		head := write(&operationPack{Author: id1, Operations: []Operation{opC}, EditTime: far + 1}, jump)

		ref := fmt.Sprintf("refs/%s/%s", def.Namespace, opRoot.Id().String())
		require.NoError(t, repo.UpdateRef(ref, head))

		return repo, def, func() (*Foo, error) {
			return Read(def, wrapper, repo, resolvers, opRoot.Id())
		}, []Operation{opRoot, opC}
	}

	for _, gogit := range []bool{false, true} {
		for _, dup := range []bool{true, false} {
			name := fmt.Sprintf("gogit=%v/duplicateParent=%v", gogit, dup)
			t.Run(name, func(t *testing.T) {
				repo, def, read, _ := build(t, gogit, dup)

				// control: the very same jump on a commit with a single parent entry is refused
				// (checked in TestC03A1_Control below)

				e, err := read()
				if err == nil {
					now, _ := repo.Increment(fmt.Sprintf(editClockPattern, def.Namespace))
					t.Logf("accepted; %d operations ordered; edit time of the entity = %d; next local edit time = %d",
						len(e.Operations()), e.EditLamportTime(), now)
				}
				require.Error(t, err, "a history jumping from edit time 2 to 2^64-2 in one hop must be refused")
			})
		}
	}
}

// Control: shows that the same clocks ARE refused as soon as the parent is listed only once, so
// the expectation above is the project's own rule, not a new one.
func TestC03A1_Control(t *testing.T) {
	const far = lamport.Time(math.MaxUint64 - 1)

	repo := repository.NewMockRepo()
	id1, _, resolvers, def := makeTestContextInternal(repo)

	opRoot := newOp1(id1, "root")
	root, err := (&operationPack{Author: id1, Operations: []Operation{opRoot}, CreateTime: 1, EditTime: 1}).Write(def, repo)
	require.NoError(t, err)
	jump, err := (&operationPack{Author: id1, EditTime: far}).Write(def, repo, root)
	require.NoError(t, err)
	head, err := (&operationPack{Author: id1, Operations: []Operation{newOp2(id1, "c")}, EditTime: far + 1}).Write(def, repo, jump)
	require.NoError(t, err)
	require.NoError(t, repo.UpdateRef(fmt.Sprintf("refs/%s/%s", def.Namespace, opRoot.Id().String()), head))

	_, err = Read(def, wrapper, repo, resolvers, opRoot.Id())
	require.ErrorContains(t, err, "jumping too far")
}
