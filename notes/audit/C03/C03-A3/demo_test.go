// Place this file in: entity/dag/   (package dag)
// Run with:
//   export GOFLAGS=-mod=mod GOPROXY=off GOSUMDB=off GOTOOLCHAIN=local DBUS_SESSION_BUS_ADDRESS=unix:path=/nonexistent
//   go test -count=1 -run 'TestC03A3' ./entity/dag/
//
// C03: the applied order is causal and clock-consistent for "every commit DAG git-bug itself can
// produce", boundary values of the clocks included.
//
// A root commit can carry any edit time: a (hand-built, well-formed) entity whose root has
// edit-clock-18446744073709551615 is accepted by read(), which witnesses that value: the edit
// clock of the namespace now sits on the last uint64. lamport.MemClock.Increment() wraps without
// any check: the next Commit() of ANY entity of the namespace first fails ("lamport edit time is
// zero", the operations stay staged), and the retry stamps the pack with edit time 1, i.e. a time
// smaller than the one of its own parent. Commit() reports a success and moves the reference; the
// history it wrote contradicts its ancestry and is refused for ever.
package dag

import (
	"fmt"
	"math"
	"testing"

	"github.com/stretchr/testify/require"

	"github.com/MichaelMure/git-bug/repository"
)

func TestC03A3_EditClockRollover(t *testing.T) {
	repo := repository.NewMockRepo()
	id1, _, resolvers, def := makeTestContextInternal(repo)

	// an ordinary entity with some history, made with the API
	e := wrapper(New(def))
	e.Append(newOp1(id1, "created here"))
	require.NoError(t, e.Commit(repo))
	e.Append(newOp2(id1, "second edition"))
	require.NoError(t, e.Commit(repo))
	e.Append(newOp2(id1, "third edition"))
	require.NoError(t, e.Commit(repo))

	// another entity of the namespace, received from somebody else: a single root commit
	otherOp := newOp1(id1, "root with the biggest edit time")
	other := &operationPack{Author: id1, Operations: []Operation{otherOp}, CreateTime: 2, EditTime: math.MaxUint64}
	otherHash, err := other.Write(def, repo)
	require.NoError(t, err)
	require.NoError(t, repo.UpdateRef(fmt.Sprintf("refs/%s/%s", def.Namespace, otherOp.Id().String()), otherHash))
	_, err = Read(def, wrapper, repo, resolvers, otherOp.Id())
	if err != nil {
		// refusing it would be a fine way to fix the problem
		t.Skipf("the entity is refused: %v", err)
	}

	// the user edits the first entity, with the API only
	e, err = Read(def, wrapper, repo, resolvers, e.Id())
	require.NoError(t, err)
	before := e.Operations()
	added := newOp2(id1, "an ordinary later edition")
	e.Append(added)

	err = e.Commit(repo)
	if err != nil {
		t.Logf("first Commit(): %v", err)
		// the operation is still staged: the user (or the caller: CommitAsNeeded) tries again
		require.True(t, e.NeedCommit())
		err = e.Commit(repo)
	}
	if err != nil {
		// a clean, repeated refusal is acceptable: nothing has been written
		_, err = Read(def, wrapper, repo, resolvers, e.Id())
		require.NoError(t, err)
		return
	}
	t.Logf("Commit() succeeded, edit time of the entity is now %d", e.EditLamportTime())

	// what Commit() wrote must be readable, with the new operation after the ones it follows
	read, err := Read(def, wrapper, repo, resolvers, e.Id())
	require.NoError(t, err, "the history written by Entity.Commit() is refused by Read()")
	require.Len(t, read.Operations(), len(before)+1)
	require.Equal(t, added.Id(), read.Operations()[len(before)].Id())
}

// Same thing with the creation clock: after witnessing create-clock-18446744073709551615, the next
// entity created with the API gets creation time 0, which Write() silently leaves out of the tree:
// Commit() succeeds and the new entity "lacks a creation time", so it is refused for ever.
func TestC03A3_CreateClockRollover(t *testing.T) {
	repo := repository.NewMockRepo()
	id1, _, resolvers, def := makeTestContextInternal(repo)

	otherOp := newOp1(id1, "root with the biggest creation time")
	other := &operationPack{Author: id1, Operations: []Operation{otherOp}, CreateTime: math.MaxUint64, EditTime: 1}
	otherHash, err := other.Write(def, repo)
	require.NoError(t, err)
	require.NoError(t, repo.UpdateRef(fmt.Sprintf("refs/%s/%s", def.Namespace, otherOp.Id().String()), otherHash))
	_, err = Read(def, wrapper, repo, resolvers, otherOp.Id())
	if err != nil {
		t.Skipf("the entity is refused: %v", err)
	}

	e := wrapper(New(def))
	e.Append(newOp1(id1, "created here, with the API"))
	if err := e.Commit(repo); err != nil {
		t.Skipf("clean refusal: %v", err)
	}

	_, err = Read(def, wrapper, repo, resolvers, e.Id())
	require.NoError(t, err, "the entity written by Entity.Commit() is refused by Read()")
}
