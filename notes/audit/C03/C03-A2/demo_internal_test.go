// Place this file in: entity/dag/   (package dag)
// Run with:
//   export GOFLAGS=-mod=mod GOPROXY=off GOSUMDB=off GOTOOLCHAIN=local DBUS_SESSION_BUS_ADDRESS=unix:path=/nonexistent
//   go test -count=1 -run 'TestC03A2' ./entity/dag/
//
// C03 quantifies over "every commit DAG git-bug itself can produce": such a history has to be
// ordered (deterministically, causally), not refused.
//
// The edit clock is shared by all the entities of a namespace, and a root commit may carry any edit
// time (nothing to compare it with). Entity.Commit() stamps the new pack with repo.Increment() and
// never compares that value with the edit time of the parent pack, while read() refuses a
// single-parent hop of more than 1,000,000. So as soon as the namespace clock has moved by more
// than 1,000,000 since the last edition of an entity (a busy tracker, or simply one pulled entity
// created on a replica whose clock is far ahead), the next ordinary Commit() on that entity
// succeeds, moves the reference, and the entity can never be read again.
package dag

import (
	"fmt"
	"testing"

	"github.com/stretchr/testify/require"

	"github.com/MichaelMure/git-bug/repository"
)

func TestC03A2_OwnCommitRefusedAfterClockMovedFar(t *testing.T) {
	for _, gogit := range []bool{false, true} {
		t.Run(fmt.Sprintf("gogit=%v", gogit), func(t *testing.T) {
			var repo repository.ClockedRepo
			if gogit {
				repo = repository.CreateGoGitTestRepo(t, false)
			} else {
				repo = repository.NewMockRepo()
			}
			id1, _, resolvers, def := makeTestContextInternal(repo)

			// 1) an ordinary entity, created and committed with the API
			e := wrapper(New(def))
			e.Append(newOp1(id1, "created here"))
			require.NoError(t, e.Commit(repo))

			// 2) another entity of the same namespace arrives (as after a fetch + merge) from a replica
			//    whose edit clock is 5,000,000. It is a perfectly valid history: read() accepts it.
			otherOp := newOp1(id1, "created on a replica with a clock far ahead")
			other := &operationPack{Author: id1, Operations: []Operation{otherOp}, CreateTime: 3, EditTime: 5_000_000}
			otherHash, err := other.Write(def, repo)
			require.NoError(t, err)
			require.NoError(t, repo.UpdateRef(fmt.Sprintf("refs/%s/%s", def.Namespace, otherOp.Id().String()), otherHash))
			_, err = Read(def, wrapper, repo, resolvers, otherOp.Id())
			require.NoError(t, err, "the other entity is valid and accepted")

			// 3) the user edits the first entity again, with the API only
			e, err = Read(def, wrapper, repo, resolvers, e.Id())
			require.NoError(t, err)
			first := e.Operations()[0]
			added := newOp2(id1, "an ordinary later edition")
			e.Append(added)
			require.NoError(t, e.Commit(repo), "Commit() reports a success")

			// 4) what git-bug just wrote has to be readable, in causal order
			read, err := Read(def, wrapper, repo, resolvers, e.Id())
			require.NoError(t, err, "the history written by Entity.Commit() is refused by Read()")
			require.Len(t, read.Operations(), 2)
			require.Equal(t, first.Id(), read.Operations()[0].Id())
			require.Equal(t, added.Id(), read.Operations()[1].Id())
		})
	}
}
