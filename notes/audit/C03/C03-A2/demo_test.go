// Place this file in: entities/bug/   (package bug_test: public API only, real git repositories)
// Run with:
//   export GOFLAGS=-mod=mod GOPROXY=off GOSUMDB=off GOTOOLCHAIN=local DBUS_SESSION_BUS_ADDRESS=unix:path=/nonexistent
//   go test -count=1 -run 'TestC03A2Public' ./entities/bug/
//
// Same violation as entity/dag/demo_test.go of C03-A2, end to end with the public API and two
// replicas exchanging through a bare remote: replica B is a busy tracker (its "bugs-edit" clock is
// at 5,000,000, which is simulated with one Witness() call instead of 5,000,000 commits), A pulls
// one bug of B, then comments on one of its own old bugs: this bug can't be read any more.
package bug_test

import (
	"testing"
	"time"

	"github.com/stretchr/testify/require"

	"github.com/MichaelMure/git-bug/entities/bug"
	"github.com/MichaelMure/git-bug/entities/identity"
	"github.com/MichaelMure/git-bug/entity"
	"github.com/MichaelMure/git-bug/repository"
)

func TestC03A2Public_OldBugUnreadableAfterPullFromBusyReplica(t *testing.T) {
	repoA := repository.CreateGoGitTestRepo(t, false)
	repoB := repository.CreateGoGitTestRepo(t, false)
	remote := repository.CreateGoGitTestRepo(t, true)
	require.NoError(t, repoA.AddRemote("origin", remote.GetLocalRemote()))
	require.NoError(t, repoB.AddRemote("origin", remote.GetLocalRemote()))

	now := time.Now().Unix()

	// replica A: one user, one old bug
	alice, err := identity.NewIdentity(repoA, "alice", "alice@example.org")
	require.NoError(t, err)
	require.NoError(t, alice.Commit(repoA))
	old, _, err := bug.Create(alice, now, "old bug of A", "message", nil, nil)
	require.NoError(t, err)
	require.NoError(t, old.Commit(repoA))

	// replica B: a busy tracker, 5,000,000 packs have been written in the "bugs" namespace
	bob, err := identity.NewIdentity(repoB, "bob", "bob@example.org")
	require.NoError(t, err)
	require.NoError(t, bob.Commit(repoB))
	require.NoError(t, repoB.Witness("bugs-edit", 5_000_000))
	bBug, _, err := bug.Create(bob, now, "bug of B", "message", nil, nil)
	require.NoError(t, err)
	require.NoError(t, bBug.Commit(repoB))
	_, err = identity.Push(repoB, "origin")
	require.NoError(t, err)
	_, err = bug.Push(repoB, "origin")
	require.NoError(t, err)

	// A pulls
	require.NoError(t, identity.Pull(repoA, "origin"))
	resolversA := entity.Resolvers{&identity.Identity{}: identity.NewSimpleResolver(repoA)}
	require.NoError(t, bug.Pull(repoA, resolversA, "origin", alice))
	_, err = bug.Read(repoA, bBug.Id())
	require.NoError(t, err)

	// A comments on its old bug
	old, err = bug.Read(repoA, old.Id())
	require.NoError(t, err)
	_, _, err = bug.AddComment(old, alice, now, "a new comment", nil, nil)
	require.NoError(t, err)
	require.NoError(t, old.Commit(repoA), "Commit() reports a success")

	// ... and it has to be still there
	read, err := bug.Read(repoA, old.Id())
	require.NoError(t, err, "the bug written by Commit() is refused by Read()")
	require.Len(t, read.Operations(), 2)
}
