// Place this file in api/graphql/ (package graphql) and run:
//   go test -count=1 -run TestC17A1 ./api/graphql/
//
// C17: a mutation that is refused (error returned to the client) must leave the
// repository and the cache unchanged, and, with a user attached, a valid mutation
// records exactly the requested change.
//
// Here addCommentAndClose is sent with a user and a well-formed file hash whose
// blob is not stored in the repository. The commit is refused, but the operations
// stay staged in the cached bug and the excerpt built from them is written to the
// cache file: queries now answer with the refused change (even after a restart of
// the server), and every later valid mutation on that bug is refused.
package graphql

import (
	"bytes"
	"encoding/json"
	"net/http"
	"net/http/httptest"
	"strings"
	"testing"

	"github.com/stretchr/testify/require"

	"github.com/MichaelMure/git-bug/api/auth"
	"github.com/MichaelMure/git-bug/cache"
	"github.com/MichaelMure/git-bug/entity"
	"github.com/MichaelMure/git-bug/repository"
)

func c17a1Do(h http.Handler, user entity.Id, query string, vars map[string]interface{}) (string, bool) {
	body, _ := json.Marshal(map[string]interface{}{"query": query, "variables": vars})
	req := httptest.NewRequest("POST", "/graphql", bytes.NewReader(body))
	req.Header.Set("Content-Type", "application/json")
	if user != "" {
		h = auth.Middleware(user)(h)
	}
	w := httptest.NewRecorder()
	h.ServeHTTP(w, req)
	var resp struct {
		Errors []json.RawMessage `json:"errors"`
	}
	_ = json.Unmarshal(w.Body.Bytes(), &resp)
	return w.Body.String(), len(resp.Errors) > 0
}

func TestC17A1RefusedMutationStaysStaged(t *testing.T) {
	repo := repository.CreateGoGitTestRepo(t, false)

	open := func() (Handler, *cache.RepoCache) {
		mrc := cache.NewMultiRepoCache()
		rc, events := mrc.RegisterDefaultRepository(repo)
		for event := range events {
			require.NoError(t, event.Err)
		}
		return NewHandler(mrc, nil), rc
	}

	h, rc := open()
	author, err := rc.Identities().New("test identity", "test@test.org")
	require.NoError(t, err)
	require.NoError(t, rc.SetUserIdentity(author))
	b, _, err := rc.Bugs().New("initial title", "initial message")
	require.NoError(t, err)

	const q = `query { repository { allBugs { nodes { status title comments { totalCount nodes { message files } } operations { totalCount } } } } }`

	before, failed := c17a1Do(h, "", q, nil)
	require.False(t, failed, before)
	refBefore, err := repo.ResolveRef("refs/bugs/" + b.Id().String())
	require.NoError(t, err)

	// a well-formed hash, but no such blob in the repository
	missing := strings.Repeat("ab", 20)
	out, failed := c17a1Do(h, author.Id(),
		`mutation($in: AddCommentAndCloseBugInput!) { addCommentAndClose(input: $in) { bug { id } } }`,
		map[string]interface{}{"in": map[string]interface{}{
			"prefix": b.Id().String(), "message": "see the file", "files": []string{missing}}})
	require.True(t, failed, "the mutation is expected to be refused: %s", out)

	// git is unchanged ...
	refAfter, err := repo.ResolveRef("refs/bugs/" + b.Id().String())
	require.NoError(t, err)
	require.Equal(t, refBefore, refAfter)

	// ... but the cache answers with the refused change
	after, failed := c17a1Do(h, "", q, nil)
	require.False(t, failed, after)
	if before != after {
		t.Errorf("the refused mutation changed the answers of the cache:\nbefore: %s\nafter:  %s", before, after)
	}

	// a valid mutation on the same bug is now refused as well
	out, failed = c17a1Do(h, author.Id(),
		`mutation($in: SetTitleInput!) { setTitle(input: $in) { bug { title } } }`,
		map[string]interface{}{"in": map[string]interface{}{"prefix": b.Id().String(), "title": "new title"}})
	if failed {
		t.Errorf("a valid setTitle with a user is refused after the refused mutation: %s", out)
	}

	// the excerpt of the never-committed state has been written to the cache file:
	// after a restart the bug is still listed as CLOSED
	require.NoError(t, h.Close())
	h, _ = open()
	defer h.Close()
	const q2 = `query { repository { allBugs { nodes { status } } } }`
	restarted, failed := c17a1Do(h, "", q2, nil)
	require.False(t, failed, restarted)
	if strings.Contains(restarted, "CLOSED") {
		t.Errorf("after a restart the bug is listed as CLOSED although closing it was refused: %s", restarted)
	}
}
