// Place this file in api/graphql/ (package graphql) and run (takes ~10s to build the
// repository, then up to 60s waiting for the answer that never comes):
//   go test -count=1 -timeout 300s -run TestC17A3 ./api/graphql/
//
// C17: "... while queries keep working."
//
// Read-only web UI (no user attached), repository with more bugs than the cache keeps
// loaded (1000). One GraphQL query that needs the snapshot of every bug never answers:
// gqlgen resolves the fields of the list elements in concurrent goroutines, each one
// calls lazyBug.load() -> SubCache.Resolve(id) and then BugCache.Snapshot(). The
// evictIfNeeded() call of one goroutine evicts - and locks for ever (b.Lock()) - the
// bugs that other goroutines have just been handed by Resolve() and are about to read.
// Their Snapshot() blocks on the RWMutex for ever, so does the HTTP request.
// (With a user attached, the same eviction between getBug() and the end of a mutation
// makes the mutation answer "entity missing from cache"; seen with -tags verif and
// RepoCache.VerifSetCacheSize(1) while another request queries another bug.)
package graphql

import (
	"bytes"
	"encoding/json"
	"fmt"
	"net/http/httptest"
	"testing"
	"time"

	"github.com/stretchr/testify/require"

	"github.com/MichaelMure/git-bug/cache"
	"github.com/MichaelMure/git-bug/repository"
)

func TestC17A3QueryOverMoreBugsThanTheCacheHolds(t *testing.T) {
	repo := repository.CreateGoGitTestRepo(t, false)

	open := func() (Handler, *cache.RepoCache) {
		mrc := cache.NewMultiRepoCache()
		rc, events := mrc.RegisterDefaultRepository(repo)
		for event := range events {
			require.NoError(t, event.Err)
		}
		return NewHandler(mrc, nil), rc
	}

	h, rc := open()
	author, err := rc.Identities().New("test identity", "test@test.org")
	require.NoError(t, err)
	require.NoError(t, rc.SetUserIdentity(author))
	for i := 0; i < 1200; i++ {
		_, _, err := rc.Bugs().New(fmt.Sprintf("bug %d", i), "message")
		require.NoError(t, err)
	}
	// restart: nothing is loaded
	require.NoError(t, h.Close())
	h, _ = open()

	// no auth middleware: read-only mode
	const q = `query { repository { allBugs(first: 2000) { totalCount nodes { comments { totalCount } } } } }`
	done := make(chan string, 1)
	go func() {
		body, _ := json.Marshal(map[string]interface{}{"query": q})
		req := httptest.NewRequest("POST", "/graphql", bytes.NewReader(body))
		req.Header.Set("Content-Type", "application/json")
		w := httptest.NewRecorder()
		h.ServeHTTP(w, req)
		done <- w.Body.String()
	}()

	select {
	case out := <-done:
		var resp struct {
			Errors []json.RawMessage `json:"errors"`
		}
		require.NoError(t, json.Unmarshal([]byte(out), &resp))
		require.Empty(t, resp.Errors, "the query failed")
		require.NoError(t, h.Close())
	case <-time.After(60 * time.Second):
		// h can't be closed: the request still runs
		t.Fatalf("the query never answered (60s): its goroutines wait for ever on evicted, locked bugs")
	}
}
