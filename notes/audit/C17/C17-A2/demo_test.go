// Place this file in api/graphql/ (package graphql) and run:
//   go test -count=1 -run TestC17A2 ./api/graphql/
//
// C17: "With a user attached, each mutation records exactly the requested change,
// authored by that user, and the returned bug reflects it."
//
// The HTTP server runs every request in its own goroutine. A mutation resolver
// stages its operation (BugCache.XxxRaw, under the bug lock), releases the lock and
// then calls BugCache.Commit(). When two requests target the same bug, the first
// Commit() writes the operations staged by both, and the second one fails with
// "can't commit an entity with no pending operation": the client gets an error (no
// bug returned) for a change that HAS been recorded.
package graphql

import (
	"bytes"
	"encoding/json"
	"fmt"
	"net/http/httptest"
	"strings"
	"sync"
	"testing"

	"github.com/stretchr/testify/require"

	"github.com/MichaelMure/git-bug/api/auth"
	"github.com/MichaelMure/git-bug/cache"
	"github.com/MichaelMure/git-bug/repository"
)

func TestC17A2ConcurrentMutationsOnOneBug(t *testing.T) {
	repo := repository.CreateGoGitTestRepo(t, false)
	mrc := cache.NewMultiRepoCache()
	rc, events := mrc.RegisterDefaultRepository(repo)
	for event := range events {
		require.NoError(t, event.Err)
	}
	author, err := rc.Identities().New("test identity", "test@test.org")
	require.NoError(t, err)
	require.NoError(t, rc.SetUserIdentity(author))
	b, _, err := rc.Bugs().New("initial title", "initial message")
	require.NoError(t, err)

	gql := NewHandler(mrc, nil)
	defer gql.Close()
	h := auth.Middleware(author.Id())(gql)

	do := func(query string, vars map[string]interface{}) (string, string) {
		body, _ := json.Marshal(map[string]interface{}{"query": query, "variables": vars})
		req := httptest.NewRequest("POST", "/graphql", bytes.NewReader(body))
		req.Header.Set("Content-Type", "application/json")
		w := httptest.NewRecorder()
		h.ServeHTTP(w, req)
		var resp struct {
			Errors []struct{ Message string } `json:"errors"`
		}
		_ = json.Unmarshal(w.Body.Bytes(), &resp)
		var msgs []string
		for _, e := range resp.Errors {
			msgs = append(msgs, e.Message)
		}
		return w.Body.String(), strings.Join(msgs, "; ")
	}

	const n = 16
	errs := make([]string, n)
	var wg sync.WaitGroup
	for i := 0; i < n; i++ {
		wg.Add(1)
		go func(i int) {
			defer wg.Done()
			_, errs[i] = do(`mutation($in: AddCommentInput!) { addComment(input: $in) { bug { id } operation { id } } }`,
				map[string]interface{}{"in": map[string]interface{}{
					"prefix": b.Id().String(), "message": fmt.Sprintf("comment %d", i)}})
		}(i)
	}
	wg.Wait()

	state, errStr := do(`query { repository { allBugs { nodes { comments { nodes { message } } } } } }`, nil)
	require.Empty(t, errStr)

	for i, e := range errs {
		recorded := strings.Contains(state, fmt.Sprintf(`"comment %d"`, i))
		switch {
		case e != "" && recorded:
			t.Errorf("mutation %d answered with an error (%s) but its comment is recorded", i, e)
		case e != "":
			t.Errorf("valid mutation %d with a user refused: %s", i, e)
		case !recorded:
			t.Errorf("mutation %d succeeded but its comment is not recorded", i)
		}
	}
}
