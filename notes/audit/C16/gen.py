import re, os
root='/tmp/audit-C16'
sim=open(root+'/bridge/c16_sim_test.go').read()
demo=open(root+'/bridge/c16_demo_test.go').read()
# split sim into import block and body
m=re.search(r'import \((.*?)\n\)\n', sim, re.S)
sim_imports=m.group(1)
sim_body=sim[m.end():]
# sections
parts=re.split(r'// ---- (A\d)\n', demo)
# parts[0] = header, then pairs
secs={}
for i in range(1,len(parts),2):
    secs[parts[i]]=parts[i+1].rstrip()+'\n'
names={}
for k,v in secs.items():
    names[k]=re.search(r'func (TestC16_\w+)\(t \*testing.T\)', v).group(1)
for k,v in secs.items():
    extra=''
    if k=='A4':
        extra='\t"os"\n\t"os/exec"\n'
    imports=sim_imports
    imports=imports.replace('\t"net/http"\n', '\t"net/http"\n') 
    # insert extra std imports before net/http keeping gofmt order roughly
    if extra:
        imports=imports.replace('\t"sort"\n', extra+'\t"sort"\n')
    hdr=f'''// Property C16 - audit demo {k}.
//
// Place this file in the package directory   bridge/   of the git-bug tree (as bridge/demo_test.go)
// and run, from the root of the tree:
//
//	go test -count=1 -run '^{names[k]}$' -v ./bridge/
//
// The test drives the public API (bridge.LoadBridge + Bridge.ImportAll, as "git bug bridge pull" does)
// against a simulated GitLab API served on localhost (no network access needed).
// It FAILS on the unchanged tree.
'''
    out=hdr+'package bridge_test\n\nimport ('+imports+'\n)\n\n// ---------------------------------------------------------------- the test\n\n'+v+'\n// ---------------------------------------------------------------- simulated GitLab API and helpers\n'+sim_body
    d=f'{root}/_out/C16-{k}'
    os.makedirs(d, exist_ok=True)
    open(d+'/demo_test.go','w').write(out)
    print(k, names[k])
