// Property C16 - audit demo A8.
//
// Place this file in the package directory   bridge/   of the git-bug tree (as bridge/demo_test.go)
// and run, from the root of the tree:
//
//	go test -count=1 -run '^TestC16_A8_NoTotalPagesHeader$' -v ./bridge/
//
// The test drives the public API (bridge.LoadBridge + Bridge.ImportAll, as "git bug bridge pull" does)
// against a simulated GitLab API served on localhost (no network access needed).
// It FAILS on the unchanged tree.
package bridge_test

import (
	"context"
	"encoding/json"
	"fmt"
	"net/http"
	"net/http/httptest"
	"sort"
	"strconv"
	"strings"
	"sync"
	"testing"
	"time"

	"github.com/MichaelMure/git-bug/bridge"
	"github.com/MichaelMure/git-bug/bridge/core"
	"github.com/MichaelMure/git-bug/bridge/core/auth"
	"github.com/MichaelMure/git-bug/cache"
	"github.com/MichaelMure/git-bug/entities/bug"
	"github.com/MichaelMure/git-bug/repository"
)

// ---------------------------------------------------------------- the test

func TestC16_A8_NoTotalPagesHeader(t *testing.T) {
	s := newSim(t)
	s.addUser(101, "alice", "Alice A")
	// GitLab does not send X-Total and X-Total-Pages when a collection has more than 10000 items
	// (https://docs.gitlab.com/ee/api/rest/#pagination-response-headers); X-Next-Page is still sent.
	s.omitTotals = true
	for k := 1; k <= 45; k++ {
		s.issues = append(s.issues, &simIssue{ID: 9000 + k, IID: k, Title: fmt.Sprintf("issue %d", k), Desc: "d", Author: 101, Created: at(k), Updated: at(100)})
	}
	for k := 0; k < 25; k++ {
		s.issues[0].Notes = append(s.issues[0].Notes, &simNote{ID: 5000 + k, Body: fmt.Sprintf("comment %d", k), Author: 101, Created: at(50 + k), Updated: at(50 + k)})
	}
	e := newEnv(t, s)
	r := e.importRound()
	_, moved := e.cursor()
	nbBugs := len(e.cache.Bugs().AllIds())
	nbComments := len(e.bugOfIssue(1).Snapshot().Comments) - 1
	t.Logf("errors: %v, cursor moved: %v, %d bugs, %d comments on issue 1", r.errs, moved, nbBugs, nbComments)
	if moved && (nbBugs != 45 || nbComments != 25) {
		t.Fatalf("the import run reported no error and moved the cursor, but imported %d of 45 issues and %d of 25 comments of issue 1", nbBugs, nbComments)
	}
}

// ---------------------------------------------------------------- simulated GitLab API and helpers

type simUser struct {
	ID       int
	Username string
	Name     string
	Email    string
	Avatar   string
	Deleted  bool
}

type simNote struct {
	ID      int
	Body    string
	Author  int
	System  bool
	Created time.Time
	Updated time.Time
}

type simLabelEv struct {
	ID        int
	Action    string
	Label     string
	NullLabel bool // the label was deleted: "label": null
	User      int  // 0: the user was deleted: "user": null
	Created   time.Time
}

type simStateEv struct {
	ID      int
	State   string
	User    int // 0: "user": null
	Created time.Time
}

type simIssue struct {
	ID, IID int
	Title   string
	Desc    string
	Author  int
	State   string
	Created time.Time
	Updated time.Time
	Notes   []*simNote
	Labels  []*simLabelEv
	States  []*simStateEv
}

type sim struct {
	mu       sync.Mutex
	users    map[int]*simUser
	issues   []*simIssue
	requests int
	failAt   int    // index (1-based) of the request that fails, 0 = none
	failMode string // "status:<code>" or "close"
	log      []string
	// as GitLab does for the collections of more than 10000 items: no X-Total nor X-Total-Pages
	omitTotals bool
	// the next failTimes requests whose path has the suffix failSuffix fail (failMode tells how)
	failSuffix string
	failTimes  int
	onRequest  func(path string)
	srv        *httptest.Server
}

const simProject = 42

func newSim(t testing.TB) *sim {
	s := &sim{users: map[int]*simUser{}}
	s.srv = httptest.NewServer(http.HandlerFunc(s.handle))
	t.Cleanup(s.srv.Close)
	return s
}

func (s *sim) addUser(id int, username, name string) {
	s.users[id] = &simUser{ID: id, Username: username, Name: name, Email: username + "@example.com"}
}

func (s *sim) startRound(failAt int, failMode string) {
	s.mu.Lock()
	defer s.mu.Unlock()
	s.requests = 0
	s.failAt = failAt
	s.failMode = failMode
	s.log = nil
}

func (s *sim) requestCount() int {
	s.mu.Lock()
	defer s.mu.Unlock()
	return s.requests
}

func userJSON(u *simUser) map[string]interface{} {
	if u == nil {
		return nil
	}
	return map[string]interface{}{
		"id": u.ID, "username": u.Username, "name": u.Name, "state": "active",
		"avatar_url": u.Avatar, "web_url": "http://gitlab.invalid/" + u.Username,
		"public_email": u.Email,
	}
}

func (s *sim) paginate(w http.ResponseWriter, r *http.Request, n int) (int, int) {
	perPage := 20
	if v := r.URL.Query().Get("per_page"); v != "" {
		perPage, _ = strconv.Atoi(v)
	}
	page := 1
	if v := r.URL.Query().Get("page"); v != "" {
		page, _ = strconv.Atoi(v)
		if page < 1 {
			page = 1
		}
	}
	total := (n + perPage - 1) / perPage
	w.Header().Set("X-Page", strconv.Itoa(page))
	w.Header().Set("X-Per-Page", strconv.Itoa(perPage))
	if !s.omitTotals {
		w.Header().Set("X-Total", strconv.Itoa(n))
		w.Header().Set("X-Total-Pages", strconv.Itoa(total))
	}
	if page < total {
		w.Header().Set("X-Next-Page", strconv.Itoa(page+1))
	}
	from := (page - 1) * perPage
	if from > n {
		from = n
	}
	to := from + perPage
	if to > n {
		to = n
	}
	return from, to
}

func (s *sim) handle(w http.ResponseWriter, r *http.Request) {
	s.mu.Lock()
	defer s.mu.Unlock()

	s.requests++
	if s.onRequest != nil {
		s.onRequest(r.URL.Path)
	}
	s.log = append(s.log, fmt.Sprintf("%d %s?%s", s.requests, r.URL.Path, r.URL.RawQuery))
	fail := s.failAt != 0 && s.requests == s.failAt
	if s.failSuffix != "" && s.failTimes > 0 && strings.HasSuffix(r.URL.Path, s.failSuffix) {
		s.failTimes--
		fail = true
	}
	if fail {
		if s.failMode == "close" {
			hj := w.(http.Hijacker)
			conn, _, _ := hj.Hijack()
			_ = conn.Close()
			return
		}
		code, _ := strconv.Atoi(strings.TrimPrefix(s.failMode, "status:"))
		w.Header().Set("Content-Type", "application/json")
		w.WriteHeader(code)
		_, _ = w.Write([]byte(`{"message":"injected failure"}`))
		return
	}

	w.Header().Set("Content-Type", "application/json")
	path := strings.TrimPrefix(r.URL.Path, "/api/v4")
	parts := strings.Split(strings.Trim(path, "/"), "/")

	writeJSON := func(v interface{}) {
		data, err := json.Marshal(v)
		if err != nil {
			panic(err)
		}
		_, _ = w.Write(data)
	}
	notFound := func() {
		w.WriteHeader(404)
		_, _ = w.Write([]byte(`{"message":"404 Not Found"}`))
	}

	switch {
	case len(parts) == 2 && parts[0] == "users":
		id, _ := strconv.Atoi(parts[1])
		u, ok := s.users[id]
		if !ok || u.Deleted {
			notFound()
			return
		}
		writeJSON(userJSON(u))

	case len(parts) == 3 && parts[0] == "projects" && parts[2] == "issues":
		var since time.Time
		if v := r.URL.Query().Get("updated_after"); v != "" {
			since, _ = time.Parse(time.RFC3339Nano, v)
		}
		var list []*simIssue
		for _, is := range s.issues {
			if is.Updated.After(since) {
				list = append(list, is)
			}
		}
		sort.SliceStable(list, func(i, j int) bool { return list[i].Created.Before(list[j].Created) })
		from, to := s.paginate(w, r, len(list))
		out := []interface{}{}
		for _, is := range list[from:to] {
			state := is.State
			if state == "" {
				state = "opened"
			}
			out = append(out, map[string]interface{}{
				"id": is.ID, "iid": is.IID, "project_id": simProject, "title": is.Title,
				"description": is.Desc, "state": state,
				"created_at": is.Created.UTC().Format(time.RFC3339Nano),
				"updated_at": is.Updated.UTC().Format(time.RFC3339Nano),
				"author":     userJSON(s.users[is.Author]),
				"web_url":    fmt.Sprintf("%s/group/proj/-/issues/%d", s.srv.URL, is.IID),
				"labels":     []string{},
			})
		}
		writeJSON(out)

	case len(parts) == 5 && parts[0] == "projects" && parts[2] == "issues":
		iid, _ := strconv.Atoi(parts[3])
		var issue *simIssue
		for _, is := range s.issues {
			if is.IID == iid {
				issue = is
			}
		}
		if issue == nil {
			notFound()
			return
		}
		switch parts[4] {
		case "notes":
			from, to := s.paginate(w, r, len(issue.Notes))
			out := []interface{}{}
			for _, n := range issue.Notes[from:to] {
				out = append(out, map[string]interface{}{
					"id": n.ID, "body": n.Body, "system": n.System,
					"author":        userJSON(s.users[n.Author]),
					"created_at":    n.Created.UTC().Format(time.RFC3339Nano),
					"updated_at":    n.Updated.UTC().Format(time.RFC3339Nano),
					"noteable_id":   issue.ID,
					"noteable_iid":  issue.IID,
					"noteable_type": "Issue",
					"project_id":    simProject,
				})
			}
			writeJSON(out)
		case "resource_label_events":
			from, to := s.paginate(w, r, len(issue.Labels))
			out := []interface{}{}
			for _, e := range issue.Labels[from:to] {
				m := map[string]interface{}{
					"id": e.ID, "action": e.Action,
					"created_at":    e.Created.UTC().Format(time.RFC3339Nano),
					"resource_type": "Issue", "resource_id": issue.ID,
					"user": userJSON(s.users[e.User]),
				}
				if e.NullLabel {
					m["label"] = nil
				} else {
					m["label"] = map[string]interface{}{"id": 1000 + e.ID, "name": e.Label, "color": "#ff0000"}
				}
				out = append(out, m)
			}
			writeJSON(out)
		case "resource_state_events":
			from, to := s.paginate(w, r, len(issue.States))
			out := []interface{}{}
			for _, e := range issue.States[from:to] {
				out = append(out, map[string]interface{}{
					"id": e.ID, "state": e.State,
					"created_at":    e.Created.UTC().Format(time.RFC3339Nano),
					"resource_type": "Issue", "resource_id": issue.ID,
					"user": userJSON(s.users[e.User]),
				})
			}
			writeJSON(out)
		default:
			notFound()
		}
	default:
		notFound()
	}
}

// ---- git-bug side

type env struct {
	t     testing.TB
	repo  repository.TestedRepo
	cache *cache.RepoCache
	sim   *sim
}

const bridgeName = "sim"

func newEnv(t testing.TB, s *sim) *env {
	return newEnvRepo(t, s, repository.CreateGoGitTestRepo(t, false))
}

// reopen closes the cache and opens it again, as between two commands
func (e *env) reopen() {
	if err := e.cache.Close(); err != nil {
		e.t.Fatal(err)
	}
	c, err := cache.NewRepoCacheNoEvents(e.repo)
	if err != nil {
		e.t.Fatal(err)
	}
	e.cache = c
	e.t.Cleanup(func() { _ = c.Close() })
}

func newEnvRepo(t testing.TB, s *sim, repo repository.TestedRepo) *env {
	c, err := cache.NewRepoCacheNoEvents(repo)
	if err != nil {
		t.Fatal(err)
	}
	t.Cleanup(func() { _ = c.Close() })

	baseURL := s.srv.URL + "/"
	login := "importer"
	token := auth.NewToken("gitlab", "secret-token")
	token.SetMetadata(auth.MetaKeyLogin, login)
	token.SetMetadata(auth.MetaKeyBaseURL, baseURL)
	if err := auth.Store(repo, token); err != nil {
		t.Fatal(err)
	}
	for k, v := range map[string]string{
		"target":        "gitlab",
		"base-url":      baseURL,
		"project-id":    strconv.Itoa(simProject),
		"default-login": login,
	} {
		if err := repo.LocalConfig().StoreString("git-bug.bridge."+bridgeName+"."+k, v); err != nil {
			t.Fatal(err)
		}
	}
	return &env{t: t, repo: repo, cache: c, sim: s}
}

type roundResult struct {
	events []core.ImportResult
	errs   []error
}

func (r roundResult) String() string {
	var sb strings.Builder
	for _, e := range r.events {
		sb.WriteString("   " + e.String() + "\n")
	}
	return sb.String()
}

func (r roundResult) count(ev core.ImportEvent) int {
	n := 0
	for _, e := range r.events {
		if e.Event == ev {
			n++
		}
	}
	return n
}

// creations counts the events telling that something was created
func (r roundResult) creations() int {
	n := 0
	for _, e := range r.events {
		switch e.Event {
		case core.ImportEventNothing, core.ImportEventError, core.ImportEventWarning, core.ImportEventRateLimiting:
		default:
			n++
		}
	}
	return n
}

// importRound runs "git bug bridge pull": a new Bridge is loaded each time, as the command does.
func (e *env) importRound() roundResult {
	ctx, cancel := context.WithTimeout(context.Background(), 120*time.Second)
	defer cancel()
	return e.importRoundCtx(ctx)
}

func (e *env) importRoundCtx(ctx context.Context) roundResult {
	b, err := bridge.LoadBridge(e.cache, bridgeName)
	if err != nil {
		e.t.Fatal(err)
	}
	events, err := b.ImportAll(ctx)
	if err != nil {
		e.t.Fatal(err)
	}
	var res roundResult
	for ev := range events {
		res.events = append(res.events, ev)
		if ev.Event == core.ImportEventError {
			res.errs = append(res.errs, ev.Err)
		}
	}
	return res
}

func (e *env) cursor() (time.Time, bool) {
	ts, err := e.repo.LocalConfig().ReadTimestamp("git-bug.bridge." + bridgeName + ".lastImportTime")
	if err != nil {
		return time.Time{}, false
	}
	return ts, true
}

// dump gives a canonical description of all the bugs: for each bug (by gitlab iid) its list of operations.
func (e *env) dump() string {
	var lines []string
	for _, id := range e.cache.Bugs().AllIds() {
		b, err := e.cache.Bugs().Resolve(id)
		if err != nil {
			e.t.Fatal(err)
		}
		snap := b.Snapshot()
		var sb strings.Builder
		for _, op := range snap.Operations {
			authorGl := op.Author().Login()
			glid, _ := op.GetMetadata("gitlab-id")
			desc := ""
			switch op := op.(type) {
			case *bug.CreateOperation:
				desc = fmt.Sprintf("create title=%q msg=%q", op.Title, op.Message)
			case *bug.AddCommentOperation:
				desc = fmt.Sprintf("comment msg=%q", op.Message)
			case *bug.EditCommentOperation:
				target := "comment"
				if op.Target == snap.Operations[0].Id() {
					target = "description"
				}
				desc = fmt.Sprintf("edit %s msg=%q", target, op.Message)
			case *bug.SetTitleOperation:
				desc = fmt.Sprintf("title %q (was %q)", op.Title, op.Was)
			case *bug.SetStatusOperation:
				desc = fmt.Sprintf("status %s", op.Status)
			case *bug.LabelChangeOperation:
				desc = fmt.Sprintf("labels +%v -%v", op.Added, op.Removed)
			default:
				desc = fmt.Sprintf("%T", op)
			}
			fmt.Fprintf(&sb, "    [gitlab-id=%s by user %s t=%d] %s\n", glid, authorGl, op.Time().Unix(), desc)
		}
		var labels []string
		for _, l := range snap.Labels {
			labels = append(labels, string(l))
		}
		sort.Strings(labels)
		var comments []string
		for _, c := range snap.Comments {
			comments = append(comments, c.Message)
		}
		iid := snap.Operations[0].AllMetadata()["gitlab-id"]
		lines = append(lines, fmt.Sprintf("issue %s: title=%q status=%s labels=%v comments=%q\n%s",
			iid, snap.Title, snap.Status, labels, comments, sb.String()))
	}
	sort.Strings(lines)
	return strings.Join(lines, "")
}

func (e *env) nbIdentities() int { return len(e.cache.Identities().AllIds()) }

func (e *env) nbOps() int {
	n := 0
	for _, id := range e.cache.Bugs().AllIds() {
		b, err := e.cache.Bugs().Resolve(id)
		if err != nil {
			e.t.Fatal(err)
		}
		n += len(b.Snapshot().Operations)
	}
	return n
}

var t0 = time.Date(2024, 3, 1, 10, 0, 0, 0, time.UTC)

func at(min int) time.Time { return t0.Add(time.Duration(min) * time.Minute) }

func (e *env) bugOfIssueOrNil(iid int) *cache.BugCache {
	for _, id := range e.cache.Bugs().AllIds() {
		b, err := e.cache.Bugs().Resolve(id)
		if err != nil {
			e.t.Fatal(err)
		}
		if b.Snapshot().Operations[0].AllMetadata()["gitlab-id"] == strconv.Itoa(iid) {
			return b
		}
	}
	return nil
}

func (e *env) bugOfIssue(iid int) *cache.BugCache {
	b := e.bugOfIssueOrNil(iid)
	if b == nil {
		e.t.Fatalf("issue %d was not imported", iid)
	}
	return b
}

// state describes what the bugs are, whatever the order of their operations
func (e *env) state() string {
	var lines []string
	for _, id := range e.cache.Bugs().AllIds() {
		b, err := e.cache.Bugs().Resolve(id)
		if err != nil {
			e.t.Fatal(err)
		}
		snap := b.Snapshot()
		var labels []string
		for _, l := range snap.Labels {
			labels = append(labels, string(l))
		}
		sort.Strings(labels)
		var comments []string
		for _, c := range snap.Comments {
			comments = append(comments, c.Message)
		}
		iid := snap.Operations[0].AllMetadata()["gitlab-id"]
		lines = append(lines, fmt.Sprintf("issue %s: title=%q status=%s labels=%v comments=%q", iid, snap.Title, snap.Status, labels, comments))
	}
	sort.Strings(lines)
	return strings.Join(lines, "; ")
}
