// Place this file in the package directory cache/ (it is an external test package, cache_test)
// and run:
//
//	go test -count=1 -run 'TestC14A3' ./cache/
//
// Property C14: removing an entity deletes its local ref, its remote-tracking refs for every
// configured remote, its cache entry and its index document; the removal is repeatable.
//
// dag.Remove (and identity.Remove) delete the local reference FIRST and the remote-tracking
// references afterwards, and SubCache.Remove needs to READ the entity (ResolvePrefix -> Resolve)
// before it removes anything. When the removal stops after the first reference (I/O error on a
// later reference, or the process is killed at that point - each "git bug rm" is a process of its
// own), the entity is half removed, and repeating the removal can never complete it: the excerpt is
// still in the cache file, so the bug is still listed and found by queries, "rm" fails because the
// entity cannot be read anymore, the remote-tracking references stay, and the next merge (without
// any fetch) brings the whole bug back.
//
// The interruption is simulated with a repository wrapper whose RemoveRef fails once on a
// remote-tracking reference; the cache is then closed and reopened, as a new command would do.
package cache_test

import (
	"errors"
	"strings"
	"sync/atomic"
	"testing"

	"github.com/stretchr/testify/assert"
	"github.com/stretchr/testify/require"

	"github.com/MichaelMure/git-bug/cache"
	"github.com/MichaelMure/git-bug/query"
	"github.com/MichaelMure/git-bug/repository"
)

type flakyRepo struct {
	repository.TestedRepo
	failNext atomic.Bool
}

func (r *flakyRepo) RemoveRef(ref string) error {
	if strings.HasPrefix(ref, "refs/remotes/") && r.failNext.CompareAndSwap(true, false) {
		return errors.New("simulated I/O error (or crash) while removing " + ref)
	}
	return r.TestedRepo.RemoveRef(ref)
}

func TestC14A3InterruptedRemovalCanBeRepeated(t *testing.T) {
	repo := &flakyRepo{TestedRepo: repository.CreateGoGitTestRepo(t, false)}
	for _, name := range []string{"origin", "backup"} {
		remote := repository.CreateGoGitTestRepo(t, true)
		require.NoError(t, repo.AddRemote(name, remote.GetLocalRemote()))
	}

	c, err := cache.NewRepoCacheNoEvents(repo)
	require.NoError(t, err)

	rene, err := c.Identities().New("René Descartes", "rene@descartes.fr")
	require.NoError(t, err)
	require.NoError(t, c.SetUserIdentity(rene))
	_, _, err = c.Bugs().New("keep", "zorglub")
	require.NoError(t, err)
	b, _, err := c.Bugs().New("remove", "zorglub")
	require.NoError(t, err)
	id := b.Id()
	for _, name := range []string{"origin", "backup"} {
		_, err = c.Push(name)
		require.NoError(t, err)
	}

	// first attempt: interrupted
	repo.failNext.Store(true)
	err = c.Bugs().Remove(id.String())
	require.Error(t, err)
	require.NoError(t, c.Close())

	// next command: the failure is gone, the removal is repeated
	c, err = cache.NewRepoCacheNoEvents(repo)
	require.NoError(t, err)
	defer c.Close()

	err = c.Bugs().Remove(id.String())
	assert.NoError(t, err, "the interrupted removal cannot be completed")

	// whatever the second call answered, the removal has been asked twice: it is either complete ...
	refs, err := repo.ListRefs("refs/")
	require.NoError(t, err)
	var left []string
	for _, ref := range refs {
		if strings.HasSuffix(ref, id.String()) {
			left = append(left, ref)
		}
	}
	assert.Empty(t, left, "references of the removed bug")

	assert.Len(t, c.Bugs().AllIds(), 1, "the removed bug is still listed")
	q, err := query.Parse("zorglub")
	require.NoError(t, err)
	found, err := c.Bugs().Query(q)
	require.NoError(t, err)
	assert.Len(t, found, 1, "the removed bug is still found by a search")

	// ... and stays so after a merge without fetch
	for _, name := range []string{"origin", "backup"} {
		for res := range c.MergeAll(name) {
			require.NoError(t, res.Err)
		}
	}
	_, err = c.Bugs().Resolve(id)
	assert.Error(t, err, "the removed bug is back after a merge without fetch")
}
