// Place this file in the package directory commands/ (package commands, it calls the unexported
// runWipe) and run:
//
//	go test -count=1 -run 'TestC14A5' ./commands/
//
// Property C14: wiping a repository leaves no git-bug ref, git-bug configuration or local git-bug
// storage behind.
//
// dag.RemoveAll turns every reference of refs/bugs/ into an id and hands it to dag.Remove, which
// (rightly) refuses ids that are not valid. A single reference of the namespace whose last element
// is not a 64 characters id - here a copy of a bug reference kept by the user under
// refs/bugs/backup (git update-ref refs/bugs/backup refs/bugs/<id>), it could also be a 40
// characters id of the old format - makes RemoveAll, hence "git bug wipe", fail: the wipe stops
// half-way (the identities, removed concurrently, are gone) and leaves bug references, the git-bug
// configuration (pointing to an identity that does not exist anymore) and .git/git-bug behind.
// Running wipe again fails the same way.
package commands

import (
	"os"
	"path/filepath"
	"testing"

	"github.com/stretchr/testify/assert"
	"github.com/stretchr/testify/require"

	"github.com/MichaelMure/git-bug/cache"
	"github.com/MichaelMure/git-bug/commands/execenv"
	"github.com/MichaelMure/git-bug/repository"
)

func TestC14A5WipeWithForeignRefInNamespace(t *testing.T) {
	env := execenv.NewTestEnv(t)

	rene, err := env.Backend.Identities().New("René Descartes", "rene@descartes.fr")
	require.NoError(t, err)
	require.NoError(t, env.Backend.SetUserIdentity(rene))
	b, _, err := env.Backend.Bugs().New("title", "message")
	require.NoError(t, err)

	// the user keeps a copy of the bug reference
	require.NoError(t, env.Repo.CopyRef("refs/bugs/"+b.Id().String(), "refs/bugs/backup"))

	err = runWipe(env)
	assert.NoError(t, err, "git bug wipe")
	if err != nil {
		// the user tries again
		env = &execenv.Env{Repo: env.Repo, In: env.In, Out: env.Out, Err: env.Err}
		env.Backend, err = cache.NewRepoCacheNoEvents(env.Repo)
		require.NoError(t, err)
		assert.NoError(t, runWipe(env), "git bug wipe, second run")
	}

	for _, prefix := range []string{"refs/bugs/", "refs/identities/"} {
		refs, err := env.Repo.ListRefs(prefix)
		require.NoError(t, err)
		assert.Empty(t, refs, "git-bug references left by the wipe")
	}

	config, err := env.Repo.LocalConfig().ReadAll("git-bug")
	require.NoError(t, err)
	assert.Empty(t, config, "git-bug configuration left by the wipe")

	gitDir := env.Repo.(repository.TestedRepo).GetLocalRemote()
	_, err = os.Stat(filepath.Join(gitDir, "git-bug"))
	assert.True(t, os.IsNotExist(err), "local storage .git/git-bug left by the wipe")
}
