// Place this file in the package directory cache/ (it is an external test package, cache_test)
// and run:
//
//	go test -count=1 -run 'TestC14A1' ./cache/
//
// Property C14: removing entities (here: all of them, what "git bug wipe" does through
// RepoCache.RemoveAll) touches nothing else.
//
// git-bug keeps the remote-tracking references of its entities in
// refs/remotes/<remote>/bugs/<id> and refs/remotes/<remote>/identities/<id>. This is also where
// git itself stores the remote-tracking branch of a branch named "bugs/<something>" or
// "identities/<something>" ("git fetch origin" with the default refspec
// +refs/heads/*:refs/remotes/origin/*). RemoveAll deletes every reference below these two prefixes,
// whatever its name is: the remote-tracking branches of the user are deleted as well.
package cache_test

import (
	"testing"

	"github.com/stretchr/testify/require"

	"github.com/MichaelMure/git-bug/cache"
	"github.com/MichaelMure/git-bug/repository"
)

func TestC14A1RemoveAllKeepsRemoteTrackingBranches(t *testing.T) {
	repo := repository.CreateGoGitTestRepo(t, false)
	remote := repository.CreateGoGitTestRepo(t, true)
	require.NoError(t, repo.AddRemote("origin", remote.GetLocalRemote()))

	// an ordinary commit of the project
	blob, err := repo.StoreData([]byte("package main\n"))
	require.NoError(t, err)
	tree, err := repo.StoreTree([]repository.TreeEntry{{ObjectType: repository.Blob, Hash: blob, Name: "main.go"}})
	require.NoError(t, err)
	commit, err := repo.StoreCommit(tree)
	require.NoError(t, err)

	// The remote has two ordinary git branches, "bugs/fix-crash" and "identities/ldap-login".
	// This is the state left by "git fetch origin": their remote-tracking branches.
	userRefs := []string{
		"refs/remotes/origin/master",
		"refs/remotes/origin/bugs/fix-crash",
		"refs/remotes/origin/identities/ldap-login",
	}
	for _, ref := range userRefs {
		require.NoError(t, repo.UpdateRef(ref, commit))
	}

	c, err := cache.NewRepoCacheNoEvents(repo)
	require.NoError(t, err)
	defer c.Close()

	rene, err := c.Identities().New("René Descartes", "rene@descartes.fr")
	require.NoError(t, err)
	require.NoError(t, c.SetUserIdentity(rene))
	b, _, err := c.Bugs().New("title", "message")
	require.NoError(t, err)
	_, err = c.Push("origin")
	require.NoError(t, err)

	// sanity: git-bug has its own remote-tracking references next to the ones of the user
	ok, err := repo.RefExist("refs/remotes/origin/bugs/" + b.Id().String())
	require.NoError(t, err)
	require.True(t, ok)

	// what "git bug wipe" does
	require.NoError(t, c.RemoveAll())

	// everything of git-bug is gone ...
	for _, prefix := range []string{"refs/bugs/", "refs/identities/"} {
		refs, err := repo.ListRefs(prefix)
		require.NoError(t, err)
		require.Empty(t, refs)
	}
	for _, ref := range []string{
		"refs/remotes/origin/bugs/" + b.Id().String(),
		"refs/remotes/origin/identities/" + rene.Id().String(),
	} {
		ok, err := repo.RefExist(ref)
		require.NoError(t, err)
		require.False(t, ok, ref)
	}

	// ... and nothing else is touched
	for _, ref := range userRefs {
		ok, err := repo.RefExist(ref)
		require.NoError(t, err)
		require.True(t, ok, "removing all git-bug entities deleted the remote-tracking branch %s", ref)
	}
}
