// Place this file in the package directory cache/ (it is an external test package, cache_test)
// and run:
//
//	go test -count=1 -run 'TestC14A2' ./cache/
//
// Property C14: after a removal the entity cannot be found anymore, and it stays gone across a
// cache rebuild and a reopen.
//
// SubCache.Remove forgets the cached entity but leaves the handle (*BugCache, *IdentityCache) that
// was handed out earlier fully usable (an evicted entity, on the contrary, is locked "as a form of
// assurance that evicted entities don't get manipulated"). A holder of such a handle - another
// goroutine of a long-lived process that resolved the bug before the removal - that commits
// afterwards writes refs/bugs/<id> again with the complete history: Commit() does write the
// reference, and only then fails with "entity missing from cache". The live cache says the bug is
// gone, git says it exists, and the bug is back after the next cache rebuild.
package cache_test

import (
	"testing"

	"github.com/stretchr/testify/assert"
	"github.com/stretchr/testify/require"

	"github.com/MichaelMure/git-bug/cache"
	"github.com/MichaelMure/git-bug/entities/identity"
	"github.com/MichaelMure/git-bug/repository"
)

func TestC14A2RemovedBugStaysGone(t *testing.T) {
	repo := repository.CreateGoGitTestRepo(t, false)

	c, err := cache.NewRepoCacheNoEvents(repo)
	require.NoError(t, err)

	rene, err := c.Identities().New("René Descartes", "rene@descartes.fr")
	require.NoError(t, err)
	require.NoError(t, c.SetUserIdentity(rene))

	_, _, err = c.Bugs().New("other", "message")
	require.NoError(t, err)
	b, _, err := c.Bugs().New("title", "message")
	require.NoError(t, err)
	id := b.Id()

	// goroutine 1 resolved the bug and prepares an edition (not committed yet)
	handle, err := c.Bugs().Resolve(id)
	require.NoError(t, err)

	// goroutine 2 removes the bug
	require.NoError(t, c.Bugs().Remove(id.String()))
	_, err = c.Bugs().ResolveExcerpt(id)
	require.Error(t, err)

	// goroutine 1 goes on with the handle it holds: the errors are reported ...
	_, _, errAdd := handle.AddComment("a comment")
	errCommit := handle.Commit()
	t.Logf("AddComment: %v, Commit: %v", errAdd, errCommit)

	// ... but whatever they are, the removed bug must not come back
	exist, err := repo.RefExist("refs/bugs/" + id.String())
	require.NoError(t, err)
	assert.False(t, exist, "refs/bugs/%s exists again after the removal", id)

	// across a reopen with a cache rebuild
	require.NoError(t, c.Close())
	require.NoError(t, repo.LocalStorage().RemoveAll("cache"))
	c, err = cache.NewRepoCacheNoEvents(repo)
	require.NoError(t, err)
	defer c.Close()

	require.Len(t, c.Bugs().AllIds(), 1)
	_, err = c.Bugs().Resolve(id)
	require.Error(t, err, "the removed bug is found again")
}

func TestC14A2RemovedIdentityStaysGone(t *testing.T) {
	repo := repository.CreateGoGitTestRepo(t, false)

	c, err := cache.NewRepoCacheNoEvents(repo)
	require.NoError(t, err)
	defer c.Close()

	_, err = c.Identities().New("René Descartes", "rene@descartes.fr")
	require.NoError(t, err)
	i, err := c.Identities().New("Isaac Newton", "isaac@newton.uk")
	require.NoError(t, err)
	id := i.Id()

	handle, err := c.Identities().Resolve(id)
	require.NoError(t, err)

	require.NoError(t, c.Identities().Remove(id.String()))

	errMutate := handle.Mutate(repo, func(m *identity.Mutator) { m.Name = "Sir Isaac Newton" })
	errCommit := handle.Commit()
	t.Logf("Mutate: %v, Commit: %v", errMutate, errCommit)

	exist, err := repo.RefExist("refs/identities/" + id.String())
	require.NoError(t, err)
	require.False(t, exist, "refs/identities/%s exists again after the removal", id)
}
