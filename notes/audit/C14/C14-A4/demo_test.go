// Place this file in the package directory entities/identity/ (external test package
// identity_test) and run:
//
//	go test -count=1 -run 'TestC14A4' ./entities/identity/
//
// Property C14: removing an entity removes it and touches nothing else (quantified over
// repositories holding other entities, including ids sharing a prefix with the removed one,
// removal through the entity API).
//
// identity.Remove does not check the id it is given and uses it as a PREFIX of reference names
// (repo.ListRefs(identityRefPattern + id)): asked to remove an identity that does not exist, whose
// "id" is the beginning of the id of another identity (or the empty id), it removes that other
// identity, its remote-tracking references included. bug.Remove / dag.Remove refuse such ids
// ("invalid id").
package identity_test

import (
	"testing"

	"github.com/stretchr/testify/assert"
	"github.com/stretchr/testify/require"

	"github.com/MichaelMure/git-bug/entities/identity"
	"github.com/MichaelMure/git-bug/entity"
	"github.com/MichaelMure/git-bug/repository"
)

func TestC14A4RemoveUnknownIdentityTouchesNothing(t *testing.T) {
	repo := repository.CreateGoGitTestRepo(t, false)
	remote := repository.CreateGoGitTestRepo(t, true)
	require.NoError(t, repo.AddRemote("origin", remote.GetLocalRemote()))

	rene, err := identity.NewIdentity(repo, "René Descartes", "rene@descartes.fr")
	require.NoError(t, err)
	require.NoError(t, rene.Commit(repo))
	_, err = identity.Push(repo, "origin")
	require.NoError(t, err)

	before, err := repo.ListRefs("refs/")
	require.NoError(t, err)
	require.Len(t, before, 2) // refs/identities/<id> and refs/remotes/origin/identities/<id>

	// none of these is the id of an identity of the repository
	for _, id := range []entity.Id{
		entity.Id(rene.Id().String()[:10]), // id of another (non existing) entity sharing a prefix
		entity.Id(rene.Id().String()[:1]),
		entity.Id(""),
	} {
		err = identity.Remove(repo, id)
		assert.Error(t, err, "removing the unknown identity %q", id)

		after, err := repo.ListRefs("refs/")
		require.NoError(t, err)
		require.ElementsMatch(t, before, after, "removing the unknown identity %q removed %s", id, rene.Id())

		_, err = identity.ReadLocal(repo, rene.Id())
		require.NoError(t, err)
	}
}
