// Place this file in cache/ (package cache_test style, public API only) and run:
//   go test -count=1 -run TestAuditC10A3 ./cache/
//
// Metadata attached to an operation by a later set-metadata operation only exists once the bug has
// been compiled (it is stored on the operation by SetMetadataOperation.Apply). A long-lived
// BugCache sees it; the same bug freshly loaded from the repository does not, until somebody calls
// Snapshot(): BugCache.ResolveOperationWithMetadata (used by the bridges to recognise what they
// have already imported/exported) answers "no matching operation".
package cache_test

import (
	"testing"

	"github.com/stretchr/testify/require"

	"github.com/MichaelMure/git-bug/cache"
	"github.com/MichaelMure/git-bug/repository"
)

func TestAuditC10A3(t *testing.T) {
	repo := repository.CreateGoGitTestRepo(t, false)
	c, err := cache.NewRepoCacheNoEvents(repo)
	require.NoError(t, err)
	iden1, err := c.Identities().New("René Descartes", "rene@descartes.fr")
	require.NoError(t, err)
	require.NoError(t, c.SetUserIdentity(iden1))

	b, _, err := c.Bugs().New("title", "message")
	require.NoError(t, err)
	_, addOp, err := b.AddComment("hello")
	require.NoError(t, err)
	_, err = b.SetMetadata(addOp.Id(), map[string]string{"github-id": "42"})
	require.NoError(t, err)
	require.NoError(t, b.Commit())

	// long-lived object: the metadata is there
	id, err := b.ResolveOperationWithMetadata("github-id", "42")
	require.NoError(t, err)
	require.Equal(t, addOp.Id(), id)
	require.NoError(t, c.Close())

	// freshly loaded object of the same bug
	c, err = cache.NewRepoCacheNoEvents(repo)
	require.NoError(t, err)
	b2, err := c.Bugs().Resolve(b.Id())
	require.NoError(t, err)

	id, err = b2.ResolveOperationWithMetadata("github-id", "42")
	require.NoError(t, err, "the metadata set by the set-metadata operation is part of the bug's state")
	require.Equal(t, addOp.Id(), id)
}
