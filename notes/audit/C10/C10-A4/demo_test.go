// Place this file in entities/bug/ (package bug_test, public API only) and run:
//   go test -count=1 -run TestAuditC10A4 ./entities/bug/
//
// CommentHistoryStep.Author is documented as "the author of the edition, not necessarily the same
// as the author of the original comment", but neither the create/add-comment operations nor the
// edit-comment operation ever fill it: every step of every edit history has a nil author.
package bug_test

import (
	"testing"

	"github.com/stretchr/testify/require"

	"github.com/MichaelMure/git-bug/entities/bug"
	"github.com/MichaelMure/git-bug/entities/identity"
	"github.com/MichaelMure/git-bug/repository"
)

func TestAuditC10A4(t *testing.T) {
	repo := repository.NewMockRepo()
	rene, err := identity.NewIdentity(repo, "René Descartes", "rene@descartes.fr")
	require.NoError(t, err)
	isaac, err := identity.NewIdentity(repo, "Isaac Newton", "isaac@newton.uk")
	require.NoError(t, err)

	b, create, err := bug.Create(rene, 1700000000, "title", "body", nil, nil)
	require.NoError(t, err)
	_, _, err = bug.EditComment(b, isaac, 1700000001, create.Id(), "body edited by isaac", nil, nil)
	require.NoError(t, err)

	snap := b.Compile()
	item := snap.Timeline[0].(*bug.CreateTimelineItem)
	require.Len(t, item.History, 2)
	require.Equal(t, "body edited by isaac", item.History[1].Message)

	require.NotNil(t, item.History[0].Author, "author of the original version")
	require.NotNil(t, item.History[1].Author, "author of the edition")
	require.Equal(t, rene.Id(), item.History[0].Author.Id())
	require.Equal(t, isaac.Id(), item.History[1].Author.Id())
}
