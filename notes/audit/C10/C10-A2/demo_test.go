// Place this file in cache/ (package cache, it looks inside BugCache) and run:
//   go test -count=1 -run TestAuditC10A2 ./cache/
//
// Crash point: the Lamport clock cannot be incremented while committing (disk full, clock file not
// writable, ...). dag.Entity.Commit has already taken the operations out of the staging area and
// returns without putting them back (it does so when writing the pack fails, not when the clock
// fails). Through CachedEntityBase.CommitAsNeeded (not intercepted by withSnapshot, unlike Commit)
// the incrementally maintained snapshot is kept: it still shows the comment, while the bug it is
// supposed to mirror has lost the operation (compile from scratch: 1 comment, nothing to commit).
package cache

import (
	"fmt"
	"testing"

	"github.com/stretchr/testify/require"

	"github.com/MichaelMure/git-bug/entities/bug"
	"github.com/MichaelMure/git-bug/repository"
	"github.com/MichaelMure/git-bug/util/lamport"
)

type auditFailingClockRepo struct {
	repository.ClockedRepo
	fail bool
}

func (r *auditFailingClockRepo) Increment(name string) (lamport.Time, error) {
	if r.fail {
		return 0, fmt.Errorf("injected: no space left on device")
	}
	return r.ClockedRepo.Increment(name)
}

func TestAuditC10A2(t *testing.T) {
	repo := &auditFailingClockRepo{ClockedRepo: repository.CreateGoGitTestRepo(t, false)}
	cache, err := NewRepoCacheNoEvents(repo)
	require.NoError(t, err)
	iden1, err := cache.Identities().New("René Descartes", "rene@descartes.fr")
	require.NoError(t, err)
	require.NoError(t, cache.SetUserIdentity(iden1))

	b, _, err := cache.Bugs().New("title", "message")
	require.NoError(t, err)
	require.Len(t, b.Snapshot().Comments, 1) // the snapshot is now maintained incrementally

	_, _, err = b.AddComment("second")
	require.NoError(t, err)
	require.Len(t, b.Snapshot().Comments, 2)

	repo.fail = true
	require.Error(t, b.CommitAsNeeded())
	repo.fail = false

	incremental := b.Snapshot()
	scratch := b.entity.(*withSnapshot[*bug.Snapshot, bug.Operation]).Interface.Compile()

	// the property: the state the cache maintains incrementally equals a compilation from scratch
	require.Equal(t, len(scratch.Operations), len(incremental.Operations), "operations")
	require.Equal(t, len(scratch.Comments), len(incremental.Comments), "comments")
}
