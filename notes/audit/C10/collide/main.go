package main

import (
	"crypto/sha256"
	"encoding/base64"
	"encoding/binary"
	"fmt"
	"slices"
	"sync"
)

const prefix = `{"type":3,"timestamp":1700000000,"nonce":"`
const suffix = `","message":"c","files":null}`

func h56(counter uint64, buf []byte, nonce []byte) uint64 {
	binary.BigEndian.PutUint64(nonce[16:], counter)
	base64.StdEncoding.Encode(buf[len(prefix):], nonce)
	sum := sha256.Sum256(buf)
	return binary.BigEndian.Uint64(sum[:8]) >> 8
}

func mkbuf() ([]byte, []byte) {
	nonce := make([]byte, 24)
	copy(nonce, []byte("audit-C10-nonce!"))
	buf := make([]byte, len(prefix)+32+len(suffix))
	copy(buf, prefix)
	copy(buf[len(prefix)+32:], suffix)
	return buf, nonce
}

func main() {
	const N = 1 << 30
	const W = 16
	arr := make([]uint64, N)
	var wg sync.WaitGroup
	for w := 0; w < W; w++ {
		wg.Add(1)
		go func(w int) {
			defer wg.Done()
			buf, nonce := mkbuf()
			for i := uint64(w) * (N / W); i < uint64(w+1)*(N/W); i++ {
				arr[i] = h56(i, buf, nonce)
			}
		}(w)
	}
	wg.Wait()
	fmt.Println("generated")
	// parallel sort by chunks then merge is complex: just sort
	slices.Sort(arr)
	fmt.Println("sorted")
	dups := map[uint64]bool{}
	for i := 1; i < N; i++ {
		if arr[i] == arr[i-1] {
			dups[arr[i]] = true
		}
	}
	fmt.Println("dups", len(dups))
	arr = nil
	var mu sync.Mutex
	for w := 0; w < W; w++ {
		wg.Add(1)
		go func(w int) {
			defer wg.Done()
			buf, nonce := mkbuf()
			for i := uint64(w) * (N / W); i < uint64(w+1)*(N/W); i++ {
				h := h56(i, buf, nonce)
				if dups[h] {
					mu.Lock()
					fmt.Printf("hit %014x counter %d json %s\n", h, i, string(buf))
					mu.Unlock()
				}
			}
		}(w)
	}
	wg.Wait()
}
