// Place this file in entities/bug/ (package bug_test, public API only) and run:
//   go test -count=1 -run TestAuditC10A1 ./entities/bug/
//
// Two *different*, valid add-comment operations whose ids (sha256 of their JSON) share their
// first 14 hex characters. A CombinedId only keeps 14 characters of the operation id, so both
// comments get the same CombinedId. EditCommentOperation.Apply checks that the target is the
// exact id of a comment, but then looks the timeline item and the comment up by CombinedId and
// takes the first match: an edit that targets the SECOND comment rewrites the FIRST one.
//
// The two nonces were found with a 2^30 birthday search (2.5 minutes on 16 cores): this is data
// another (malicious or unlucky) client can produce, in the documented format.
package bug_test

import (
	"encoding/base64"
	"testing"

	"github.com/stretchr/testify/require"

	"github.com/MichaelMure/git-bug/entities/bug"
	"github.com/MichaelMure/git-bug/entities/identity"
	"github.com/MichaelMure/git-bug/repository"
)

func TestAuditC10A1(t *testing.T) {
	repo := repository.NewMockRepo()
	rene, err := identity.NewIdentity(repo, "René Descartes", "rene@descartes.fr")
	require.NoError(t, err)
	require.NoError(t, rene.Commit(repo))

	mk := func(nonce string) *bug.AddCommentOperation {
		op := bug.NewAddCommentOp(rene, 1700000000, "c", nil)
		raw, err := base64.StdEncoding.DecodeString(nonce)
		require.NoError(t, err)
		op.Nonce = raw // 24 bytes: within the documented 20..64 bounds
		require.NoError(t, op.Validate())
		return op
	}

	b, _, err := bug.Create(rene, 1700000000, "title", "body", nil, nil)
	require.NoError(t, err)

	first := mk("YXVkaXQtQzEwLW5vbmNlIQAAAAArXtGc")
	second := mk("YXVkaXQtQzEwLW5vbmNlIQAAAAA/WbsT")
	b.Append(first)
	b.Append(second)

	// two distinct operations, with distinct ids, that agree on 14 characters
	require.NotEqual(t, first.Id(), second.Id())
	require.Equal(t, first.Id().String()[:14], second.Id().String()[:14])

	// the edit targets the second comment, by its full operation id
	_, _, err = bug.EditComment(b, rene, 1700000001, second.Id(), "second edited", nil, nil)
	require.NoError(t, err)

	// it is a valid bug: it validates, can be committed and read back
	require.NoError(t, b.Validate())
	require.NoError(t, b.Commit(repo))
	b, err = bug.Read(repo, b.Id())
	require.NoError(t, err)

	snap := b.Compile()
	require.Len(t, snap.Comments, 3)
	require.Equal(t, first.Id(), snap.Comments[1].TargetId())
	require.Equal(t, second.Id(), snap.Comments[2].TargetId())

	// the property: a comment has the text of the latest edit targeting it
	require.Equal(t, "c", snap.Comments[1].Message, "the first comment was never edited")
	require.Equal(t, "second edited", snap.Comments[2].Message, "the second comment was edited")

	require.Len(t, snap.Timeline[1].(*bug.AddCommentTimelineItem).History, 1, "first comment: no edit")
	require.Len(t, snap.Timeline[2].(*bug.AddCommentTimelineItem).History, 2, "second comment: one edit")
}
