// Place this file in api/graphql/connections/ (package connections) and run:
//   go test -count=1 -run TestC20AfterNotBeforeBefore ./api/graphql/connections/
//
// Property C20: "... for all combinations of first/after/last/before ...
// never an element outside the requested window."
//
// When both cursors are valid and `before` designates the same edge as
// `after`, or an earlier one, the requested window (strictly after `after`
// AND strictly before `before`) is empty. The connection code first cuts the
// source at `after`, then looks for the `before` cursor only in what remains;
// not finding it, it silently drops the `before` bound and returns every
// element that follows `after` -- all of them lie at or beyond `before`,
// i.e. outside the requested window. hasNextPage is also left false although
// elements exist past the `before` bound.
package connections

import (
	"fmt"
	"testing"

	"github.com/MichaelMure/git-bug/api/graphql/models"
	"github.com/MichaelMure/git-bug/entities/bug"
)

func c20LabelCon(n int, in models.ConnectionInput) (*models.LabelConnection, error) {
	src := make([]bug.Label, n)
	for i := range src {
		src[i] = bug.Label(fmt.Sprintf("label-%02d", i))
	}
	edger := func(l bug.Label, offset int) Edge {
		return models.LabelEdge{Node: l, Cursor: OffsetToCursor(offset)}
	}
	conMaker := func(edges []*models.LabelEdge, nodes []bug.Label, info *models.PageInfo, total int) (*models.LabelConnection, error) {
		return &models.LabelConnection{Edges: edges, Nodes: nodes, PageInfo: info, TotalCount: total}, nil
	}
	return LabelCon(src, edger, conMaker, in)
}

func TestC20AfterNotBeforeBefore(t *testing.T) {
	const n = 6
	for a := 0; a < n; a++ {
		for b := 0; b < n; b++ {
			after, before := OffsetToCursor(a), OffsetToCursor(b)
			for _, size := range []*int{nil, ptr(1), ptr(n)} {
				for _, in := range []models.ConnectionInput{
					{After: &after, Before: &before, First: size},
					{After: &after, Before: &before, Last: size},
				} {
					con, err := c20LabelCon(n, in)
					if err != nil {
						// rejecting the combination would be acceptable
						continue
					}
					if con.TotalCount != n {
						t.Errorf("after=%d before=%d: totalCount %d, want %d", a, b, con.TotalCount, n)
					}
					for _, e := range con.Edges {
						off, err := CursorToOffset(e.Cursor)
						if err != nil {
							t.Fatalf("bad cursor in result: %v", err)
						}
						if off <= a || off >= b {
							t.Errorf("list of %d, after=cursor:%d before=cursor:%d first=%s last=%s: "+
								"returned element #%d (%s), outside the window ]%d,%d[ (%d edges returned, hasNextPage=%v)",
								n, a, b, p(in.First), p(in.Last), off, e.Node, a, b, len(con.Edges), con.PageInfo.HasNextPage)
							break
						}
					}
				}
			}
		}
	}
}

func ptr(i int) *int { return &i }

func p(i *int) string {
	if i == nil {
		return "nil"
	}
	return fmt.Sprint(*i)
}
