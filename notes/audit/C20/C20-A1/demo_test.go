// Place this file in api/graphql/ (package graphql) and run:
//   go test -count=1 -run TestC20PagingBugsWithTiedSortKeys ./api/graphql/
//
// Property C20: paging through allBugs with any page size yields every
// element exactly once, in list order.
//
// Two replicas create bugs concurrently (same Lamport creation time, same
// unix second). After a pull, the list returned by RepoCacheBug.Query has
// several elements with equal sort keys; as the excerpts come out of a map
// and the sort has no final tie-break, the list order changes from one
// request to the next, and a client walking the pages sees some bugs twice
// and some never.
package graphql

import (
	"fmt"
	"testing"

	"github.com/99designs/gqlgen/client"
	"github.com/stretchr/testify/require"

	"github.com/MichaelMure/git-bug/cache"
	"github.com/MichaelMure/git-bug/repository"
)

func TestC20PagingBugsWithTiedSortKeys(t *testing.T) {
	repoA, repoB, _ := repository.SetupGoGitReposAndRemote(t)

	cacheA, err := cache.NewRepoCacheNoEvents(repoA)
	require.NoError(t, err)
	cacheB, err := cache.NewRepoCacheNoEvents(repoB)
	require.NoError(t, err)

	alice, err := cacheA.Identities().New("alice", "alice@example.com")
	require.NoError(t, err)
	require.NoError(t, cacheA.SetUserIdentity(alice))
	bob, err := cacheB.Identities().New("bob", "bob@example.com")
	require.NoError(t, err)
	require.NoError(t, cacheB.SetUserIdentity(bob))

	// both replicas work offline during the same second
	const unixTime = 1700000000
	const perReplica = 5
	all := map[string]bool{}
	for i := 0; i < perReplica; i++ {
		b, _, err := cacheA.Bugs().NewRaw(alice, unixTime, fmt.Sprintf("A%d", i), "message", nil, nil)
		require.NoError(t, err)
		all[b.Id().String()] = true
		b, _, err = cacheB.Bugs().NewRaw(bob, unixTime, fmt.Sprintf("B%d", i), "message", nil, nil)
		require.NoError(t, err)
		all[b.Id().String()] = true
	}
	require.Len(t, all, 2*perReplica)

	// A --> remote --> B
	_, err = cacheA.Push("origin")
	require.NoError(t, err)
	require.NoError(t, cacheB.Pull("origin"))
	require.Len(t, cacheB.Bugs().AllIds(), 2*perReplica)
	require.NoError(t, cacheA.Close())
	require.NoError(t, cacheB.Close())

	mrc := cache.NewMultiRepoCache()
	_, events := mrc.RegisterDefaultRepository(repoB)
	for event := range events {
		require.NoError(t, event.Err)
	}
	defer mrc.Close()

	c := client.New(NewHandler(mrc, nil))

	type page struct {
		Repository struct {
			AllBugs struct {
				TotalCount int
				PageInfo   struct {
					EndCursor   string
					HasNextPage bool
				}
				Edges []struct {
					Cursor string
					Node   struct{ Id, Title string }
				}
			}
		}
	}

	for _, q := range []string{"", "sort:creation-asc", "sort:edit-desc"} {
		for trial := 0; trial < 20; trial++ {
			seen := map[string]int{}
			var titles []string
			after := ""
			for step := 0; step < 4*perReplica; step++ {
				args := "first: 1"
				if after != "" {
					args += fmt.Sprintf(", after: %q", after)
				}
				if q != "" {
					args += fmt.Sprintf(", query: %q", q)
				}
				var resp page
				c.MustPost(fmt.Sprintf(`query { repository { allBugs(%s) {
					totalCount pageInfo { endCursor hasNextPage } edges { cursor node { id title } } } } }`, args), &resp)
				con := resp.Repository.AllBugs
				require.Equal(t, 2*perReplica, con.TotalCount)
				for _, e := range con.Edges {
					seen[e.Node.Id]++
					titles = append(titles, e.Node.Title)
				}
				if !con.PageInfo.HasNextPage {
					break
				}
				after = con.PageInfo.EndCursor
			}
			for id := range all {
				require.Equalf(t, 1, seen[id],
					"query %q, trial %d: walking allBugs with first:1 returned bug %s %d times (pages: %v)",
					q, trial, id, seen[id], titles)
			}
		}
	}
}
