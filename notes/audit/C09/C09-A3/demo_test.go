// Place this file in entities/identity/ (package identity) as c09_a3_demo_test.go and run:
//   go test -count=1 -run 'TestC09A3' ./entities/identity/
//
// version.Validate() checks name, login and email for control characters but never looks at the
// metadata of the version, whereas the metadata of every other entity is checked
// (entity/dag/op_set_metadata.go: SafeOneLine(key), Safe(value)). An identity whose version
// carries NUL / ESC / BEL ... in its metadata is committed locally and accepted from a remote.
package identity

import (
	"testing"

	"github.com/stretchr/testify/require"

	"github.com/MichaelMure/git-bug/entity"
	"github.com/MichaelMure/git-bug/repository"
)

func TestC09A3_UnsafeMetadataAccepted(t *testing.T) {
	repoA, repoB, _ := repository.SetupGoGitReposAndRemote(t)

	i, err := NewIdentity(repoA, "name", "email")
	require.NoError(t, err)
	i.SetMetadata("key\x00\x1b[2J", "value\x07\x00\x1b]0;owned\x07")

	errValidate := i.Validate()
	errCommit := i.Commit(repoA)

	if errCommit == nil {
		// the other replica takes it as well
		_, err = Push(repoA, "origin")
		require.NoError(t, err)
		_, err = Fetch(repoB, "origin")
		require.NoError(t, err)
		for res := range MergeAll(repoB, "origin") {
			require.NoError(t, res.Err)
			require.Equal(t, entity.MergeStatusInvalid, res.Status,
				"an identity with control characters in its metadata was merged (status %v)", res.Status)
		}
	}

	require.Error(t, errValidate, "Validate accepts control characters in the metadata")
	require.Error(t, errCommit, "Commit accepts control characters in the metadata")
}
