// Place this file in entities/identity/ (package identity) as c09_a1_demo_test.go and run:
//   go test -count=1 -run 'TestC09A1' ./entities/identity/
//
// version.Clone() says "not copying metadata" but `clone := *v` copies the map header, so the
// clone SHARES the metadata map of the version it was cloned from. Identity.SetMetadata clones
// the last version when that one is frozen (committed, or its id already handed out) and then
// writes into the shared map: the frozen version is rewritten in place.
package identity

import (
	"testing"

	"github.com/stretchr/testify/require"

	"github.com/MichaelMure/git-bug/repository"
)

// The id of an identity changes between Id() and Commit().
func TestC09A1_IdChangesAtCommit(t *testing.T) {
	repo := repository.CreateGoGitTestRepo(t, false)

	i, err := NewIdentity(repo, "name", "email")
	require.NoError(t, err)
	i.SetMetadata("a", "1") // goes in the (still free) first version

	idBefore := i.Id() // freezes the first version

	i.SetMetadata("b", "2") // must go in a second version, and leave the first one alone

	require.Equal(t, idBefore, i.Id())
	require.NoError(t, i.Commit(repo))

	require.Equal(t, idBefore, i.Id(), "the id of the identity changed when it was committed")

	_, err = ReadLocal(repo, idBefore)
	require.NoError(t, err, "the identity is not stored under the id it announced")
}

// A committed version is rewritten in memory: the history is not append-only, and the long-lived
// object disagrees with what is in git (and with every other replica).
func TestC09A1_CommittedVersionRewritten(t *testing.T) {
	repo := repository.CreateGoGitTestRepo(t, false)

	i, err := NewIdentity(repo, "name", "email")
	require.NoError(t, err)
	i.SetMetadata("github-login", "alice")
	require.NoError(t, i.Commit(repo))
	require.Equal(t, "alice", i.ImmutableMetadata()["github-login"])

	// what bridge/core.FinishConfig does on the (committed) user identity
	i.SetMetadata("github-login", "bob")
	require.NoError(t, i.CommitAsNeeded(repo))

	// "If multiple value are found, the first defined takes precedence": version 1 said alice.
	fresh, err := ReadLocal(repo, i.Id())
	require.NoError(t, err)
	require.Equal(t, "alice", fresh.ImmutableMetadata()["github-login"])

	require.Equal(t, fresh.ImmutableMetadata(), i.ImmutableMetadata(),
		"the first (committed) version of the long-lived object was rewritten by SetMetadata")
}
