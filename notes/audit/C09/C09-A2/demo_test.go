// Place this file in entities/identity/ (package identity) as c09_a2_demo_test.go and run:
//   go test -count=1 -run 'TestC09A2' ./entities/identity/
//
// Identity.Commit() moves refs/identities/<id> to the chain held by the object without checking
// that the ref still points to the last version this object knows of. An object loaded before a
// fast-forward merge (or before the commit of another handle) silently REPLACES the versions
// that were appended meanwhile: the history of the identity does not only grow by appending.
package identity

import (
	"testing"

	"github.com/stretchr/testify/require"

	"github.com/MichaelMure/git-bug/entity"
	"github.com/MichaelMure/git-bug/repository"
)

// two replicas: B holds the identity, A appends a version, B merges it (fast-forward, "updated"),
// then B mutates the object it was holding.
func TestC09A2_StaleObjectCommitDropsMergedVersion(t *testing.T) {
	repoA, repoB, _ := repository.SetupGoGitReposAndRemote(t)

	idA, err := NewIdentity(repoA, "name", "email")
	require.NoError(t, err)
	require.NoError(t, idA.Commit(repoA))
	_, err = Push(repoA, "origin")
	require.NoError(t, err)
	require.NoError(t, Pull(repoB, "origin"))

	// long-lived object on B
	idB, err := ReadLocal(repoB, idA.Id())
	require.NoError(t, err)

	// A appends a version, B merges it
	require.NoError(t, idA.Mutate(repoA, func(m *Mutator) { m.Name = "name from A" }))
	require.NoError(t, idA.Commit(repoA))
	_, err = Push(repoA, "origin")
	require.NoError(t, err)
	_, err = Fetch(repoB, "origin")
	require.NoError(t, err)
	for res := range MergeAll(repoB, "origin") {
		require.NoError(t, res.Err)
		require.Equal(t, entity.MergeStatusUpdated, res.Status)
	}

	ref := "refs/identities/" + idA.Id().String()
	before, err := repoB.ListCommits(ref)
	require.NoError(t, err)
	require.Len(t, before, 2)

	// B now uses the object it had
	require.NoError(t, idB.Mutate(repoB, func(m *Mutator) { m.Email = "email from B" }))
	errCommit := idB.Commit(repoB)

	after, err := repoB.ListCommits(ref)
	require.NoError(t, err)
	require.GreaterOrEqual(t, len(after), len(before), "the history got shorter")
	require.Equal(t, before, after[:len(before)],
		"the version merged from A was dropped from the local history (Commit returned: %v)", errCommit)
}

// one replica, two handles on the same identity
func TestC09A2_TwoHandles(t *testing.T) {
	repo := repository.CreateGoGitTestRepo(t, false)

	i, err := NewIdentity(repo, "name", "email")
	require.NoError(t, err)
	require.NoError(t, i.Commit(repo))

	a, err := ReadLocal(repo, i.Id())
	require.NoError(t, err)
	b, err := ReadLocal(repo, i.Id())
	require.NoError(t, err)

	require.NoError(t, a.Mutate(repo, func(m *Mutator) { m.Name = "A" }))
	require.NoError(t, a.Commit(repo))

	ref := "refs/identities/" + i.Id().String()
	before, err := repo.ListCommits(ref)
	require.NoError(t, err)

	require.NoError(t, b.Mutate(repo, func(m *Mutator) { m.Name = "B" }))
	errCommit := b.Commit(repo)

	after, err := repo.ListCommits(ref)
	require.NoError(t, err)
	require.GreaterOrEqual(t, len(after), len(before))
	require.Equal(t, before, after[:len(before)], "history rewritten (Commit returned: %v)", errCommit)
}
