// Extra for C09-A2: place this file in cache/ (package cache) as c09_a2_demo_cache_test.go and run:
//   go test -count=1 -run TestAuditCacheStaleHandle ./cache/
// Same violation reached only through the cache API (RepoCache.Pull replaces the cached object, the old handle stays usable).
package cache

import (
	"testing"

	"github.com/stretchr/testify/require"

	"github.com/MichaelMure/git-bug/entities/identity"
	"github.com/MichaelMure/git-bug/repository"
)

func TestAuditCacheStaleHandle(t *testing.T) {
	repoA, repoB, _ := repository.SetupGoGitReposAndRemote(t)
	cacheA := createTestRepoCacheNoEvents(t, repoA)
	cacheB := createTestRepoCacheNoEvents(t, repoB)

	reneA, err := cacheA.Identities().New("René Descartes", "rene@descartes.fr")
	require.NoError(t, err)
	require.NoError(t, cacheA.SetUserIdentity(reneA))
	isaacB, err := cacheB.Identities().New("Isaac Newton", "isaac@newton.uk")
	require.NoError(t, err)
	require.NoError(t, cacheB.SetUserIdentity(isaacB))
	_, err = cacheA.Push("origin")
	require.NoError(t, err)
	require.NoError(t, cacheB.Pull("origin"))

	reneB, err := cacheB.Identities().Resolve(reneA.Id())
	require.NoError(t, err)
	require.NoError(t, cacheB.SetUserIdentity(reneB))

	require.NoError(t, reneA.Mutate(repoA, func(m *identity.Mutator) { m.Name = "from A" }))
	require.NoError(t, reneA.Commit())
	_, err = cacheA.Push("origin")
	require.NoError(t, err)
	require.NoError(t, cacheB.Pull("origin"))

	ref := "refs/identities/" + reneA.Id().String()
	before, err := repoB.ListCommits(ref)
	require.NoError(t, err)
	require.Len(t, before, 2)

	require.NoError(t, reneB.Mutate(repoB, func(m *identity.Mutator) { m.Email = "from B" }))
	errCommit := reneB.Commit()

	after, err := repoB.ListCommits(ref)
	require.NoError(t, err)
	require.Equal(t, before, after[:len(before)], "commit err: %v", errCommit)
}
