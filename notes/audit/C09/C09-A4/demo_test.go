// Place this file in entities/identity/ (package identity) as c09_a4_demo_test.go and run:
//   go test -count=1 -run 'TestC09A4' ./entities/identity/
//
// The avatar url of a version is only checked with text.ValidUrl (no "\n" + url.ParseRequestURI).
// net/url refuses the ASCII control characters (< 0x20, 0x7f) but not the C1 control characters
// U+0080..U+009F (NEL U+0085, CSI U+009B ...), for which unicode.IsControl is true and which are
// refused in name/login/email by text.SafeOneLine.
package identity

import (
	"testing"

	"github.com/stretchr/testify/require"

	"github.com/MichaelMure/git-bug/entity"
	"github.com/MichaelMure/git-bug/repository"
	"github.com/MichaelMure/git-bug/util/text"
)

func TestC09A4_ControlCharactersInAvatarUrl(t *testing.T) {
	repoA, repoB, _ := repository.SetupGoGitReposAndRemote(t)

	avatar := "http://example.com/a\u0085b\u009b2J.png"
	require.False(t, text.SafeOneLine(avatar), "sanity: the project's own check calls this string unsafe")

	// the same characters are refused in the name
	bad, err := NewIdentity(repoA, "na\u0085me", "email")
	require.NoError(t, err)
	require.Error(t, bad.Validate())

	i, err := NewIdentityFull(repoA, "name", "email", "", avatar, nil)
	require.NoError(t, err)

	errValidate := i.Validate()
	errCommit := i.Commit(repoA)

	if errCommit == nil {
		_, err = Push(repoA, "origin")
		require.NoError(t, err)
		_, err = Fetch(repoB, "origin")
		require.NoError(t, err)
		for res := range MergeAll(repoB, "origin") {
			require.NoError(t, res.Err)
			require.Equal(t, entity.MergeStatusInvalid, res.Status,
				"an identity with control characters in its avatar url was merged (status %v)", res.Status)
		}
	}

	require.Error(t, errValidate, "Validate accepts control characters in the avatar url")
	require.Error(t, errCommit)
}
