// Place this file in entities/identity/ (package identity) as c09_a5_demo_test.go and run:
//   go test -count=1 -run 'TestC09A5' ./entities/identity/
//
// Identity.Merge() appends the versions of `other` that are beyond the local end without checking
// that they are committed. If `other` has a pending (not yet committed) version, its commit hash
// is "", the "fast-forward" check compares "" with "" and passes, and the local ref is moved to
// the hash "" = 0000000000000000000000000000000000000000: Merge reports (updated=true, nil) and
// the local identity is gone.
package identity

import (
	"testing"

	"github.com/stretchr/testify/require"

	"github.com/MichaelMure/git-bug/repository"
)

func TestC09A5_MergeOfPendingVersionDestroysLocal(t *testing.T) {
	repo := repository.CreateGoGitTestRepo(t, false)

	i, err := NewIdentity(repo, "name", "email")
	require.NoError(t, err)
	require.NoError(t, i.Commit(repo))

	local, err := ReadLocal(repo, i.Id())
	require.NoError(t, err)

	other, err := ReadLocal(repo, i.Id())
	require.NoError(t, err)
	require.NoError(t, other.Mutate(repo, func(m *Mutator) { m.Name = "pending" }))
	require.True(t, other.NeedCommit())

	updated, errMerge := local.Merge(repo, other)
	t.Logf("Merge returned updated=%v err=%v", updated, errMerge)

	// whatever Merge answers, the identity stored locally must still be there, with its history
	// either unchanged or extended
	after, err := ReadLocal(repo, i.Id())
	require.NoError(t, err, "the local identity can't be read anymore after Merge (updated=%v, err=%v)", updated, errMerge)
	require.GreaterOrEqual(t, len(after.versions), 1)
	require.Equal(t, i.versions[0].commitHash, after.versions[0].commitHash)
}
