// Place this file in entities/identity/ (package identity_test) and run:
//   go test -count=1 -run TestC05A3 ./entities/identity/
//
// C05: "Every commit git-bug writes gets a logical edit time strictly greater than that of every
// commit of the same entity type this repository has ever written, read, fetched-and-merged ...,
// so a repository can always read back what it writes and new edits sort after what their author
// could see" / "clocks ... are rebuilt from the stored entities to at least their maximum".
//
// An identity version records the value of every lamport clock ("times"). Reading / merging an
// identity never witnesses those times, and the clock rebuild ignores them. A repository whose
// bugs-edit clock is behind the times recorded in the last version of an identity (fresh clone,
// second machine of the same user, or bugs removed + clocks rebuilt) then builds the next version
// with SMALLER times (or with clocks missing): the new version sorts before the one its author
// could see, and Commit refuses it ("non-chronological lamport clock" / "version has less lamport
// clocks than before"): the identity can't be modified from that repository any more.
package identity_test

import (
	"os"
	"path/filepath"
	"testing"
	"time"

	"github.com/stretchr/testify/require"

	"github.com/MichaelMure/git-bug/entities/bug"
	"github.com/MichaelMure/git-bug/entities/identity"
	"github.com/MichaelMure/git-bug/repository"
)

// two replicas of the same user
func TestC05A3TwoReplicas(t *testing.T) {
	repoA, repoB, _ := repository.SetupGoGitReposAndRemote(t)

	// machine A: an identity and a few (local, never pushed) bugs
	idA, err := identity.NewIdentity(repoA, "John", "john@example.com")
	require.NoError(t, err)
	require.NoError(t, idA.Commit(repoA))
	for i := 0; i < 5; i++ {
		b, _, err := bug.Create(idA, time.Now().Unix(), "title", "message", nil, nil)
		require.NoError(t, err)
		require.NoError(t, b.Commit(repoA))
	}
	// a new version of the identity, made on machine A
	require.NoError(t, idA.Mutate(repoA, func(m *identity.Mutator) { m.Name = "John D." }))
	require.NoError(t, idA.Commit(repoA))
	_, err = identity.Push(repoA, "origin")
	require.NoError(t, err)

	// machine B: gets the identity, has one bug of its own (so that its clocks exist)
	require.NoError(t, identity.Pull(repoB, "origin"))
	idB, err := identity.ReadLocal(repoB, idA.Id())
	require.NoError(t, err)
	b, _, err := bug.Create(idB, time.Now().Unix(), "title", "message", nil, nil)
	require.NoError(t, err)
	require.NoError(t, b.Commit(repoB))

	seen := idB.LastModificationLamports()["bugs-edit"]

	// the same user edits his identity on machine B
	require.NoError(t, idB.Mutate(repoB, func(m *identity.Mutator) { m.Email = "jd@example.com" }))

	// the new version must sort after what its author could see ...
	require.GreaterOrEqual(t, uint64(idB.LastModificationLamports()["bugs-edit"]), uint64(seen),
		"the new version has a bugs-edit time lower than the version that was read")
	// ... and it must be possible to write it and read it back
	require.NoError(t, idB.Commit(repoB))
	_, err = identity.ReadLocal(repoB, idA.Id())
	require.NoError(t, err)
}

// one repository, deletion of the clocks + reopen (rebuild)
func TestC05A3Rebuild(t *testing.T) {
	dir := t.TempDir()
	loaders := []repository.ClockLoader{bug.ClockLoader}

	repo, err := repository.InitGoGitRepo(dir, "git-bug")
	require.NoError(t, err)

	id, err := identity.NewIdentity(repo, "John", "john@example.com")
	require.NoError(t, err)
	require.NoError(t, id.Commit(repo))
	b, _, err := bug.Create(id, time.Now().Unix(), "title", "message", nil, nil)
	require.NoError(t, err)
	require.NoError(t, b.Commit(repo))
	require.NoError(t, id.Mutate(repo, func(m *identity.Mutator) { m.Name = "John D." }))
	require.NoError(t, id.Commit(repo))
	seen := id.LastModificationLamports()["bugs-edit"]
	require.NotZero(t, seen)

	require.NoError(t, bug.Remove(repo, b.Id()))
	require.NoError(t, repo.Close())

	// the clocks are lost
	require.NoError(t, os.RemoveAll(filepath.Join(dir, ".git", "git-bug", "clocks")))

	repo, err = repository.OpenGoGitRepo(dir, "git-bug", loaders)
	require.NoError(t, err)
	defer repo.Close()

	id, err = identity.ReadLocal(repo, id.Id())
	require.NoError(t, err)
	require.NoError(t, id.Mutate(repo, func(m *identity.Mutator) { m.Email = "jd@example.com" }))
	require.GreaterOrEqual(t, uint64(id.LastModificationLamports()["bugs-edit"]), uint64(seen),
		"the new version has a bugs-edit time lower than the stored version")
	require.NoError(t, id.Commit(repo))
}
