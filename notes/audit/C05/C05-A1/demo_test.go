// Place this file in entity/dag/ (package dag) and run:
//   go test -count=1 -run TestC05A1 ./entity/dag/
//
// C05: "a repository can always read back what it writes".
// After having read (and therefore witnessed) a perfectly valid entity of another client whose
// edit clock is more than 1_000_000 ahead, the next commit this repository writes on one of its
// own older entities gets editTime = clock+1, i.e. more than 1_000_000 above its parent commit:
// read() then rejects the entity that was just written ("lamport clock jumping too far in the
// future, likely an attack").
package dag

import (
	"testing"

	"github.com/stretchr/testify/require"

	"github.com/MichaelMure/git-bug/repository"
)

func testC05A1(t *testing.T, repo repository.ClockedRepo) {
	id1, _, resolvers, def := makeTestContextInternal(repo)

	// our own entity, written with a small edit time
	mine := wrapper(New(def))
	mine.Append(newOp1(id1, "mine"))
	require.NoError(t, mine.Commit(repo))

	_, err := Read(def, wrapper, repo, resolvers, mine.Id())
	require.NoError(t, err)

	// an entity produced by another valid client (e.g. a very busy repository): the documented
	// format puts no bound on the clocks of a root commit.
	opp := &operationPack{
		Author:     id1,
		Operations: []Operation{newOp1(id1, "theirs")},
		CreateTime: 3,
		EditTime:   5_000_000,
	}
	hash, err := opp.Write(def, repo)
	require.NoError(t, err)
	theirsId := opp.Operations[0].Id()
	require.NoError(t, repo.UpdateRef("refs/"+def.Namespace+"/"+theirsId.String(), hash))

	// it is valid, and reading it witnesses its clocks
	theirs, err := Read(def, wrapper, repo, resolvers, theirsId)
	require.NoError(t, err)
	require.EqualValues(t, 5_000_000, theirs.EditLamportTime())

	// now edit our own entity: the write succeeds ...
	mine.Append(newOp2(id1, "edit"))
	require.NoError(t, mine.Commit(repo))

	// ... and the property demands that it can be read back
	_, err = Read(def, wrapper, repo, resolvers, mine.Id())
	require.NoError(t, err, "the repository can't read back the entity it just wrote")
}

func TestC05A1Mock(t *testing.T) {
	testC05A1(t, repository.NewMockRepo())
}

func TestC05A1GoGit(t *testing.T) {
	testC05A1(t, repository.CreateGoGitTestRepo(t, false))
}
