// Place this file in entity/dag/ (package dag) and run:
//   go test -count=1 -run TestC05A2 ./entity/dag/
//
// C05: "Clock values never decrease" / "every commit git-bug writes gets a logical edit time
// strictly greater than that of every commit ... this repository has ever ... read".
// A root commit carrying edit-clock-18446744073709551615 (math.MaxUint64) is accepted by read()
// (no bound is checked on a root commit), which witnesses the value. The next Increment wraps the
// counter around to 0 (util/lamport/mem_clock.go:Increment is a bare atomic.AddUint64): the clock
// (also the persisted file) goes from 2^64-1 down to 0, the pending commit fails, and the following
// commits get edit times 1, 2, ... that are smaller than everything the repository has seen.
package dag

import (
	"math"
	"testing"

	"github.com/stretchr/testify/require"

	"github.com/MichaelMure/git-bug/repository"
	"github.com/MichaelMure/git-bug/util/lamport"
)

func testC05A2(t *testing.T, repo repository.ClockedRepo) {
	id1, _, resolvers, def := makeTestContextInternal(repo)
	editClock := def.Namespace + "-edit"

	// our own entity
	mine := wrapper(New(def))
	mine.Append(newOp1(id1, "mine"))
	require.NoError(t, mine.Commit(repo))
	firstEdit := mine.EditLamportTime()

	// an entity written by another client, well-formed with regard to the documented format
	opp := &operationPack{
		Author:     id1,
		Operations: []Operation{newOp1(id1, "theirs")},
		CreateTime: 3,
		EditTime:   lamport.Time(math.MaxUint64),
	}
	hash, err := opp.Write(def, repo)
	require.NoError(t, err)
	theirsId := opp.Operations[0].Id()
	require.NoError(t, repo.UpdateRef("refs/"+def.Namespace+"/"+theirsId.String(), hash))

	// it is accepted as valid, and its clocks are witnessed
	_, err = Read(def, wrapper, repo, resolvers, theirsId)
	require.NoError(t, err)

	c, err := repo.GetOrCreateClock(editClock)
	require.NoError(t, err)
	before := c.Time()
	require.EqualValues(t, uint64(math.MaxUint64), before)

	// edit our own entity: first attempt fails outright (edit time 0) ...
	mine.Append(newOp2(id1, "edit"))
	err1 := mine.Commit(repo)
	after := c.Time()

	// the clock must never decrease
	require.GreaterOrEqual(t, uint64(after), uint64(before), "the clock went backward (commit error: %v)", err1)

	// ... and the retry "works" but with an edit time lower than what was seen before
	if err1 != nil {
		require.NoError(t, mine.Commit(repo))
	}
	require.Greater(t, uint64(mine.EditLamportTime()), uint64(firstEdit))
}

func TestC05A2Mock(t *testing.T) {
	testC05A2(t, repository.NewMockRepo())
}

func TestC05A2GoGit(t *testing.T) {
	testC05A2(t, repository.CreateGoGitTestRepo(t, false))
}

// The same at the level of the clocks alone.
func TestC05A2Clock(t *testing.T) {
	c := lamport.NewMemClock()
	require.NoError(t, c.Witness(lamport.Time(math.MaxUint64)))
	before := c.Time()
	v, err := c.Increment()
	if err == nil {
		require.Greater(t, uint64(v), uint64(before), "Increment returned a value that is not greater than the previous one")
	}
	require.GreaterOrEqual(t, uint64(c.Time()), uint64(before), "the clock went backward")
}
