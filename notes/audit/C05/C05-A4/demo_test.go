// Place this file in entities/identity/ (package identity_test) and run:
//   go test -count=1 -run TestC05A4 ./entities/identity/
//
// C05: "Clock values never decrease ..." over "every sequence of increments, witnesses, entity
// reads, merges, repository re-openings and deletions of the clock files".
//
// GoGitRepo.AllClocks() only reports the clocks that have a file in .git/git-bug/clocks at that
// moment: after a deletion of the clock files, the clocks that the (still open) repository holds in
// memory - and goes on using for Increment/Witness - are not reported any more. Seen through
// AllClocks (which is what identity.newVersion records in a version), "bugs-edit" drops from its
// value to nothing, and comes back later when the clock gets written again. The next identity
// version is built with fewer / lower times than the previous one and can't be committed.
package identity_test

import (
	"os"
	"path/filepath"
	"testing"
	"time"

	"github.com/stretchr/testify/require"

	"github.com/MichaelMure/git-bug/entities/bug"
	"github.com/MichaelMure/git-bug/entities/identity"
	"github.com/MichaelMure/git-bug/repository"
)

func TestC05A4(t *testing.T) {
	dir := t.TempDir()
	repo, err := repository.InitGoGitRepo(dir, "git-bug")
	require.NoError(t, err)
	defer repo.Close()

	id, err := identity.NewIdentity(repo, "John", "john@example.com")
	require.NoError(t, err)
	require.NoError(t, id.Commit(repo))
	b, _, err := bug.Create(id, time.Now().Unix(), "title", "message", nil, nil)
	require.NoError(t, err)
	require.NoError(t, b.Commit(repo))

	all, err := repo.AllClocks()
	require.NoError(t, err)
	require.Contains(t, all, "bugs-edit")
	before := all["bugs-edit"].Time()

	require.NoError(t, id.Mutate(repo, func(m *identity.Mutator) { m.Name = "John D." }))
	require.NoError(t, id.Commit(repo))
	seen := id.LastModificationLamports()["bugs-edit"]

	// the clock files are deleted while the repository is open
	require.NoError(t, os.RemoveAll(filepath.Join(dir, ".git", "git-bug", "clocks")))

	// the clock is still there (in memory) and still used for the next commits ...
	c, err := repo.GetOrCreateClock("bugs-edit")
	require.NoError(t, err)
	require.Equal(t, before, c.Time())

	// ... so it must still be reported, with a value that did not decrease
	all, err = repo.AllClocks()
	require.NoError(t, err)
	require.Contains(t, all, "bugs-edit", "AllClocks forgot a clock that the repository holds")
	require.GreaterOrEqual(t, uint64(all["bugs-edit"].Time()), uint64(before))

	// and a new version of the identity can be written
	require.NoError(t, id.Mutate(repo, func(m *identity.Mutator) { m.Email = "jd@example.com" }))
	require.GreaterOrEqual(t, uint64(id.LastModificationLamports()["bugs-edit"]), uint64(seen))
	require.NoError(t, id.Commit(repo))
}
