// Place in: entities/bug/  (file name e.g. c04_a3_demo_test.go)
// Run:      go test -count=1 -timeout 120s -run TestC04A3 ./entities/bug/
//
// The edit clock is shared by all the bugs of a repository. read() refuses a (non merge) pack whose
// edit time is more than 1_000_000 above the one of its parent, but Commit() takes the edit time from
// the shared clock without looking at the parent. As soon as the clock of the repository has run (or
// has witnessed, through any other bug pulled from a busy replica) more than 1_000_000 ticks since
// the last edition of a bug, the next operation committed on that bug makes it unreadable, locally
// and everywhere.
package bug_test

import (
	"testing"

	"github.com/stretchr/testify/require"

	"github.com/MichaelMure/git-bug/entities/bug"
	"github.com/MichaelMure/git-bug/entities/identity"
	"github.com/MichaelMure/git-bug/entity"
	"github.com/MichaelMure/git-bug/repository"
)

func c04a3Resolvers(repo repository.ClockedRepo) entity.Resolvers {
	return entity.Resolvers{
		&identity.Identity{}: identity.NewSimpleResolver(repo),
	}
}

func TestC04A3CommitAfterALongTimeMakesTheBugUnreadable(t *testing.T) {
	repoA, repoB, _ := repository.SetupGoGitReposAndRemote(t)
	rene, err := identity.NewIdentity(repoA, "rene", "rene@example.com")
	require.NoError(t, err)
	require.NoError(t, rene.Commit(repoA))
	_, err = identity.Push(repoA, "origin")
	require.NoError(t, err)
	require.NoError(t, identity.Pull(repoB, "origin"))

	// A: an old bug, edit time 1
	old, _, err := bug.Create(rene, 1234, "old bug", "message", nil, nil)
	require.NoError(t, err)
	require.NoError(t, old.Commit(repoA))

	// B is a busy replica, its edit clock is high (1.5 million packs written or witnessed so far).
	// It creates another bug X and publishes it.
	require.NoError(t, repoB.Witness("bugs-edit", 1_500_000))
	x, _, err := bug.Create(rene, 1234, "x", "message", nil, nil)
	require.NoError(t, err)
	require.NoError(t, x.Commit(repoB))
	_, err = bug.Push(repoB, "origin")
	require.NoError(t, err)

	// A pulls X: perfectly valid, and A's clock witnesses its edit time.
	require.NoError(t, bug.Pull(repoA, c04a3Resolvers(repoA), "origin", rene))
	_, err = bug.Read(repoA, x.Id())
	require.NoError(t, err)

	// A now comments its old bug.
	old, err = bug.Read(repoA, old.Id())
	require.NoError(t, err)
	_, _, err = bug.AddComment(old, rene, 1235, "hello", nil, nil)
	require.NoError(t, err)
	require.NoError(t, old.Commit(repoA)) // accepted and committed

	_, err = bug.Read(repoA, old.Id())
	require.NoError(t, err, "the bug can't be read back after a commit that succeeded")
}
