// Place in: entities/bug/  (file name e.g. c04_a4_demo_test.go)
// Run:      go test -count=1 -timeout 120s -run TestC04A4 ./entities/bug/
//
// A signed pack is verified against the commit re-encoded by go-git (EncodeWithoutSignature of the
// *decoded* commit). go-git trims the spaces around the name when it decodes an author/committer
// line, so when the configured author.name / committer.name starts or ends with a space the
// re-encoded commit differs from the bytes that were signed: the signature check fails and the bug
// that was just committed can't be read by anybody.
package bug_test

import (
	"testing"

	"github.com/stretchr/testify/require"

	"github.com/MichaelMure/git-bug/entities/bug"
	"github.com/MichaelMure/git-bug/entities/identity"
	"github.com/MichaelMure/git-bug/repository"
)

func TestC04A4SignedCommitWithSpacesAroundGitAuthorName(t *testing.T) {
	for _, key := range []string{"author.name", "committer.name"} {
		for _, name := range []string{"John Doe", " John Doe", "John Doe "} {
			t.Run(key+"="+name, func(t *testing.T) {
				repo := repository.CreateGoGitTestRepo(t, false)
				// same as: git config author.name "John Doe "
				require.NoError(t, repo.LocalConfig().StoreString(key, name))

				rene, err := identity.NewIdentityFull(repo, "rene", "rene@example.com", "", "",
					[]*identity.Key{identity.GenerateKey()})
				require.NoError(t, err)
				require.NoError(t, rene.Commit(repo))

				b, _, err := bug.Create(rene, 1234, "title", "message", nil, nil)
				require.NoError(t, err)
				require.NoError(t, b.Commit(repo)) // accepted, signed and committed

				_, err = bug.Read(repo, b.Id())
				require.NoError(t, err, "the signed bug can't be read back")
			})
		}
	}
}
