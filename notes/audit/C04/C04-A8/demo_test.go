// Place in: entities/bug/  (file name e.g. c04_a8_demo_test.go)
// Run:      go test -count=1 -timeout 120s -run TestC04A8 ./entities/bug/
//
// Entity.Commit() writes its packs on top of the commit the object was loaded at (e.lastCommit) and
// then unconditionally moves refs/bugs/<id> to its own last commit. If the reference moved in the
// meantime (another object of the same bug committed, or a pull fast-forwarded / merged the bug),
// the operations that were committed there are silently dropped from the bug: they were accepted
// and committed, and can't be read back anymore.
package bug_test

import (
	"testing"

	"github.com/stretchr/testify/require"

	"github.com/MichaelMure/git-bug/entities/bug"
	"github.com/MichaelMure/git-bug/entities/identity"
	"github.com/MichaelMure/git-bug/entity"
	"github.com/MichaelMure/git-bug/repository"
)

func c04a8Resolvers(repo repository.ClockedRepo) entity.Resolvers {
	return entity.Resolvers{
		&identity.Identity{}: identity.NewSimpleResolver(repo),
	}
}

func c04a8HasOp(b *bug.Bug, id entity.Id) bool {
	for _, op := range b.Operations() {
		if op.Id() == id {
			return true
		}
	}
	return false
}

// two objects of the same bug in one repository
func TestC04A8TwoHandlesOfTheSameBug(t *testing.T) {
	repo := repository.CreateGoGitTestRepo(t, false)
	rene, err := identity.NewIdentity(repo, "rene", "rene@example.com")
	require.NoError(t, err)
	require.NoError(t, rene.Commit(repo))

	b, _, err := bug.Create(rene, 1234, "title", "message", nil, nil)
	require.NoError(t, err)
	require.NoError(t, b.Commit(repo))

	h1, err := bug.Read(repo, b.Id())
	require.NoError(t, err)
	h2, err := bug.Read(repo, b.Id())
	require.NoError(t, err)

	_, op1, err := bug.AddComment(h1, rene, 1235, "first", nil, nil)
	require.NoError(t, err)
	require.NoError(t, h1.Commit(repo)) // accepted and committed

	_, op2, err := bug.AddComment(h2, rene, 1236, "second", nil, nil)
	require.NoError(t, err)
	errCommit2 := h2.Commit(repo) // refusing (stale object) would be fine
	if errCommit2 != nil {
		t.Logf("second commit refused: %v", errCommit2)
	}

	r, err := bug.Read(repo, b.Id())
	require.NoError(t, err)
	require.True(t, c04a8HasOp(r, op1.Id()), "the comment accepted and committed through the first object can't be read back anymore")
	if errCommit2 == nil {
		require.True(t, c04a8HasOp(r, op2.Id()))
	}
}

// a long-lived object used after a pull updated the bug
func TestC04A8LongLivedObjectAfterPull(t *testing.T) {
	repoA, repoB, _ := repository.SetupGoGitReposAndRemote(t)
	rene, err := identity.NewIdentity(repoA, "rene", "rene@example.com")
	require.NoError(t, err)
	require.NoError(t, rene.Commit(repoA))
	_, err = identity.Push(repoA, "origin")
	require.NoError(t, err)
	require.NoError(t, identity.Pull(repoB, "origin"))

	b, _, err := bug.Create(rene, 1234, "title", "message", nil, nil)
	require.NoError(t, err)
	require.NoError(t, b.Commit(repoA))
	_, err = bug.Push(repoA, "origin")
	require.NoError(t, err)
	require.NoError(t, bug.Pull(repoB, c04a8Resolvers(repoB), "origin", rene))

	// B comments and pushes
	bb, err := bug.Read(repoB, b.Id())
	require.NoError(t, err)
	_, opB, err := bug.AddComment(bb, rene, 1235, "from B", nil, nil)
	require.NoError(t, err)
	require.NoError(t, bb.Commit(repoB))
	_, err = bug.Push(repoB, "origin")
	require.NoError(t, err)

	// A pulls (fast-forward): B's comment is now part of the bug in A
	require.NoError(t, bug.Pull(repoA, c04a8Resolvers(repoA), "origin", rene))
	r, err := bug.Read(repoA, b.Id())
	require.NoError(t, err)
	require.True(t, c04a8HasOp(r, opB.Id()))

	// A still holds b (loaded before the pull) and comments through it
	_, _, err = bug.AddComment(b, rene, 1236, "from A", nil, nil)
	require.NoError(t, err)
	if err := b.Commit(repoA); err != nil {
		t.Logf("commit refused: %v", err)
	}

	r, err = bug.Read(repoA, b.Id())
	require.NoError(t, err)
	require.True(t, c04a8HasOp(r, opB.Id()), "the operation committed by B and pulled in A can't be read in A anymore")
}
