// Place in: entities/bug/  (file name e.g. c04_a1_demo_test.go)
// Run:      go test -count=1 -timeout 120s -run TestC04A1 ./entities/bug/
//
// Strings that are not valid UTF-8 pass every Validate() (text.Safe / text.SafeOneLine range over
// the string and see U+FFFD, which is not a control character; the metadata of an operation is not
// checked at all). encoding/json silently replaces the invalid bytes with U+FFFD when the pack is
// written, so what is read back is not what was accepted and committed.
package bug_test

import (
	"testing"

	"github.com/stretchr/testify/require"

	"github.com/MichaelMure/git-bug/entities/bug"
	"github.com/MichaelMure/git-bug/entities/identity"
	"github.com/MichaelMure/git-bug/repository"
)

func TestC04A1InvalidUTF8IsAcceptedButNotPreserved(t *testing.T) {
	repo := repository.CreateGoGitTestRepo(t, false)
	rene, err := identity.NewIdentity(repo, "rene", "rene@example.com")
	require.NoError(t, err)
	require.NoError(t, rene.Commit(repo))

	title := "title \xff end"
	msg := "message \xc3\x28 end"
	b, op, err := bug.Create(rene, 1234, title, msg, nil, map[string]string{"k\xfe": "v\xfd"})
	require.NoError(t, err) // accepted
	_, lop, err := bug.ChangeLabels(b, rene, 1235, []string{"lab\xffel"}, nil, nil)
	require.NoError(t, err)            // accepted
	require.NoError(t, b.Validate())   // valid
	require.NoError(t, b.Commit(repo)) // committed

	rb, err := bug.Read(repo, b.Id())
	require.NoError(t, err)
	rop := rb.FirstOp().(*bug.CreateOperation)
	require.Equal(t, op.Id(), rop.Id())

	require.Equal(t, op.Title, rop.Title, "title is not preserved")
	require.Equal(t, op.Message, rop.Message, "message is not preserved")
	require.Equal(t, op.AllMetadata(), rop.AllMetadata(), "metadata are not preserved")
	require.Equal(t, lop.Added, rb.Operations()[1].(*bug.LabelChangeOperation).Added, "label is not preserved")
}
