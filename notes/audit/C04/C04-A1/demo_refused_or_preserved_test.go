package bug_test

import (
	"testing"

	"github.com/stretchr/testify/require"

	"github.com/MichaelMure/git-bug/entities/bug"
	"github.com/MichaelMure/git-bug/entities/identity"
	"github.com/MichaelMure/git-bug/repository"
)

// the audit's A1 demonstration with its stated expectation: each value is either refused, or read back byte for byte
func TestC04A1bEitherRefusedOrPreserved(t *testing.T) {
	repo := repository.CreateGoGitTestRepo(t, false)
	rene, err := identity.NewIdentity(repo, "rene", "rene@example.com")
	require.NoError(t, err)
	require.NoError(t, rene.Commit(repo))

	refused := 0
	for _, c := range []struct {
		title, msg string
		meta       map[string]string
	}{
		{"title \xff end", "message", nil},
		{"title", "message \xc3\x28 end", nil},
		{"title", "message", map[string]string{"k\xfe": "v"}},
		{"title", "message", map[string]string{"k": "v\xfd"}},
		{"title ok é", "message ok �", map[string]string{"k": "v"}},
	} {
		b, op, err := bug.Create(rene, 1234, c.title, c.msg, nil, c.meta)
		if err != nil {
			refused++
			continue
		}
		require.NoError(t, b.Commit(repo))
		rb, err := bug.Read(repo, b.Id())
		require.NoError(t, err)
		rop := rb.FirstOp().(*bug.CreateOperation)
		require.Equal(t, op.Title, rop.Title)
		require.Equal(t, op.Message, rop.Message)
		require.Equal(t, op.AllMetadata(), rop.AllMetadata())
	}
	require.Equal(t, 4, refused)
	b, _, err := bug.Create(rene, 1234, "t", "m", nil, nil)
	require.NoError(t, err)
	_, _, err = bug.ChangeLabels(b, rene, 1235, []string{"lab\xffel"}, nil, nil)
	require.Error(t, err)
	bad, err := identity.NewIdentity(repo, "na\xffme", "x@example.com")
	require.NoError(t, err)
	require.Error(t, bad.Commit(repo))
}
