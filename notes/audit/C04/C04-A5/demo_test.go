// Place in: entities/bug/  (file name e.g. c04_a5_demo_test.go)
// Run:      go test -count=1 -timeout 120s -run TestC04A5 ./entities/bug/
//
// Commit() only checks op.Author().Validate(), not that the author (in the state used to write and
// sign the pack) is stored in the repository. The pack only stores the id of the author and the
// reader resolves it from the repository: with an author that has never been committed, or whose
// last version (new keys) is not committed, the pack that Commit() wrote can't be read back.
package bug_test

import (
	"testing"

	"github.com/stretchr/testify/require"

	"github.com/MichaelMure/git-bug/entities/bug"
	"github.com/MichaelMure/git-bug/entities/identity"
	"github.com/MichaelMure/git-bug/repository"
)

func TestC04A5AuthorNeverCommitted(t *testing.T) {
	repo := repository.CreateGoGitTestRepo(t, false)
	rene, err := identity.NewIdentity(repo, "rene", "rene@example.com")
	require.NoError(t, err)
	require.True(t, rene.NeedCommit())

	b, _, err := bug.Create(rene, 1234, "title", "message", nil, nil)
	require.NoError(t, err)
	if err := b.Commit(repo); err != nil {
		t.Logf("commit refused, fine: %v", err)
		return
	}

	_, err = bug.Read(repo, b.Id())
	require.NoError(t, err, "committed bug can't be read back")
}

func TestC04A5AuthorWithUncommittedKeyRotation(t *testing.T) {
	repo := repository.CreateGoGitTestRepo(t, false)
	rene, err := identity.NewIdentityFull(repo, "rene", "rene@example.com", "", "",
		[]*identity.Key{identity.GenerateKey()})
	require.NoError(t, err)
	require.NoError(t, rene.Commit(repo))

	b0, _, err := bug.Create(rene, 1234, "title0", "message", nil, nil)
	require.NoError(t, err)
	require.NoError(t, b0.Commit(repo))
	_, err = bug.Read(repo, b0.Id())
	require.NoError(t, err)

	// new version of the identity with another key, not committed yet
	require.NoError(t, rene.Mutate(repo, func(m *identity.Mutator) {
		m.Keys = []*identity.Key{identity.GenerateKey()}
	}))
	require.True(t, rene.NeedCommit())

	b, _, err := bug.Create(rene, 1234, "title", "message", nil, nil)
	require.NoError(t, err)
	if err := b.Commit(repo); err != nil {
		t.Logf("commit refused, fine: %v", err)
		return
	}

	_, err = bug.Read(repo, b.Id())
	require.NoError(t, err, "committed bug can't be read back")
}
