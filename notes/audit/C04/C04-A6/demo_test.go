// Place in: entities/identity/  (file name e.g. c04_a6_demo_test.go)
// Run:      go test -count=1 -timeout 120s -run TestC04A6 ./entities/identity/
//
// version.Clone() does `clone := *v`, which copies the *reference* of the metadata map ("not copying
// metadata" says the comment, but the map is shared). Identity.SetMetadata() clones the last version
// when it can't be changed anymore (already committed, or Id() already handed out) and then writes
// into the clone's map, i.e. also into the map of the version that had to stay immutable.
package identity_test

import (
	"testing"

	"github.com/stretchr/testify/require"

	"github.com/MichaelMure/git-bug/entities/identity"
	"github.com/MichaelMure/git-bug/repository"
)

// the id handed out before the commit is not the id of the stored identity
func TestC04A6IdentityIdChangesAtCommit(t *testing.T) {
	repo := repository.CreateGoGitTestRepo(t, false)
	i, err := identity.NewIdentity(repo, "rene", "rene@example.com")
	require.NoError(t, err)
	i.SetMetadata("a", "1")
	idBefore := i.Id()
	i.SetMetadata("b", "2") // Id() was called: goes in a second version ... sharing the map of the first
	require.Equal(t, idBefore, i.Id())

	require.NoError(t, i.Commit(repo))

	require.Equal(t, idBefore, i.Id(), "the id of the identity changed when it was committed")
	_, err = identity.ReadLocal(repo, idBefore)
	require.NoError(t, err)
}

// a committed version is altered in memory: the long-lived object and the stored identity differ
func TestC04A6CommittedVersionMetadataAltered(t *testing.T) {
	repo := repository.CreateGoGitTestRepo(t, false)
	i, err := identity.NewIdentity(repo, "rene", "rene@example.com")
	require.NoError(t, err)
	i.SetMetadata("a", "1")
	require.NoError(t, i.Commit(repo))
	require.Equal(t, "1", i.ImmutableMetadata()["a"])

	i.SetMetadata("a", "2") // new version, the first one is committed and immutable
	require.NoError(t, i.Commit(repo))

	r, err := identity.ReadLocal(repo, i.Id())
	require.NoError(t, err)
	require.Equal(t, map[string]string{"a": "1"}, r.ImmutableMetadata())
	require.Equal(t, r.ImmutableMetadata(), i.ImmutableMetadata(),
		"the committed object and the identity read back disagree on the immutable metadata")
	require.Equal(t, r.MutableMetadata(), i.MutableMetadata())
}
