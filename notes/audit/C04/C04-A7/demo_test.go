// Place in: entities/bug/  (file name e.g. c04_a7_demo_test.go)
// Run:      go test -count=1 -timeout 120s -run TestC04A7 ./entities/bug/
//
// The hash of an attached file is only checked for its syntax. An operation that references a blob
// which is not in the repository (wrong hash, blob stored in another repository, 64 hex digit hash in
// a sha1 repository ...) is accepted and committed: the "extra" tree of the pack then points to a
// missing object. Nothing is "stored with it", and the push of the bugs (all of them, the refspec
// is refs/bugs/*) never completes: go-git fails to build the pack file and then waits forever for
// git-receive-pack, so neither this bug nor any other reaches another replica anymore.
package bug_test

import (
	"testing"
	"time"

	"github.com/stretchr/testify/require"

	"github.com/MichaelMure/git-bug/entities/bug"
	"github.com/MichaelMure/git-bug/entities/identity"
	"github.com/MichaelMure/git-bug/entity"
	"github.com/MichaelMure/git-bug/repository"
)

func c04a7Resolvers(repo repository.ClockedRepo) entity.Resolvers {
	return entity.Resolvers{
		&identity.Identity{}: identity.NewSimpleResolver(repo),
	}
}

func TestC04A7FileThatIsNotInTheRepository(t *testing.T) {
	repoA, repoB, _ := repository.SetupGoGitReposAndRemote(t)
	rene, err := identity.NewIdentity(repoA, "rene", "rene@example.com")
	require.NoError(t, err)
	require.NoError(t, rene.Commit(repoA))
	_, err = identity.Push(repoA, "origin")
	require.NoError(t, err)
	require.NoError(t, identity.Pull(repoB, "origin"))

	// syntactically valid, but there is no such blob in repoA
	missing := repository.Hash("0123456789012345678901234567890123456789")
	_, err = repoA.ReadData(missing)
	require.Error(t, err)

	b, _, err := bug.Create(rene, 1234, "title", "message", []repository.Hash{missing}, nil)
	if err != nil {
		t.Logf("refused, fine: %v", err)
		return
	}
	if err := b.Commit(repoA); err != nil {
		t.Logf("commit refused, fine: %v", err)
		return
	}

	// accepted and committed: the content of the file has to be stored with it ...
	rb, err := bug.Read(repoA, b.Id())
	require.NoError(t, err)
	for _, f := range rb.FirstOp().(*bug.CreateOperation).Files {
		_, err := repoA.ReadData(f)
		// (reported, but let the test go on to the push)
		if err != nil {
			t.Errorf("content of attached file %s is not stored with the committed bug: %v", f, err)
		}
	}

	// ... and travel with every push and pull
	done := make(chan error, 1)
	go func() {
		_, err := bug.Push(repoA, "origin")
		done <- err
	}()
	select {
	case err := <-done:
		require.NoError(t, err, "the committed bug can't be pushed")
	case <-time.After(30 * time.Second):
		t.Fatal("the push of the committed bug hangs (the goroutine stays blocked in go-git, waiting for git-receive-pack)")
	}
	require.NoError(t, bug.Pull(repoB, c04a7Resolvers(repoB), "origin", rene))
	_, err = bug.Read(repoB, b.Id())
	require.NoError(t, err)
}
