// Place in: entities/bug/  (file name e.g. c04_a2_demo_test.go)
// Run:      go test -count=1 -timeout 120s -run TestC04A2 ./entities/bug/
//
// Bug embeds *dag.Entity and only overrides Validate(): Bug.Commit() is dag.Entity.Commit(), which
// calls dag.Entity.Validate() and never the checks of Bug.Validate() (first operation is a Create,
// only one Create). The read side (Bug.Validate(), used by merge on every pull) does apply them: the
// write side accepts and commits what the read side refuses.
package bug_test

import (
	"testing"

	"github.com/stretchr/testify/require"

	"github.com/MichaelMure/git-bug/entities/bug"
	"github.com/MichaelMure/git-bug/entities/identity"
	"github.com/MichaelMure/git-bug/entity"
	"github.com/MichaelMure/git-bug/repository"
)

func c04a2Resolvers(repo repository.ClockedRepo) entity.Resolvers {
	return entity.Resolvers{
		&identity.Identity{}: identity.NewSimpleResolver(repo),
	}
}

func c04a2Check(t *testing.T, make func(author identity.Interface) *bug.Bug) {
	repoA, repoB, _ := repository.SetupGoGitReposAndRemote(t)
	rene, err := identity.NewIdentity(repoA, "rene", "rene@example.com")
	require.NoError(t, err)
	require.NoError(t, rene.Commit(repoA))

	b := make(rene)
	if err := b.Commit(repoA); err != nil {
		// refusing is fine: nothing has been committed
		t.Logf("commit refused: %v", err)
		return
	}

	// accepted and committed: it has to read back, valid, here and on another replica
	rb, err := bug.Read(repoA, b.Id())
	require.NoError(t, err)
	require.NoError(t, rb.Validate(), "what Commit() accepted doesn't pass validation once read back")

	_, err = identity.Push(repoA, "origin")
	require.NoError(t, err)
	_, err = bug.Push(repoA, "origin")
	require.NoError(t, err)
	require.NoError(t, identity.Pull(repoB, "origin"))
	require.NoError(t, bug.Pull(repoB, c04a2Resolvers(repoB), "origin", rene))
	_, err = bug.Read(repoB, b.Id())
	require.NoError(t, err)
}

func TestC04A2BugWithoutCreateOp(t *testing.T) {
	c04a2Check(t, func(author identity.Interface) *bug.Bug {
		b := bug.NewBug()
		_, _, err := bug.AddComment(b, author, 1234, "hello", nil, nil)
		require.NoError(t, err)
		return b
	})
}

func TestC04A2BugWithTwoCreateOps(t *testing.T) {
	c04a2Check(t, func(author identity.Interface) *bug.Bug {
		b, _, err := bug.Create(author, 1234, "title", "message", nil, nil)
		require.NoError(t, err)
		b.Append(bug.NewCreateOp(author, 1235, "title2", "message2", nil))
		return b
	})
}
