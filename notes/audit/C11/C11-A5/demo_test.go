// Property C11, confirmed violation A5.
// Place this file in the package directory cache/ (it is an in-package test: package cache) as
// cache/c11_a5_demo_test.go and run:
//
//	GOFLAGS=-mod=mod go test -count=1 ./cache -run TestC11A5_
//
// It FAILS on the unchanged tree; it compares what the live cache serves with what a second
// RepoCache, built on a copy of the git data without cache directory and index, serves.
package cache

import (
	"fmt"
	"github.com/stretchr/testify/assert"
	"github.com/stretchr/testify/require"
	"os"
	"os/exec"
	"path/filepath"
	"sort"
	"strings"
	"testing"

	"github.com/MichaelMure/git-bug/entities/identity"
	"github.com/MichaelMure/git-bug/entity"
	"github.com/MichaelMure/git-bug/query"
	"github.com/MichaelMure/git-bug/repository"
)

var _ = identity.Namespace

// Memory pressure: an identity which authored a loaded bug is evicted, then loaded again (a second
// object), then edited. The loaded bug still points to the first object: the resolved bug state
// shows the old name. Eviction needs a small cache size, which only the package can set
// (setCacheSize, as TestCacheEviction does; 1000 entities otherwise).
func TestC11A5_EvictedIdentityEditedThroughSecondInstance(t *testing.T) {
	repo := repository.CreateGoGitTestRepo(t, false)
	c, err := NewRepoCacheNoEvents(repo)
	require.NoError(t, err)
	rene, err := c.Identities().New("rene", "rene@d.fr")
	require.NoError(t, err)
	require.NoError(t, c.SetUserIdentity(rene))
	other, err := c.Identities().New("other", "other@d.fr")
	require.NoError(t, err)
	b, _, err := c.Bugs().New("title", "message")
	require.NoError(t, err)
	bugId := b.Id()
	require.NoError(t, c.Close())

	c, err = NewRepoCacheNoEvents(repo)
	require.NoError(t, err)
	defer c.Close()
	c.setCacheSize(1)

	_, err = c.Bugs().Resolve(bugId) // loads rene as well
	require.NoError(t, err)
	_, err = c.Identities().Resolve(other.Id()) // evicts rene
	require.NoError(t, err)
	checkA5(t, "after the loads", c, repo)

	me, err := c.GetUserIdentity()
	require.NoError(t, err)
	require.NoError(t, me.Mutate(repo, func(m *identity.Mutator) { m.Name = "rene descartes" }))
	require.NoError(t, me.Commit())

	checkA5(t, "after the edit of the identity", c, repo)
}

// rebuiltA5 opens a cache rebuilt from scratch (no cache files, no search index) on a copy of the git data of repo
func rebuiltA5(t *testing.T, repo repository.TestedRepo) *RepoCache {
	t.Helper()
	src := repo.GetLocalRemote() // path of the .git directory
	dst := filepath.Join(t.TempDir(), "copy")
	require.NoError(t, os.MkdirAll(dst, 0o755))
	out, err := exec.Command("cp", "-a", src, filepath.Join(dst, ".git")).CombinedOutput()
	require.NoError(t, err, string(out))
	for _, sub := range []string{"cache", "indexes", "lock"} {
		require.NoError(t, os.RemoveAll(filepath.Join(dst, ".git", "git-bug", sub)))
	}
	r, err := repository.OpenGoGitRepo(dst, "git-bug", nil)
	require.NoError(t, err)
	c, err := NewRepoCacheNoEvents(r)
	require.NoError(t, err)
	t.Cleanup(func() { _ = c.Close() })
	return c
}

// viewA5 is a printable summary of what a cache serves: excerpts, resolved identities and bugs,
// known labels, query results and search hits
func viewA5(t *testing.T, c *RepoCache, searches ...string) []string {
	t.Helper()
	var res []string
	human := func(ids []entity.Id) []string {
		r := make([]string, len(ids))
		for i, id := range ids {
			r[i] = id.Human()
		}
		return r
	}
	flat := func(m map[string]string) string {
		var keys []string
		for k := range m {
			keys = append(keys, k)
		}
		sort.Strings(keys)
		var sb strings.Builder
		for _, k := range keys {
			sb.WriteString(k + "=" + m[k] + ";")
		}
		return sb.String()
	}

	ids := c.Identities().AllIds()
	sort.Slice(ids, func(i, j int) bool { return ids[i] < ids[j] })
	for _, id := range ids {
		ex, err := c.Identities().ResolveExcerpt(id)
		require.NoError(t, err)
		res = append(res, fmt.Sprintf("identity-excerpt %s name=%q login=%q meta=%s", id.Human(), ex.Name, ex.Login, flat(ex.ImmutableMetadata)))
		i, err := c.Identities().Resolve(id)
		require.NoError(t, err)
		res = append(res, fmt.Sprintf("identity %s name=%q email=%q login=%q meta=%s", id.Human(), i.Name(), i.Email(), i.Login(), flat(i.ImmutableMetadata())))
	}

	bugs := c.Bugs().AllIds()
	sort.Slice(bugs, func(i, j int) bool { return bugs[i] < bugs[j] })
	for _, id := range bugs {
		ex, err := c.Bugs().ResolveExcerpt(id)
		require.NoError(t, err)
		res = append(res, fmt.Sprintf("bug-excerpt %s title=%q status=%v labels=%v ncomments=%d author=%s actors=%v participants=%v createL=%d editL=%d meta=%s",
			id.Human(), ex.Title, ex.Status, ex.Labels, ex.LenComments, ex.AuthorId.Human(), human(ex.Actors), human(ex.Participants),
			ex.CreateLamportTime, ex.EditLamportTime, flat(ex.CreateMetadata)))
		b, err := c.Bugs().Resolve(id)
		require.NoError(t, err)
		snap := b.Snapshot()
		var comments []string
		for _, cm := range snap.Comments {
			comments = append(comments, fmt.Sprintf("%s:%q", cm.Author.Name(), cm.Message))
		}
		res = append(res, fmt.Sprintf("bug %s title=%q status=%v labels=%v author=%q comments=%v nops=%d",
			id.Human(), snap.Title, snap.Status, snap.Labels, snap.Author.Name(), comments, len(snap.Operations)))
	}

	res = append(res, fmt.Sprintf("labels %v", c.Bugs().ValidLabels()))

	for _, qs := range append([]string{"status:open", "no:label"}, searches...) {
		q, err := query.Parse(qs)
		require.NoError(t, err)
		r, err := c.Bugs().Query(q)
		require.NoError(t, err)
		sort.Slice(r, func(i, j int) bool { return r[i] < r[j] })
		res = append(res, fmt.Sprintf("query %q -> %v", qs, human(r)))
	}
	return res
}

// checkA5 compares what the live cache serves with what a cache rebuilt from the git data serves
func checkA5(t *testing.T, what string, live *RepoCache, repo repository.TestedRepo, searches ...string) {
	t.Helper()
	want := viewA5(t, rebuiltA5(t, repo), searches...)
	got := viewA5(t, live, searches...)
	if !assert.ObjectsAreEqual(want, got) {
		t.Errorf("%s: the cache disagrees with a cache rebuilt from the git data\nrebuilt: %s\nserved:  %s",
			what, strings.Join(want, "\n         "), strings.Join(got, "\n         "))
	}
}
