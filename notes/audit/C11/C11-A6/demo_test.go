// Property C11, confirmed violation A6.
// Place this file in the package directory cache/ (it is an in-package test: package cache) as
// cache/c11_a6_demo_test.go and run:
//
//	GOFLAGS=-mod=mod go test -count=1 ./cache -run TestC11A6_
//
// It FAILS on the unchanged tree; it compares what the live cache serves with what a second
// RepoCache, built on a copy of the git data without cache directory and index, serves.
package cache

import (
	"fmt"
	"github.com/stretchr/testify/assert"
	"github.com/stretchr/testify/require"
	"os"
	"os/exec"
	"path/filepath"
	"sort"
	"strings"
	"testing"

	"github.com/MichaelMure/git-bug/entities/identity"
	"github.com/MichaelMure/git-bug/entity"
	"github.com/MichaelMure/git-bug/query"
	"github.com/MichaelMure/git-bug/repository"
)

var _ = identity.Namespace

// A (re)build of the cache reads identities and bugs concurrently. Reading the first bug resolves
// its authors through the identity sub-cache, which loads them; the build of the identities then
// overwrites these entries of the loaded set with other objects. From then on the cache has two
// objects for one identity: the bugs point to the first, the cache hands out and edits the second.
// An identity edited later in the session keeps its old name in the resolved state of these bugs.
// (Depends on the schedule, but the bug reader starts while the identity index is being wiped, so
// it fails on every run here.)
func TestC11A6_BuildMakesTwoInstancesOfAnIdentity(t *testing.T) {
	repo := repository.CreateGoGitTestRepo(t, false)
	c, err := NewRepoCacheNoEvents(repo)
	require.NoError(t, err)
	rene, err := c.Identities().New("rene", "rene@d.fr")
	require.NoError(t, err)
	require.NoError(t, c.SetUserIdentity(rene))
	b, _, err := c.Bugs().New("title", "message")
	require.NoError(t, err)
	bugId, reneId := b.Id(), rene.Id()
	require.NoError(t, c.Close())

	// no cache files (fresh clone, new cache format, ...): the cache is built
	require.NoError(t, os.RemoveAll(filepath.Join(repo.GetLocalRemote(), "git-bug", "cache")))
	c, err = NewRepoCacheNoEvents(repo)
	require.NoError(t, err)
	defer c.Close()
	checkA6(t, "after the build", c, repo)

	me, err := c.Identities().Resolve(reneId)
	require.NoError(t, err)
	lb, err := c.Bugs().Resolve(bugId)
	require.NoError(t, err)
	if author, ok := lb.Snapshot().Author.(*IdentityCache); ok && author != me {
		t.Errorf("two objects for identity %s: %p in the bug, %p in the cache", reneId.Human(), author, me)
	}

	require.NoError(t, me.Mutate(repo, func(m *identity.Mutator) { m.Name = "rene descartes" }))
	require.NoError(t, me.Commit())
	checkA6(t, "after the edit of the identity", c, repo)
}

// rebuiltA6 opens a cache rebuilt from scratch (no cache files, no search index) on a copy of the git data of repo
func rebuiltA6(t *testing.T, repo repository.TestedRepo) *RepoCache {
	t.Helper()
	src := repo.GetLocalRemote() // path of the .git directory
	dst := filepath.Join(t.TempDir(), "copy")
	require.NoError(t, os.MkdirAll(dst, 0o755))
	out, err := exec.Command("cp", "-a", src, filepath.Join(dst, ".git")).CombinedOutput()
	require.NoError(t, err, string(out))
	for _, sub := range []string{"cache", "indexes", "lock"} {
		require.NoError(t, os.RemoveAll(filepath.Join(dst, ".git", "git-bug", sub)))
	}
	r, err := repository.OpenGoGitRepo(dst, "git-bug", nil)
	require.NoError(t, err)
	c, err := NewRepoCacheNoEvents(r)
	require.NoError(t, err)
	t.Cleanup(func() { _ = c.Close() })
	return c
}

// viewA6 is a printable summary of what a cache serves: excerpts, resolved identities and bugs,
// known labels, query results and search hits
func viewA6(t *testing.T, c *RepoCache, searches ...string) []string {
	t.Helper()
	var res []string
	human := func(ids []entity.Id) []string {
		r := make([]string, len(ids))
		for i, id := range ids {
			r[i] = id.Human()
		}
		return r
	}
	flat := func(m map[string]string) string {
		var keys []string
		for k := range m {
			keys = append(keys, k)
		}
		sort.Strings(keys)
		var sb strings.Builder
		for _, k := range keys {
			sb.WriteString(k + "=" + m[k] + ";")
		}
		return sb.String()
	}

	ids := c.Identities().AllIds()
	sort.Slice(ids, func(i, j int) bool { return ids[i] < ids[j] })
	for _, id := range ids {
		ex, err := c.Identities().ResolveExcerpt(id)
		require.NoError(t, err)
		res = append(res, fmt.Sprintf("identity-excerpt %s name=%q login=%q meta=%s", id.Human(), ex.Name, ex.Login, flat(ex.ImmutableMetadata)))
		i, err := c.Identities().Resolve(id)
		require.NoError(t, err)
		res = append(res, fmt.Sprintf("identity %s name=%q email=%q login=%q meta=%s", id.Human(), i.Name(), i.Email(), i.Login(), flat(i.ImmutableMetadata())))
	}

	bugs := c.Bugs().AllIds()
	sort.Slice(bugs, func(i, j int) bool { return bugs[i] < bugs[j] })
	for _, id := range bugs {
		ex, err := c.Bugs().ResolveExcerpt(id)
		require.NoError(t, err)
		res = append(res, fmt.Sprintf("bug-excerpt %s title=%q status=%v labels=%v ncomments=%d author=%s actors=%v participants=%v createL=%d editL=%d meta=%s",
			id.Human(), ex.Title, ex.Status, ex.Labels, ex.LenComments, ex.AuthorId.Human(), human(ex.Actors), human(ex.Participants),
			ex.CreateLamportTime, ex.EditLamportTime, flat(ex.CreateMetadata)))
		b, err := c.Bugs().Resolve(id)
		require.NoError(t, err)
		snap := b.Snapshot()
		var comments []string
		for _, cm := range snap.Comments {
			comments = append(comments, fmt.Sprintf("%s:%q", cm.Author.Name(), cm.Message))
		}
		res = append(res, fmt.Sprintf("bug %s title=%q status=%v labels=%v author=%q comments=%v nops=%d",
			id.Human(), snap.Title, snap.Status, snap.Labels, snap.Author.Name(), comments, len(snap.Operations)))
	}

	res = append(res, fmt.Sprintf("labels %v", c.Bugs().ValidLabels()))

	for _, qs := range append([]string{"status:open", "no:label"}, searches...) {
		q, err := query.Parse(qs)
		require.NoError(t, err)
		r, err := c.Bugs().Query(q)
		require.NoError(t, err)
		sort.Slice(r, func(i, j int) bool { return r[i] < r[j] })
		res = append(res, fmt.Sprintf("query %q -> %v", qs, human(r)))
	}
	return res
}

// checkA6 compares what the live cache serves with what a cache rebuilt from the git data serves
func checkA6(t *testing.T, what string, live *RepoCache, repo repository.TestedRepo, searches ...string) {
	t.Helper()
	want := viewA6(t, rebuiltA6(t, repo), searches...)
	got := viewA6(t, live, searches...)
	if !assert.ObjectsAreEqual(want, got) {
		t.Errorf("%s: the cache disagrees with a cache rebuilt from the git data\nrebuilt: %s\nserved:  %s",
			what, strings.Join(want, "\n         "), strings.Join(got, "\n         "))
	}
}
