// Property C11, confirmed violation A4.
// Place this file in the package directory cache/ (it is an in-package test: package cache) as
// cache/c11_a4_demo_test.go and run:
//
//	GOFLAGS=-mod=mod go test -count=1 ./cache -run TestC11A4_
//
// It FAILS on the unchanged tree; it compares what the live cache serves with what a second
// RepoCache, built on a copy of the git data without cache directory and index, serves.
package cache

import (
	"fmt"
	"github.com/stretchr/testify/assert"
	"github.com/stretchr/testify/require"
	"os"
	"os/exec"
	"path/filepath"
	"sort"
	"strings"
	"testing"

	"github.com/MichaelMure/git-bug/entities/identity"
	"github.com/MichaelMure/git-bug/entity"
	"github.com/MichaelMure/git-bug/query"
	"github.com/MichaelMure/git-bug/repository"
)

var _ = identity.Namespace

// The IdentityCache object got from the cache before a pull (here the one returned by New, as in
// every session that creates or adopts its user) is replaced in the cache by the pull, but it still
// works: an edit made through it is committed on top of the history it knows. The version that was
// pulled is dropped from refs/identities/<id>, and the cache keeps serving the other object.
// (A BugCache in the same situation refuses the commit.)
func TestC11A4_IdentityEditAfterPullDropsMergedHistory(t *testing.T) {
	repoA, repoB, _ := repository.SetupGoGitReposAndRemote(t)
	cA, err := NewRepoCacheNoEvents(repoA)
	require.NoError(t, err)
	defer cA.Close()
	cB, err := NewRepoCacheNoEvents(repoB)
	require.NoError(t, err)
	defer cB.Close()

	rene, err := cA.Identities().New("rene", "rene@d.fr")
	require.NoError(t, err)
	require.NoError(t, cA.SetUserIdentity(rene))
	_, err = cA.Push("origin")
	require.NoError(t, err)
	userB, err := cB.Identities().New("userB", "b@d.fr")
	require.NoError(t, err)
	require.NoError(t, cB.SetUserIdentity(userB))
	require.NoError(t, cB.Pull("origin"))

	// the same person, on the other machine
	reneB, err := cB.Identities().Resolve(rene.Id())
	require.NoError(t, err)
	require.NoError(t, reneB.Mutate(repoB, func(m *identity.Mutator) { m.Name = "rene descartes" }))
	require.NoError(t, reneB.Commit())
	_, err = cB.Push("origin")
	require.NoError(t, err)

	require.NoError(t, cA.Pull("origin"))
	checkA4(t, "A after the pull", cA, repoA)

	// either the edit is refused, or it builds on the merged history
	err = rene.Mutate(repoA, func(m *identity.Mutator) { m.Email = "new@d.fr" })
	if err == nil {
		err = rene.Commit()
	}
	t.Log("edit through the object got before the pull:", err)
	checkA4(t, "A after the edit", cA, repoA)
	if err == nil {
		i, err := identity.ReadLocal(repoA, rene.Id())
		require.NoError(t, err)
		require.Equal(t, "rene descartes", i.Name(), "the version that was pulled is not in the git data anymore")
	}
}

// rebuiltA4 opens a cache rebuilt from scratch (no cache files, no search index) on a copy of the git data of repo
func rebuiltA4(t *testing.T, repo repository.TestedRepo) *RepoCache {
	t.Helper()
	src := repo.GetLocalRemote() // path of the .git directory
	dst := filepath.Join(t.TempDir(), "copy")
	require.NoError(t, os.MkdirAll(dst, 0o755))
	out, err := exec.Command("cp", "-a", src, filepath.Join(dst, ".git")).CombinedOutput()
	require.NoError(t, err, string(out))
	for _, sub := range []string{"cache", "indexes", "lock"} {
		require.NoError(t, os.RemoveAll(filepath.Join(dst, ".git", "git-bug", sub)))
	}
	r, err := repository.OpenGoGitRepo(dst, "git-bug", nil)
	require.NoError(t, err)
	c, err := NewRepoCacheNoEvents(r)
	require.NoError(t, err)
	t.Cleanup(func() { _ = c.Close() })
	return c
}

// viewA4 is a printable summary of what a cache serves: excerpts, resolved identities and bugs,
// known labels, query results and search hits
func viewA4(t *testing.T, c *RepoCache, searches ...string) []string {
	t.Helper()
	var res []string
	human := func(ids []entity.Id) []string {
		r := make([]string, len(ids))
		for i, id := range ids {
			r[i] = id.Human()
		}
		return r
	}
	flat := func(m map[string]string) string {
		var keys []string
		for k := range m {
			keys = append(keys, k)
		}
		sort.Strings(keys)
		var sb strings.Builder
		for _, k := range keys {
			sb.WriteString(k + "=" + m[k] + ";")
		}
		return sb.String()
	}

	ids := c.Identities().AllIds()
	sort.Slice(ids, func(i, j int) bool { return ids[i] < ids[j] })
	for _, id := range ids {
		ex, err := c.Identities().ResolveExcerpt(id)
		require.NoError(t, err)
		res = append(res, fmt.Sprintf("identity-excerpt %s name=%q login=%q meta=%s", id.Human(), ex.Name, ex.Login, flat(ex.ImmutableMetadata)))
		i, err := c.Identities().Resolve(id)
		require.NoError(t, err)
		res = append(res, fmt.Sprintf("identity %s name=%q email=%q login=%q meta=%s", id.Human(), i.Name(), i.Email(), i.Login(), flat(i.ImmutableMetadata())))
	}

	bugs := c.Bugs().AllIds()
	sort.Slice(bugs, func(i, j int) bool { return bugs[i] < bugs[j] })
	for _, id := range bugs {
		ex, err := c.Bugs().ResolveExcerpt(id)
		require.NoError(t, err)
		res = append(res, fmt.Sprintf("bug-excerpt %s title=%q status=%v labels=%v ncomments=%d author=%s actors=%v participants=%v createL=%d editL=%d meta=%s",
			id.Human(), ex.Title, ex.Status, ex.Labels, ex.LenComments, ex.AuthorId.Human(), human(ex.Actors), human(ex.Participants),
			ex.CreateLamportTime, ex.EditLamportTime, flat(ex.CreateMetadata)))
		b, err := c.Bugs().Resolve(id)
		require.NoError(t, err)
		snap := b.Snapshot()
		var comments []string
		for _, cm := range snap.Comments {
			comments = append(comments, fmt.Sprintf("%s:%q", cm.Author.Name(), cm.Message))
		}
		res = append(res, fmt.Sprintf("bug %s title=%q status=%v labels=%v author=%q comments=%v nops=%d",
			id.Human(), snap.Title, snap.Status, snap.Labels, snap.Author.Name(), comments, len(snap.Operations)))
	}

	res = append(res, fmt.Sprintf("labels %v", c.Bugs().ValidLabels()))

	for _, qs := range append([]string{"status:open", "no:label"}, searches...) {
		q, err := query.Parse(qs)
		require.NoError(t, err)
		r, err := c.Bugs().Query(q)
		require.NoError(t, err)
		sort.Slice(r, func(i, j int) bool { return r[i] < r[j] })
		res = append(res, fmt.Sprintf("query %q -> %v", qs, human(r)))
	}
	return res
}

// checkA4 compares what the live cache serves with what a cache rebuilt from the git data serves
func checkA4(t *testing.T, what string, live *RepoCache, repo repository.TestedRepo, searches ...string) {
	t.Helper()
	want := viewA4(t, rebuiltA4(t, repo), searches...)
	got := viewA4(t, live, searches...)
	if !assert.ObjectsAreEqual(want, got) {
		t.Errorf("%s: the cache disagrees with a cache rebuilt from the git data\nrebuilt: %s\nserved:  %s",
			what, strings.Join(want, "\n         "), strings.Join(got, "\n         "))
	}
}
