// C13-A1 demo. Place this file in the package directory cache/ (external test package cache_test)
// and run:  go test -count=1 -run TestC13ResolveCommentReturnsEvictedBug ./cache/
package cache_test

import (
	"fmt"
	"testing"
	"time"

	"github.com/stretchr/testify/require"

	"github.com/MichaelMure/git-bug/cache"
	"github.com/MichaelMure/git-bug/entity"
	"github.com/MichaelMure/git-bug/repository"
)

// A comment is addressed by a short prefix of its combined id. The prefix identifies a single
// comment, but its bug part (1 character) is shared by several bugs. ResolveComment must
// return that comment and a usable instance of its bug.
func TestC13ResolveCommentReturnsEvictedBug(t *testing.T) {
	repo := repository.CreateGoGitTestRepo(t, false)
	c, err := cache.NewRepoCacheNoEvents(repo)
	require.NoError(t, err)

	iden, err := c.Identities().New("a", "a@b.c")
	require.NoError(t, err)
	require.NoError(t, c.SetUserIdentity(iden))

	// engineered population: create bugs until 4 of them share the first character of their id
	byFirst := map[byte][]entity.Id{}
	var group []entity.Id
	for i := 0; group == nil; i++ {
		b, _, err := c.Bugs().New(fmt.Sprintf("bug %d", i), "message")
		require.NoError(t, err)
		for j := 0; j < 2; j++ {
			_, _, err = b.AddComment(fmt.Sprintf("comment %d", j))
			require.NoError(t, err)
		}
		require.NoError(t, b.Commit())
		k := b.Id()[0]
		byFirst[k] = append(byFirst[k], b.Id())
		if len(byFirst[k]) == 4 {
			group = byFirst[k]
		}
	}

	// pick, in this group, a comment whose 2 characters prefix (1 of the bug id, 1 of the
	// operation id) identifies it among all the comments of the repository
	type target struct {
		bug     entity.Id
		comment entity.CombinedId
	}
	count := map[string]int{}
	var all []target
	for _, id := range c.Bugs().AllIds() {
		b, err := c.Bugs().Resolve(id)
		require.NoError(t, err)
		for _, cm := range b.Snapshot().Comments {
			count[string(cm.CombinedId())[:2]]++
			all = append(all, target{bug: id, comment: cm.CombinedId()})
		}
	}
	var targets []target
	for _, tg := range all {
		if tg.bug[0] == group[0][0] && count[string(tg.comment)[:2]] == 1 {
			targets = append(targets, tg)
		}
	}
	require.NotEmpty(t, targets, "no comment with a unique 2 characters prefix, run again")

	require.NoError(t, c.Close())

	// the order in which the candidate bugs are visited is random: try several times
	for try := 0; try < 10; try++ {
		// a fresh process, with room for 2 loaded bugs
		c, err = cache.NewRepoCacheNoEvents(repo)
		require.NoError(t, err)
		c.Bugs().SetCacheSize(2)

		for _, tg := range targets {
			prefix := string(tg.comment)[:2]

			b, commentId, err := c.Bugs().ResolveComment(prefix)
			require.NoError(t, err)
			require.Equal(t, tg.comment, commentId)
			require.Equal(t, tg.bug, b.Id())

			// the bug has to be usable, e.g. to edit the comment as "git bug comment edit" does
			done := make(chan error, 1)
			go func() {
				_, err := b.EditComment(commentId, "edited")
				done <- err
			}()
			select {
			case err := <-done:
				require.NoError(t, err)
				require.NoError(t, b.Commit())
			case <-time.After(20 * time.Second):
				t.Fatalf("ResolveComment(%q) returned an evicted bug %s: it is locked forever, "+
					"editing the resolved comment never returns", prefix, b.Id().Human())
			}
		}

		require.NoError(t, c.Close())
	}
}
