// C13-A2 demo. Place this file in the package directory commands/bug/ (package bugcmd)
// and run:  go test -count=1 -run TestC13UnknownBugIdActsOnSelectedBug ./commands/bug/
package bugcmd

import (
	"testing"

	"github.com/stretchr/testify/require"

	"github.com/MichaelMure/git-bug/commands/bug/testenv"
	"github.com/MichaelMure/git-bug/entities/common"
	"github.com/MichaelMure/git-bug/entity"
)

// Bug A is selected. Bug B is addressed by its full id (the only argument that "git bug status
// close [BUG_ID]" accepts) after it has been removed: no bug matches, the command has to
// report that the bug doesn't exist. Instead, it silently closes the selected bug A.
func TestC13UnknownBugIdActsOnSelectedBug(t *testing.T) {
	env, idA := testenv.NewTestEnvAndBug(t)

	b, _, err := env.Backend.Bugs().New("another bug", "message")
	require.NoError(t, err)
	idB := b.Id()

	require.NoError(t, runBugSelect(env, []string{idA.String()}))
	require.NoError(t, runBugRm(env, []string{idB.String()}))

	// sanity: the id of B matches no bug anymore
	_, err = env.Backend.Bugs().ResolvePrefix(idB.String())
	require.True(t, entity.IsErrNotFound(err))

	err = runBugStatusClose(env, []string{idB.String()})

	a, errA := env.Backend.Bugs().Resolve(idA)
	require.NoError(t, errA)
	require.Equal(t, common.OpenStatus, a.Snapshot().Status,
		"addressing the unknown bug %s closed the bug %s", idB.Human(), idA.Human())
	require.Error(t, err, "addressing a bug by an id that matches no bug must fail")
}
