// Place this file in entities/bug/ (package bug_test) and run:
//   go test -count=1 -run TestC01A3 ./entities/bug/
//
// C01-A3: an author works from two replicas. On replica A he declares a first signing key; on
// replica B, which has not pulled that new identity version yet, he concurrently adds a comment
// (legitimately unsigned). Once both replicas have exchanged identities and bugs, the comment
// "falls under" the key (its edit Lamport time is >= the Lamport time recorded in the identity
// version): A refuses the bug for ever ("signature failure: missing signature") and B cannot
// read its own bug anymore.
package bug_test

import (
	"testing"

	"github.com/stretchr/testify/require"

	"github.com/MichaelMure/git-bug/entities/bug"
	"github.com/MichaelMure/git-bug/entities/identity"
	"github.com/MichaelMure/git-bug/entity"
	"github.com/MichaelMure/git-bug/repository"
)

func c01a3Resolvers(repo repository.ClockedRepo) entity.Resolvers {
	return entity.Resolvers{
		&identity.Identity{}: identity.NewSimpleResolver(repo),
	}
}

func c01a3Ops(t *testing.T, repo repository.ClockedRepo, id entity.Id) []entity.Id {
	t.Helper()
	b, err := bug.Read(repo, id)
	require.NoError(t, err, "the bug must stay readable")
	var ids []entity.Id
	for _, op := range b.Operations() {
		ids = append(ids, op.Id())
	}
	return ids
}

func TestC01A3(t *testing.T) {
	repoA, repoB, _ := repository.SetupGoGitReposAndRemote(t)

	// the user, created on A
	userA, err := identity.NewIdentity(repoA, "U", "u@example.org")
	require.NoError(t, err)
	require.NoError(t, userA.Commit(repoA))

	x, _, err := bug.Create(userA, 1000, "X", "message", nil, nil)
	require.NoError(t, err)
	require.NoError(t, x.Commit(repoA))
	_, err = identity.Push(repoA, "origin")
	require.NoError(t, err)
	_, err = bug.Push(repoA, "origin")
	require.NoError(t, err)

	// B is the second machine of the same user
	require.NoError(t, identity.Pull(repoB, "origin"))
	require.NoError(t, bug.Pull(repoB, c01a3Resolvers(repoB), "origin", nil))
	userB, err := identity.ReadLocal(repoB, userA.Id())
	require.NoError(t, err)

	// on A: the user declares a signing key, and publishes his identity
	key := identity.GenerateKey()
	require.NoError(t, userA.Mutate(repoA, func(m *identity.Mutator) {
		m.Keys = append(m.Keys, key)
	}))
	require.NoError(t, userA.Commit(repoA))
	_, err = identity.Push(repoA, "origin")
	require.NoError(t, err)

	// on B, concurrently: the user adds a comment, and publishes it
	xB, err := bug.Read(repoB, x.Id())
	require.NoError(t, err)
	_, _, err = bug.AddComment(xB, userB, 1001, "from my laptop", nil, nil)
	require.NoError(t, err)
	require.NoError(t, xB.Commit(repoB))
	_, err = bug.Push(repoB, "origin")
	require.NoError(t, err)
	require.Len(t, c01a3Ops(t, repoB, x.Id()), 2)

	// synchronisation to quiescence
	for i := 0; i < 2; i++ {
		require.NoError(t, identity.Pull(repoB, "origin"), "B pulls identities")
		require.NoError(t, bug.Pull(repoB, c01a3Resolvers(repoB), "origin", userB), "B pulls bugs")
		require.NoError(t, identity.Pull(repoA, "origin"), "A pulls identities")
		require.NoError(t, bug.Pull(repoA, c01a3Resolvers(repoA), "origin", userA), "A pulls bugs")
	}

	opsA := c01a3Ops(t, repoA, x.Id())
	opsB := c01a3Ops(t, repoB, x.Id())
	require.Len(t, opsA, 2)
	require.Equal(t, opsA, opsB)
}
