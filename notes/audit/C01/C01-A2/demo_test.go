// Place this file in entities/bug/ (package bug_test) and run:
//   go test -count=1 -run TestC01A2 ./entities/bug/
//
// C01-A2: a bug whose FIRST commit carries the edit Lamport time 2^64-1 (well-formed in the
// documented format: "edit-clock-18446744073709551615") is accepted and its clock witnessed: the
// protection against clocks pushed toward the uint64 rollover only looks at commits that have
// a parent. The edit clock of the replica that pulled it wraps: the next commit gets the time 0
// (refused), the following ones the times 1, 2, ... which are lower than the time of their
// parent: every bug edited afterwards becomes unreadable, there and on the other replicas.
package bug_test

import (
	"math"
	"testing"

	"github.com/stretchr/testify/require"

	"github.com/MichaelMure/git-bug/entities/bug"
	"github.com/MichaelMure/git-bug/entities/identity"
	"github.com/MichaelMure/git-bug/entity"
	"github.com/MichaelMure/git-bug/repository"
)

func c01a2Resolvers(repo repository.ClockedRepo) entity.Resolvers {
	return entity.Resolvers{
		&identity.Identity{}: identity.NewSimpleResolver(repo),
	}
}

func c01a2Ops(t *testing.T, repo repository.ClockedRepo, id entity.Id) []entity.Id {
	t.Helper()
	b, err := bug.Read(repo, id)
	require.NoError(t, err, "the bug must stay readable")
	var ids []entity.Id
	for _, op := range b.Operations() {
		ids = append(ids, op.Id())
	}
	return ids
}

func TestC01A2(t *testing.T) {
	repoA, repoB, _ := repository.SetupGoGitReposAndRemote(t)

	// the "other client"
	repoC := repository.CreateGoGitTestRepo(t, false)
	remotes, err := repoA.GetRemotes()
	require.NoError(t, err)
	require.NoError(t, repoC.AddRemote("origin", remotes["origin"]))

	userA, err := identity.NewIdentity(repoA, "A", "a@example.org")
	require.NoError(t, err)
	require.NoError(t, userA.Commit(repoA))
	userC, err := identity.NewIdentity(repoC, "C", "c@example.org")
	require.NoError(t, err)
	require.NoError(t, userC.Commit(repoC))

	// A creates the bug X and publishes it; B gets it
	x, _, err := bug.Create(userA, 1000, "X", "message", nil, nil)
	require.NoError(t, err)
	require.NoError(t, x.Commit(repoA))
	_, err = identity.Push(repoA, "origin")
	require.NoError(t, err)
	_, err = bug.Push(repoA, "origin")
	require.NoError(t, err)
	require.NoError(t, identity.Pull(repoB, "origin"))
	require.NoError(t, bug.Pull(repoB, c01a2Resolvers(repoB), "origin", userA))

	// C publishes Y, a single commit with the tree entry "edit-clock-18446744073709551615"
	require.NoError(t, repoC.Witness("bugs-edit", math.MaxUint64-1))
	y, _, err := bug.Create(userC, 1001, "Y", "message", nil, nil)
	require.NoError(t, err)
	require.NoError(t, y.Commit(repoC))
	require.EqualValues(t, uint64(math.MaxUint64), y.EditLamportTime())
	_, err = identity.Push(repoC, "origin")
	require.NoError(t, err)
	_, err = bug.Push(repoC, "origin")
	require.NoError(t, err)

	// A pulls: Y is accepted
	require.NoError(t, identity.Pull(repoA, "origin"))
	require.NoError(t, bug.Pull(repoA, c01a2Resolvers(repoA), "origin", userA))

	// A adds a comment to X. The first attempt is refused ("lamport edit time is zero"), the
	// user tries again: accepted.
	x, err = bug.Read(repoA, x.Id())
	require.NoError(t, err)
	_, _, err = bug.AddComment(x, userA, 1002, "a comment", nil, nil)
	require.NoError(t, err)
	if err := x.Commit(repoA); err != nil {
		t.Logf("first attempt: %v", err)
		require.NoError(t, x.Commit(repoA))
	}
	_, err = bug.Push(repoA, "origin")
	require.NoError(t, err)

	// A still shows its own bug
	opsA := c01a2Ops(t, repoA, x.Id())
	require.Len(t, opsA, 2)

	// synchronisation
	require.NoError(t, identity.Pull(repoB, "origin"), "B pulls identities")
	require.NoError(t, bug.Pull(repoB, c01a2Resolvers(repoB), "origin", userA), "B pulls bugs")
	require.Equal(t, opsA, c01a2Ops(t, repoB, x.Id()))
}
