// Place this file in entities/bug/ (package bug_test) and run:
//   go test -count=1 -run TestC01A1 ./entities/bug/
//
// C01-A1: a plain edit of an old bug, made after the replica's edit clock advanced by more than
// 1_000_000 (because of OTHER bugs: a big project, a big bridge import), is written without any
// error but makes the bug unreadable on every replica ("lamport clock jumping too far in the
// future"), and the other replica can never receive the new operation.
package bug_test

import (
	"testing"

	"github.com/stretchr/testify/require"

	"github.com/MichaelMure/git-bug/entities/bug"
	"github.com/MichaelMure/git-bug/entities/identity"
	"github.com/MichaelMure/git-bug/entity"
	"github.com/MichaelMure/git-bug/repository"
)

func c01a1Resolvers(repo repository.ClockedRepo) entity.Resolvers {
	return entity.Resolvers{
		&identity.Identity{}: identity.NewSimpleResolver(repo),
	}
}

func c01a1Ops(t *testing.T, repo repository.ClockedRepo, id entity.Id) []entity.Id {
	t.Helper()
	b, err := bug.Read(repo, id)
	require.NoError(t, err, "the bug must stay readable")
	var ids []entity.Id
	for _, op := range b.Operations() {
		ids = append(ids, op.Id())
	}
	return ids
}

func TestC01A1(t *testing.T) {
	repoA, repoB, _ := repository.SetupGoGitReposAndRemote(t)

	// a third replica, working on the same remote, in which a lot happened
	repoC := repository.CreateGoGitTestRepo(t, false)
	remotes, err := repoA.GetRemotes()
	require.NoError(t, err)
	require.NoError(t, repoC.AddRemote("origin", remotes["origin"]))

	userA, err := identity.NewIdentity(repoA, "A", "a@example.org")
	require.NoError(t, err)
	require.NoError(t, userA.Commit(repoA))
	userC, err := identity.NewIdentity(repoC, "C", "c@example.org")
	require.NoError(t, err)
	require.NoError(t, userC.Commit(repoC))

	// A creates the bug X and publishes it; B gets it
	x, _, err := bug.Create(userA, 1000, "X", "message", nil, nil)
	require.NoError(t, err)
	require.NoError(t, x.Commit(repoA))
	_, err = identity.Push(repoA, "origin")
	require.NoError(t, err)
	_, err = bug.Push(repoA, "origin")
	require.NoError(t, err)

	require.NoError(t, identity.Pull(repoB, "origin"))
	require.NoError(t, bug.Pull(repoB, c01a1Resolvers(repoB), "origin", userA))
	before := c01a1Ops(t, repoB, x.Id())
	require.Len(t, before, 1)

	// C is a busy replica: 1.5 million edits happened there on other bugs (each one increments
	// the edit clock by one; Witness is used here only to not spend minutes writing them).
	require.NoError(t, repoC.Witness("bugs-edit", 1_500_000))
	y, _, err := bug.Create(userC, 1001, "Y", "message", nil, nil)
	require.NoError(t, err)
	require.NoError(t, y.Commit(repoC))
	_, err = identity.Push(repoC, "origin")
	require.NoError(t, err)
	_, err = bug.Push(repoC, "origin")
	require.NoError(t, err)

	// A pulls: it receives Y, a perfectly valid bug, and witnesses its clocks
	require.NoError(t, identity.Pull(repoA, "origin"))
	require.NoError(t, bug.Pull(repoA, c01a1Resolvers(repoA), "origin", userA))
	_, err = bug.Read(repoA, y.Id())
	require.NoError(t, err)

	// A adds a comment to X: accepted without any error
	x, err = bug.Read(repoA, x.Id())
	require.NoError(t, err)
	_, _, err = bug.AddComment(x, userA, 1002, "a comment", nil, nil)
	require.NoError(t, err)
	require.NoError(t, x.Commit(repoA))
	_, err = bug.Push(repoA, "origin")
	require.NoError(t, err)

	// synchronisation to quiescence
	for i := 0; i < 2; i++ {
		require.NoError(t, identity.Pull(repoB, "origin"), "B pulls identities")
		require.NoError(t, bug.Pull(repoB, c01a1Resolvers(repoB), "origin", userA), "B pulls bugs")
		require.NoError(t, identity.Pull(repoA, "origin"), "A pulls identities")
		require.NoError(t, bug.Pull(repoA, c01a1Resolvers(repoA), "origin", userA), "A pulls bugs")
	}

	opsA := c01a1Ops(t, repoA, x.Id())
	opsB := c01a1Ops(t, repoB, x.Id())
	require.Len(t, opsA, 2)
	require.Equal(t, opsA, opsB)
}
