// Place this file in cache/ (package cache) and run:
//   go test -count=1 -run TestC01A4 ./cache/
//
// C01-A4 (crash point): the process of replica B is killed in the middle of a pull, after the
// merge moved refs/bugs/<id> to the received history but before the cache wrote the new excerpt.
// When git-bug is started again the stale lock is cleaned, the cache file is loaded as it is,
// and pulling again answers "nothing to merge": B has received every operation, but it keeps
// showing (ls, queries, excerpts) the old title and status of the bug, for ever.
//
// The crash is produced for real: the test re-executes itself as a child process that opens the
// repository of B, pulls, and exits (os.Exit, as a kill -9 would) when the merge of the bug
// is reported.
package cache

import (
	"os"
	"os/exec"
	"testing"

	"github.com/stretchr/testify/require"

	"github.com/MichaelMure/git-bug/entities/bug"
	"github.com/MichaelMure/git-bug/entities/common"
	"github.com/MichaelMure/git-bug/entity"
	"github.com/MichaelMure/git-bug/repository"
)

const c01a4Env = "C01A4_CHILD_REPO"

func TestC01A4Child(t *testing.T) {
	path := os.Getenv(c01a4Env)
	if path == "" {
		t.Skip("helper process of TestC01A4")
	}
	repo, err := repository.OpenGoGitRepo(path, "git-bug", []repository.ClockLoader{bug.ClockLoader})
	if err != nil {
		os.Exit(10)
	}
	c, err := NewRepoCacheNoEvents(repo)
	if err != nil {
		os.Exit(11)
	}
	_, err = c.Fetch("origin")
	if err != nil {
		os.Exit(12)
	}
	for res := range c.MergeAll("origin") {
		if res.Err != nil {
			os.Exit(13)
		}
		if res.Status == entity.MergeStatusUpdated {
			// the process dies here
			os.Exit(42)
		}
	}
	os.Exit(14)
}

func TestC01A4(t *testing.T) {
	repoA, repoB, _ := repository.SetupGoGitReposAndRemote(t)

	cacheA, err := NewRepoCacheNoEvents(repoA)
	require.NoError(t, err)
	defer cacheA.Close()
	cacheB, err := NewRepoCacheNoEvents(repoB)
	require.NoError(t, err)

	reneA, err := cacheA.Identities().New("René Descartes", "rene@descartes.fr")
	require.NoError(t, err)
	require.NoError(t, cacheA.SetUserIdentity(reneA))
	isaacB, err := cacheB.Identities().New("Isaac Newton", "isaac@newton.uk")
	require.NoError(t, err)
	require.NoError(t, cacheB.SetUserIdentity(isaacB))

	// A creates a bug, B receives it
	bugA, _, err := cacheA.Bugs().New("old title", "message")
	require.NoError(t, err)
	_, err = cacheA.Push("origin")
	require.NoError(t, err)
	require.NoError(t, cacheB.Pull("origin"))
	_, err = cacheB.Push("origin")
	require.NoError(t, err)
	require.NoError(t, cacheB.Close())

	// A renames and closes the bug
	_, err = bugA.SetTitle("new title")
	require.NoError(t, err)
	_, err = bugA.Close()
	require.NoError(t, err)
	require.NoError(t, bugA.Commit())
	_, err = cacheA.Push("origin")
	require.NoError(t, err)

	// B pulls, and its process is killed during the merge
	cmd := exec.Command(os.Args[0], "-test.run=^TestC01A4Child$", "-test.count=1")
	cmd.Env = append(os.Environ(), c01a4Env+"="+repoB.GetLocalRemote())
	out, err := cmd.CombinedOutput()
	exitErr, ok := err.(*exec.ExitError)
	require.True(t, ok, "child: %v\n%s", err, out)
	require.Equal(t, 42, exitErr.ExitCode(), "child output:\n%s", out)

	// B is started again (the repository is opened again, as a new process does), and
	// synchronises until nothing moves anymore
	repoB2, err := repository.OpenGoGitRepo(repoB.GetLocalRemote(), "git-bug", []repository.ClockLoader{bug.ClockLoader})
	require.NoError(t, err)
	cacheB, err = NewRepoCacheNoEvents(repoB2)
	require.NoError(t, err)
	defer cacheB.Close()
	for i := 0; i < 2; i++ {
		require.NoError(t, cacheB.Pull("origin"))
		_, err = cacheB.Push("origin")
		require.NoError(t, err)
		require.NoError(t, cacheA.Pull("origin"))
	}

	// B has received every operation ...
	fullB, err := cacheB.Bugs().Resolve(bugA.Id())
	require.NoError(t, err)
	require.Len(t, fullB.Snapshot().Operations, 3)
	require.Equal(t, "new title", fullB.Snapshot().Title)

	// ... and must show the same title and status as A
	excerptA, err := cacheA.Bugs().ResolveExcerpt(bugA.Id())
	require.NoError(t, err)
	excerptB, err := cacheB.Bugs().ResolveExcerpt(bugA.Id())
	require.NoError(t, err)
	require.Equal(t, "new title", excerptA.Title)
	require.Equal(t, common.ClosedStatus, excerptA.Status)
	require.Equal(t, excerptA.Title, excerptB.Title, "title shown by B")
	require.Equal(t, excerptA.Status, excerptB.Status, "status shown by B")
}
