package dag

import (
	"io"
	"os"
	"path/filepath"
	"strings"
	"testing"

	"github.com/stretchr/testify/require"

	"github.com/MichaelMure/git-bug/repository"
)

// refHookRepo runs a hook right after a reference has been written: copying the directory of
// the repository from the hook gives what a process killed at that instant leaves on the disk.
type refHookRepo struct {
	repository.TestedRepo
	afterRef func(ref string, hash repository.Hash)
}

func (r *refHookRepo) UpdateRef(ref string, hash repository.Hash) error {
	err := r.TestedRepo.UpdateRef(ref, hash)
	if err == nil && r.afterRef != nil {
		r.afterRef(ref, hash)
	}
	return err
}

func copyRepoDir(t *testing.T, src, dst string) {
	t.Helper()
	err := filepath.Walk(src, func(path string, info os.FileInfo, err error) error {
		if err != nil {
			return err
		}
		rel, err := filepath.Rel(src, path)
		if err != nil {
			return err
		}
		target := filepath.Join(dst, rel)
		if info.IsDir() {
			return os.MkdirAll(target, 0o755)
		}
		if !info.Mode().IsRegular() {
			return nil
		}
		in, err := os.Open(path)
		if err != nil {
			return err
		}
		defer in.Close()
		out, err := os.OpenFile(target, os.O_CREATE|os.O_TRUNC|os.O_WRONLY, 0o644)
		if err != nil {
			return err
		}
		_, err = io.Copy(out, in)
		if err != nil {
			_ = out.Close()
			return err
		}
		return out.Close()
	})
	require.NoError(t, err)
}

// merge() of a diverged entity moves the local reference to the merge commit, then reads and
// validates the merged entity, and moves the reference back if it is invalid. A process killed
// between the two reference updates leaves the local entity on a merge commit that was about to
// be refused: it is in neither its old nor its new state, it is not readable, and pulling again
// does not repair it.
func TestCrashInMergeOfInvalidUnion(t *testing.T) {
	repoA, clockedB, _, id1, _, resolvers, def := makeTestContextRemote(t)
	innerB := clockedB.(repository.TestedRepo)
	repoB := &refHookRepo{TestedRepo: innerB}

	// the same entity in A and B
	e := New(def)
	e.Append(newOp1(id1, "create"))
	require.NoError(t, e.Commit(repoA))
	_, err := Push(def, repoA, "remote")
	require.NoError(t, err)
	require.NoError(t, Pull(def, wrapper, repoB, resolvers, "remote", id1))

	// A and B both record the operation "dup", in different commits (e.g. a replayed import, a
	// remote that rewrites history): each side is valid, their union holds the operation twice
	dup := newOp2(id1, "dup")

	eA, err := Read(def, wrapper, repoA, resolvers, e.Id())
	require.NoError(t, err)
	eA.Append(dup)
	require.NoError(t, eA.Commit(repoA))
	_, err = Push(def, repoA, "remote")
	require.NoError(t, err)

	eB, err := Read(def, wrapper, repoB, resolvers, e.Id())
	require.NoError(t, err)
	eB.Append(newOp2(id1, "only in B"))
	require.NoError(t, eB.Commit(repoB))
	eB.Append(dup)
	require.NoError(t, eB.Commit(repoB))

	localRef := "refs/" + def.Namespace + "/" + e.Id().String()
	before, err := repoB.ResolveRef(localRef)
	require.NoError(t, err)

	// B pulls; the process is killed right after the first local reference update of the merge
	var snapshot string
	repoB.afterRef = func(ref string, hash repository.Hash) {
		if snapshot == "" && ref == localRef {
			snapshot = t.TempDir()
			copyRepoDir(t, strings.TrimSuffix(innerB.GetLocalRemote(), "/.git"), snapshot)
		}
	}
	err = Pull(def, wrapper, repoB, resolvers, "remote", id1)
	repoB.afterRef = nil
	// without a crash, the merge is refused and the local entity is left as it was
	require.ErrorContains(t, err, "id collision")
	current, err := repoB.ResolveRef(localRef)
	require.NoError(t, err)
	require.Equal(t, before, current)

	if snapshot == "" {
		// the local reference has not been written at all: nothing to interrupt
		return
	}

	// after the crash
	reopened, err := repository.OpenGoGitRepo(snapshot, "git-bug", nil)
	require.NoError(t, err)

	for streamed := range ReadAll(def, wrapper, reopened, resolvers) {
		require.NoError(t, streamed.Err, "every entity is readable after the crash")
		require.NoError(t, streamed.Entity.Validate(), "every entity is valid after the crash")
	}

	afterCrash, err := reopened.ResolveRef(localRef)
	require.NoError(t, err)
	require.Equal(t, before, afterCrash, "a refused merge leaves the local entity as it was")

	// repeating the interrupted action gives what the uninterrupted one gives
	err = Pull(def, wrapper, reopened, resolvers, "remote", id1)
	require.ErrorContains(t, err, "id collision")
}
