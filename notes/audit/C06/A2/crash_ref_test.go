//go:build unix

package bug

import (
	"io"
	"os"
	"path/filepath"
	"strings"
	"syscall"
	"testing"
	"time"

	"github.com/stretchr/testify/require"

	"github.com/MichaelMure/git-bug/entities/identity"
	"github.com/MichaelMure/git-bug/repository"
)

func copyDir(t *testing.T, src, dst string) {
	t.Helper()
	err := filepath.Walk(src, func(path string, info os.FileInfo, err error) error {
		if err != nil {
			return err
		}
		rel, err := filepath.Rel(src, path)
		if err != nil {
			return err
		}
		target := filepath.Join(dst, rel)
		if info.IsDir() {
			return os.MkdirAll(target, 0o755)
		}
		if !info.Mode().IsRegular() {
			return nil
		}
		in, err := os.Open(path)
		if err != nil {
			return err
		}
		defer in.Close()
		out, err := os.OpenFile(target, os.O_CREATE|os.O_TRUNC|os.O_WRONLY, 0o644)
		if err != nil {
			return err
		}
		_, err = io.Copy(out, in)
		if err != nil {
			_ = out.Close()
			return err
		}
		return out.Close()
	})
	require.NoError(t, err)
}

// A process killed inside the reference update that ends Entity.Commit.
//
// go-git writes a loose reference in place: DotGit.setRefRwfs opens the file with O_TRUNC, takes
// a flock on it, then writes the hash (storage/filesystem/dotgit/dotgit_setref.go). The test holds
// that flock through another descriptor: the writer stops exactly between the truncation and the
// write, and the directory copied at that moment is what a process killed there leaves behind.
// A writer that never exposes a partial reference is not stopped by the lock: the copy is then
// taken once it is done.
func TestCrashWhileMovingTheReferenceOfABug(t *testing.T) {
	repo := repository.CreateGoGitTestRepo(t, false)
	dir := strings.TrimSuffix(repo.GetLocalRemote(), "/.git")

	rene, err := identity.NewIdentity(repo, "René Descartes", "rene@descartes.fr")
	require.NoError(t, err)
	require.NoError(t, rene.Commit(repo))

	b, _, err := Create(rene, 1, "title", "message", nil, nil)
	require.NoError(t, err)
	require.NoError(t, b.Commit(repo))
	other, _, err := Create(rene, 1, "other", "message", nil, nil)
	require.NoError(t, err)
	require.NoError(t, other.Commit(repo))

	refFile := filepath.Join(dir, ".git", "refs", "bugs", b.Id().String())
	locked, err := os.OpenFile(refFile, os.O_RDWR, 0)
	require.NoError(t, err)
	defer locked.Close()
	require.NoError(t, syscall.Flock(int(locked.Fd()), syscall.LOCK_EX))

	// editing the bug
	_, err = SetTitle(b, rene, 2, "new title", nil)
	require.NoError(t, err)

	done := make(chan error, 1)
	go func() { done <- b.Commit(repo) }()

	snapshot := t.TempDir()
	finished := false
	deadline := time.Now().Add(10 * time.Second)
	for {
		select {
		case err := <-done:
			require.NoError(t, err)
			finished = true
		default:
		}
		if finished {
			break
		}
		info, err := os.Stat(refFile)
		require.NoError(t, err)
		if info.Size() == 0 {
			// the writer has truncated the reference and waits for the lock
			break
		}
		require.True(t, time.Now().Before(deadline), "the commit neither finished nor touched the reference")
		time.Sleep(time.Millisecond)
	}

	// the process dies here
	copyDir(t, dir, snapshot)

	require.NoError(t, syscall.Flock(int(locked.Fd()), syscall.LOCK_UN))
	if !finished {
		require.NoError(t, <-done)
	}

	reopened, err := repository.OpenGoGitRepo(snapshot, "git-bug", []repository.ClockLoader{ClockLoader})
	require.NoError(t, err, "the repository opens again")

	titles := map[string]string{}
	for streamed := range ReadAll(reopened) {
		require.NoError(t, streamed.Err, "every entity is readable")
		titles[streamed.Entity.Id().String()] = streamed.Entity.Compile().Title
	}
	require.Len(t, titles, 2)
	require.Contains(t, []string{"title", "new title"}, titles[b.Id().String()],
		"the bug is in its state before or after the interrupted commit")
}
