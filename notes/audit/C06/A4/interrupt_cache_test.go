package cache

import (
	"io"
	"os"
	"path/filepath"
	"strings"
	"testing"

	"github.com/stretchr/testify/require"

	"github.com/MichaelMure/git-bug/entities/bug"
	"github.com/MichaelMure/git-bug/entities/identity"
	"github.com/MichaelMure/git-bug/entity"
	"github.com/MichaelMure/git-bug/repository"
)

// intrRepo runs a hook right after a reference has been written
type intrRepo struct {
	repository.TestedRepo
	afterRef func(ref string)
}

func (r *intrRepo) UpdateRef(ref string, hash repository.Hash) error {
	err := r.TestedRepo.UpdateRef(ref, hash)
	if err == nil && r.afterRef != nil {
		r.afterRef(ref)
	}
	return err
}

func (r *intrRepo) CopyRef(source string, dest string) error {
	err := r.TestedRepo.CopyRef(source, dest)
	if err == nil && r.afterRef != nil {
		r.afterRef(dest)
	}
	return err
}

func intrCopyDir(t *testing.T, src, dst string) {
	t.Helper()
	err := filepath.Walk(src, func(path string, info os.FileInfo, err error) error {
		if err != nil {
			return err
		}
		rel, err := filepath.Rel(src, path)
		if err != nil {
			return err
		}
		target := filepath.Join(dst, rel)
		if info.IsDir() {
			return os.MkdirAll(target, 0o755)
		}
		if !info.Mode().IsRegular() {
			return nil
		}
		in, err := os.Open(path)
		if err != nil {
			return err
		}
		defer in.Close()
		out, err := os.OpenFile(target, os.O_CREATE|os.O_TRUNC|os.O_WRONLY, 0o644)
		if err != nil {
			return err
		}
		_, err = io.Copy(out, in)
		if err != nil {
			_ = out.Close()
			return err
		}
		return out.Close()
	})
	require.NoError(t, err)
}

func intrReopen(t *testing.T, dir string) (repository.ClockedRepo, *RepoCache) {
	t.Helper()
	repo, err := repository.OpenGoGitRepo(dir, "git-bug", []repository.ClockLoader{bug.ClockLoader})
	require.NoError(t, err)
	c, err := NewRepoCacheNoEvents(repo)
	require.NoError(t, err)
	t.Cleanup(func() { _ = c.Close() })
	return repo, c
}

func intrRequireCacheMatchesRepo(t *testing.T, repo repository.ClockedRepo, c *RepoCache) {
	t.Helper()
	stored := make(map[entity.Id]*bug.Bug)
	for streamed := range bug.ReadAll(repo) {
		require.NoError(t, streamed.Err)
		stored[streamed.Entity.Id()] = streamed.Entity
	}

	ids := c.Bugs().AllIds()
	require.Len(t, ids, len(stored), "the cache lists %d bugs, the repository holds %d", len(ids), len(stored))

	for id, b := range stored {
		excerpt, err := c.Bugs().ResolveExcerpt(id)
		require.NoError(t, err, "bug %s is stored in the repository but unknown to the cache", id.Human())
		snap := b.Compile()
		require.Equal(t, snap.Title, excerpt.Title, "title of bug %s", id.Human())
		require.Equal(t, len(snap.Comments), excerpt.LenComments, "comments of bug %s", id.Human())
		_, err = c.Bugs().ResolvePrefix(id.String()[:10])
		require.NoError(t, err, "bug %s can't be resolved through the cache", id.Human())
	}
}

// SIGINT or SIGTERM (a plain "kill") received while a command writes. The handler installed by
// execenv.LoadBackend (util/interrupt) runs in its own goroutine: it closes the cache, which
// releases the lock file, then calls os.Exit, whatever the goroutine of the command is doing.
// Here the signal arrives right after the reference of a new bug has been written and before the
// excerpt file is: the process dies "cleanly", and nothing tells the next one that the cache
// files are behind the repository.
func TestInterruptedAfterCreateBugLeavesStaleCache(t *testing.T) {
	inner := repository.CreateGoGitTestRepo(t, false)
	repo := &intrRepo{TestedRepo: inner}

	c, err := NewRepoCacheNoEvents(repo)
	require.NoError(t, err)

	iden, err := c.Identities().New("René Descartes", "rene@descartes.fr")
	require.NoError(t, err)
	require.NoError(t, c.SetUserIdentity(iden))
	_, _, err = c.Bugs().New("first", "message")
	require.NoError(t, err)

	snapshot := ""
	repo.afterRef = func(ref string) {
		if snapshot == "" && strings.HasPrefix(ref, "refs/bugs/") {
			// what the signal handler does: the cleaner registered by LoadBackend ...
			require.NoError(t, c.Close())
			// ... then os.Exit(1)
			snapshot = t.TempDir()
			intrCopyDir(t, strings.TrimSuffix(inner.GetLocalRemote(), "/.git"), snapshot)
		}
	}
	func() {
		// the goroutine of the command goes on for a while in a cache that has been closed under
		// its feet; in the real process it is stopped by os.Exit
		defer func() { _ = recover() }()
		_, _, _ = c.Bugs().New("second", "message")
	}()
	repo.afterRef = nil
	require.NotEmpty(t, snapshot)

	_, err = os.Stat(filepath.Join(snapshot, ".git", "git-bug", lockfile))
	require.True(t, os.IsNotExist(err), "the interrupted process has released the lock")

	// the next process
	repo2, c2 := intrReopen(t, snapshot)
	intrRequireCacheMatchesRepo(t, repo2, c2)
}

// Same thing while pulling: the signal arrives after the reference of an updated bug has been
// moved. Pulling again does not help: the bug is already merged.
func TestInterruptedPullLeavesStaleCache(t *testing.T) {
	innerA, innerB, _ := repository.SetupGoGitReposAndRemote(t)
	repoB := &intrRepo{TestedRepo: innerB}

	cacheA, err := NewRepoCacheNoEvents(innerA)
	require.NoError(t, err)
	iden, err := cacheA.Identities().New("René Descartes", "rene@descartes.fr")
	require.NoError(t, err)
	require.NoError(t, cacheA.SetUserIdentity(iden))
	b, _, err := cacheA.Bugs().New("old title", "message")
	require.NoError(t, err)
	_, err = cacheA.Push("origin")
	require.NoError(t, err)

	cacheB, err := NewRepoCacheNoEvents(repoB)
	require.NoError(t, err)
	idenB, err := cacheB.Identities().New("Isaac Newton", "isaac@newton.uk")
	require.NoError(t, err)
	require.NoError(t, cacheB.SetUserIdentity(idenB))
	require.NoError(t, cacheB.Pull("origin"))

	_, err = b.SetTitle("new title")
	require.NoError(t, err)
	require.NoError(t, b.Commit())
	_, err = cacheA.Push("origin")
	require.NoError(t, err)
	require.NoError(t, cacheA.Close())

	snapshot := ""
	repoB.afterRef = func(ref string) {
		if snapshot == "" && strings.HasPrefix(ref, "refs/bugs/") {
			// The merging goroutine can't be stopped here the way os.Exit stops it, so the cache is
			// not closed under its feet. With no uncommitted entity loaded, all that Close does to
			// the files at this point is removing the lock (see the previous test, which does call
			// it): this is done on the copy.
			snapshot = t.TempDir()
			intrCopyDir(t, strings.TrimSuffix(innerB.GetLocalRemote(), "/.git"), snapshot)
			require.NoError(t, os.Remove(filepath.Join(snapshot, ".git", "git-bug", lockfile)))
		}
	}
	require.NoError(t, cacheB.Pull("origin"))
	repoB.afterRef = nil
	require.NotEmpty(t, snapshot)
	require.NoError(t, cacheB.Close())

	repo2, c2 := intrReopen(t, snapshot)
	require.NoError(t, c2.Pull("origin"))
	intrRequireCacheMatchesRepo(t, repo2, c2)
}

// Guard for the repair: a cache that has been closed properly is loaded from its files, not built
// again, whatever has been done through it.
func TestCleanCloseDoesNotRebuild(t *testing.T) {
	repoA, repoB, _ := repository.SetupGoGitReposAndRemote(t)

	reload := func(repo repository.TestedRepo, c *RepoCache) *RepoCache {
		t.Helper()
		require.NoError(t, c.Close())
		c, events := NewRepoCache(repo)
		for event := range events {
			require.NoError(t, event.Err)
			require.NotEqual(t, BuildEventCacheIsBuilt, event.Event, "the cache has been built again")
		}
		return c
	}

	cacheA, err := NewRepoCacheNoEvents(repoA)
	require.NoError(t, err)
	iden, err := cacheA.Identities().New("René Descartes", "rene@descartes.fr")
	require.NoError(t, err)
	require.NoError(t, cacheA.SetUserIdentity(iden))
	cacheA = reload(repoA, cacheA)

	b1, _, err := cacheA.Bugs().New("one", "message")
	require.NoError(t, err)
	_, _, err = cacheA.Bugs().New("two", "message")
	require.NoError(t, err)
	cacheA = reload(repoA, cacheA)

	b1, err = cacheA.Bugs().Resolve(b1.Id())
	require.NoError(t, err)
	_, _, err = b1.AddComment("comment")
	require.NoError(t, err)
	require.NoError(t, b1.Commit())
	iden, err = cacheA.Identities().Resolve(iden.Id())
	require.NoError(t, err)
	require.NoError(t, iden.Mutate(repoA, func(m *identity.Mutator) { m.Name = "René D." }))
	require.NoError(t, iden.Commit())
	cacheA = reload(repoA, cacheA)

	// uncommitted changes are dropped by Close
	b1, err = cacheA.Bugs().Resolve(b1.Id())
	require.NoError(t, err)
	_, err = b1.SetTitle("never committed")
	require.NoError(t, err)
	cacheA = reload(repoA, cacheA)
	excerpt, err := cacheA.Bugs().ResolveExcerpt(b1.Id())
	require.NoError(t, err)
	require.Equal(t, "one", excerpt.Title)

	_, err = cacheA.Push("origin")
	require.NoError(t, err)

	cacheB, err := NewRepoCacheNoEvents(repoB)
	require.NoError(t, err)
	idenB, err := cacheB.Identities().New("Isaac Newton", "isaac@newton.uk")
	require.NoError(t, err)
	require.NoError(t, cacheB.SetUserIdentity(idenB))
	require.NoError(t, cacheB.Pull("origin"))
	cacheB = reload(repoB, cacheB)
	require.Len(t, cacheB.Bugs().AllIds(), 2)

	// diverge and merge
	b1B, err := cacheB.Bugs().Resolve(b1.Id())
	require.NoError(t, err)
	_, _, err = b1B.AddComment("from B")
	require.NoError(t, err)
	require.NoError(t, b1B.Commit())
	b1, err = cacheA.Bugs().Resolve(b1.Id())
	require.NoError(t, err)
	_, _, err = b1.AddComment("from A")
	require.NoError(t, err)
	require.NoError(t, b1.Commit())
	_, err = cacheA.Push("origin")
	require.NoError(t, err)
	require.NoError(t, cacheB.Pull("origin"))
	cacheB = reload(repoB, cacheB)

	require.NoError(t, cacheB.Bugs().Remove(b1.Id().String()))
	cacheB = reload(repoB, cacheB)
	require.Len(t, cacheB.Bugs().AllIds(), 1)

	require.NoError(t, cacheB.RemoveAll())
	cacheB = reload(repoB, cacheB)
	require.Len(t, cacheB.Bugs().AllIds(), 0)

	require.NoError(t, cacheA.Close())
	require.NoError(t, cacheB.Close())
}
