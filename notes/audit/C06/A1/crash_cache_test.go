package cache

import (
	"io"
	"os"
	"os/exec"
	"path/filepath"
	"strconv"
	"strings"
	"testing"

	"github.com/stretchr/testify/require"

	"github.com/MichaelMure/git-bug/entities/bug"
	"github.com/MichaelMure/git-bug/entity"
	"github.com/MichaelMure/git-bug/repository"
	"github.com/MichaelMure/git-bug/util/lamport"
)

// crashRepo lets a test observe the repository at a precise point of a write path: the hooks
// run right before a clock increment and right after a reference has been written. Copying the
// repository directory from a hook gives exactly what a process killed at that instant leaves
// on the disk.
type crashRepo struct {
	repository.TestedRepo
	beforeIncrement func(name string)
	afterRef        func(ref string)
}

func (r *crashRepo) Increment(name string) (lamport.Time, error) {
	if r.beforeIncrement != nil {
		r.beforeIncrement(name)
	}
	return r.TestedRepo.Increment(name)
}

func (r *crashRepo) UpdateRef(ref string, hash repository.Hash) error {
	err := r.TestedRepo.UpdateRef(ref, hash)
	if err == nil && r.afterRef != nil {
		r.afterRef(ref)
	}
	return err
}

func (r *crashRepo) CopyRef(source string, dest string) error {
	err := r.TestedRepo.CopyRef(source, dest)
	if err == nil && r.afterRef != nil {
		r.afterRef(dest)
	}
	return err
}

func copyDir(t *testing.T, src, dst string) {
	t.Helper()
	err := filepath.Walk(src, func(path string, info os.FileInfo, err error) error {
		if err != nil {
			return err
		}
		rel, err := filepath.Rel(src, path)
		if err != nil {
			return err
		}
		target := filepath.Join(dst, rel)
		if info.IsDir() {
			return os.MkdirAll(target, 0o755)
		}
		if !info.Mode().IsRegular() {
			return nil
		}
		in, err := os.Open(path)
		if err != nil {
			return err
		}
		defer in.Close()
		out, err := os.OpenFile(target, os.O_CREATE|os.O_TRUNC|os.O_WRONLY, 0o644)
		if err != nil {
			return err
		}
		_, err = io.Copy(out, in)
		if err != nil {
			_ = out.Close()
			return err
		}
		return out.Close()
	})
	require.NoError(t, err)
}

// deadPid returns the pid of a process that has exited
func deadPid(t *testing.T) int {
	t.Helper()
	cmd := exec.Command("true")
	require.NoError(t, cmd.Run())
	return cmd.Process.Pid
}

func repoDir(repo repository.TestedRepo) string {
	return strings.TrimSuffix(strings.TrimSuffix(repo.GetLocalRemote(), "/"), "/.git")
}

// crashSnapshot copies the directory of the repository, as left by a process killed right now:
// in particular the lock file of the cache stays behind, with the pid of a process that is gone.
func crashSnapshot(t *testing.T, repo repository.TestedRepo) string {
	t.Helper()
	dst := t.TempDir()
	copyDir(t, repoDir(repo), dst)

	lock := filepath.Join(dst, ".git", "git-bug", lockfile)
	_, err := os.Stat(lock)
	require.NoError(t, err, "the process that crashes holds the lock")
	require.NoError(t, os.WriteFile(lock, []byte(strconv.Itoa(deadPid(t))), 0o644))
	return dst
}

// reopen opens the repository and its cache the way the commands do
func reopen(t *testing.T, dir string) (repository.ClockedRepo, *RepoCache) {
	t.Helper()
	repo, err := repository.OpenGoGitRepo(dir, "git-bug", []repository.ClockLoader{bug.ClockLoader})
	require.NoError(t, err)
	c, err := NewRepoCacheNoEvents(repo)
	require.NoError(t, err)
	t.Cleanup(func() { _ = c.Close() })
	return repo, c
}

func readAllBugs(t *testing.T, repo repository.ClockedRepo) map[entity.Id]*bug.Bug {
	t.Helper()
	result := make(map[entity.Id]*bug.Bug)
	for streamed := range bug.ReadAll(repo) {
		require.NoError(t, streamed.Err)
		result[streamed.Entity.Id()] = streamed.Entity
	}
	return result
}

// requireCacheMatchesRepo checks that what the cache serves (the excerpts, used to list, query
// and resolve the bugs) is what the repository holds.
func requireCacheMatchesRepo(t *testing.T, repo repository.ClockedRepo, c *RepoCache) {
	t.Helper()
	stored := readAllBugs(t, repo)

	ids := c.Bugs().AllIds()
	require.Len(t, ids, len(stored), "the cache lists %d bugs, the repository holds %d", len(ids), len(stored))

	for id, b := range stored {
		excerpt, err := c.Bugs().ResolveExcerpt(id)
		require.NoError(t, err, "bug %s is stored in the repository but unknown to the cache", id.Human())

		snap := b.Compile()
		require.Equal(t, snap.Title, excerpt.Title, "title of bug %s", id.Human())
		require.Equal(t, snap.Status, excerpt.Status, "status of bug %s", id.Human())
		require.Equal(t, len(snap.Comments), excerpt.LenComments, "comments of bug %s", id.Human())
		require.Equal(t, b.EditLamportTime(), excerpt.EditLamportTime, "edit time of bug %s", id.Human())

		_, err = c.Bugs().ResolvePrefix(id.String()[:10])
		require.NoError(t, err, "bug %s can't be resolved through the cache", id.Human())
	}
}

// A process killed while it creates a bug, right after the reference of the bug has been written
// (the last storage mutation of Entity.Commit) and before the excerpt file of the cache is: the bug
// is in its "after" state in the repository, but the next process never sees it.
func TestCrashAfterCreateBugLeavesStaleCache(t *testing.T) {
	inner := repository.CreateGoGitTestRepo(t, false)
	repo := &crashRepo{TestedRepo: inner}

	c, err := NewRepoCacheNoEvents(repo)
	require.NoError(t, err)

	iden, err := c.Identities().New("René Descartes", "rene@descartes.fr")
	require.NoError(t, err)
	require.NoError(t, c.SetUserIdentity(iden))
	_, _, err = c.Bugs().New("first", "message")
	require.NoError(t, err)

	var snapshot string
	repo.afterRef = func(ref string) {
		if snapshot == "" && strings.HasPrefix(ref, "refs/bugs/") {
			snapshot = crashSnapshot(t, inner)
		}
	}
	created, _, err := c.Bugs().New("second", "message")
	require.NoError(t, err)
	repo.afterRef = nil
	require.NotEmpty(t, snapshot)
	require.NoError(t, c.Close())

	// after the crash
	repo2, c2 := reopen(t, snapshot)

	// the repository holds both bugs, readable
	stored := readAllBugs(t, repo2)
	require.Len(t, stored, 2)
	require.Contains(t, stored, created.Id())

	requireCacheMatchesRepo(t, repo2, c2)
}

// A process killed while it edits a bug, before the first storage mutation of Entity.Commit: the
// bug is in its "before" state in the repository, but the edit is already in the excerpt file and the
// next process serves it.
func TestCrashBeforeCommitLeavesPhantomEdit(t *testing.T) {
	inner := repository.CreateGoGitTestRepo(t, false)
	repo := &crashRepo{TestedRepo: inner}

	c, err := NewRepoCacheNoEvents(repo)
	require.NoError(t, err)

	iden, err := c.Identities().New("René Descartes", "rene@descartes.fr")
	require.NoError(t, err)
	require.NoError(t, c.SetUserIdentity(iden))
	b, _, err := c.Bugs().New("old title", "message")
	require.NoError(t, err)

	var snapshot string
	repo.beforeIncrement = func(name string) {
		if snapshot == "" {
			snapshot = crashSnapshot(t, inner)
		}
	}
	// what "git bug title edit" + "git bug status close" do
	_, err = b.SetTitle("new title")
	require.NoError(t, err)
	_, err = b.Close()
	require.NoError(t, err)
	require.NoError(t, b.Commit())
	repo.beforeIncrement = nil
	require.NotEmpty(t, snapshot)
	require.NoError(t, c.Close())

	// after the crash
	repo2, c2 := reopen(t, snapshot)

	stored := readAllBugs(t, repo2)
	require.Len(t, stored, 1)
	require.Equal(t, "old title", stored[b.Id()].Compile().Title)

	requireCacheMatchesRepo(t, repo2, c2)
}

// A process killed while it pulls, right after the reference of an updated bug has been moved: the
// bug is in its "after" state in the repository, the next process serves the old one, and pulling
// again does not complete anything.
func TestCrashDuringPullLeavesStaleCache(t *testing.T) {
	innerA, innerB, _ := repository.SetupGoGitReposAndRemote(t)
	repoB := &crashRepo{TestedRepo: innerB}

	cacheA, err := NewRepoCacheNoEvents(innerA)
	require.NoError(t, err)
	iden, err := cacheA.Identities().New("René Descartes", "rene@descartes.fr")
	require.NoError(t, err)
	require.NoError(t, cacheA.SetUserIdentity(iden))
	b, _, err := cacheA.Bugs().New("old title", "message")
	require.NoError(t, err)
	_, err = cacheA.Push("origin")
	require.NoError(t, err)

	cacheB, err := NewRepoCacheNoEvents(repoB)
	require.NoError(t, err)
	idenB, err := cacheB.Identities().New("Isaac Newton", "isaac@newton.uk")
	require.NoError(t, err)
	require.NoError(t, cacheB.SetUserIdentity(idenB))
	require.NoError(t, cacheB.Pull("origin"))

	_, err = b.SetTitle("new title")
	require.NoError(t, err)
	require.NoError(t, b.Commit())
	_, err = cacheA.Push("origin")
	require.NoError(t, err)

	var snapshot string
	repoB.afterRef = func(ref string) {
		if snapshot == "" && strings.HasPrefix(ref, "refs/bugs/") {
			snapshot = crashSnapshot(t, innerB)
		}
	}
	require.NoError(t, cacheB.Pull("origin"))
	repoB.afterRef = nil
	require.NotEmpty(t, snapshot)
	require.NoError(t, cacheB.Close())
	require.NoError(t, cacheA.Close())

	// after the crash
	repo2, c2 := reopen(t, snapshot)

	stored := readAllBugs(t, repo2)
	require.Len(t, stored, 1)
	require.Equal(t, "new title", stored[b.Id()].Compile().Title)

	// repeating the interrupted action
	require.NoError(t, c2.Pull("origin"))

	requireCacheMatchesRepo(t, repo2, c2)
}
