// C02-A5 demo.
// Place this file in the package directory ./cache (external test: package cache_test) and run
//   go test -count=1 -run TestC02A5PullStopsAtFirstInvalidEntity ./cache
//
// RepoCache.Pull returns at the first entity that can't be merged and stops reading the merge
// results: the merge goroutines stay blocked for ever and every entity that comes later (all the bugs
// when the failure is on an identity) is never merged, pull after pull. Here the failure is the
// documented case of an identity edited on two machines (fast-forward only policy).
package cache_test

import (
	"testing"
	"time"

	"github.com/stretchr/testify/require"

	"github.com/MichaelMure/git-bug/cache"
	"github.com/MichaelMure/git-bug/entities/bug"
	"github.com/MichaelMure/git-bug/entities/identity"
	"github.com/MichaelMure/git-bug/entity"
	"github.com/MichaelMure/git-bug/repository"
)

func TestC02A5PullStopsAtFirstInvalidEntity(t *testing.T) {
	repoA, repoB, _ := repository.SetupGoGitReposAndRemote(t)

	open := func(repo repository.TestedRepo) *cache.RepoCache {
		c, err := cache.NewRepoCacheNoEvents(repo)
		require.NoError(t, err)
		t.Cleanup(func() { _ = c.Close() })
		return c
	}
	cacheA, cacheB := open(repoA), open(repoB)

	userA, err := cacheA.Identities().New("René Descartes", "rene@descartes.fr")
	require.NoError(t, err)
	require.NoError(t, cacheA.SetUserIdentity(userA))
	_, err = cacheA.Push("origin")
	require.NoError(t, err)

	tmp, err := cacheB.Identities().New("tmp", "tmp@example.com")
	require.NoError(t, err)
	require.NoError(t, cacheB.SetUserIdentity(tmp))
	require.NoError(t, cacheB.Pull("origin"))
	userB, err := cacheB.Identities().Resolve(userA.Id())
	require.NoError(t, err)
	require.NoError(t, cacheB.SetUserIdentity(userB))

	// the identity is edited on both machines
	require.NoError(t, userA.Mutate(repoA, func(m *identity.Mutator) { m.Email = "rene@a.example.com" }))
	require.NoError(t, userA.Commit())
	require.NoError(t, userB.Mutate(repoB, func(m *identity.Mutator) { m.Email = "rene@b.example.com" }))
	require.NoError(t, userB.Commit())

	// A publishes two new, valid, bugs
	z, _, err := cacheA.Bugs().New("bug Z", "message")
	require.NoError(t, err)
	z2, _, err := cacheA.Bugs().New("bug Z2", "message")
	require.NoError(t, err)
	_, err = cacheA.Push("origin")
	require.NoError(t, err)

	// B pulls, several times
	for i := 0; i < 3; i++ {
		err = cacheB.Pull("origin")
		t.Logf("pull %d: %v", i, err)
	}

	// Pull has returned, but its merge goroutines go on in the background until they block on their
	// channel: let them settle (closing the cache while they run can even panic on a nil map).
	time.Sleep(300 * time.Millisecond)

	// the valid bugs that only existed on the remote now exist locally, and the cache knows them
	for _, id := range []entity.Id{z.Id(), z2.Id()} {
		_, err = bug.Read(repoB, id)
		if err != nil {
			t.Errorf("the valid remote bug %s is never merged: %v", id.Human(), err)
			continue
		}
		_, err = cacheB.Bugs().ResolveExcerpt(id)
		if err != nil {
			t.Errorf("the bug %s has been created in git but the cache never learns about it: %v", id.Human(), err)
		}
	}
}
