// C02-A1 demo.
// Place this file in the package directory ./cache (external test: package cache_test) and run
//   go test -count=1 -run TestC02A1 ./cache
//
// The Lamport times of a root pack are not bounded by anything (the "jumping too far" check only
// compares a pack with its parents), and a pull witnesses them.
//
//   - TestC02A1ClockAtMaxBlocksEveryMerge: a new remote bug carries the highest edit time. Once it is
//     pulled, the edit clock of the repository wraps around: the merge commit of a concurrently edited
//     bug gets the time 0 and is refused. The new bug is witnessed again by each pull, so the valid
//     remote version of the other bug is never merged, pull after pull.
//   - TestC02A1ClockJumpBreaksBugAtNextEdit: same with a moderate jump (5 000 000). The pull succeeds;
//     the first edit of a bug that existed before, through the same cache and without any error, makes
//     that bug unreadable ("lamport clock jumping too far in the future").
package cache_test

import (
	"math"
	"testing"

	"github.com/stretchr/testify/require"

	"github.com/MichaelMure/git-bug/cache"
	"github.com/MichaelMure/git-bug/entities/bug"
	"github.com/MichaelMure/git-bug/entity"
	"github.com/MichaelMure/git-bug/repository"
	"github.com/MichaelMure/git-bug/util/lamport"
)

func c02a1OpIds(repo repository.ClockedRepo, id entity.Id) ([]entity.Id, error) {
	b, err := bug.Read(repo, id)
	if err != nil {
		return nil, err
	}
	var ids []entity.Id
	for _, op := range b.Operations() {
		ids = append(ids, op.Id())
	}
	return ids, nil
}

type c02a1World struct {
	repoA, repoB, repoE    repository.TestedRepo
	cacheA, cacheB, cacheE *cache.RepoCache
}

func c02a1Setup(t *testing.T) *c02a1World {
	w := &c02a1World{}
	var remote repository.TestedRepo
	w.repoA, w.repoB, remote = repository.SetupGoGitReposAndRemote(t)
	w.repoE = repository.CreateGoGitTestRepo(t, false)
	require.NoError(t, w.repoE.AddRemote("origin", remote.GetLocalRemote()))

	open := func(repo repository.TestedRepo) *cache.RepoCache {
		c, err := cache.NewRepoCacheNoEvents(repo)
		require.NoError(t, err)
		t.Cleanup(func() { _ = c.Close() })
		return c
	}
	w.cacheA, w.cacheB, w.cacheE = open(w.repoA), open(w.repoB), open(w.repoE)

	for name, c := range map[string]*cache.RepoCache{"A": w.cacheA, "B": w.cacheB, "E": w.cacheE} {
		i, err := c.Identities().New(name, name+"@example.com")
		require.NoError(t, err)
		require.NoError(t, c.SetUserIdentity(i))
		_, err = c.Push("origin")
		require.NoError(t, err)
	}
	require.NoError(t, w.cacheA.Pull("origin"))
	require.NoError(t, w.cacheB.Pull("origin"))
	require.NoError(t, w.cacheE.Pull("origin"))
	return w
}

// E, another client, publishes a well-formed new bug whose root pack has the given edit time
func (w *c02a1World) publishBugWithEditTime(t *testing.T, editTime lamport.Time) entity.Id {
	require.NoError(t, w.repoE.Witness("bugs-edit", editTime-1))
	x, _, err := w.cacheE.Bugs().New("bug X", "message")
	require.NoError(t, err)
	xE, err := bug.Read(w.repoE, x.Id())
	require.NoError(t, err)
	require.Equal(t, editTime, xE.EditLamportTime())
	_, err = w.cacheE.Push("origin")
	require.NoError(t, err)
	return x.Id()
}

func TestC02A1ClockAtMaxBlocksEveryMerge(t *testing.T) {
	w := c02a1Setup(t)

	// A creates the bug Y, B gets it
	y, _, err := w.cacheA.Bugs().New("bug Y", "message")
	require.NoError(t, err)
	_, err = w.cacheA.Push("origin")
	require.NoError(t, err)
	require.NoError(t, w.cacheB.Pull("origin"))

	// A edits Y
	_, opA, err := y.AddComment("comment of A")
	require.NoError(t, err)
	require.NoError(t, y.Commit())

	// A pulls the new bug X published by E
	xId := w.publishBugWithEditTime(t, lamport.Time(math.MaxUint64))
	require.NoError(t, w.cacheA.Pull("origin"))

	// B has edited Y concurrently
	yB, err := w.cacheB.Bugs().Resolve(y.Id())
	require.NoError(t, err)
	_, opB, err := yB.AddComment("comment of B")
	require.NoError(t, err)
	require.NoError(t, yB.Commit())
	_, err = w.cacheB.Push("origin")
	require.NoError(t, err)

	// A pulls, several times
	for i := 0; i < 3; i++ {
		err = w.cacheA.Pull("origin")
		t.Logf("pull %d: %v", i, err)
	}
	_, err = bug.Read(w.repoA, xId)
	require.NoError(t, err, "X is accepted as a valid new bug")

	// Y now also contains everything of its valid remote version
	ops, err := c02a1OpIds(w.repoA, y.Id())
	require.NoError(t, err)
	require.Contains(t, ops, opA.Id())
	require.Contains(t, ops, opB.Id(), "the valid remote version of Y is never merged")
}

func TestC02A1ClockJumpBreaksBugAtNextEdit(t *testing.T) {
	w := c02a1Setup(t)

	y, _, err := w.cacheA.Bugs().New("bug Y", "message")
	require.NoError(t, err)
	before, err := c02a1OpIds(w.repoA, y.Id())
	require.NoError(t, err)

	xId := w.publishBugWithEditTime(t, 5_000_000)

	require.NoError(t, w.cacheA.Pull("origin"))
	_, err = bug.Read(w.repoA, xId)
	require.NoError(t, err, "X is accepted as a valid new bug")

	// an edit through the same cache, after the pull
	yA, err := w.cacheA.Bugs().Resolve(y.Id())
	require.NoError(t, err)
	_, _, err = yA.AddComment("comment of A")
	require.NoError(t, err)
	require.NoError(t, yA.Commit())

	after, err := c02a1OpIds(w.repoA, y.Id())
	require.NoError(t, err, "Y was readable before the pull and is not anymore")
	for _, id := range before {
		require.Contains(t, after, id)
	}
}
