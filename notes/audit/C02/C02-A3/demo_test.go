// C02-A3 demo.
// Place this file in the package directory ./cache (external test: package cache_test) and run
//   go test -count=1 -run TestC02A3IdentityHeldAcrossPullDropsMergedVersions ./cache
//
// An identity object obtained from the cache before a pull, and used after it, commits on top of
// the version it knows: the reference is moved back and the versions merged by the pull are dropped
// from the local identity, without any error. (dag entities refuse such a commit; identities don't.)
package cache_test

import (
	"testing"

	"github.com/stretchr/testify/require"

	"github.com/MichaelMure/git-bug/cache"
	"github.com/MichaelMure/git-bug/entities/identity"
	"github.com/MichaelMure/git-bug/repository"
)

func TestC02A3IdentityHeldAcrossPullDropsMergedVersions(t *testing.T) {
	repoA, repoB, _ := repository.SetupGoGitReposAndRemote(t)

	open := func(repo repository.TestedRepo) *cache.RepoCache {
		c, err := cache.NewRepoCacheNoEvents(repo)
		require.NoError(t, err)
		t.Cleanup(func() { _ = c.Close() })
		return c
	}
	cacheA, cacheB := open(repoA), open(repoB)

	userA, err := cacheA.Identities().New("René Descartes", "rene@descartes.fr")
	require.NoError(t, err)
	require.NoError(t, cacheA.SetUserIdentity(userA))
	_, err = cacheA.Push("origin")
	require.NoError(t, err)

	tmp, err := cacheB.Identities().New("tmp", "tmp@example.com")
	require.NoError(t, err)
	require.NoError(t, cacheB.SetUserIdentity(tmp))
	require.NoError(t, cacheB.Pull("origin"))
	userB, err := cacheB.Identities().Resolve(userA.Id())
	require.NoError(t, err)

	// B publishes a second version of the identity
	require.NoError(t, userB.Mutate(repoB, func(m *identity.Mutator) { m.Email = "rene@b.example.com" }))
	require.NoError(t, userB.Commit())
	_, err = cacheB.Push("origin")
	require.NoError(t, err)

	// A pulls it: the local identity now has the two versions
	require.NoError(t, cacheA.Pull("origin"))
	merged, err := identity.ReadLocal(repoA, userA.Id())
	require.NoError(t, err)
	require.Equal(t, "rene@b.example.com", merged.Email())
	remoteB, err := identity.ReadRemote(repoA, "origin", userA.Id().String())
	require.NoError(t, err)
	require.Equal(t, "rene@b.example.com", remoteB.Email())

	// A goes on with the object it got before the pull
	require.NoError(t, userA.Mutate(repoA, func(m *identity.Mutator) { m.Name = "René D." }))
	err = userA.Commit()
	if err != nil {
		// refusing is fine: nothing is lost
		t.Logf("commit refused: %v", err)
	}

	// whatever happened, the version merged by the pull has to be part of the local identity
	final, err := identity.ReadLocal(repoA, userA.Id())
	require.NoError(t, err)
	ok, err := final.Merge(repoA, remoteB) // fast-forward only: fails if the remote version is not included
	require.NoError(t, err, "the local identity doesn't include anymore the version merged by the pull")
	_ = ok
}
