// C02-A2 demo.
// Place this file in the package directory ./cache (external test: package cache_test) and run
//   go test -count=1 -run TestC02A2IdentityPullMakesLocalBugUnreadable ./cache
//
// The same identity is used on two machines (git bug user adopt). On the machine that is behind
// (it has only seen the creation of the bug), the user declares a first key: the new version of the
// identity is effective from the (low) Lamport time of that machine. When the first machine pulls
// this version, the unsigned operations it has already written at later times fall under the key:
// the pull succeeds, reports identity "updated" / bug "nothing", and the bug that was readable
// before the pull can't be read anymore.
package cache_test

import (
	"testing"

	"github.com/stretchr/testify/require"

	"github.com/MichaelMure/git-bug/cache"
	"github.com/MichaelMure/git-bug/entities/bug"
	"github.com/MichaelMure/git-bug/entities/identity"
	"github.com/MichaelMure/git-bug/entity"
	"github.com/MichaelMure/git-bug/repository"
)

func TestC02A2IdentityPullMakesLocalBugUnreadable(t *testing.T) {
	repoA, repoB, _ := repository.SetupGoGitReposAndRemote(t)

	open := func(repo repository.TestedRepo) *cache.RepoCache {
		c, err := cache.NewRepoCacheNoEvents(repo)
		require.NoError(t, err)
		t.Cleanup(func() { _ = c.Close() })
		return c
	}
	cacheA, cacheB := open(repoA), open(repoB)

	// machine A: the user creates its identity and a bug, and publishes them
	userA, err := cacheA.Identities().New("René Descartes", "rene@descartes.fr")
	require.NoError(t, err)
	require.NoError(t, cacheA.SetUserIdentity(userA))
	y, _, err := cacheA.Bugs().New("bug Y", "message")
	require.NoError(t, err)
	_, err = cacheA.Push("origin")
	require.NoError(t, err)

	// machine B: another identity to be able to pull, then the user adopts its identity
	tmp, err := cacheB.Identities().New("tmp", "tmp@example.com")
	require.NoError(t, err)
	require.NoError(t, cacheB.SetUserIdentity(tmp))
	require.NoError(t, cacheB.Pull("origin"))
	userB, err := cacheB.Identities().Resolve(userA.Id())
	require.NoError(t, err)
	require.NoError(t, cacheB.SetUserIdentity(userB))

	// machine A: more work on the bug, not seen by B
	for _, msg := range []string{"comment 1", "comment 2", "comment 3"} {
		_, _, err = y.AddComment(msg)
		require.NoError(t, err)
		require.NoError(t, y.Commit())
	}

	readOps := func() ([]entity.Id, error) {
		b, err := bug.Read(repoA, y.Id())
		if err != nil {
			return nil, err
		}
		var ids []entity.Id
		for _, op := range b.Operations() {
			ids = append(ids, op.Id())
		}
		return ids, nil
	}
	before, err := readOps()
	require.NoError(t, err)
	require.Len(t, before, 4)

	// machine B: the user declares a key, and publishes the new version of its identity
	err = userB.Mutate(repoB, func(m *identity.Mutator) {
		m.Keys = append(m.Keys, identity.GenerateKey())
	})
	require.NoError(t, err)
	require.NoError(t, userB.Commit())
	_, err = cacheB.Push("origin")
	require.NoError(t, err)

	// machine A pulls
	_, err = cacheA.Fetch("origin")
	require.NoError(t, err)
	for res := range cacheA.MergeAll("origin") {
		require.NoError(t, res.Err)
		t.Logf("merge result: %s %s", res.Id.Human(), res)
		require.NotEqual(t, entity.MergeStatusInvalid, res.Status)
	}

	// the bug was readable before the pull: it must still be, with all its operations
	after, err := readOps()
	require.NoError(t, err, "bug Y is not readable anymore after the pull")
	for _, id := range before {
		require.Contains(t, after, id)
	}
}
