// C02-A7 demo.
// Place this file in the package directory ./cache (external test: package cache_test) and run
//   go test -count=1 -run TestC02A7MergeOverwritesConcurrentCommit ./cache
//
// The merge reads the local reference, decides (fast-forward) and then moves the reference, without
// any protection against a commit made in between by another goroutine using the same cache (the
// cache is documented as dealing with concurrency). The commit succeeds for its caller, then the
// merge moves the reference to the remote commit: the operation is not in the bug anymore.
// The interleaving is forced with a repository wrapper that runs the concurrent commit when the
// merge lists the commits of the local reference.
package cache_test

import (
	"sync"
	"testing"

	"github.com/stretchr/testify/require"

	"github.com/MichaelMure/git-bug/cache"
	"github.com/MichaelMure/git-bug/entities/bug"
	"github.com/MichaelMure/git-bug/entity"
	"github.com/MichaelMure/git-bug/repository"
)

type c02a7Repo struct {
	repository.TestedRepo
	mu   sync.Mutex
	hook func(ref string)
}

func (r *c02a7Repo) ListCommits(ref string) ([]repository.Hash, error) {
	r.mu.Lock()
	hook := r.hook
	r.mu.Unlock()
	if hook != nil {
		hook(ref)
	}
	return r.TestedRepo.ListCommits(ref)
}

func TestC02A7MergeOverwritesConcurrentCommit(t *testing.T) {
	rawA, repoB, _ := repository.SetupGoGitReposAndRemote(t)
	repoA := &c02a7Repo{TestedRepo: rawA}

	open := func(repo repository.ClockedRepo) *cache.RepoCache {
		c, err := cache.NewRepoCacheNoEvents(repo)
		require.NoError(t, err)
		t.Cleanup(func() { _ = c.Close() })
		return c
	}
	cacheA, cacheB := open(repoA), open(repoB)

	iA, err := cacheA.Identities().New("A", "a@example.com")
	require.NoError(t, err)
	require.NoError(t, cacheA.SetUserIdentity(iA))
	iB, err := cacheB.Identities().New("B", "b@example.com")
	require.NoError(t, err)
	require.NoError(t, cacheB.SetUserIdentity(iB))

	y, _, err := cacheA.Bugs().New("bug Y", "message")
	require.NoError(t, err)
	_, err = cacheA.Push("origin")
	require.NoError(t, err)
	require.NoError(t, cacheB.Pull("origin"))

	// B edits Y and publishes
	yB, err := cacheB.Bugs().Resolve(y.Id())
	require.NoError(t, err)
	_, opB, err := yB.AddComment("comment of B")
	require.NoError(t, err)
	require.NoError(t, yB.Commit())
	_, err = cacheB.Push("origin")
	require.NoError(t, err)

	// While A merges, another goroutine of A (think of a request served by the web UI) comments Y.
	var opA entity.Id
	var commitErr error
	var once sync.Once
	localRef := "refs/bugs/" + y.Id().String()
	repoA.mu.Lock()
	repoA.hook = func(ref string) {
		if ref != localRef {
			return
		}
		once.Do(func() {
			done := make(chan struct{})
			go func() {
				defer close(done)
				yA, err := cacheA.Bugs().Resolve(y.Id())
				if err != nil {
					commitErr = err
					return
				}
				_, op, err := yA.AddComment("comment of A")
				if err != nil {
					commitErr = err
					return
				}
				opA = op.Id()
				commitErr = yA.Commit()
			}()
			<-done
		})
	}
	repoA.mu.Unlock()

	require.NoError(t, cacheA.Pull("origin"))

	repoA.mu.Lock()
	repoA.hook = nil
	repoA.mu.Unlock()

	require.NotEmpty(t, opA, "the concurrent edit did not run")
	if commitErr != nil {
		// refusing the commit is fine: its author knows that nothing has been written
		t.Skipf("the concurrent commit has been refused: %v", commitErr)
	}

	// the commit has been acknowledged: its operation is in the bug, with the one pulled from B
	b, err := bug.Read(repoA, y.Id())
	require.NoError(t, err)
	var ids []entity.Id
	for _, op := range b.Operations() {
		ids = append(ids, op.Id())
	}
	require.Contains(t, ids, opB.Id())
	require.Contains(t, ids, opA, "the operation committed during the merge has been dropped")
}
