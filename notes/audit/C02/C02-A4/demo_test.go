// C02-A4 demo.
// Place this file in the package directory ./cache (external test: package cache_test) and run
//   go test -count=1 -run TestC02A4PullWithoutUserIdentityMergesNothing ./cache
//
// A fresh clone has no user identity yet (the documented way to get one on a second machine is
// "git bug pull" then "git bug user adopt"). The merge asks for the user identity before doing
// anything, even for the identities and for the cases that need no merge commit: nothing is merged.
package cache_test

import (
	"testing"

	"github.com/stretchr/testify/require"

	"github.com/MichaelMure/git-bug/cache"
	"github.com/MichaelMure/git-bug/entities/bug"
	"github.com/MichaelMure/git-bug/entities/identity"
	"github.com/MichaelMure/git-bug/repository"
)

func TestC02A4PullWithoutUserIdentityMergesNothing(t *testing.T) {
	repoA, repoB, _ := repository.SetupGoGitReposAndRemote(t)

	open := func(repo repository.TestedRepo) *cache.RepoCache {
		c, err := cache.NewRepoCacheNoEvents(repo)
		require.NoError(t, err)
		t.Cleanup(func() { _ = c.Close() })
		return c
	}
	cacheA, cacheB := open(repoA), open(repoB)

	userA, err := cacheA.Identities().New("René Descartes", "rene@descartes.fr")
	require.NoError(t, err)
	require.NoError(t, cacheA.SetUserIdentity(userA))
	y, _, err := cacheA.Bugs().New("bug Y", "message")
	require.NoError(t, err)
	_, err = cacheA.Push("origin")
	require.NoError(t, err)

	// B: fresh clone, no identity. Same steps as "git bug pull".
	_, err = cacheB.Fetch("origin")
	require.NoError(t, err)
	for res := range cacheB.MergeAll("origin") {
		t.Logf("merge result: %q %s", res.Id, res)
	}

	// entities that only existed on the remote now exist locally
	_, err = identity.ReadLocal(repoB, userA.Id())
	require.NoError(t, err, "the remote identity has not been created locally")
	_, err = bug.Read(repoB, y.Id())
	require.NoError(t, err, "the remote bug has not been created locally")
}
