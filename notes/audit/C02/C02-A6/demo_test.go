// C02-A6 demo.
// Place this file in the package directory ./entities/bug (external test: package bug_test) and run
//   go test -count=1 -run TestC02A6MergeOfTwoValidHistoriesGivesInvalidBug ./entities/bug
//
// The remote version of a bug is validated before a merge, the merged result is not. When the two
// branches carry the same operation (same serialized bytes, hence same id) in two different commits,
// each side is valid but the merged bug is not ("id collision"): the pull reports "updated", and from
// then on the local bug can't be committed anymore, and is refused as invalid by whoever pulls it.
package bug_test

import (
	"testing"
	"time"

	"github.com/stretchr/testify/require"

	"github.com/MichaelMure/git-bug/entities/bug"
	"github.com/MichaelMure/git-bug/entities/identity"
	"github.com/MichaelMure/git-bug/entity"
	"github.com/MichaelMure/git-bug/repository"
)

func TestC02A6MergeOfTwoValidHistoriesGivesInvalidBug(t *testing.T) {
	repoA, repoB, _ := repository.SetupGoGitReposAndRemote(t)

	author, err := identity.NewIdentity(repoA, "René Descartes", "rene@descartes.fr")
	require.NoError(t, err)
	require.NoError(t, author.Commit(repoA))
	_, err = identity.Push(repoA, "origin")
	require.NoError(t, err)
	require.NoError(t, identity.Pull(repoB, "origin"))

	// A creates the bug, B gets it
	bA, _, err := bug.Create(author, time.Now().Unix(), "title", "message", nil, nil)
	require.NoError(t, err)
	require.NoError(t, bA.Commit(repoA))
	_, err = bug.Push(repoA, "origin")
	require.NoError(t, err)
	authorB, err := identity.ReadLocal(repoB, author.Id())
	require.NoError(t, err)
	require.NoError(t, bug.Pull(repoB, bugResolvers(repoB), "origin", authorB))

	// something else happens in B: its clocks are not those of A
	other, _, err := bug.Create(authorB, time.Now().Unix(), "other", "message", nil, nil)
	require.NoError(t, err)
	require.NoError(t, other.Commit(repoB))

	// the same operation is recorded on both sides (e.g. a client that replays an operation it has
	// received by another channel)
	op := bug.NewAddCommentOp(author, time.Now().Unix(), "same comment", nil)
	bA.Append(op)
	require.NoError(t, bA.Commit(repoA))

	bB, err := bug.Read(repoB, bA.Id())
	require.NoError(t, err)
	bB.Append(op)
	require.NoError(t, bB.Commit(repoB))
	require.NoError(t, bB.Validate())
	_, err = bug.Push(repoB, "origin")
	require.NoError(t, err)

	before, err := bug.Read(repoA, bA.Id())
	require.NoError(t, err)
	require.NoError(t, before.Validate(), "the local bug is valid before the pull")

	// A pulls
	_, err = bug.Fetch(repoA, "origin")
	require.NoError(t, err)
	for res := range bug.MergeAll(repoA, bugResolvers(repoA), "origin", author) {
		require.NoError(t, res.Err)
		t.Logf("merge result: %s %s", res.Id.Human(), res)
		if res.Status == entity.MergeStatusInvalid {
			// refusing the remote version is fine: the local bug is untouched
			continue
		}
		if res.Entity != nil {
			require.NoError(t, res.Entity.Validate(), "the entity handed back by the merge is not valid")
		}
	}

	after, err := bug.Read(repoA, bA.Id())
	require.NoError(t, err)
	require.NoError(t, after.Validate(), "the local bug is not valid anymore after the pull")
}

func bugResolvers(repo repository.ClockedRepo) entity.Resolvers {
	return entity.Resolvers{
		&identity.Identity{}: identity.NewSimpleResolver(repo),
	}
}
