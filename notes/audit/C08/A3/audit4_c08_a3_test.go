package cache

import (
	"testing"

	"github.com/stretchr/testify/require"

	"github.com/MichaelMure/git-bug/entities/bug"
	"github.com/MichaelMure/git-bug/entities/identity"
	"github.com/MichaelMure/git-bug/repository"
)

// The merge commit written by a pull is authored by the user identity. dag.Entity.Commit refuses
// to write for an author that has versions not stored yet (the reader verifies with the keys found
// in the repository); the merge commit is written without that check, with whatever the identity
// in memory says.
func TestAudit4C08A3_MergeCommitWithUncommittedIdentity(t *testing.T) {
	repoA, repoB, _ := repository.SetupGoGitReposAndRemote(t)

	cacheA := createTestRepoCacheNoEvents(t, repoA)
	cacheB := createTestRepoCacheNoEvents(t, repoB)

	// René signs his commits
	reneA, err := cacheA.Identities().NewFull("René Descartes", "rene@descartes.fr", "", "",
		[]*identity.Key{identity.GenerateKey()})
	require.NoError(t, err)
	require.NoError(t, cacheA.SetUserIdentity(reneA))

	isaacB, err := cacheB.Identities().New("Isaac Newton", "isaac@newton.uk")
	require.NoError(t, err)
	require.NoError(t, cacheB.SetUserIdentity(isaacB))

	// a bug of René, known on both sides
	bugA, _, err := cacheA.Bugs().New("bug1", "message")
	require.NoError(t, err)
	// (and another one, for the control below)
	bug2A, _, err := cacheA.Bugs().New("bug2", "message")
	require.NoError(t, err)
	_, err = cacheA.Push("origin")
	require.NoError(t, err)
	require.NoError(t, cacheB.Pull("origin"))

	// concurrent edition
	bugB, err := cacheB.Bugs().Resolve(bugA.Id())
	require.NoError(t, err)
	_, _, err = bugB.AddComment("from Isaac")
	require.NoError(t, err)
	require.NoError(t, bugB.Commit())
	_, err = cacheB.Push("origin")
	require.NoError(t, err)

	_, _, err = bugA.AddComment("from René")
	require.NoError(t, err)
	require.NoError(t, bugA.Commit())

	// what is stored is fine
	_, err = bug.Read(repoA, bugA.Id())
	require.NoError(t, err)

	// René drops his key, the new version of the identity is not committed yet
	err = reneA.Mutate(repoA, func(m *identity.Mutator) {
		m.Keys = nil
	})
	require.NoError(t, err)
	require.True(t, reneA.NeedCommit())

	// control: in that state, an ordinary commit of René is refused
	_, _, err = bug2A.AddComment("not written")
	require.NoError(t, err)
	require.Error(t, bug2A.Commit(), "control: an ordinary commit is refused while the author has versions to commit")

	// Either the merge is refused as well ...
	errPull := cacheA.Pull("origin")
	t.Logf("pull: %v", errPull)

	// ... or what it wrote is acceptable with what the repository holds: the identity stored says
	// that the key is in force, the commits of René have to be signed. That is what the next
	// process (or anybody this is pushed to) reads.
	stored, err := identity.ReadLocal(repoA, reneA.Id())
	require.NoError(t, err)
	require.Len(t, stored.Keys(), 1)

	_, err = bug.Read(repoA, bugA.Id())
	require.NoError(t, err, "the pull stored (and accepted) an unsigned commit of an author whose stored identity has a key in force")
}
