package bug

import (
	"bytes"
	"strings"
	"testing"
	"time"

	"github.com/ProtonMail/go-crypto/openpgp"
	"github.com/ProtonMail/go-crypto/openpgp/packet"
	"github.com/go-git/go-git/v5"
	"github.com/stretchr/testify/require"

	"github.com/MichaelMure/git-bug/entities/identity"
	"github.com/MichaelMure/git-bug/repository"
)

// c08Resign replaces the signature of a signed commit by another one, made with the given key by a
// machine whose wall clock shows `now`.
func c08Resign(t *testing.T, data []byte, key *identity.Key, now time.Time) []byte {
	t.Helper()

	// the payload: the commit without its gpgsig header (and the continuation lines of it)
	var payload, before, after []byte
	inSig, seenSig, inMessage := false, false, false
	for _, line := range bytes.SplitAfter(data, []byte("\n")) {
		switch {
		case inMessage:
			after = append(after, line...)
		case inSig && bytes.HasPrefix(line, []byte(" ")):
			// dropped
		case bytes.HasPrefix(line, []byte("gpgsig ")):
			inSig, seenSig = true, true
		case bytes.Equal(line, []byte("\n")):
			inSig, inMessage = false, true
			after = append(after, line...)
		default:
			inSig = false
			require.False(t, seenSig, "header after the signature: not written by git-bug")
			before = append(before, line...)
		}
	}
	require.True(t, seenSig)
	payload = append(append(payload, before...), after...)

	var sig bytes.Buffer
	err := openpgp.ArmoredDetachSign(&sig, key.PGPEntity(), bytes.NewReader(payload), &packet.Config{
		Time: func() time.Time { return now },
	})
	require.NoError(t, err)

	header := "gpgsig " + strings.Join(strings.Split(strings.TrimSuffix(sig.String(), "\n"), "\n"), "\n ") + "\n"

	var out []byte
	out = append(out, before...)
	out = append(out, header...)
	out = append(out, after...)
	return out
}

// The verdict on a commit signed by a key in force at its logical time only depends on the identity
// history and on the commit. The commit written by a replica whose wall clock is ahead of the
// reader's one (or the own commits of a machine whose clock has been set back) are signed by the
// right key over their exact content: they have to be accepted.
func TestAudit4C08A2_RightKeySignerWallClockAhead(t *testing.T) {
	repo := repository.CreateGoGitTestRepo(t, false)

	key := identity.GenerateKey()
	author, err := identity.NewIdentityFull(repo, "René Descartes", "rene@descartes.fr", "", "",
		[]*identity.Key{key})
	require.NoError(t, err)
	require.NoError(t, author.Commit(repo))

	b, _, err := Create(author, time.Now().Unix(), "title", "message", nil, nil)
	require.NoError(t, err)
	require.NoError(t, b.Commit(repo))

	ref := "refs/bugs/" + b.Id().String()
	original, err := repo.ResolveRef(ref)
	require.NoError(t, err)

	_, err = Read(repo, b.Id())
	require.NoError(t, err)

	raw, err := git.PlainOpen(repo.GetLocalRemote())
	require.NoError(t, err)
	data := c08RawCommit(t, raw, original)

	for _, tc := range []struct {
		name string
		skew time.Duration
		ok   bool
	}{
		// control: the helper builds commits that are accepted
		{"same wall clock", 0, true},
		{"signer 5 minutes ahead", 5 * time.Minute, true},
		{"signer a day ahead", 24 * time.Hour, true},
	} {
		t.Run(strings.ReplaceAll(tc.name, " ", "_"), func(t *testing.T) {
			resigned := c08Resign(t, data, key, time.Now().Add(tc.skew))
			hash := c08StoreRawCommit(t, raw, resigned)

			require.NoError(t, repo.UpdateRef(ref, hash))
			defer func() { require.NoError(t, repo.UpdateRef(ref, original)) }()

			_, err := Read(repo, b.Id())
			require.NoError(t, err, "commit signed by the key in force over its exact content")
		})
	}

	// control: same commit, same wall clock skew, signed by a stranger's key: rejected
	resigned := c08Resign(t, data, identity.GenerateKey(), time.Now())
	hash := c08StoreRawCommit(t, raw, resigned)
	require.NoError(t, repo.UpdateRef(ref, hash))
	_, err = Read(repo, b.Id())
	require.Error(t, err)
}
