package bug

// Helpers shared by the audit4 C08 tests (A1, A2): read and write raw git commit objects.

import (
	"io"
	"testing"

	"github.com/go-git/go-git/v5"
	"github.com/go-git/go-git/v5/plumbing"
	"github.com/stretchr/testify/require"

	"github.com/MichaelMure/git-bug/repository"
)

// c08RawCommit returns the exact bytes of a commit object of the repository.
func c08RawCommit(t *testing.T, r *git.Repository, hash repository.Hash) []byte {
	t.Helper()
	obj, err := r.Storer.EncodedObject(plumbing.CommitObject, plumbing.NewHash(hash.String()))
	require.NoError(t, err)
	reader, err := obj.Reader()
	require.NoError(t, err)
	raw, err := io.ReadAll(reader)
	require.NoError(t, err)
	require.NoError(t, reader.Close())
	return raw
}

// c08StoreRawCommit stores the given bytes as a commit object, whatever they are.
func c08StoreRawCommit(t *testing.T, r *git.Repository, raw []byte) repository.Hash {
	t.Helper()
	obj := r.Storer.NewEncodedObject()
	obj.SetType(plumbing.CommitObject)
	w, err := obj.Writer()
	require.NoError(t, err)
	_, err = w.Write(raw)
	require.NoError(t, err)
	require.NoError(t, w.Close())
	h, err := r.Storer.SetEncodedObject(obj)
	require.NoError(t, err)
	return repository.Hash(h.String())
}
