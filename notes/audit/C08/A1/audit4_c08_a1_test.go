package bug

import (
	"bytes"
	"strings"
	"testing"
	"time"

	"github.com/go-git/go-git/v5"
	"github.com/stretchr/testify/require"

	"github.com/MichaelMure/git-bug/entities/identity"
	"github.com/MichaelMure/git-bug/repository"
)

// A commit signed by the right key and then altered must be rejected, whatever the alteration is:
// the signature has to cover the exact content of the commit (everything but the gpgsig header).
func TestAudit4C08A1_SignedThenAlteredCommit(t *testing.T) {
	repo := repository.CreateGoGitTestRepo(t, false)

	author, err := identity.NewIdentityFull(repo, "René Descartes", "rene@descartes.fr", "", "",
		[]*identity.Key{identity.GenerateKey()})
	require.NoError(t, err)
	require.NoError(t, author.Commit(repo))

	b, _, err := Create(author, time.Now().Unix(), "title", "message", nil, nil)
	require.NoError(t, err)
	require.NoError(t, b.Commit(repo))

	ref := "refs/bugs/" + b.Id().String()
	original, err := repo.ResolveRef(ref)
	require.NoError(t, err)

	// the genuine commit is signed and accepted
	_, err = Read(repo, b.Id())
	require.NoError(t, err)

	raw, err := git.PlainOpen(repo.GetLocalRemote())
	require.NoError(t, err)

	data := c08RawCommit(t, raw, original)
	require.Contains(t, string(data), "\ngpgsig -----BEGIN PGP SIGNATURE-----")

	// where the headers stop (first empty line)
	headerEnd := bytes.Index(data, []byte("\n\n"))
	require.Greater(t, headerEnd, 0)
	// start of the committer line
	committer := bytes.Index(data, []byte("\ncommitter ")) + 1
	require.Greater(t, committer, 0)
	committerEnd := committer + bytes.IndexByte(data[committer:], '\n')

	insert := func(at int, s string) []byte {
		var out []byte
		out = append(out, data[:at]...)
		out = append(out, s...)
		out = append(out, data[at:]...)
		return out
	}

	alterations := []struct {
		name    string
		altered []byte
	}{
		// control: this one is detected
		{"control: message changed", append(append([]byte{}, data...), "evil"...)},
		// those are not
		{"header added after the committer", insert(committerEnd+1, "x-injected anything the attacker likes\n")},
		{"header added after the signature", insert(headerEnd+1, "x-injected anything the attacker likes\n")},
		{"default encoding header added", insert(committerEnd+1, "encoding UTF-8\n")},
		{"trailing blanks added to the committer line", insert(committerEnd, "   ")},
		{"unrelated tree line added before the real one", insert(0, "tree 4b825dc642cb6eb9a060e54bf8d69288fbee4904\n")},
	}

	for _, alt := range alterations {
		t.Run(strings.ReplaceAll(alt.name, " ", "_"), func(t *testing.T) {
			require.NotEqual(t, data, alt.altered)

			hash := c08StoreRawCommit(t, raw, alt.altered)
			require.NotEqual(t, original, hash, "the altered commit is another git object")

			require.NoError(t, repo.UpdateRef(ref, hash))
			defer func() { require.NoError(t, repo.UpdateRef(ref, original)) }()

			_, err := Read(repo, b.Id())
			require.Error(t, err, "a commit altered after its signature has been accepted")
		})
	}
}
