// C12-A1: the sort qualifier of a query given to `git bug` is ignored.
//
// Place this file in commands/bug/ (package bugcmd) and run:
//   go test -count=1 -run TestC12A1 ./commands/bug/
package bugcmd

import (
	"sort"
	"strings"
	"testing"

	"github.com/spf13/cobra"
	"github.com/stretchr/testify/require"

	"github.com/MichaelMure/git-bug/commands/bug/testenv"
)

// runs `git-bug bug <args...>` through cobra, i.e. with the real default values of the flags
func c12a1Run(t *testing.T, titles []string, args ...string) (created []string, listed []string) {
	env, _ := testenv.NewTestEnvAndUser(t)
	for _, title := range titles {
		b, _, err := env.Backend.Bugs().New(title, "message")
		require.NoError(t, err)
		created = append(created, b.Id().String())
	}

	cmd := NewBugCommand(env)
	cmd.PreRunE = nil // the backend of the test env is already loaded
	root := &cobra.Command{Use: "git-bug"}
	root.AddCommand(cmd)
	root.SetArgs(append([]string{"bug"}, args...))
	require.NoError(t, root.Execute())

	listed = strings.Fields(env.Out.(interface{ String() string }).String())
	return created, listed
}

func TestC12A1SortQualifierIgnoredByCLI(t *testing.T) {
	titles := []string{"one", "two", "three", "four", "five"}

	t.Run("sort:creation-desc", func(t *testing.T) {
		created, listed := c12a1Run(t, titles, "sort:creation-desc", "--format", "id")
		var expected []string
		for i := len(created) - 1; i >= 0; i-- {
			expected = append(expected, created[i])
		}
		require.Equal(t, expected, listed, "most recently created bug first")
	})

	t.Run("sort:id-desc", func(t *testing.T) {
		created, listed := c12a1Run(t, titles, "sort:id-desc", "--format", "id")
		expected := append([]string(nil), created...)
		sort.Sort(sort.Reverse(sort.StringSlice(expected)))
		require.Equal(t, expected, listed, "largest id first")
	})

	t.Run("status:open sort:id", func(t *testing.T) {
		// the example of the help text of the command has this shape
		created, listed := c12a1Run(t, titles, "status:open", "sort:id", "--format", "id")
		expected := append([]string(nil), created...)
		sort.Strings(expected)
		require.Equal(t, expected, listed, "smallest id first")
	})
}
