// C12-A6: a query evaluated while another goroutine changes the labels of a bug misses a
// label that the bug has before AND after that change.
//
// Place this file in cache/ (package cache) and run:
//   go test -count=1 -run TestC12A6 ./cache/
// (also reported by `go test -race`)
package cache

import (
	"sync"
	"sync/atomic"
	"testing"
	"time"

	"github.com/stretchr/testify/require"

	"github.com/MichaelMure/git-bug/query"
	"github.com/MichaelMure/git-bug/repository"
)

func TestC12A6LabelQueryDuringLabelChange(t *testing.T) {
	repo := repository.CreateGoGitTestRepo(t, false)
	cache, err := NewRepoCacheNoEvents(repo)
	require.NoError(t, err)
	defer cache.Close()

	iden, err := cache.Identities().New("René Descartes", "rene@descartes.fr")
	require.NoError(t, err)
	require.NoError(t, cache.SetUserIdentity(iden))

	b, _, err := cache.Bugs().New("title", "message")
	require.NoError(t, err)
	// the bug has the label "d" from now on, nothing below removes it
	_, _, err = b.ChangeLabels([]string{"a", "b", "d"}, nil)
	require.NoError(t, err)
	require.NoError(t, b.Commit())

	q, err := query.Parse("label:d")
	require.NoError(t, err)

	var stop atomic.Bool
	var queries, misses atomic.Int64

	// readers (think: GraphQL requests of the web UI)
	var wg sync.WaitGroup
	for g := 0; g < 2; g++ {
		wg.Add(1)
		go func() {
			defer wg.Done()
			for !stop.Load() {
				res, err := cache.Bugs().Query(q)
				if err != nil {
					panic(err)
				}
				queries.Add(1)
				if len(res) != 1 {
					misses.Add(1)
				}
			}
		}()
	}

	// writer: adds and removes the label "c", which sorts before "d"
	deadline := time.Now().Add(10 * time.Second)
	rounds := 0
	for time.Now().Before(deadline) && misses.Load() == 0 {
		_, _, err = b.ChangeLabels([]string{"c"}, nil)
		require.NoError(t, err)
		require.NoError(t, b.Commit())
		_, _, err = b.ChangeLabels(nil, []string{"c"})
		require.NoError(t, err)
		require.NoError(t, b.Commit())
		rounds++
	}
	stop.Store(true)
	wg.Wait()

	// once quiet, everything is fine again
	res, err := cache.Bugs().Query(q)
	require.NoError(t, err)
	require.Len(t, res, 1)

	t.Logf("%d rounds, %d queries, %d without the bug", rounds, queries.Load(), misses.Load())
	require.Zero(t, misses.Load(), "label:d did not return a bug that has the label d at all times")
}
