// C12-A2: `git bug` mangles a query argument that already carries the documented quotes.
//
// Place this file in commands/bug/ (package bugcmd) and run:
//   go test -count=1 -run TestC12A2 ./commands/bug/
package bugcmd

import (
	"strings"
	"testing"

	"github.com/stretchr/testify/require"

	"github.com/MichaelMure/git-bug/commands/bug/testenv"
	"github.com/MichaelMure/git-bug/query"
)

func TestC12A2QuotedArgumentMangled(t *testing.T) {
	env, _ := testenv.NewTestEnvAndUser(t)

	wanted, _, err := env.Backend.Bugs().New("Typo in string", "message")
	require.NoError(t, err)
	_, _, err = env.Backend.Bugs().New("something else", "message")
	require.NoError(t, err)

	// doc/queries.md: `title:"Typo in string"` matches bugs with a title containing `Typo in string`
	const documented = `title:"Typo in string"`

	// the library agrees ...
	q, err := query.Parse(documented)
	require.NoError(t, err)
	require.Equal(t, []string{"Typo in string"}, q.Title)

	// ... but the command, receiving exactly this text as one argument
	// (shell: git bug 'title:"Typo in string"'), does not
	for _, arg := range []string{documented, `title:'Typo in string'`} {
		t.Run(arg, func(t *testing.T) {
			env.Out.(interface{ Reset() }).Reset()

			opts := bugOptions{
				sortBy:              "creation",
				sortDirection:       "asc",
				outputFormat:        "id",
				outputFormatChanged: true,
			}
			require.NoError(t, runBug(env, opts, []string{arg}))

			listed := strings.Fields(env.Out.(interface{ String() string }).String())
			require.Equal(t, []string{wanted.Id().String()}, listed)
		})
	}

	// same thing seen at the level of the helper
	assembled := repairQuery([]string{documented})
	q2, err := query.Parse(assembled)
	require.NoError(t, err)
	require.Equal(t, q.Title, q2.Title, "repaired query is %s", assembled)
	require.Empty(t, q2.Search, "repaired query is %s", assembled)
}
