// C12-A5: `git bug --metadata key=value` cuts the value at its first '='.
//
// Place this file in commands/bug/ (package bugcmd) and run:
//   go test -count=1 -run TestC12A5 ./commands/bug/
package bugcmd

import (
	"strings"
	"testing"

	"github.com/stretchr/testify/assert"
	"github.com/stretchr/testify/require"

	"github.com/MichaelMure/git-bug/commands/bug/testenv"
	"github.com/MichaelMure/git-bug/query"
)

func TestC12A5MetadataFlagValueTruncated(t *testing.T) {
	env, userId := testenv.NewTestEnvAndUser(t)
	author, err := env.Backend.Identities().Resolve(userId)
	require.NoError(t, err)

	const url = "https://example.com/issues?id=12"

	wanted, _, err := env.Backend.Bugs().NewRaw(author, 1, "one", "message", nil,
		map[string]string{"origin-url": url})
	require.NoError(t, err)
	other, _, err := env.Backend.Bugs().NewRaw(author, 2, "two", "message", nil,
		map[string]string{"origin-url": "https://example.com/issues?id"})
	require.NoError(t, err)

	// the query language gets it right
	q, err := query.Parse(`metadata:origin-url:"` + url + `"`)
	require.NoError(t, err)
	ids, err := env.Backend.Bugs().Query(q)
	require.NoError(t, err)
	require.Len(t, ids, 1)
	require.Equal(t, wanted.Id(), ids[0])

	// the flag (git bug --metadata origin-url=https://example.com/issues?id=12) does not
	opts := bugOptions{
		metadataQuery:       []string{"origin-url=" + url},
		sortBy:              "creation",
		sortDirection:       "asc",
		outputFormat:        "id",
		outputFormatChanged: true,
	}

	q2 := query.NewQuery()
	require.NoError(t, completeQuery(q2, opts))
	assert.Equal(t, []query.StringPair{{Key: "origin-url", Value: url}}, q2.Metadata)

	require.NoError(t, runBug(env, opts, nil))
	listed := strings.Fields(env.Out.(interface{ String() string }).String())
	require.Equal(t, []string{wanted.Id().String()}, listed, "the other bug is %s", other.Id())
}
