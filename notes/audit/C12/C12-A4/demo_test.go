// C12-A4: an empty chunk between two colons is silently dropped instead of being rejected.
//
// Place this file in query/ (package query) and run:
//   go test -count=1 -run TestC12A4 ./query/
package query

import (
	"testing"

	"github.com/stretchr/testify/require"
)

func TestC12A4EmptyChunkAccepted(t *testing.T) {
	// the lexer already refuses an empty qualifier or value at both ends ...
	for _, input := range []string{"status:", ":open", "metadata:key:", ":key:value"} {
		_, err := Parse(input)
		require.Error(t, err, input)
	}

	// ... but not in the middle
	for _, input := range []string{
		"status::open",       // parsed as status:open
		"sort::id",           // parsed as sort:id
		"title:::x",          // parsed as title:x
		"metadata::key:val",  // empty sub-qualifier, 4 chunks: parsed as metadata:key:val
		"metadata:key::val",  // parsed as metadata:key:val
		"metadata:::key:val", // 5 chunks
	} {
		t.Run(input, func(t *testing.T) {
			q, err := Parse(input)
			require.Error(t, err, "parsed as %+v", q)
			require.Nil(t, q)

			tokens, err := tokenize(input)
			require.Error(t, err, "tokenized as %+v", tokens)
		})
	}
}
