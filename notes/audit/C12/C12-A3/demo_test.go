// C12-A3: search terms are pasted unescaped into bleve's query-string language.
//
// Place this file in cache/ (package cache) and run:
//   go test -count=1 -run TestC12A3 ./cache/
package cache

import (
	"testing"

	"github.com/stretchr/testify/require"

	"github.com/MichaelMure/git-bug/entity"
	"github.com/MichaelMure/git-bug/query"
	"github.com/MichaelMure/git-bug/repository"
)

func TestC12A3SearchTermsAreBleveSyntax(t *testing.T) {
	repo := repository.CreateGoGitTestRepo(t, false)
	cache, err := NewRepoCacheNoEvents(repo)
	require.NoError(t, err)
	defer cache.Close()

	iden, err := cache.Identities().New("René Descartes", "rene@descartes.fr")
	require.NoError(t, err)
	require.NoError(t, cache.SetUserIdentity(iden))

	bugUrl, _, err := cache.Bugs().New("see https://example.com/foo for details", "message")
	require.NoError(t, err)
	bugArrow, _, err := cache.Bugs().New("pointer -> member", "x >= 5 breaks")
	require.NoError(t, err)
	bugCrash, _, err := cache.Bugs().New("crash on startup", "message")
	require.NoError(t, err)

	run := func(t *testing.T, qs string) []entity.Id {
		q, err := query.Parse(qs)
		require.NoError(t, err, "the query is well-formed")
		require.Empty(t, q.Filters)
		res, err := cache.Bugs().Query(q)
		require.NoError(t, err, "a query that parses can be evaluated (search terms %q)", []string(q.Search))
		return res
	}

	// sanity: this is how search works
	require.ElementsMatch(t, []entity.Id{bugCrash.Id()}, run(t, `crash`))

	// 1. well-formed queries whose evaluation fails with "syntax error"
	for _, qs := range []string{`->`, `>=`, `=>`, `"<5"`, `"a:"`, `^`, `~`, `"-"`, `"/"`} {
		t.Run("evaluates "+qs, func(t *testing.T) {
			run(t, qs)
		})
	}

	// 2. a quoted term with a colon is a term, not a "field:value" of the index
	t.Run("url", func(t *testing.T) {
		require.ElementsMatch(t, []entity.Id{bugUrl.Id()}, run(t, `"https://example.com/foo"`))
	})

	// 3. a term starting with '-' is a term to find, not "every bug without that word"
	t.Run("dash", func(t *testing.T) {
		res := run(t, `-crash`)
		require.NotContains(t, res, bugUrl.Id())
		require.NotContains(t, res, bugArrow.Id())
	})
}
