package main

// C10: operation sequences over the 8 operation kinds are appended to a real bug.Bug and
// compiled with Bug.Compile; the snapshot is observed field by field.

import (
	"encoding/base64"
	"encoding/json"
	"fmt"
	"sort"
	"strings"

	"github.com/MichaelMure/git-bug/entities/bug"
	"github.com/MichaelMure/git-bug/entities/common"
	"github.com/MichaelMure/git-bug/entities/identity"
	"github.com/MichaelMure/git-bug/entity"
	"github.com/MichaelMure/git-bug/entity/dag"
	"github.com/MichaelMure/git-bug/repository"
)

type c10Target struct {
	Kind string `json:"k"` // op | unknown | collide
	Idx  int    `json:"i,omitempty"`
}
type c10Op struct {
	K     string    `json:"k"` // create comment edit title status label meta noop
	A     int       `json:"a"`
	T     c10Target `json:"t,omitempty"`
	Txt   int       `json:"txt,omitempty"`
	Files []int     `json:"files,omitempty"`
	Add   []int     `json:"add,omitempty"`
	Rem   []int     `json:"rem,omitempty"`
	KV    [][2]int  `json:"kv,omitempty"`
	St    int       `json:"st,omitempty"`
	Own   [][2]int  `json:"own,omitempty"` // metadata the operation carries itself (set before it gets an id)
	Raw   *c10Raw   `json:"raw,omitempty"` // (add comment) exact content: the operation id is a function of it
}

// c10Raw pins everything an add-comment operation's id is the hash of (type, time, nonce, message, no files, no own
// metadata), so that an input can carry operations whose ids are known in advance: two such operations that share
// the first 14 characters of their ids come from a birthday search (notes/audit/C10/collide/main.go).
type c10Raw struct {
	Time  int64  `json:"t"`
	Msg   string `json:"m"`
	Nonce string `json:"n"` // base64, 20..64 bytes
}

// c10CollidingComments: pairs of add-comment contents whose operation ids share their first 14 characters (and differ
// afterwards). Any client can produce such operations; a combined id cannot tell them apart.
var c10CollidingComments = [][2]c10Raw{
	{{1700000000, "c", "YXVkaXQtQzEwLW5vbmNlIQAAAAArXtGc"}, {1700000000, "c", "YXVkaXQtQzEwLW5vbmNlIQAAAAA/WbsT"}},
}

type c10Input struct {
	Ops []c10Op `json:"ops"`
}

type c10Driver struct{}

func init() { register("C10", c10Driver{}) }

func genC10Op(r *Rand, i int, small bool) c10Op {
	na, nl, nt := 3, 5, 6
	if small {
		na, nl, nt = 2, 3, 3
	}
	tgt := func() c10Target {
		switch x := r.Intn(10); {
		case x < 6 && i > 0:
			return c10Target{Kind: "op", Idx: r.Intn(i)}
		case x < 8 && i > 0:
			return c10Target{Kind: "collide", Idx: r.Intn(i)}
		default:
			return c10Target{Kind: "unknown", Idx: r.Intn(3)}
		}
	}
	ints := func(max, n int) []int {
		var xs []int
		for j := 0; j < n; j++ {
			xs = append(xs, r.Intn(max))
		}
		return xs
	}
	op := c10Op{A: r.Intn(na)}
	switch x := r.Intn(20); {
	case x < 4:
		op.K, op.Txt, op.Files = "comment", r.Intn(nt), ints(4, r.Intn(3))
	case x < 9:
		op.K, op.T, op.Txt, op.Files = "edit", tgt(), r.Intn(nt), ints(4, r.Intn(3))
	case x < 11:
		op.K, op.Txt = "title", 1+r.Intn(nt)
	case x < 13:
		op.K, op.St = "status", 1+r.Intn(2)
	case x < 17:
		op.K, op.Add, op.Rem = "label", ints(nl, r.Intn(4)), ints(nl, r.Intn(3))
		if len(op.Add)+len(op.Rem) == 0 {
			op.Add = []int{r.Intn(nl)}
		}
	case x < 19:
		op.K, op.T = "meta", tgt()
		for j, n := 0, 1+r.Intn(2); j < n; j++ {
			op.KV = append(op.KV, [2]int{r.Intn(3), r.Intn(4)})
		}
	case x < 20:
		if r.Bool() {
			op.K = "noop"
		} else {
			op.K, op.Txt, op.Files = "create", 1+r.Intn(nt), ints(4, r.Intn(2))
		}
	}
	if r.Chance(1, 4) {
		for j, n := 0, 1+r.Intn(2); j < n; j++ {
			op.Own = append(op.Own, [2]int{r.Intn(3), 4 + r.Intn(3)})
		}
	}
	return op
}

func (c10Driver) Gen(r *Rand, tier string) []json.RawMessage {
	var res []json.RawMessage
	n := 500
	if tier == "thorough" {
		n = 15000
	}
	for c := 0; c < n; c++ {
		var in c10Input
		l := r.Range(1, 12)
		small := c%2 == 0
		if c%25 == 0 {
			l = r.Range(50, 200)
		}
		in.Ops = append(in.Ops, c10Op{K: "create", A: r.Intn(2), Txt: 1 + r.Intn(3), Files: []int{r.Intn(4), r.Intn(4)}[:r.Intn(3)]})
		for i := 1; i < l; i++ {
			in.Ops = append(in.Ops, genC10Op(r, i, small))
		}
		if c%8 == 3 {
			in.Ops = plantC10Collision(r, in.Ops, small)
		}
		res = append(res, mustJSON(in))
	}
	return res
}

// plantC10Collision inserts two add-comment operations whose ids share their first 14 characters at random places
// (in either order, possibly with operations in between), then edits that name one or the other by its full id,
// interleaved with ordinary operations; targets by index are shifted accordingly.
func plantC10Collision(r *Rand, ops []c10Op, small bool) []c10Op {
	if len(ops) > 12 {
		ops = ops[:12]
	}
	pair := c10CollidingComments[r.Intn(len(c10CollidingComments))]
	if r.Bool() {
		pair[0], pair[1] = pair[1], pair[0]
	}
	p1 := 1 + r.Intn(len(ops))       // inserted before ops[p1] (at the end when p1 == len(ops))
	p2 := p1 + r.Intn(len(ops)-p1+1) // the second one at or after the first
	var out []c10Op
	var at [2]int
	newIdx := make([]int, len(ops))
	for i := 0; i <= len(ops); i++ {
		if i == p1 {
			at[0] = len(out)
			out = append(out, c10Op{K: "comment", A: r.Intn(2), Raw: &pair[0]})
		}
		if i == p2 {
			at[1] = len(out)
			out = append(out, c10Op{K: "comment", A: r.Intn(2), Raw: &pair[1]})
		}
		if i == len(ops) {
			break
		}
		o := ops[i]
		newIdx[i] = len(out)
		if (o.K == "edit" || o.K == "meta") && o.T.Kind != "unknown" && i > 0 {
			o.T.Idx = newIdx[o.T.Idx%i] // targets name earlier operations: follow them to their new place
		}
		out = append(out, o)
	}
	for j, n := 0, r.Range(1, 4); j < n; j++ {
		w := at[r.Intn(2)]
		if j == 0 {
			w = at[1] // at least one edit names the later of the two
		}
		if r.Chance(1, 4) {
			out = append(out, c10Op{K: "meta", A: r.Intn(2), T: c10Target{Kind: "op", Idx: w}, KV: [][2]int{{r.Intn(3), r.Intn(4)}}})
		}
		out = append(out, c10Op{K: "edit", A: r.Intn(3), T: c10Target{Kind: "op", Idx: w}, Txt: 1 + r.Intn(5), Files: []int{r.Intn(4)}[:r.Intn(2)]})
		if r.Chance(1, 3) {
			out = append(out, genC10Op(r, len(out), small))
		}
	}
	return out
}

var c10Repo = repository.NewMockRepo()
var c10Authors []*identity.Identity

func c10File(i int) repository.Hash {
	return repository.Hash(fmt.Sprintf("%040x", 0xabc000+i))
}

type c10Obs struct {
	ID       string     `json:"id"`
	Status   int        `json:"status"`
	Title    string     `json:"title"`
	Comments []c10Com   `json:"comments"`
	Labels   []string   `json:"labels"`
	Actors   []int      `json:"actors"`
	Parts    []int      `json:"participants"`
	Timeline []c10Item  `json:"timeline"`
	Ops      []string   `json:"ops"`
	Meta     [][]string `json:"meta"`
	MetaGet  [][]string `json:"meta_get"` // the same through the per-key accessor GetMetadata
	Same     bool       `json:"repeatable"`
	Incr     bool       `json:"incremental"`
	Access   string     `json:"accessors,omitempty"` // "" when the snapshot's accessor functions answer what its lists say
}
type c10Com struct {
	Target string   `json:"target"`
	Author int      `json:"author"`
	Msg    string   `json:"msg"`
	Files  []string `json:"files"`
}
type c10Item struct {
	Comment bool   `json:"comment"`
	CID     string `json:"cid"`
	Hist    int    `json:"hist,omitempty"`
	Msg     string `json:"msg,omitempty"`
}

func (c10Driver) Run(raw json.RawMessage) Case {
	var in c10Input
	if err := json.Unmarshal(raw, &in); err != nil || len(in.Ops) == 0 || in.Ops[0].K != "create" {
		return Case{Skip: "bad input"}
	}
	if c10Authors == nil {
		for a := 0; a < 3; a++ {
			id, err := identity.NewIdentity(c10Repo, fmt.Sprintf("author%d", a), fmt.Sprintf("a%d@x.org", a))
			if err != nil {
				panic(err)
			}
			c10Authors = append(c10Authors, id)
		}
	}
	authorIdx := func(x identity.Interface) int {
		for i, a := range c10Authors {
			if a.Id() == x.Id() {
				return i + 1
			}
		}
		return 0
	}
	b := bug.NewBug()
	var ops []bug.Operation
	var ids []string
	targets := make([]string, len(in.Ops)) // resolved target id per op
	tags := map[string]bool{}
	mkTarget := func(t c10Target, n int) entity.Id {
		switch t.Kind {
		case "op":
			if n == 0 {
				return entity.Id(strings.Repeat("0", 64))
			}
			return entity.Id(ids[t.Idx%n])
		case "collide":
			if n == 0 {
				return entity.Id(strings.Repeat("0", 64))
			}
			// same first 14 characters as a real operation id, different afterwards: the id of no operation
			real := ids[t.Idx%n]
			tags["target-collide"] = true
			return entity.Id(real[:14] + strings.Repeat("f", 50))
		default:
			tags["target-unknown"] = true
			return entity.Id(fmt.Sprintf("%064x", 0x77000+t.Idx))
		}
	}
	text := func(i int) string {
		if i == 0 {
			return ""
		}
		return fmt.Sprintf("text %d", i)
	}
	files := func(xs []int) []repository.Hash {
		var hs []repository.Hash
		for _, x := range xs {
			hs = append(hs, c10File(x))
		}
		return hs
	}
	labels := func(xs []int) []bug.Label {
		var ls []bug.Label
		for _, x := range xs {
			ls = append(ls, bug.Label(fmt.Sprintf("label-%d", x)))
		}
		return ls
	}
	incr := true
	rawMsg := map[int]string{}
	var snapIncr *bug.Snapshot
	for i, o := range in.Ops {
		au := c10Authors[((o.A%3)+3)%3]
		// wall-clock times are not monotonic between collaborators (clock skew, importers replaying original
		// dates): the interpretation of the operations must not depend on them
		t := int64(1600000000 + (i*7919)%97 - 40)
		var op bug.Operation
		switch o.K {
		case "create":
			title := text(o.Txt)
			if title == "" {
				title = "text 1"
			}
			op = bug.NewCreateOp(au, t, title, text(o.Txt+1), files(o.Files))
		case "comment":
			if o.Raw != nil {
				nonce, err := base64.StdEncoding.DecodeString(o.Raw.Nonce)
				if err != nil || o.Raw.Msg == "" {
					return Case{Skip: "bad raw comment"}
				}
				c := bug.NewAddCommentOp(au, o.Raw.Time, o.Raw.Msg, nil)
				c.Nonce = nonce
				if err := c.Validate(); err != nil {
					return Case{Skip: "invalid raw comment: " + err.Error()}
				}
				op = c
				rawMsg[i] = o.Raw.Msg
			} else {
				op = bug.NewAddCommentOp(au, t, text(o.Txt), files(o.Files))
			}
		case "edit":
			tg := mkTarget(o.T, i)
			targets[i] = string(tg)
			op = bug.NewEditCommentOp(au, t, tg, text(o.Txt), files(o.Files))
		case "title":
			op = bug.NewSetTitleOp(au, t, text(o.Txt), "was")
		case "status":
			st := common.OpenStatus
			if o.St == 2 {
				st = common.ClosedStatus
			}
			op = bug.NewSetStatusOp(au, t, st)
		case "label":
			op = bug.NewLabelChangeOperation(au, t, labels(o.Add), labels(o.Rem))
		case "meta":
			tg := mkTarget(o.T, i)
			targets[i] = string(tg)
			kv := map[string]string{}
			for _, p := range o.KV {
				kv[fmt.Sprintf("key%d", p[0])] = fmt.Sprintf("val%d", p[1])
			}
			op = bug.NewSetMetadataOp(au, t, tg, kv)
		case "noop":
			op = dag.NewNoOpOp[*bug.Snapshot](bug.NoOpOp, au, t)
		default:
			return Case{Skip: "unknown op kind " + o.K}
		}
		tags["op:"+o.K] = true
		for _, p := range o.Own {
			if o.Raw != nil {
				break // the content, hence the id, is pinned
			}
			op.SetMetadata(fmt.Sprintf("key%d", p[0]), fmt.Sprintf("val%d", p[1]))
			tags["own-metadata"] = true
		}
		b.Append(op)
		ops = append(ops, op)
		ids = append(ids, string(op.Id()))
		for j := 0; j < i; j++ {
			if ids[j][:14] == ids[i][:14] && ids[j] != ids[i] {
				tags["op-ids-share-14"] = true
			}
		}
		// incremental application, the way cache.withSnapshot maintains its snapshot
		if snapIncr == nil {
			snapIncr = b.Compile()
		} else {
			op.Apply(snapIncr)
			snapIncr.Operations = append(snapIncr.Operations, op)
		}
	}
	// NB: SetMetadata mutates the target operation (extra metadata), so Compile is observed once,
	// then a second time for repeatability.
	render := func(s *bug.Snapshot) c10Obs {
		o := c10Obs{ID: string(s.Id()), Title: s.Title, Status: int(s.Status)}
		for _, c := range s.Comments {
			cc := c10Com{Target: string(c.TargetId()), Author: authorIdx(c.Author), Msg: c.Message}
			for _, f := range c.Files {
				cc.Files = append(cc.Files, string(f))
			}
			o.Comments = append(o.Comments, cc)
		}
		for _, l := range s.Labels {
			o.Labels = append(o.Labels, string(l))
		}
		for _, a := range s.Actors {
			o.Actors = append(o.Actors, authorIdx(a))
		}
		for _, a := range s.Participants {
			o.Parts = append(o.Parts, authorIdx(a))
		}
		for _, it := range s.Timeline {
			x := c10Item{CID: string(it.CombinedId())}
			switch v := it.(type) {
			case *bug.CreateTimelineItem:
				x.Comment, x.Hist, x.Msg = true, len(v.History), v.Message
			case *bug.AddCommentTimelineItem:
				x.Comment, x.Hist, x.Msg = true, len(v.History), v.Message
			}
			o.Timeline = append(o.Timeline, x)
		}
		for _, op := range s.Operations {
			o.Ops = append(o.Ops, string(op.Id()))
			var kv []string
			for k, v := range op.AllMetadata() {
				kv = append(kv, k+"="+v)
			}
			sort.Strings(kv)
			o.Meta = append(o.Meta, kv)
			var kg []string
			for k := 0; k < 3; k++ {
				key := fmt.Sprintf("key%d", k)
				if v, ok := op.GetMetadata(key); ok {
					kg = append(kg, key+"="+v)
				}
			}
			if len(s.Operations) > 0 && op == s.Operations[0] {
				// the create operation's metadata is also exposed by the snapshot
				for k := 0; k < 3; k++ {
					key := fmt.Sprintf("key%d", k)
					v1, ok1 := op.GetMetadata(key)
					v2, ok2 := s.GetCreateMetadata(key)
					if ok1 != ok2 || v1 != v2 {
						kg = append(kg, "create-metadata-differs="+key)
					}
				}
			}
			sort.Strings(kg)
			o.MetaGet = append(o.MetaGet, kg)
		}
		return o
	}
	// the accessor functions of a snapshot (used by filters, the termui and the API) must answer what its lists say
	accessors := func(s *bug.Snapshot) string {
		for _, a := range c10Authors {
			inA, inP := false, false
			for _, x := range s.Actors {
				inA = inA || x.Id() == a.Id()
			}
			for _, x := range s.Participants {
				inP = inP || x.Id() == a.Id()
			}
			if s.HasActor(a.Id()) != inA || s.HasAnyActor(entity.Id("none"), a.Id()) != inA {
				return "HasActor/HasAnyActor disagree with Actors"
			}
			if s.HasParticipant(a.Id()) != inP || s.HasAnyParticipant(entity.Id("none"), a.Id()) != inP {
				return "HasParticipant/HasAnyParticipant disagree with Participants"
			}
		}
		if s.HasActor(entity.Id("none")) || s.HasParticipant(entity.Id("none")) || s.HasAnyActor() || s.HasAnyParticipant() {
			return "an unknown id is reported as actor or participant"
		}
		for i, it := range s.Timeline {
			got, err := s.SearchTimelineItem(it.CombinedId())
			if err != nil || got.CombinedId() != it.CombinedId() {
				return "SearchTimelineItem does not find an item of the timeline"
			}
			first := i
			for j := 0; j < i; j++ {
				if s.Timeline[j].CombinedId() == it.CombinedId() {
					first = j
					break
				}
			}
			if got != s.Timeline[first] {
				return "SearchTimelineItem returns another item than the first one with that id"
			}
			switch v := it.(type) {
			case *bug.CreateTimelineItem:
				if v.Edited() != (len(v.History) > 1) || v.MessageIsEmpty() != (strings.TrimSpace(v.Message) == "") {
					return "Edited/MessageIsEmpty disagree with the item"
				}
			case *bug.AddCommentTimelineItem:
				if v.Edited() != (len(v.History) > 1) || v.MessageIsEmpty() != (strings.TrimSpace(v.Message) == "") {
					return "Edited/MessageIsEmpty disagree with the item"
				}
			}
		}
		// a comment's timeline entry shows the comment as it is now: the k-th comment item belongs to the k-th comment
		k := 0
		for _, it := range s.Timeline {
			var msg string
			var files []repository.Hash
			switch v := it.(type) {
			case *bug.CreateTimelineItem:
				msg, files = v.Message, v.Files
			case *bug.AddCommentTimelineItem:
				msg, files = v.Message, v.Files
			default:
				continue
			}
			if k >= len(s.Comments) {
				return "more comment items in the timeline than comments"
			}
			c := s.Comments[k]
			k++
			same := c.CombinedId() == it.CombinedId() && c.Message == msg && len(c.Files) == len(files)
			for j := range files {
				same = same && j < len(c.Files) && c.Files[j] == files[j]
			}
			if !same {
				return "a comment's timeline entry does not show the comment's current text and files"
			}
		}
		if k != len(s.Comments) {
			return "fewer comment items in the timeline than comments"
		}
		if _, err := s.SearchTimelineItem(entity.CombinedId("none")); err == nil {
			return "SearchTimelineItem finds an unknown id"
		}
		for _, c := range s.Comments {
			got, err := s.SearchComment(c.CombinedId())
			if err != nil || got.CombinedId() != c.CombinedId() {
				return "SearchComment does not find a comment of the snapshot"
			}
			got2, err := s.SearchCommentByOpId(c.TargetId())
			if err != nil || got2.TargetId() != c.TargetId() {
				return "SearchCommentByOpId does not find a comment of the snapshot"
			}
		}
		if _, err := s.SearchComment(entity.CombinedId("none")); err == nil {
			return "SearchComment finds an unknown id"
		}
		return ""
	}
	snap1 := b.Compile()
	s1 := render(snap1)
	s1.Access = accessors(snap1)
	s2 := render(b.Compile())
	j1, _ := json.Marshal(s1)
	j2, _ := json.Marshal(s2)
	s1.Same = string(j1) == string(j2)
	j3, _ := json.Marshal(render(snapIncr))
	incr = string(j3) == string(j1)
	s1.Incr = incr

	// ---- ranks: first-14-character heads and full ids ----
	var fulls, heads []string
	addID := func(s string) {
		if s == "" {
			return
		}
		fulls = append(fulls, s)
		heads = append(heads, s[:14])
	}
	for _, id := range ids {
		addID(id)
	}
	for _, t := range targets {
		addID(t)
	}
	fr, hr := rankOf(fulls), rankOf(heads)
	opid := func(s string) string { return fmt.Sprintf("(%d, %d)%%N", hr.m[s[:14]], fr.m[s]) }
	// combined id -> head rank: recompute CombineIds(bug id, op id) for every op
	cidHead := map[string]int{}
	for _, id := range ids {
		cidHead[string(entity.CombineIds(entity.Id(ids[0]), entity.Id(id)))] = hr.m[id[:14]]
	}
	txtTab := map[string]int{"": 0}
	txt := func(s string) int {
		if v, ok := txtTab[s]; ok {
			return v
		}
		txtTab[s] = len(txtTab)
		return txtTab[s]
	}
	fileN := func(h string) string {
		var v int
		fmt.Sscanf(h, "%x", &v)
		return fmt.Sprint(v - 0xabc000 + 1)
	}
	nlist := func(xs []string) string { return "[" + strings.Join(xs, "; ") + "]%N" }
	fl := func(xs []int) string {
		var ys []string
		for _, x := range xs {
			ys = append(ys, fmt.Sprint(x+1))
		}
		return nlist(ys)
	}
	lbl := func(xs []int) string {
		var ys []string
		for _, x := range xs {
			ys = append(ys, fmt.Sprint(x+1)) // label-0 < label-1 < ...: order preserving
		}
		return nlist(ys)
	}
	var mops []string
	for i, o := range in.Ops {
		id := opid(ids[i])
		au := ((o.A%3)+3)%3 + 1
		switch o.K {
		case "create":
			title := text(o.Txt)
			if title == "" {
				title = "text 1"
			}
			mops = append(mops, fmt.Sprintf("OCreate %s %d %d %d %s", id, au, txt(title), txt(text(o.Txt+1)), fl(o.Files)))
		case "comment":
			if m, ok := rawMsg[i]; ok {
				mops = append(mops, fmt.Sprintf("OAddComment %s %d %d %s", id, au, txt(m), fl(nil)))
			} else {
				mops = append(mops, fmt.Sprintf("OAddComment %s %d %d %s", id, au, txt(text(o.Txt)), fl(o.Files)))
			}
		case "edit":
			mops = append(mops, fmt.Sprintf("OEditComment %s %d %s %d %s", id, au, opid(targets[i]), txt(text(o.Txt)), fl(o.Files)))
		case "title":
			mops = append(mops, fmt.Sprintf("OSetTitle %s %d %d", id, au, txt(text(o.Txt))))
		case "status":
			st := 1
			if o.St == 2 {
				st = 2
			}
			mops = append(mops, fmt.Sprintf("OSetStatus %s %d %d", id, au, st))
		case "label":
			mops = append(mops, fmt.Sprintf("OLabelChange %s %d %s %s", id, au, lbl(o.Add), lbl(o.Rem)))
		case "meta":
			// a Go map: duplicate keys collapse, last value wins; iteration order is irrelevant for distinct keys
			kv := map[int]int{}
			for _, p := range o.KV {
				kv[p[0]] = p[1]
			}
			var ks []int
			for k := range kv {
				ks = append(ks, k)
			}
			sort.Ints(ks)
			var ps []string
			for _, k := range ks {
				ps = append(ps, fmt.Sprintf("(%d, %d)", k+1, kv[k]+1))
			}
			mops = append(mops, fmt.Sprintf("OSetMetadata %s %d %s [%s]%%N", id, au, opid(targets[i]), strings.Join(ps, "; ")))
		case "noop":
			mops = append(mops, fmt.Sprintf("ONoOp %s %d", id, au))
		}
	}
	// observed snapshot as a Coq term
	var coms []string
	for ci, c := range s1.Comments {
		var fs []string
		for _, f := range c.Files {
			fs = append(fs, fileN(f))
		}
		// the k-th comment item of the timeline belongs to the k-th comment (combined ids cannot tell two operations
		// apart that share 14 characters)
		hist, k := 0, 0
		for _, it := range s1.Timeline {
			if !it.Comment {
				continue
			}
			if k == ci {
				hist = it.Hist - 1
			}
			k++
		}
		coms = append(coms, fmt.Sprintf("{| c_id := %s; c_author := %d; c_msg := %d; c_files := %s; c_edits := %d |}", opid(c.Target), c.Author, txt(c.Msg), nlist(fs), hist))
	}
	var lbs []string
	for _, l := range s1.Labels {
		var v int
		fmt.Sscanf(l, "label-%d", &v)
		lbs = append(lbs, fmt.Sprint(v+1))
	}
	ints := func(xs []int) string {
		var ys []string
		for _, x := range xs {
			ys = append(ys, fmt.Sprint(x))
		}
		return nlist(ys)
	}
	var tl []string
	for _, it := range s1.Timeline {
		h, ok := cidHead[it.CID]
		if !ok {
			h = 0
		}
		if it.Comment {
			tl = append(tl, fmt.Sprintf("(true, %d%%N)", h))
		} else {
			tl = append(tl, fmt.Sprintf("(false, %d%%N)", h))
		}
	}
	var opl, meta, metaGet, own []string
	kvTerm := func(kvs []string) string {
		var ps []string
		for _, kv := range kvs {
			var k, v int
			if n, _ := fmt.Sscanf(kv, "key%d=val%d", &k, &v); n != 2 {
				ps = append(ps, "(0, 0)") // an accessor disagreement: no model value is 0
				continue
			}
			ps = append(ps, fmt.Sprintf("(%d, %d)", k+1, v+1))
		}
		return "[" + strings.Join(ps, "; ") + "]%N"
	}
	for i, id := range s1.Ops {
		opl = append(opl, opid(id))
		meta = append(meta, kvTerm(s1.Meta[i]))
		metaGet = append(metaGet, kvTerm(s1.MetaGet[i]))
	}
	for _, o := range in.Ops {
		// a Go map: a repeated key keeps its last value
		kv := map[int]int{}
		for _, p := range o.Own {
			if o.Raw != nil {
				break
			}
			kv[p[0]] = p[1]
		}
		var ks []int
		for k := range kv {
			ks = append(ks, k)
		}
		sort.Ints(ks)
		var ps []string
		for _, k := range ks {
			ps = append(ps, fmt.Sprintf("(%d, %d)", k+1, kv[k]+1))
		}
		own = append(own, "["+strings.Join(ps, "; ")+"]%N")
	}
	obs := fmt.Sprintf("mkobs10 %s %d %d %s %s %s %s %s %s %s %s %s %s", opid(s1.ID), s1.Status, txt(s1.Title), coqList(coms), nlist(lbs),
		ints(s1.Actors), ints(s1.Parts), coqList(tl), coqList(opl), coqList(meta), coqList(metaGet), coqBool(s1.Same), coqBool(s1.Incr && s1.Access == ""))
	term := fmt.Sprintf("mkcase10 %s %s (%s)", coqList(mops), coqList(own), obs)
	var tg []string
	for t := range tags {
		tg = append(tg, t)
	}
	sort.Strings(tg)
	if len(in.Ops) > 20 {
		tg = append(tg, "long")
	}
	return Case{Coq: term, Obs: s1, Tags: tg, NonTrivial: len(in.Ops) > 2, Key: string(raw)}
}
