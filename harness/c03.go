package main

// C03 (crafted part): commit DAGs written directly through repository.RepoData in the documented
// on-disk format, valid or with one perturbed clock / root / merge, on the go-git and the
// in-memory backend; bug.Read is called three times on each.

import (
	"encoding/json"
	"fmt"
	"os"
	"sort"
	"strings"

	"github.com/MichaelMure/git-bug/entities/bug"
	"github.com/MichaelMure/git-bug/entities/identity"
	"github.com/MichaelMure/git-bug/entity"
	"github.com/MichaelMure/git-bug/entity/dag"
	"github.com/MichaelMure/git-bug/repository"
)

type dCommit struct {
	P []int  `json:"p"`
	A int    `json:"a"`
	N int    `json:"n"`
	E uint64 `json:"e"`
	C uint64 `json:"c"`
}
type dInput struct {
	Backend string    `json:"backend"`
	Commits []dCommit `json:"commits"`
	Head    int       `json:"head"`
	Mut     string    `json:"mut"`
}

type c03Driver struct{}

func init() { register("C03d", c03Driver{}) }

func genDag(r *Rand) dInput {
	n := r.Range(1, 7)
	in := dInput{Backend: []string{"gogit", "mock"}[r.Intn(2)], Mut: "none"}
	in.Commits = append(in.Commits, dCommit{A: 0, N: r.Range(1, 2), E: uint64(r.Range(1, 5)), C: uint64(r.Range(1, 5))})
	for i := 1; i < n; i++ {
		if i >= 2 && r.Chance(1, 3) {
			a := r.Intn(i)
			b := r.Intn(i)
			if a != b {
				e := in.Commits[a].E
				if in.Commits[b].E > e {
					e = in.Commits[b].E
				}
				in.Commits = append(in.Commits, dCommit{P: []int{a, b}, A: r.Intn(2), N: 0, E: e + uint64(r.Range(1, 2))})
				continue
			}
		}
		p := r.Intn(i)
		if r.Chance(1, 2) {
			p = i - 1
		}
		in.Commits = append(in.Commits, dCommit{P: []int{p}, A: r.Intn(2), N: r.Range(1, 3), E: in.Commits[p].E + uint64(r.Range(1, 2))})
	}
	in.Head = n - 1
	// make everything reachable from the head more often: join loose tips with merges
	if r.Chance(2, 3) {
		for {
			reach := map[int]bool{}
			var walk func(int)
			walk = func(i int) {
				if reach[i] {
					return
				}
				reach[i] = true
				for _, p := range in.Commits[i].P {
					walk(p)
				}
			}
			walk(in.Head)
			loose := -1
			for i := range in.Commits {
				if !reach[i] {
					loose = i
				}
			}
			if loose < 0 {
				break
			}
			e := in.Commits[in.Head].E
			if in.Commits[loose].E > e {
				e = in.Commits[loose].E
			}
			in.Commits = append(in.Commits, dCommit{P: []int{in.Head, loose}, A: 0, N: 0, E: e + 1})
			in.Head = len(in.Commits) - 1
		}
	}
	return in
}

func mutateDag(r *Rand, in dInput) dInput {
	cs := append([]dCommit(nil), in.Commits...)
	for i := range cs {
		cs[i].P = append([]int(nil), cs[i].P...)
	}
	in.Commits = cs
	pick := func(f func(c dCommit) bool) int {
		var xs []int
		for i, c := range cs {
			if f(c) {
				xs = append(xs, i)
			}
		}
		if len(xs) == 0 {
			return -1
		}
		return xs[r.Intn(len(xs))]
	}
	maxParentE := func(c dCommit) uint64 {
		var m uint64
		for _, p := range c.P {
			if cs[p].E > m {
				m = cs[p].E
			}
		}
		return m
	}
	muts := []string{"equal-clock", "smaller-clock", "jump-ok", "jump-bad", "jump-merge", "second-root", "no-create", "merge-ops", "zero-edit", "child-create", "dup-parent",
		"jump-half-range", "jump-max", "equal-clock-low-id"}
	m := muts[r.Intn(len(muts))]
	in.Mut = m
	switch m {
	case "equal-clock":
		if i := pick(func(c dCommit) bool { return len(c.P) > 0 }); i >= 0 {
			cs[i].E = maxParentE(cs[i])
		}
	case "smaller-clock":
		if i := pick(func(c dCommit) bool { return len(c.P) > 0 }); i >= 0 {
			if e := maxParentE(cs[i]); e > 1 {
				cs[i].E = e - 1
			} else {
				cs[i].E = e
			}
		}
	case "jump-ok", "jump-bad":
		// shift commit i and everything after it (indices are topological) by the jump
		if i := pick(func(c dCommit) bool { return len(c.P) == 1 }); i >= 0 {
			target := cs[cs[i].P[0]].E + 1000000
			if m == "jump-bad" {
				target++
			}
			delta := target - cs[i].E
			for j := i; j < len(cs); j++ {
				cs[j].E += delta
			}
		}
	case "jump-half-range", "jump-max":
		// the last non-merge commit jumps into the upper half of the 64-bit range / to the top of it
		last := -1
		for i, c := range cs {
			if len(c.P) == 1 {
				reached := false
				for j := i + 1; j < len(cs); j++ {
					for _, p := range cs[j].P {
						if p == i {
							reached = true
						}
					}
				}
				if !reached {
					last = i
				}
			}
		}
		if last >= 0 {
			if m == "jump-max" {
				cs[last].E = 18446744073709551614
			} else {
				cs[last].E = 9223372036854775808 + uint64(r.Intn(1000))
			}
		}
	case "equal-clock-low-id":
		// equal clock on a chain: with the tie broken by pack id the child may sort before its parent
		if i := pick(func(c dCommit) bool { return len(c.P) == 1 }); i >= 0 {
			cs[i].E = cs[cs[i].P[0]].E
		}
	case "jump-merge":
		if i := pick(func(c dCommit) bool { return len(c.P) == 2 }); i >= 0 {
			delta := uint64(3000000)
			for j := i; j < len(cs); j++ {
				cs[j].E += delta
			}
		}
	case "second-root":
		cs = append(cs, dCommit{A: 1, N: 1, E: 1, C: 1})
		e := cs[in.Head].E + 1
		cs = append(cs, dCommit{P: []int{in.Head, len(cs) - 1}, A: 0, N: 0, E: e})
		in.Head = len(cs) - 1
		in.Commits = cs
	case "no-create":
		cs[0].C = 0
	case "merge-ops":
		if i := pick(func(c dCommit) bool { return len(c.P) == 2 }); i >= 0 {
			cs[i].N = 1
		}
	case "zero-edit":
		cs[0].E = 0
	case "child-create":
		if i := pick(func(c dCommit) bool { return len(c.P) == 1 }); i >= 0 {
			cs[i].C = uint64(r.Range(1, 9))
		}
	case "dup-parent":
		if i := pick(func(c dCommit) bool { return len(c.P) == 1 }); i >= 0 {
			cs[i].P = []int{cs[i].P[0], cs[i].P[0]}
		}
	}
	return in
}

func (c03Driver) Gen(r *Rand, tier string) []json.RawMessage {
	n := 400
	if tier == "thorough" {
		n = 20000
	}
	var res []json.RawMessage
	for i := 0; i < n; i++ {
		in := genDag(r)
		if r.Chance(2, 3) {
			in = mutateDag(r, in)
		}
		res = append(res, mustJSON(in))
	}
	return res
}

type packJSON struct {
	Author     identity.Interface `json:"author"`
	Operations []dag.Operation    `json:"ops"`
}

// writeDag stores the commits and returns their hashes, pack ids and op ids.
func writeDag(repo repository.ClockedRepo, authors []*identity.Identity, in dInput) (hashes []repository.Hash, packIDs []string, opIDs [][]string, err error) {
	emptyBlob, err := repo.StoreData([]byte{})
	if err != nil {
		return
	}
	cnt := 0
	for i, c := range in.Commits {
		author := authors[c.A%len(authors)]
		var ops []dag.Operation
		for j := 0; j < c.N; j++ {
			cnt++
			if i == 0 && j == 0 {
				ops = append(ops, bug.NewCreateOp(author, int64(1600000000+cnt), fmt.Sprintf("title %d", cnt), fmt.Sprintf("message %d", cnt), nil))
			} else {
				ops = append(ops, bug.NewAddCommentOp(author, int64(1600000000+cnt), fmt.Sprintf("comment %d", cnt), nil))
			}
		}
		var data []byte
		data, err = json.Marshal(packJSON{Author: author, Operations: ops})
		if err != nil {
			return
		}
		var aux struct {
			Ops []json.RawMessage `json:"ops"`
		}
		_ = json.Unmarshal(data, &aux)
		var ids []string
		for _, raw := range aux.Ops {
			ids = append(ids, string(entity.DeriveId(raw)))
		}
		opIDs = append(opIDs, ids)
		packIDs = append(packIDs, string(entity.DeriveId(data)))
		var blob repository.Hash
		blob, err = repo.StoreData(data)
		if err != nil {
			return
		}
		tree := []repository.TreeEntry{
			{ObjectType: repository.Blob, Hash: emptyBlob, Name: "version-4"},
			{ObjectType: repository.Blob, Hash: blob, Name: "ops"},
			{ObjectType: repository.Blob, Hash: emptyBlob, Name: fmt.Sprintf("edit-clock-%d", c.E)},
		}
		if c.C > 0 {
			tree = append(tree, repository.TreeEntry{ObjectType: repository.Blob, Hash: emptyBlob, Name: fmt.Sprintf("create-clock-%d", c.C)})
		}
		var th repository.Hash
		th, err = repo.StoreTree(tree)
		if err != nil {
			return
		}
		var parents []repository.Hash
		for _, p := range c.P {
			parents = append(parents, hashes[p])
		}
		var ch repository.Hash
		ch, err = repo.StoreCommit(th, parents...)
		if err != nil {
			return
		}
		hashes = append(hashes, ch)
	}
	return
}

func (c03Driver) Run(raw json.RawMessage) Case {
	var in dInput
	if err := json.Unmarshal(raw, &in); err != nil || len(in.Commits) == 0 || in.Head < 0 || in.Head >= len(in.Commits) {
		return Case{Skip: "bad input"}
	}
	for i, c := range in.Commits {
		for _, p := range c.P {
			if p < 0 || p >= i {
				return Case{Skip: "parents must precede"}
			}
		}
	}
	var repo repository.ClockedRepo
	if in.Backend == "mock" {
		repo = repository.NewMockRepo()
	} else {
		dir, err := os.MkdirTemp("", "verif-c03-")
		if err != nil {
			panic(err)
		}
		defer os.RemoveAll(dir)
		r, err := newTestRepo(dir, false)
		if err != nil {
			panic(err)
		}
		defer r.Close()
		repo = r
	}
	var authors []*identity.Identity
	for a := 0; a < 2; a++ {
		id, err := identity.NewIdentity(repo, fmt.Sprintf("author%d", a), fmt.Sprintf("a%d@example.org", a))
		if err != nil {
			panic(err)
		}
		if err := id.Commit(repo); err != nil {
			panic(err)
		}
		authors = append(authors, id)
	}
	hashes, packIDs, opIDs, err := writeDag(repo, authors, in)
	if err != nil {
		return Case{Skip: "write dag: " + err.Error()}
	}
	// two commits with identical content have the same hash: git cannot represent them as two
	// objects; the model identifies commits with store indices, so skip such inputs
	seen := map[repository.Hash]bool{}
	for _, h := range hashes {
		if seen[h] {
			return Case{Skip: "identical commits"}
		}
		seen[h] = true
	}
	if len(opIDs[0]) == 0 {
		return Case{Skip: "root without operation"}
	}
	bugID := entity.Id(opIDs[0][0])
	if err := repo.UpdateRef("refs/bugs/"+string(bugID), hashes[in.Head]); err != nil {
		return Case{Skip: "update ref: " + err.Error()}
	}
	type rd struct {
		OK  bool     `json:"ok"`
		Ops []string `json:"ops,omitempty"`
		Err string   `json:"err,omitempty"`
	}
	var reads []rd
	for k := 0; k < 3; k++ {
		b, err := bug.Read(repo, bugID)
		if err != nil {
			reads = append(reads, rd{Err: err.Error()})
			continue
		}
		x := rd{OK: true}
		for _, op := range b.Operations() {
			x.Ops = append(x.Ops, string(op.Id()))
		}
		reads = append(reads, x)
	}
	same := true
	for _, x := range reads[1:] {
		if x.OK != reads[0].OK || strings.Join(x.Ops, ",") != strings.Join(reads[0].Ops, ",") {
			same = false
		}
	}
	// ranks
	var allOps []string
	for _, ids := range opIDs {
		allOps = append(allOps, ids...)
	}
	pr, or := rankOf(packIDs), rankOf(allOps)
	opsTerm := func(xs []string) string {
		ys := make([]string, len(xs))
		for i, x := range xs {
			ys[i] = fmt.Sprint(or.m[x]) // unknown id -> 0
		}
		return "[" + strings.Join(ys, "; ") + "]%N"
	}
	var commits []string
	for i, c := range in.Commits {
		commits = append(commits, fmt.Sprintf("{| c_parents := %s; c_pack := mkpack %d %d %s %d %d |}",
			coqNats(c.P), pr.m[packIDs[i]], c.A%2+1, opsTerm(opIDs[i]), c.E, c.C))
	}
	obs := "None"
	if reads[0].OK {
		obs = "(Some " + opsTerm(reads[0].Ops) + ")"
	}
	term := fmt.Sprintf("mkdcase %s %d %s %s", coqList(commits), in.Head, obs, coqBool(same))
	tags := []string{"backend:" + in.Backend, "mut:" + in.Mut}
	if reads[0].OK {
		tags = append(tags, "accepted")
	} else {
		tags = append(tags, "refused")
	}
	nmerge := 0
	for _, c := range in.Commits {
		if len(c.P) > 1 {
			nmerge++
		}
	}
	sort.Strings(tags)
	return Case{Coq: term, Obs: reads, Tags: tags, NonTrivial: len(in.Commits) > 1, Key: string(raw)}
}
