package main

// World sessions: 2..3 real go-git repositories sharing a bare remote; generated action
// sequences {new bug, edit, push, pull, remove}; after every action the acting replica's refs,
// clocks and the result of bug.Read on each local bug are observed, and the commit graph is read
// back through repository.RepoData (documented on-disk format) — independent of dag.read.

import (
	"encoding/json"
	"fmt"
	"os"
	"sort"
	"strconv"
	"strings"

	"github.com/99designs/keyring"
	"github.com/MichaelMure/git-bug/entities/bug"
	"github.com/MichaelMure/git-bug/entities/identity"
	"github.com/MichaelMure/git-bug/entity"
	"github.com/MichaelMure/git-bug/repository"
)

type wPack struct {
	Author int `json:"a"`
	NOps   int `json:"n"`
}
type wAction struct {
	K     string  `json:"k"`             // new | edit | push | pull | remove | reopen
	Del   bool    `json:"del,omitempty"` // reopen: delete the clock files first
	R     int     `json:"r"`
	E     int     `json:"e,omitempty"` // ordinal into the replica's sorted local entity list
	Packs []wPack `json:"packs,omitempty"`
	Kinds []int   `json:"kinds,omitempty"` // op kinds to cycle through
}
type wInput struct {
	NReps    int       `json:"nreps"`
	NAuthors int       `json:"nauthors"`
	Actions  []wAction `json:"actions"`
	Quiesce  bool      `json:"quiesce"`
}

// krRepo replaces the keyring of a repository by an in-memory one.
type krRepo struct {
	repository.TestedRepo
	kr repository.Keyring
}

func (k krRepo) Keyring() repository.Keyring { return k.kr }

func newTestRepo(dir string, bare bool) (repository.TestedRepo, error) {
	var r *repository.GoGitRepo
	var err error
	if bare {
		r, err = repository.InitBareGoGitRepo(dir, "git-bug")
	} else {
		r, err = repository.InitGoGitRepo(dir, "git-bug")
	}
	if err != nil {
		return nil, err
	}
	_ = r.LocalConfig().StoreString("user.name", "testuser")
	_ = r.LocalConfig().StoreString("user.email", "testuser@example.com")
	return krRepo{TestedRepo: r, kr: keyring.NewArrayKeyring(nil)}, nil
}

// ---- commit graph, read through RepoData ----

type wCommit struct {
	Hash    string
	Parents []int
	PackID  string
	Author  string
	Ops     []string
	Edit    uint64
	Create  uint64
}

type wGraph struct {
	idx     map[string]int
	commits []wCommit
}

func newGraph() *wGraph { return &wGraph{idx: map[string]int{}} }

func readCommitRaw(repo repository.RepoData, h repository.Hash) (wCommit, []repository.Hash, error) {
	c, err := repo.ReadCommit(h)
	if err != nil {
		return wCommit{}, nil, err
	}
	wc := wCommit{Hash: string(h)}
	entries, err := repo.ReadTree(c.TreeHash)
	if err != nil {
		return wCommit{}, nil, err
	}
	for _, e := range entries {
		switch {
		case e.Name == "ops":
			data, err := repo.ReadData(e.Hash)
			if err != nil {
				return wCommit{}, nil, err
			}
			wc.PackID = string(entity.DeriveId(data))
			var aux struct {
				Author struct {
					Id string `json:"id"`
				} `json:"author"`
				Ops []json.RawMessage `json:"ops"`
			}
			if err := json.Unmarshal(data, &aux); err == nil {
				wc.Author = aux.Author.Id
				for _, raw := range aux.Ops {
					wc.Ops = append(wc.Ops, string(entity.DeriveId(raw)))
				}
			}
		case strings.HasPrefix(e.Name, "edit-clock-"):
			wc.Edit, _ = strconv.ParseUint(strings.TrimPrefix(e.Name, "edit-clock-"), 10, 64)
		case strings.HasPrefix(e.Name, "create-clock-"):
			wc.Create, _ = strconv.ParseUint(strings.TrimPrefix(e.Name, "create-clock-"), 10, 64)
		}
	}
	return wc, c.Parents, nil
}

// add registers h and its unseen ancestors, parents first.
func (g *wGraph) add(repo repository.RepoData, h repository.Hash) (int, error) {
	if i, ok := g.idx[string(h)]; ok {
		return i, nil
	}
	wc, parents, err := readCommitRaw(repo, h)
	if err != nil {
		return -1, err
	}
	for _, p := range parents {
		pi, err := g.add(repo, p)
		if err != nil {
			return -1, err
		}
		wc.Parents = append(wc.Parents, pi)
	}
	i := len(g.commits)
	g.idx[string(h)] = i
	g.commits = append(g.commits, wc)
	return i, nil
}

func (g *wGraph) root(i int) int {
	for len(g.commits[i].Parents) > 0 {
		i = g.commits[i].Parents[0]
	}
	return i
}

// ---- session ----

type wEvent struct {
	Kind   string   `json:"kind"` // commit | read | push | fetch | merge | remove
	R      int      `json:"r"`
	E      int      `json:"e"`               // entity (root commit index), -1 if none
	New    bool     `json:"new,omitempty"`   // commit of a new entity
	Packs  [][]int  `json:"packs,omitempty"` // commit indices are not needed: per pack [author, nops]
	NewIdx []int    `json:"new_idx,omitempty"`
	Out    string   `json:"out"` // done | fail | read | read-err | new | nothing | updated | invalid | error
	Ops    []string `json:"ops,omitempty"`
	HasOps bool     `json:"has_ops,omitempty"`
	Check  bool     `json:"check"`
	Loc    [][2]int `json:"loc"`
	Trk    [][2]int `json:"trk"`
	Rem    [][2]int `json:"rem"`
	Clk    uint64   `json:"clk"`
	CClk   uint64   `json:"cclk"`
	NSt    int      `json:"nst"`
	Err    string   `json:"err,omitempty"`
}

type wSession struct {
	in       wInput
	dir      string
	repos    []repository.TestedRepo
	remote   repository.TestedRepo
	authors  [][]*identity.Identity // per replica, per author
	authorID []string
	merger   []*identity.Identity
	g        *wGraph
	events   []wEvent
	opCount  int
	tags     map[string]bool
	entOf    map[string]int // bug id -> root index
	skip     string
}

func (s *wSession) fail(format string, a ...interface{}) {
	if s.skip == "" {
		s.skip = fmt.Sprintf(format, a...)
	}
}

func (s *wSession) setup() {
	var err error
	s.dir, err = os.MkdirTemp("", "verif-world-")
	if err != nil {
		panic(err)
	}
	s.remote, err = newTestRepo(s.dir+"/remote", true)
	if err != nil {
		panic(err)
	}
	for i := 0; i < s.in.NReps; i++ {
		r, err := newTestRepo(fmt.Sprintf("%s/rep%d", s.dir, i), false)
		if err != nil {
			panic(err)
		}
		if err := r.AddRemote("origin", s.remote.GetLocalRemote()); err != nil {
			panic(err)
		}
		s.repos = append(s.repos, r)
	}
	// identities: created on replica 0, distributed through the remote
	nid := s.in.NAuthors + 1 // last one authors merge commits
	var ids []entity.Id
	for a := 0; a < nid; a++ {
		id, err := identity.NewIdentity(s.repos[0], fmt.Sprintf("author%d", a), fmt.Sprintf("a%d@example.org", a))
		if err != nil {
			panic(err)
		}
		if err := id.Commit(s.repos[0]); err != nil {
			panic(err)
		}
		ids = append(ids, id.Id())
		s.authorID = append(s.authorID, string(id.Id()))
	}
	if _, err := identity.Push(s.repos[0], "origin"); err != nil {
		panic(err)
	}
	for i := 0; i < s.in.NReps; i++ {
		if i > 0 {
			if err := identity.Pull(s.repos[i], "origin"); err != nil {
				panic(err)
			}
		}
		var as []*identity.Identity
		for _, id := range ids {
			x, err := identity.ReadLocal(s.repos[i], id)
			if err != nil {
				panic(err)
			}
			as = append(as, x)
		}
		s.authors = append(s.authors, as[:s.in.NAuthors])
		s.merger = append(s.merger, as[s.in.NAuthors])
	}
}

func (s *wSession) cleanup() {
	for _, r := range s.repos {
		_ = r.Close()
	}
	if s.remote != nil {
		_ = s.remote.Close()
	}
	if s.dir != "" {
		_ = os.RemoveAll(s.dir)
	}
}

// refs returns entity -> head for refs under prefix, registering commits.
func (s *wSession) refs(repo repository.TestedRepo, prefix string) [][2]int {
	names, err := repo.ListRefs(prefix)
	if err != nil {
		s.fail("ListRefs: %v", err)
		return nil
	}
	var res [][2]int
	for _, n := range names {
		h, err := repo.ResolveRef(n)
		if err != nil {
			s.fail("ResolveRef %s: %v", n, err)
			continue
		}
		hi, err := s.g.add(repo, h)
		if err != nil {
			s.fail("read commit graph under %s: %v", n, err)
			continue
		}
		root := s.g.root(hi)
		id := n[strings.LastIndex(n, "/")+1:]
		if prev, ok := s.entOf[id]; ok && prev != root {
			s.tags["ref-name-root-mismatch"] = true
		}
		s.entOf[id] = root
		res = append(res, [2]int{root, hi})
	}
	sort.Slice(res, func(i, j int) bool { return res[i][0] < res[j][0] })
	return res
}

func clockOf(repo repository.TestedRepo, name string) uint64 {
	c, err := repo.GetOrCreateClock(name)
	if err != nil {
		return 0
	}
	return uint64(c.Time())
}

func (s *wSession) observe(ev *wEvent) {
	repo := s.repos[ev.R]
	ev.Check = true
	ev.Loc = s.refs(repo, "refs/bugs/")
	ev.Trk = s.refs(repo, "refs/remotes/origin/bugs/")
	ev.Rem = s.refs(s.remote, "refs/bugs/")
	ev.Clk = clockOf(repo, "bugs-edit")
	ev.CClk = clockOf(repo, "bugs-create")
	ev.NSt = len(s.g.commits)
}

func (s *wSession) localIds(r int) []entity.Id {
	ids, err := bug.ListLocalIds(s.repos[r])
	if err != nil {
		s.fail("ListLocalIds: %v", err)
	}
	sort.Slice(ids, func(i, j int) bool { return ids[i] < ids[j] })
	return ids
}

// readAll emits one read event per local bug of replica r.
func (s *wSession) readAll(r int) {
	for _, id := range s.localIds(r) {
		ev := wEvent{Kind: "read", R: r, E: -1}
		b, err := bug.Read(s.repos[r], id)
		if err != nil {
			ev.Out = "read-err"
			ev.Err = err.Error()
			s.tags["read-error"] = true
		} else {
			ev.Out = "read"
			ev.HasOps = true
			for _, op := range b.Operations() {
				ev.Ops = append(ev.Ops, string(op.Id()))
			}
			if b.Id() != id {
				s.tags["read-id-mismatch"] = true
			}
		}
		s.observe(&ev)
		if e, ok := s.entOf[string(id)]; ok {
			ev.E = e
		}
		s.events = append(s.events, ev)
	}
}

var wKindNames = []string{"comment", "title", "status", "label", "editcomment", "metadata"}

func (s *wSession) appendOp(b *bug.Bug, author identity.Interface, kind int) {
	s.opCount++
	n := s.opCount
	t := int64(1600000000 + n)
	var err error
	switch kind % 6 {
	case 0:
		_, _, err = bug.AddComment(b, author, t, fmt.Sprintf("comment %d", n), nil, nil)
	case 1:
		_, err = bug.SetTitle(b, author, t, fmt.Sprintf("title %d", n), nil)
	case 2:
		if b.Compile().Status.String() == "open" {
			_, err = bug.Close(b, author, t, map[string]string{"n": fmt.Sprint(n)})
		} else {
			_, err = bug.Open(b, author, t, map[string]string{"n": fmt.Sprint(n)})
		}
	case 3:
		_, err = bug.ForceChangeLabels(b, author, t, []string{fmt.Sprintf("l%d", n%5)}, nil, map[string]string{"n": fmt.Sprint(n)})
	case 4:
		_, _, err = bug.EditCreateComment(b, author, t, fmt.Sprintf("edited %d", n), nil, nil)
	case 5:
		_, err = bug.SetMetadata(b, author, t, b.FirstOp().Id(), map[string]string{fmt.Sprintf("k%d", n): "v"})
	}
	if err != nil {
		s.fail("append op kind %d: %v", kind, err)
	}
}

func normPacks(ps []wPack, nauthors int) []wPack {
	var res []wPack
	for _, p := range ps {
		if p.NOps < 1 {
			p.NOps = 1
		}
		p.Author = ((p.Author % nauthors) + nauthors) % nauthors
		if len(res) > 0 && res[len(res)-1].Author == p.Author {
			res[len(res)-1].NOps += p.NOps
			continue
		}
		res = append(res, p)
	}
	if len(res) == 0 {
		res = []wPack{{0, 1}}
	}
	return res
}

func (s *wSession) do(a wAction) {
	r := ((a.R % s.in.NReps) + s.in.NReps) % s.in.NReps
	repo := s.repos[r]
	switch a.K {
	case "new":
		packs := normPacks(a.Packs, s.in.NAuthors)
		s.opCount++
		b, _, err := bug.Create(s.authors[r][packs[0].Author], int64(1600000000+s.opCount), fmt.Sprintf("bug %d", s.opCount), fmt.Sprintf("message %d", s.opCount), nil, nil)
		if err != nil {
			s.fail("create: %v", err)
			return
		}
		ev := wEvent{Kind: "commit", R: r, E: -1, New: true}
		k := 0
		for pi, p := range packs {
			n := p.NOps
			if pi == 0 {
				n--
			}
			for j := 0; j < n; j++ {
				kind := 0
				if len(a.Kinds) > 0 {
					kind = a.Kinds[k%len(a.Kinds)]
				}
				k++
				s.appendOp(b, s.authors[r][p.Author], kind)
			}
			ev.Packs = append(ev.Packs, []int{p.Author, p.NOps})
		}
		before := len(s.g.commits)
		err = b.Commit(repo)
		if err != nil {
			ev.Out, ev.Err = "fail", err.Error()
		} else {
			ev.Out = "done"
		}
		s.observe(&ev)
		for i := before; i < len(s.g.commits); i++ {
			ev.NewIdx = append(ev.NewIdx, i)
		}
		s.events = append(s.events, ev)
		if len(packs) > 1 {
			s.tags["multi-author-commit"] = true
		}
		s.readAll(r)
	case "edit":
		ids := s.localIds(r)
		if len(ids) == 0 {
			return
		}
		id := ids[((a.E%len(ids))+len(ids))%len(ids)]
		packs := normPacks(a.Packs, s.in.NAuthors)
		ev := wEvent{Kind: "commit", R: r, E: s.entOf[string(id)]}
		b, err := bug.Read(repo, id)
		if err != nil {
			ev.Out, ev.Err = "fail", err.Error()
			s.tags["edit-read-error"] = true
			s.observe(&ev)
			s.events = append(s.events, ev)
			return
		}
		k := 0
		for _, p := range packs {
			for j := 0; j < p.NOps; j++ {
				kind := 0
				if len(a.Kinds) > 0 {
					kind = a.Kinds[k%len(a.Kinds)]
				}
				k++
				s.appendOp(b, s.authors[r][p.Author], kind)
			}
			ev.Packs = append(ev.Packs, []int{p.Author, p.NOps})
		}
		before := len(s.g.commits)
		if err := b.Commit(repo); err != nil {
			ev.Out, ev.Err = "fail", err.Error()
		} else {
			ev.Out = "done"
		}
		s.observe(&ev)
		for i := before; i < len(s.g.commits); i++ {
			ev.NewIdx = append(ev.NewIdx, i)
		}
		s.events = append(s.events, ev)
		if len(packs) > 1 {
			s.tags["multi-author-commit"] = true
		}
		s.readAll(r)
	case "push":
		ev := wEvent{Kind: "push", R: r, E: -1}
		if _, err := bug.Push(repo, "origin"); err != nil {
			ev.Out, ev.Err = "fail", err.Error()
			s.tags["push-refused"] = true
		} else {
			ev.Out = "done"
		}
		s.observe(&ev)
		s.events = append(s.events, ev)
	case "pull":
		ev := wEvent{Kind: "fetch", R: r, E: -1}
		if _, err := bug.Fetch(repo, "origin"); err != nil {
			ev.Out, ev.Err = "fail", err.Error()
		} else {
			ev.Out = "done"
		}
		s.observe(&ev)
		s.events = append(s.events, ev)
		resolvers := entity.Resolvers{&identity.Identity{}: identity.NewSimpleResolver(repo)}
		var merges []wEvent
		for mr := range bug.MergeAll(repo, resolvers, "origin", s.merger[r]) {
			me := wEvent{Kind: "merge", R: r, E: -1}
			if e, ok := s.entOf[string(mr.Id)]; ok {
				me.E = e
			}
			switch {
			case mr.Err != nil:
				me.Out, me.Err = "error", mr.Err.Error()
				s.tags["merge-error"] = true
			case mr.Status == entity.MergeStatusNew:
				me.Out = "new"
			case mr.Status == entity.MergeStatusNothing:
				me.Out = "nothing"
			case mr.Status == entity.MergeStatusUpdated:
				me.Out = "updated"
			case mr.Status == entity.MergeStatusInvalid:
				me.Out, me.Err = "invalid", mr.Reason
				s.tags["merge-invalid"] = true
			default:
				me.Out = "error"
			}
			if mr.Entity != nil {
				if b, ok := mr.Entity.(*bug.Bug); ok {
					me.HasOps = true
					for _, op := range b.Operations() {
						me.Ops = append(me.Ops, string(op.Id()))
					}
				}
			}
			s.tags["merge-"+me.Out] = true
			merges = append(merges, me)
		}
		before := len(s.g.commits)
		if len(merges) > 0 {
			s.observe(&merges[len(merges)-1])
			last := &merges[len(merges)-1]
			for i := before; i < len(s.g.commits); i++ {
				last.NewIdx = append(last.NewIdx, i)
				s.tags["merge-commit"] = true
			}
		}
		s.events = append(s.events, merges...)
		s.readAll(r)
	case "reopen":
		ev := wEvent{Kind: "reopen", R: r, E: -1, New: a.Del}
		path := fmt.Sprintf("%s/rep%d", s.dir, r)
		_ = repo.Close()
		if a.Del {
			_ = os.RemoveAll(path + "/.git/git-bug/clocks")
			s.tags["reopen-lost-clocks"] = true
		} else {
			s.tags["reopen"] = true
		}
		g, err := repository.OpenGoGitRepo(path, "git-bug", []repository.ClockLoader{bug.ClockLoader})
		if err != nil {
			s.fail("reopen: %v", err)
			s.tags["reopen-failed"] = true
			return
		}
		s.repos[r] = krRepo{TestedRepo: g, kr: keyring.NewArrayKeyring(nil)}
		ev.Out = "done"
		s.observe(&ev)
		s.events = append(s.events, ev)
		s.readAll(r)
	case "remove":
		ids := s.localIds(r)
		if len(ids) == 0 {
			return
		}
		id := ids[((a.E%len(ids))+len(ids))%len(ids)]
		ev := wEvent{Kind: "remove", R: r, E: s.entOf[string(id)]}
		if err := bug.Remove(repo, id); err != nil {
			ev.Out, ev.Err = "fail", err.Error()
		} else {
			ev.Out = "done"
		}
		s.observe(&ev)
		s.events = append(s.events, ev)
		s.tags["remove"] = true
		s.readAll(r)
	}
}

func runWorld(in wInput) (*wSession, string) {
	if in.NReps < 1 || in.NReps > 4 || in.NAuthors < 1 || in.NAuthors > 4 {
		return nil, "bad nreps/nauthors"
	}
	s := &wSession{in: in, g: newGraph(), tags: map[string]bool{}, entOf: map[string]int{}}
	defer s.cleanup()
	s.setup()
	for _, a := range in.Actions {
		s.do(a)
		if s.skip != "" {
			return s, s.skip
		}
	}
	if in.Quiesce {
		for r := 0; r < in.NReps; r++ {
			s.do(wAction{K: "pull", R: r})
			s.do(wAction{K: "push", R: r})
		}
		for r := 0; r < in.NReps; r++ {
			s.do(wAction{K: "pull", R: r})
		}
	}
	return s, s.skip
}

// ---- Coq rendering ----

type ranker struct{ m map[string]int }

func rankOf(xs []string) ranker {
	set := map[string]bool{}
	for _, x := range xs {
		set[x] = true
	}
	var ks []string
	for k := range set {
		ks = append(ks, k)
	}
	sort.Strings(ks)
	m := map[string]int{}
	for i, k := range ks {
		m[k] = i + 1
	}
	return ranker{m}
}

func coqAmap(m [][2]int) string {
	xs := make([]string, len(m))
	for i, p := range m {
		xs[i] = fmt.Sprintf("(%d, %d)", p[0], p[1])
	}
	return coqList(xs)
}

func (s *wSession) coqCase() string {
	var packIDs, opIDs []string
	for _, c := range s.g.commits {
		packIDs = append(packIDs, c.PackID)
		opIDs = append(opIDs, c.Ops...)
	}
	for _, ev := range s.events {
		opIDs = append(opIDs, ev.Ops...)
	}
	pr, or := rankOf(packIDs), rankOf(opIDs)
	authorIdx := map[string]int{}
	for i, id := range s.authorID {
		authorIdx[id] = i + 1
	}
	ops := func(xs []string) string {
		ys := make([]string, len(xs))
		for i, x := range xs {
			ys[i] = fmt.Sprint(or.m[x])
		}
		return "[" + strings.Join(ys, "; ") + "]%N"
	}
	optOps := func(has bool, xs []string) string {
		if !has {
			return "None"
		}
		return "(Some " + ops(xs) + ")"
	}
	var commits []string
	for _, c := range s.g.commits {
		commits = append(commits, fmt.Sprintf("{| c_parents := %s; c_pack := mkpack %d %d %s %d %d |}",
			coqNats(c.Parents), pr.m[c.PackID], authorIdx[c.Author], ops(c.Ops), c.Edit, c.Create))
	}
	var evs []string
	for _, ev := range s.events {
		var e, out string
		switch ev.Kind {
		case "commit":
			var pks []string
			// the packs written are the new commits, in order
			for _, ci := range ev.NewIdx {
				c := s.g.commits[ci]
				pks = append(pks, fmt.Sprintf("Pk %d %d %s", pr.m[c.PackID], authorIdx[c.Author], ops(c.Ops)))
			}
			if len(pks) == 0 {
				// commit failed: describe the intent with placeholder packs
				for range ev.Packs {
					pks = append(pks, "Pk 0 0 []")
				}
			}
			tgt := "None"
			if !ev.New {
				tgt = fmt.Sprintf("(Some %d)", ev.E)
			}
			e = fmt.Sprintf("ECommit %d %s %s", ev.R, tgt, coqList(pks))
		case "read":
			e = fmt.Sprintf("ERead %d %d", ev.R, ev.E)
		case "push":
			e = fmt.Sprintf("EPush %d", ev.R)
		case "fetch":
			e = fmt.Sprintf("EFetch %d", ev.R)
		case "merge":
			mid, mau := 0, 0
			if len(ev.NewIdx) > 0 {
				c := s.g.commits[ev.NewIdx[0]]
				mid, mau = pr.m[c.PackID], authorIdx[c.Author]
			}
			e = fmt.Sprintf("EMerge %d %d %d %d", ev.R, ev.E, mid, mau)
		case "remove":
			e = fmt.Sprintf("ERemove %d %d", ev.R, ev.E)
		case "reopen":
			e = fmt.Sprintf("EReopen %d %s", ev.R, coqBool(ev.New))
		}
		switch ev.Out {
		case "done":
			out = "ODone"
		case "fail", "error":
			out = "OFail"
		case "read":
			out = "ORead " + optOps(true, ev.Ops)
		case "read-err":
			out = "ORead None"
		case "new":
			out = "OMerge MNew " + optOps(ev.HasOps, ev.Ops)
		case "nothing":
			out = "OMerge MNothing " + optOps(ev.HasOps, ev.Ops)
		case "updated":
			out = "OMerge MUpdated " + optOps(ev.HasOps, ev.Ops)
		case "invalid":
			out = "OMerge MInvalid " + optOps(ev.HasOps, ev.Ops)
		}
		evs = append(evs, fmt.Sprintf("(%s, mkobs (%s) %s %s %s %s %d %d %d)", e, out, coqBool(ev.Check),
			coqAmap(ev.Loc), coqAmap(ev.Trk), coqAmap(ev.Rem), ev.Clk, ev.CClk, ev.NSt))
	}
	return fmt.Sprintf("mkcase %d %s %s %s", s.in.NReps, coqList(evs), coqList(commits), coqBool(s.in.Quiesce))
}

// merge events inside one MergeAll: only the last one carries a state observation; when a merge
// commit was created by an earlier merge of the group, attribute new commits in order.
func (s *wSession) fixMergeGroups() {
	// new commits created during a MergeAll are all listed on the group's last event; distribute
	// them to the "updated" merges whose entity matches the new commit's root.
	for i := range s.events {
		ev := &s.events[i]
		if ev.Kind != "merge" || len(ev.NewIdx) == 0 {
			continue
		}
		idxs := ev.NewIdx
		ev.NewIdx = nil
		// walk back to the start of the group
		j := i
		for j > 0 && s.events[j-1].Kind == "merge" && s.events[j-1].R == ev.R && !s.events[j-1].Check {
			j--
		}
		for _, ci := range idxs {
			root := s.g.root(ci)
			for k := j; k <= i; k++ {
				if s.events[k].E == root && len(s.events[k].NewIdx) == 0 {
					s.events[k].NewIdx = []int{ci}
					break
				}
			}
		}
	}
}

// ---- generator ----

func genWorld(r *Rand, maxActions int) wInput {
	in := wInput{NReps: 2 + r.Intn(2), NAuthors: 1 + r.Intn(3), Quiesce: r.Chance(3, 4)}
	n := r.Range(5, maxActions)
	packs := func() []wPack {
		k := 1
		if r.Chance(1, 3) {
			k = r.Range(2, 3)
		}
		var ps []wPack
		for i := 0; i < k; i++ {
			ps = append(ps, wPack{Author: r.Intn(in.NAuthors), NOps: r.Range(1, 3)})
		}
		return ps
	}
	kinds := func() []int {
		var ks []int
		for i := 0; i < 4; i++ {
			ks = append(ks, r.Intn(6))
		}
		return ks
	}
	in.Actions = append(in.Actions, wAction{K: "new", R: r.Intn(in.NReps), Packs: packs(), Kinds: kinds()})
	for i := 1; i < n; i++ {
		rep := r.Intn(in.NReps)
		switch x := r.Intn(20); {
		case x < 2:
			in.Actions = append(in.Actions, wAction{K: "new", R: rep, Packs: packs(), Kinds: kinds()})
		case x < 11:
			// bias towards runs of edits on one replica (unequal branch lengths)
			run := 1
			if r.Chance(1, 2) {
				run = r.Range(2, 4)
			}
			e := r.Intn(4)
			for j := 0; j < run; j++ {
				in.Actions = append(in.Actions, wAction{K: "edit", R: rep, E: e, Packs: packs(), Kinds: kinds()})
			}
		case x < 14:
			in.Actions = append(in.Actions, wAction{K: "push", R: rep})
		case x < 18:
			in.Actions = append(in.Actions, wAction{K: "pull", R: rep})
			if r.Bool() {
				in.Actions = append(in.Actions, wAction{K: "push", R: rep})
			}
		default:
			switch r.Intn(4) {
			case 0:
				in.Actions = append(in.Actions, wAction{K: "remove", R: rep, E: r.Intn(4)})
			case 1:
				in.Actions = append(in.Actions, wAction{K: "reopen", R: rep})
			case 2:
				in.Actions = append(in.Actions, wAction{K: "reopen", R: rep, Del: true})
			default:
				in.Actions = append(in.Actions, wAction{K: "pull", R: rep})
			}
		}
	}
	return in
}

// exhaustive fork shapes: common prefix p, local suffix a, remote suffix b, then cross merges
func forkShapes() []wInput {
	var res []wInput
	for p := 0; p <= 2; p++ {
		for a := 0; a <= 3; a++ {
			for b := 0; b <= 3; b++ {
				for variant := 0; variant < 3; variant++ {
					in := wInput{NReps: 2, NAuthors: 2, Quiesce: true}
					add := func(x wAction) { in.Actions = append(in.Actions, x) }
					add(wAction{K: "new", R: 0, Packs: []wPack{{0, 1}}})
					for i := 0; i < p; i++ {
						add(wAction{K: "edit", R: 0, Packs: []wPack{{0, 1}}, Kinds: []int{i}})
					}
					add(wAction{K: "push", R: 0})
					add(wAction{K: "pull", R: 1})
					for i := 0; i < a; i++ {
						add(wAction{K: "edit", R: 0, Packs: []wPack{{0, 1 + i%2}}, Kinds: []int{i, i + 1}})
					}
					for i := 0; i < b; i++ {
						add(wAction{K: "edit", R: 1, Packs: []wPack{{1, 1}}, Kinds: []int{i + 2}})
					}
					switch variant {
					case 0: // A pushes, B pulls (B merges)
						add(wAction{K: "push", R: 0})
						add(wAction{K: "pull", R: 1})
					case 1: // B pushes first, A pulls (A merges), A pushes, B pulls (ff)
						add(wAction{K: "push", R: 1})
						add(wAction{K: "pull", R: 0})
						add(wAction{K: "push", R: 0})
						add(wAction{K: "pull", R: 1})
					case 2: // both sides merge the same pair of heads: third replica-less trick: A pushes, B pulls+edits, ...
						add(wAction{K: "push", R: 0})
						add(wAction{K: "pull", R: 1})
						add(wAction{K: "edit", R: 0, Packs: []wPack{{0, 1}}, Kinds: []int{0}})
						add(wAction{K: "push", R: 1})
						add(wAction{K: "pull", R: 0})
					}
					res = append(res, in)
				}
			}
		}
	}
	return res
}

// a replica that merged keeps pulling without pushing: its head is a merge commit (possibly with edits on top) when
// the remote moves on (or does not move at all)
func repullShapes() []wInput {
	var res []wInput
	for a1 := 1; a1 <= 2; a1++ {
		for b1 := 1; b1 <= 2; b1++ {
			for a2 := 0; a2 <= 1; a2++ {
				for b2 := 0; b2 <= 2; b2++ {
					for again := 0; again < 2; again++ {
						in := wInput{NReps: 2, NAuthors: 2, Quiesce: true}
						add := func(x wAction) { in.Actions = append(in.Actions, x) }
						add(wAction{K: "new", R: 0, Packs: []wPack{{0, 1}}})
						add(wAction{K: "push", R: 0})
						add(wAction{K: "pull", R: 1})
						for i := 0; i < a1; i++ {
							add(wAction{K: "edit", R: 0, Packs: []wPack{{0, 1}}, Kinds: []int{i}})
						}
						for i := 0; i < b1; i++ {
							add(wAction{K: "edit", R: 1, Packs: []wPack{{1, 1}}, Kinds: []int{i + 2}})
						}
						add(wAction{K: "push", R: 1})
						add(wAction{K: "pull", R: 0}) // replica 0 writes a merge commit and does not push it
						for i := 0; i < a2; i++ {
							add(wAction{K: "edit", R: 0, Packs: []wPack{{0, 1}}, Kinds: []int{i + 1}})
						}
						for i := 0; i < b2; i++ {
							add(wAction{K: "edit", R: 1, Packs: []wPack{{1, 1}}, Kinds: []int{i + 3}})
						}
						if b2 > 0 {
							add(wAction{K: "push", R: 1})
						}
						add(wAction{K: "pull", R: 0})
						if again == 1 {
							add(wAction{K: "pull", R: 0})
						}
						res = append(res, in)
					}
				}
			}
		}
	}
	return res
}

type worldDriver struct{ name string }

func init() {
	for _, n := range []string{"C01", "C02", "C03w", "C05w"} {
		register(n, worldDriver{n})
	}
}

func (d worldDriver) Gen(r *Rand, tier string) []json.RawMessage {
	var res []json.RawMessage
	shapes := append(forkShapes(), repullShapes()...)
	nrand := 60
	maxA := 25
	if tier == "thorough" {
		nrand, maxA = 1500, 40
	} else {
		// quick: a third of the exhaustive shapes, rotating with the seed
		var sub []wInput
		off := int(r.U64() % 3)
		for i, s := range shapes {
			if i%3 == off {
				sub = append(sub, s)
			}
		}
		shapes = sub
	}
	for _, s := range shapes {
		res = append(res, mustJSON(s))
	}
	for i := 0; i < nrand; i++ {
		res = append(res, mustJSON(genWorld(r, maxA)))
	}
	return res
}

func (d worldDriver) Run(raw json.RawMessage) Case {
	var in wInput
	if err := json.Unmarshal(raw, &in); err != nil {
		return Case{Skip: "bad input: " + err.Error()}
	}
	s, skip := runWorld(in)
	if s == nil || skip != "" {
		return Case{Skip: skip}
	}
	s.fixMergeGroups()
	var tags []string
	for t := range s.tags {
		tags = append(tags, t)
	}
	tags = append(tags, fmt.Sprintf("reps:%d", in.NReps))
	sort.Strings(tags)
	type obsT struct {
		Commits int      `json:"commits"`
		Events  []wEvent `json:"events"`
	}
	// keep the JSON observation compact: events without ref maps
	nontrivial := s.tags["merge-commit"] || s.tags["merge-updated"]
	return Case{Coq: s.coqCase(), Obs: obsT{len(s.g.commits), s.events}, Tags: tags, NonTrivial: nontrivial, Key: string(raw)}
}
