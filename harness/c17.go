package main

// C17 — without an authenticated user the API cannot change anything.
//
// A case is a session: a temporary go-git repository with two identities and a few bugs, served
// in-process by the REAL api/graphql handler (graphql.NewHandler over a cache.MultiRepoCache) and the
// REAL api/http upload handler. The mutation fields and their input types are discovered by GraphQL
// introspection on every run; requests are built from the introspected types only. Each step sends
// one request with or without auth.CtxWithUser and then observes: response (HTTP status, GraphQL
// errors, returned bug and operations), every ref, the object files, the clocks, a fresh bug.ReadAll
// from git, the cache's snapshots and excerpts, and the answer of a GraphQL query sent in the same
// authentication mode.

import (
	"bytes"
	"context"
	"crypto/sha1"
	"encoding/json"
	"fmt"
	"image"
	"image/color"
	"image/gif"
	"image/jpeg"
	"image/png"
	"io"
	"mime/multipart"
	"net/http"
	"net/http/httptest"
	"os"
	"path/filepath"
	"sort"
	"strings"
	"unicode"

	"github.com/gorilla/mux"

	"github.com/MichaelMure/git-bug/api/auth"
	"github.com/MichaelMure/git-bug/api/graphql"
	httpapi "github.com/MichaelMure/git-bug/api/http"
	"github.com/MichaelMure/git-bug/cache"
	"github.com/MichaelMure/git-bug/entities/bug"
	"github.com/MichaelMure/git-bug/entities/common"
	"github.com/MichaelMure/git-bug/entities/identity"
	"github.com/MichaelMure/git-bug/entity"
	"github.com/MichaelMure/git-bug/repository"
)

// ---------------------------------------------------------------- inputs

type c17Op struct {
	K      string   `json:"k"` // comment | close | open | title | labels | edit
	Author int      `json:"a"`
	Text   string   `json:"t,omitempty"`
	Add    []string `json:"add,omitempty"`
	Rm     []string `json:"rm,omitempty"`
	File   bool     `json:"file,omitempty"`
}
type c17SBug struct {
	Author int     `json:"a"`
	Title  string  `json:"title"`
	Msg    string  `json:"msg"`
	File   bool    `json:"file,omitempty"`
	Ops    []c17Op `json:"ops,omitempty"`
}
type c17Req struct {
	Kind    string   `json:"kind"`  // mutation | upload
	Field   string   `json:"field"` // mutation field name as served by the schema
	Auth    string   `json:"auth"`  // none | a | b | ghost
	Var     string   `json:"var"`   // label of the argument variant
	Bug     int      `json:"bug,omitempty"`
	Comment int      `json:"comment,omitempty"`
	PLen    int      `json:"plen"` // length of the id prefix sent; -1: a prefix matching nothing
	Title   string   `json:"title,omitempty"`
	Msg     string   `json:"msg,omitempty"`
	Files   []int    `json:"files,omitempty"` // 1..3: stored blobs, 9: a well-formed hash of no stored blob, -1: not a hash
	Added   []string `json:"added,omitempty"`
	Removed []string `json:"removed,omitempty"`
	Repo    string   `json:"repo,omitempty"`    // "" | "__default" | anything else (unknown)
	Omit    bool     `json:"omit,omitempty"`    // leave out the first required input field
	Null    bool     `json:"null,omitempty"`    // send input: null
	Payload string   `json:"payload,omitempty"` // upload: png | gif | jpeg | text | empty | nofield | notmultipart
	PN      int      `json:"pn,omitempty"`
}
type c17Input struct {
	Bugs  []c17SBug `json:"bugs"`
	Steps []c17Req  `json:"steps"`
	// LogErrors builds the handler the way `webui --log-errors` does: with an error writer, which installs the tracer
	LogErrors bool `json:"log_errors,omitempty"`
}

var c17Known = map[string]string{
	"newBug": "MNewBug", "addComment": "MAddComment", "addCommentAndClose": "MAddCommentAndClose",
	"addCommentAndReopen": "MAddCommentAndReopen", "editComment": "MEditComment", "changeLabels": "MChangeLabels",
	"openBug": "MOpenBug", "closeBug": "MCloseBug", "setTitle": "MSetTitle",
}

// c17IsKnown tells whether the model has an effect for this field. VERIF_C17_FORGET=<field> makes the
// harness treat a current mutation as one it has never seen (used to try the path taken by a
// mutation added to the schema later).
func c17IsKnown(field string) (string, bool) {
	if field == os.Getenv("VERIF_C17_FORGET") {
		return "", false
	}
	m, ok := c17Known[field]
	return m, ok
}

// ---------------------------------------------------------------- introspected schema

type c17TypeRef struct {
	Kind   string      `json:"kind"`
	Name   string      `json:"name"`
	OfType *c17TypeRef `json:"ofType"`
}

func (t *c17TypeRef) String() string {
	switch t.Kind {
	case "NON_NULL":
		return t.OfType.String() + "!"
	case "LIST":
		return "[" + t.OfType.String() + "]"
	}
	return t.Name
}
func (t *c17TypeRef) named() *c17TypeRef {
	for t.OfType != nil {
		t = t.OfType
	}
	return t
}
func (t *c17TypeRef) isList() bool {
	for x := t; x != nil; x = x.OfType {
		if x.Kind == "LIST" {
			return true
		}
	}
	return false
}

type c17Field struct {
	Name string      `json:"name"`
	Type *c17TypeRef `json:"type"`
	Args []c17Field  `json:"args"`
}
type c17Type struct {
	Kind        string     `json:"kind"`
	Name        string     `json:"name"`
	Fields      []c17Field `json:"fields"`
	InputFields []c17Field `json:"inputFields"`
	EnumValues  []struct {
		Name string `json:"name"`
	} `json:"enumValues"`
}
type c17Schema struct {
	Mutations []c17Field
	Types     map[string]*c17Type
}

const c17Introspection = `
query { __schema {
  mutationType { name }
  types { kind name
    fields { name type { ...T } args { name type { ...T } } }
    inputFields { name type { ...T } }
    enumValues { name } } } }
fragment T on __Type { kind name ofType { kind name ofType { kind name ofType { kind name ofType { kind name } } } } }`

const c17BugFragment = `
fragment B on Bug { id status title labels { name } author { id }
  actors(first: 100) { nodes { id } } participants(first: 100) { nodes { id } }
  comments(first: 100) { nodes { id author { id } message files } }
  operations(first: 100) { nodes { id author { id } } } }`

// ---------------------------------------------------------------- observations

type c17OpObs struct {
	Id      string   `json:"id"`
	K       string   `json:"k"`
	Au      int      `json:"au"`
	Title   string   `json:"title,omitempty"`
	Msg     string   `json:"msg,omitempty"`
	Was     string   `json:"was,omitempty"`
	Files   []int    `json:"files,omitempty"`
	Target  string   `json:"target,omitempty"`
	Closed  bool     `json:"closed,omitempty"`
	Added   []string `json:"added,omitempty"`
	Removed []string `json:"removed,omitempty"`
}
type c17Comment struct {
	Id    string `json:"id"` // id of the operation that made the comment
	Au    int    `json:"au"`
	Msg   string `json:"msg"`
	Files []int  `json:"files,omitempty"`
}
type c17Snap struct {
	Closed   bool         `json:"closed"`
	Title    string       `json:"title"`
	Labels   []string     `json:"labels,omitempty"`
	Comments []c17Comment `json:"comments"`
	NOps     int          `json:"nops"`
	Actors   []int        `json:"actors"`
	Parts    []int        `json:"parts"`
}
type c17GBug struct {
	Id   string     `json:"id"`
	Ops  []c17OpObs `json:"ops"`
	Snap c17Snap    `json:"snap"`
}
type c17CBug struct {
	Id       string   `json:"id"`
	OpIds    []string `json:"opids"`
	Snap     c17Snap  `json:"snap"`
	ExClosed bool     `json:"ex_closed"`
	ExTitle  string   `json:"ex_title"`
	ExLabels []string `json:"ex_labels,omitempty"`
	ExNCom   int      `json:"ex_ncomments"`
}
type c17QBug struct {
	Id   string  `json:"id"`
	Snap c17Snap `json:"snap"`
}
type c17State struct {
	Refs    [][2]string `json:"refs"`
	Objs    []string    `json:"-"`
	NObj    int         `json:"nobj"`
	Clocks  [][2]string `json:"clocks"`
	Git     []c17GBug   `json:"git"`
	Cache   []c17CBug   `json:"cache,omitempty"`
	Blobs   []int       `json:"blobs,omitempty"`
	QueryOK bool        `json:"query_ok"`
	Query   []c17QBug   `json:"query,omitempty"`
	QErr    string      `json:"query_err,omitempty"`
}
type c17Resp struct {
	HTTP   int      `json:"http"`
	Errors []string `json:"errors,omitempty"`
	Class  string   `json:"class,omitempty"` // ENotAuth | ENotFound | EMultiple | EOther ; "" = ok
	Bug    *c17QBug `json:"bug,omitempty"`
	OpIds  []string `json:"opids,omitempty"`
	OpAu   []int    `json:"opau,omitempty"`
	Blob   int      `json:"blob,omitempty"`
	Body   string   `json:"body,omitempty"`
}
type c17Concrete struct {
	Doc     string                 `json:"doc,omitempty"`
	Vars    map[string]interface{} `json:"vars,omitempty"`
	Prefix  string                 `json:"prefix"`
	WF      bool                   `json:"wf"`
	NoBlob  bool                   `json:"no_blob,omitempty"` // a file hash was sent that names no stored blob
	RepoOK  bool                   `json:"repo_ok"`
	Known   bool                   `json:"known"`
	Content int                    `json:"content,omitempty"`
	Image   bool                   `json:"image,omitempty"`
	Form    string                 `json:"form,omitempty"`
}
type c17StepObs struct {
	Req  c17Req      `json:"req"`
	Con  c17Concrete `json:"concrete"`
	Resp c17Resp     `json:"resp"`
	Post c17State    `json:"post"`
	New  []string    `json:"new_ops,omitempty"`
}

// ---------------------------------------------------------------- session

type c17Sess struct {
	dir     string
	repo    repository.TestedRepo
	mrc     *cache.MultiRepoCache
	rc      *cache.RepoCache
	gql     http.Handler
	up      http.Handler
	idents  []entity.Id // a, b
	ghost   entity.Id
	files   []repository.Hash
	schema  *c17Schema
	content map[string]int // git blob hash of an upload payload -> content number (1..)
	conts   []string
}

func c17Open() (*c17Sess, error) {
	dir, err := os.MkdirTemp("", "verif-c17-")
	if err != nil {
		return nil, err
	}
	s := &c17Sess{dir: dir, content: map[string]int{}}
	s.repo, err = newTestRepo(dir, false)
	if err != nil {
		return s, err
	}
	s.mrc = cache.NewMultiRepoCache()
	rc, events := s.mrc.RegisterDefaultRepository(s.repo)
	for ev := range events {
		if ev.Err != nil {
			return s, ev.Err
		}
	}
	s.rc = rc
	for i, n := range []string{"alice", "bob"} {
		id, err := rc.Identities().New(n, fmt.Sprintf("%s%d@example.org", n, i))
		if err != nil {
			return s, err
		}
		s.idents = append(s.idents, id.Id())
	}
	// the repository's own user is alice; requests authenticated as bob must be recorded as bob
	a, err := rc.Identities().Resolve(s.idents[0])
	if err != nil {
		return s, err
	}
	if err := rc.SetUserIdentity(a); err != nil {
		return s, err
	}
	s.ghost = entity.DeriveId([]byte("nobody at all"))
	for i := 0; i < 3; i++ {
		h, err := s.repo.StoreData([]byte(fmt.Sprintf("attachment %d", i)))
		if err != nil {
			return s, err
		}
		s.files = append(s.files, h)
	}
	s.gql = graphql.NewHandler(s.mrc, nil)
	s.up = httpapi.NewGitUploadFileHandler(s.mrc)
	return s, nil
}

func (s *c17Sess) close() {
	if s.mrc != nil {
		_ = s.mrc.Close()
	}
	if s.repo != nil {
		_ = s.repo.Close()
	}
	if s.dir != "" {
		_ = os.RemoveAll(s.dir)
	}
}

func (s *c17Sess) user(mode string) *entity.Id {
	switch mode {
	case "a":
		return &s.idents[0]
	case "b":
		return &s.idents[1]
	case "ghost":
		return &s.ghost
	}
	return nil
}

func (s *c17Sess) identIndex(id entity.Id) int {
	for i, x := range s.idents {
		if x == id {
			return i + 1
		}
	}
	if id == s.ghost {
		return 3
	}
	return 0
}
func (s *c17Sess) fileIndex(h string) int {
	for i, x := range s.files {
		if string(x) == h {
			return i + 1
		}
	}
	if h == c17MissingHash {
		return c17MissingFile
	}
	return 0
}
func (s *c17Sess) fileIdx(hs []repository.Hash) []int {
	var r []int
	for _, h := range hs {
		r = append(r, s.fileIndex(string(h)))
	}
	return r
}

// gqlDo posts one GraphQL request to the real handler.
func (s *c17Sess) gqlDo(doc string, vars map[string]interface{}, user *entity.Id) (int, map[string]interface{}, []string) {
	body, _ := json.Marshal(map[string]interface{}{"query": doc, "variables": vars})
	r := httptest.NewRequest("POST", "/graphql", bytes.NewReader(body))
	r.Header.Set("Content-Type", "application/json")
	if user != nil {
		r = r.WithContext(auth.CtxWithUser(r.Context(), *user))
	}
	w := httptest.NewRecorder()
	s.gql.ServeHTTP(w, r)
	var out struct {
		Data   map[string]interface{} `json:"data"`
		Errors []struct {
			Message string `json:"message"`
		} `json:"errors"`
	}
	raw, _ := io.ReadAll(w.Result().Body)
	if err := json.Unmarshal(raw, &out); err != nil {
		return w.Code, nil, []string{"undecodable response: " + string(raw)}
	}
	var errs []string
	for _, e := range out.Errors {
		errs = append(errs, e.Message)
	}
	return w.Code, out.Data, errs
}

func (s *c17Sess) introspect() error {
	code, data, errs := s.gqlDo(c17Introspection, nil, nil)
	if len(errs) > 0 || data == nil {
		return fmt.Errorf("introspection failed (http %d): %v", code, errs)
	}
	raw, _ := json.Marshal(data["__schema"])
	var sch struct {
		MutationType *struct {
			Name string `json:"name"`
		} `json:"mutationType"`
		Types []*c17Type `json:"types"`
	}
	if err := json.Unmarshal(raw, &sch); err != nil {
		return err
	}
	s.schema = &c17Schema{Types: map[string]*c17Type{}}
	for _, t := range sch.Types {
		s.schema.Types[t.Name] = t
	}
	if sch.MutationType != nil {
		if mt := s.schema.Types[sch.MutationType.Name]; mt != nil {
			s.schema.Mutations = mt.Fields
		}
	}
	return nil
}

func (sc *c17Schema) mutation(name string) *c17Field {
	for i := range sc.Mutations {
		if sc.Mutations[i].Name == name {
			return &sc.Mutations[i]
		}
	}
	return nil
}

// selection builds the selection set of a payload type from the introspected schema.
func (sc *c17Schema) selection(t *c17TypeRef) string {
	nt := sc.Types[t.named().Name]
	if nt == nil || (nt.Kind != "OBJECT" && nt.Kind != "INTERFACE") {
		return ""
	}
	var parts []string
	for _, f := range nt.Fields {
		if len(f.Args) > 0 {
			continue
		}
		ft := sc.Types[f.Type.named().Name]
		switch {
		case ft == nil:
		case ft.Kind == "SCALAR" || ft.Kind == "ENUM":
			parts = append(parts, f.Name)
		case ft.Name == "Bug":
			parts = append(parts, f.Name+" { ...B }")
		case (ft.Kind == "OBJECT" || ft.Kind == "INTERFACE") && c17HasField(ft, "id") && c17HasField(ft, "author"):
			parts = append(parts, f.Name+" { id author { id } }")
		default:
			parts = append(parts, f.Name+" { __typename }")
		}
	}
	if len(parts) == 0 {
		parts = []string{"__typename"}
	}
	return " { " + strings.Join(parts, " ") + " }"
}
func c17HasField(t *c17Type, n string) bool {
	for _, f := range t.Fields {
		if f.Name == n {
			return true
		}
	}
	return false
}

// value builds a value for an input field from the recipe, guided by field name and type only.
func (s *c17Sess) value(name string, t *c17TypeRef, req c17Req, con *c17Concrete, bugPrefix, commentPrefix string, depth int) (interface{}, bool) {
	ln := strings.ToLower(name)
	nt := s.schema.Types[t.named().Name]
	required := t.Kind == "NON_NULL"
	strs := func(xs []string) interface{} {
		r := make([]interface{}, len(xs))
		for i, x := range xs {
			r[i] = x
		}
		return r
	}
	switch {
	case ln == "clientmutationid":
		return "cmid", true
	case ln == "reporef":
		if req.Repo == "" {
			return nil, false
		}
		return req.Repo, true
	case strings.Contains(ln, "prefix") && strings.Contains(ln, "target"):
		con.Prefix = commentPrefix
		return commentPrefix, true
	case strings.Contains(ln, "prefix"):
		con.Prefix = bugPrefix
		return bugPrefix, true
	}
	if nt == nil {
		return nil, false
	}
	if nt.Kind == "INPUT_OBJECT" {
		if depth > 3 {
			return nil, false
		}
		m := map[string]interface{}{}
		omitted := !req.Omit
		for _, f := range nt.InputFields {
			if !omitted && f.Type.Kind == "NON_NULL" {
				omitted = true
				con.WF = false
				continue
			}
			if v, ok := s.value(f.Name, f.Type, req, con, bugPrefix, commentPrefix, depth+1); ok {
				m[f.Name] = v
			}
		}
		return m, true
	}
	if t.isList() {
		switch {
		case nt.Name == "Hash" || ln == "files":
			if len(req.Files) == 0 && !required {
				return nil, false
			}
			r := []interface{}{}
			for _, f := range req.Files {
				if f >= 1 && f <= len(s.files) {
					r = append(r, string(s.files[f-1]))
				} else if f == c17MissingFile {
					r = append(r, c17MissingHash)
					con.NoBlob = true
				} else {
					r = append(r, "not-a-hash")
					con.WF = false
				}
			}
			return r, true
		case ln == "removed":
			if req.Removed == nil && !required {
				return nil, false
			}
			return strs(req.Removed), true
		case nt.Name == "String" || nt.Name == "ID":
			if req.Added == nil && !required {
				return nil, false
			}
			return strs(req.Added), true
		}
		return []interface{}{}, true
	}
	switch nt.Kind {
	case "ENUM":
		if len(nt.EnumValues) > 0 {
			return nt.EnumValues[0].Name, true
		}
		return nil, false
	case "SCALAR":
		switch nt.Name {
		case "String", "ID":
			if ln == "title" {
				return req.Title, true
			}
			return req.Msg, true
		case "Hash":
			if len(req.Files) > 0 && req.Files[0] >= 1 && req.Files[0] <= len(s.files) {
				return string(s.files[req.Files[0]-1]), true
			}
			return string(s.files[0]), true
		case "Boolean":
			return true, true
		case "Int":
			return 1, true
		case "Float":
			return 1.5, true
		}
	}
	return nil, false
}

// build makes the GraphQL document and variables for a mutation field.
func (s *c17Sess) build(f *c17Field, req c17Req, pre *c17State) (string, map[string]interface{}, c17Concrete) {
	con := c17Concrete{WF: true, RepoOK: req.Repo == "" || req.Repo == "__default"}
	_, con.Known = c17IsKnown(f.Name)
	bugPrefix, commentPrefix := s.prefixes(req, pre)
	vars := map[string]interface{}{}
	var decl, call []string
	for _, a := range f.Args {
		decl = append(decl, fmt.Sprintf("$%s: %s", a.Name, a.Type.String()))
		call = append(call, fmt.Sprintf("%s: $%s", a.Name, a.Name))
		if req.Null {
			vars[a.Name] = nil
			con.WF = false
			continue
		}
		if v, ok := s.value(a.Name, a.Type, req, &con, bugPrefix, commentPrefix, 0); ok {
			vars[a.Name] = v
		}
	}
	doc := "mutation"
	if len(decl) > 0 {
		doc += "(" + strings.Join(decl, ", ") + ")"
	}
	doc += " { " + f.Name
	if len(call) > 0 {
		doc += "(" + strings.Join(call, ", ") + ")"
	}
	sel := s.schema.selection(f.Type)
	doc += sel + " }"
	if strings.Contains(sel, "...B") {
		doc += c17BugFragment
	}
	con.Doc, con.Vars = doc, vars
	return doc, vars, con
}

// prefixes resolves the symbolic target of a request against the current bugs.
func (s *c17Sess) prefixes(req c17Req, pre *c17State) (string, string) {
	nothing := func() string {
		for _, c := range "0123456789abcdef" {
			hit := false
			for _, b := range pre.Git {
				if strings.HasPrefix(b.Id, string(c)) {
					hit = true
				}
			}
			if !hit {
				return strings.Repeat(string(c), 7)
			}
		}
		return "zzzzzzz"
	}
	cut := func(x string, n int) string {
		if n > len(x) {
			n = len(x)
		}
		return x[:n]
	}
	if req.PLen < 0 || len(pre.Git) == 0 {
		n := nothing()
		return n, n
	}
	b := pre.Git[c17Mod(req.Bug, len(pre.Git))]
	bp := cut(b.Id, req.PLen)
	cp := nothing()
	if len(b.Snap.Comments) > 0 {
		c := b.Snap.Comments[c17Mod(req.Comment, len(b.Snap.Comments))]
		cp = cut(string(entity.CombineIds(entity.Id(b.Id), entity.Id(c.Id))), req.PLen)
	}
	return bp, cp
}

func c17Mod(a, n int) int {
	if n <= 0 {
		return 0
	}
	a %= n
	if a < 0 {
		a += n
	}
	return a
}

func (s *c17Sess) classify(msg string) string {
	notFoundSuffix := entity.NewErrNotFound("").Error()
	multiPrefix := strings.SplitN(entity.NewErrMultipleMatch("\x00", nil).Error(), "\x00", 2)[0]
	switch {
	case msg == auth.ErrNotAuthenticated.Error():
		return "ENotAuth"
	case strings.HasSuffix(msg, notFoundSuffix):
		return "ENotFound"
	case strings.HasPrefix(msg, multiPrefix):
		return "EMultiple"
	}
	return "EOther"
}

func c17Map(v interface{}) map[string]interface{} { m, _ := v.(map[string]interface{}); return m }
func c17List(v interface{}) []interface{}         { l, _ := v.([]interface{}); return l }
func c17Str(v interface{}) string                 { x, _ := v.(string); return x }

// snapFromGQL decodes the B fragment.
func (s *c17Sess) snapFromGQL(m map[string]interface{}) c17QBug {
	q := c17QBug{Id: c17Str(m["id"])}
	q.Snap.Closed = c17Str(m["status"]) == "CLOSED"
	q.Snap.Title = c17Str(m["title"])
	for _, l := range c17List(m["labels"]) {
		q.Snap.Labels = append(q.Snap.Labels, c17Str(c17Map(l)["name"]))
	}
	ids := func(v interface{}) []int {
		r := []int{}
		for _, n := range c17List(c17Map(v)["nodes"]) {
			r = append(r, s.identIndex(entity.Id(c17Str(c17Map(n)["id"]))))
		}
		return r
	}
	q.Snap.Actors = ids(m["actors"])
	q.Snap.Parts = ids(m["participants"])
	ops := c17List(c17Map(m["operations"])["nodes"])
	q.Snap.NOps = len(ops)
	opIds := []string{}
	for _, o := range ops {
		opIds = append(opIds, c17Str(c17Map(o)["id"]))
	}
	q.Snap.Comments = []c17Comment{}
	for _, c := range c17List(c17Map(m["comments"])["nodes"]) {
		cm := c17Map(c)
		cid := c17Str(cm["id"])
		opid := ""
		for _, o := range opIds {
			if string(entity.CombineIds(entity.Id(q.Id), entity.Id(o))) == cid {
				opid = o
			}
		}
		var files []int
		for _, f := range c17List(cm["files"]) {
			files = append(files, s.fileIndex(c17Str(f)))
		}
		q.Snap.Comments = append(q.Snap.Comments, c17Comment{Id: opid, Au: s.identIndex(entity.Id(c17Str(c17Map(cm["author"])["id"]))), Msg: c17Str(cm["message"]), Files: files})
	}
	return q
}

func (s *c17Sess) snapOf(sn *bug.Snapshot) c17Snap {
	r := c17Snap{Closed: sn.Status == common.ClosedStatus, Title: sn.Title, NOps: len(sn.Operations), Comments: []c17Comment{}, Actors: []int{}, Parts: []int{}}
	for _, l := range sn.Labels {
		r.Labels = append(r.Labels, string(l))
	}
	for _, c := range sn.Comments {
		r.Comments = append(r.Comments, c17Comment{Id: string(c.TargetId()), Au: s.identIndex(c.Author.Id()), Msg: c.Message, Files: s.fileIdx(c.Files)})
	}
	for _, a := range sn.Actors {
		r.Actors = append(r.Actors, s.identIndex(a.Id()))
	}
	for _, a := range sn.Participants {
		r.Parts = append(r.Parts, s.identIndex(a.Id()))
	}
	return r
}

func (s *c17Sess) opOf(o interface {
	Id() entity.Id
	Author() identity.Interface
}) c17OpObs {
	r := c17OpObs{Id: string(o.Id()), Au: s.identIndex(o.Author().Id()), K: "other"}
	labels := func(ls []bug.Label) []string {
		x := []string{}
		for _, l := range ls {
			x = append(x, string(l))
		}
		return x
	}
	switch op := o.(type) {
	case *bug.CreateOperation:
		r.K, r.Title, r.Msg, r.Files = "create", op.Title, op.Message, s.fileIdx(op.Files)
	case *bug.AddCommentOperation:
		r.K, r.Msg, r.Files = "comment", op.Message, s.fileIdx(op.Files)
	case *bug.EditCommentOperation:
		r.K, r.Msg, r.Files, r.Target = "edit", op.Message, s.fileIdx(op.Files), string(op.Target)
	case *bug.SetTitleOperation:
		r.K, r.Title, r.Was = "title", op.Title, op.Was
	case *bug.SetStatusOperation:
		r.K, r.Closed = "status", op.Status == common.ClosedStatus
	case *bug.LabelChangeOperation:
		r.K, r.Added, r.Removed = "labels", labels(op.Added), labels(op.Removed)
	}
	return r
}

// observe reads everything the property talks about. user is the authentication mode of the query.
func (s *c17Sess) observe(user *entity.Id) c17State {
	var st c17State
	names, err := s.repo.ListRefs("refs/")
	if err != nil {
		panic(err)
	}
	sort.Strings(names)
	for _, n := range names {
		h, err := s.repo.ResolveRef(n)
		if err != nil {
			panic(err)
		}
		st.Refs = append(st.Refs, [2]string{n, string(h)})
	}
	// object files: everything git-bug stores goes through loose objects
	odir := filepath.Join(s.dir, ".git", "objects")
	_ = filepath.Walk(odir, func(p string, info os.FileInfo, err error) error {
		if err == nil && !info.IsDir() {
			rel, _ := filepath.Rel(odir, p)
			st.Objs = append(st.Objs, strings.ReplaceAll(rel, string(filepath.Separator), ""))
		}
		return nil
	})
	sort.Strings(st.Objs)
	st.NObj = len(st.Objs)
	clocks, err := s.repo.AllClocks()
	if err != nil {
		panic(err)
	}
	for n, c := range clocks {
		st.Clocks = append(st.Clocks, [2]string{n, fmt.Sprint(uint64(c.Time()))})
	}
	sort.Slice(st.Clocks, func(i, j int) bool { return st.Clocks[i][0] < st.Clocks[j][0] })
	// git view: a fresh read that does not go through the cache
	st.Git = []c17GBug{}
	for se := range bug.ReadAll(s.repo) {
		if se.Err != nil {
			panic(se.Err)
		}
		b := se.Entity
		g := c17GBug{Id: string(b.Id()), Snap: s.snapOf(b.Compile())}
		for _, o := range b.Operations() {
			g.Ops = append(g.Ops, s.opOf(o))
		}
		st.Git = append(st.Git, g)
	}
	sort.Slice(st.Git, func(i, j int) bool { return st.Git[i].Id < st.Git[j].Id })
	// cache view
	st.Cache = []c17CBug{}
	for _, id := range s.rc.Bugs().AllIds() {
		cb := c17CBug{Id: string(id)}
		bc, err := s.rc.Bugs().Resolve(id)
		if err != nil {
			panic(err)
		}
		sn := bc.Snapshot()
		cb.Snap = s.snapOf(sn)
		cb.OpIds = []string{}
		for _, o := range sn.Operations {
			cb.OpIds = append(cb.OpIds, string(o.Id()))
		}
		ex, err := s.rc.Bugs().ResolveExcerpt(id)
		if err != nil {
			panic(err)
		}
		cb.ExClosed, cb.ExTitle, cb.ExNCom = ex.Status == common.ClosedStatus, ex.Title, ex.LenComments
		for _, l := range ex.Labels {
			cb.ExLabels = append(cb.ExLabels, string(l))
		}
		st.Cache = append(st.Cache, cb)
	}
	sort.Slice(st.Cache, func(i, j int) bool { return st.Cache[i].Id < st.Cache[j].Id })
	for i, c := range s.conts {
		if _, err := os.Stat(filepath.Join(odir, c[:2], c[2:])); err == nil {
			st.Blobs = append(st.Blobs, i+1)
		}
	}
	// queries keep working, in the same authentication mode
	_, data, errs := s.gqlDo(`query { repository { allBugs(first: 100) { totalCount nodes { ...B } } } }`+c17BugFragment, nil, user)
	if len(errs) > 0 || data == nil {
		st.QErr = strings.Join(errs, "; ")
		if st.QErr == "" {
			st.QErr = "no data"
		}
	} else {
		st.QueryOK = true
		st.Query = []c17QBug{}
		for _, n := range c17List(c17Map(c17Map(data["repository"])["allBugs"])["nodes"]) {
			st.Query = append(st.Query, s.snapFromGQL(c17Map(n)))
		}
		sort.Slice(st.Query, func(i, j int) bool { return st.Query[i].Id < st.Query[j].Id })
	}
	return st
}

// setup builds the initial bugs through the cache with the *Raw functions.
func (s *c17Sess) setup(in c17Input) error {
	author := func(i int) (*cache.IdentityCache, error) { return s.rc.Identities().Resolve(s.idents[c17Mod(i, 2)]) }
	t := int64(1600000000)
	for _, sb := range in.Bugs {
		au, err := author(sb.Author)
		if err != nil {
			return err
		}
		var files []repository.Hash
		if sb.File {
			files = []repository.Hash{s.files[0]}
		}
		t++
		b, _, err := s.rc.Bugs().NewRaw(au, t, sb.Title, sb.Msg, files, nil)
		if err != nil {
			return err
		}
		for _, o := range sb.Ops {
			au, err := author(o.Author)
			if err != nil {
				return err
			}
			t++
			switch o.K {
			case "comment":
				var fs []repository.Hash
				if o.File {
					fs = []repository.Hash{s.files[1]}
				}
				_, _, err = b.AddCommentRaw(au, t, o.Text, fs, nil)
			case "close":
				_, err = b.CloseRaw(au, t, nil)
			case "open":
				_, err = b.OpenRaw(au, t, nil)
			case "title":
				_, err = b.SetTitleRaw(au, t, o.Text, nil)
			case "labels":
				_, _, err = b.ChangeLabelsRaw(au, t, o.Add, o.Rm, nil)
				if err != nil && strings.Contains(err.Error(), "no label") {
					err = nil
					continue
				}
			case "edit":
				_, _, err = b.EditCreateCommentRaw(au, t, o.Text, nil)
			}
			if err != nil {
				return fmt.Errorf("setup op %s: %v", o.K, err)
			}
			if err := b.Commit(); err != nil {
				return err
			}
		}
	}
	return nil
}

func c17BlobHash(data []byte) string {
	h := sha1.New()
	fmt.Fprintf(h, "blob %d\x00", len(data))
	h.Write(data)
	return fmt.Sprintf("%x", h.Sum(nil))
}

func c17Payload(kind string, n int) []byte {
	img := image.NewNRGBA(image.Rect(0, 0, 4, 4))
	img.Set(1, 1, color.NRGBA{R: uint8(40 * (n + 1)), G: 10, B: 200, A: 255})
	var b bytes.Buffer
	switch kind {
	case "png":
		_ = png.Encode(&b, img)
	case "gif":
		_ = gif.Encode(&b, img, nil)
	case "jpeg":
		_ = jpeg.Encode(&b, img, nil)
	case "text":
		fmt.Fprintf(&b, "just some text, number %d", n)
	case "html":
		fmt.Fprintf(&b, "<html><body>%d</body></html>", n)
	case "empty":
	}
	return b.Bytes()
}

// contents registers every payload a session may upload, so that their presence is observed from the start.
func (s *c17Sess) contents(in c17Input) {
	for _, st := range in.Steps {
		if st.Kind != "upload" {
			continue
		}
		data := c17Payload(st.Payload, st.PN)
		if len(data) == 0 {
			continue // the empty blob is git-bug's own (clock and version tree entries)
		}
		h := c17BlobHash(data)
		if _, ok := s.content[h]; !ok {
			s.conts = append(s.conts, h)
			s.content[h] = len(s.conts)
		}
	}
}

func (s *c17Sess) upload(req c17Req) (c17Resp, c17Concrete) {
	con := c17Concrete{WF: true, RepoOK: req.Repo == "" || req.Repo == "__default", Form: "FBad"}
	data := c17Payload(req.Payload, req.PN)
	var body bytes.Buffer
	ctype := "text/plain"
	switch req.Payload {
	case "notmultipart":
		body.WriteString("this is not a form")
	default:
		w := multipart.NewWriter(&body)
		field := "uploadfile"
		if req.Payload == "nofield" {
			field = "somethingelse"
			con.Form = "FNoField"
		} else {
			ft := http.DetectContentType(data)
			con.Image = ft == "image/jpeg" || ft == "image/jpg" || ft == "image/gif" || ft == "image/png"
			con.Content = s.content[c17BlobHash(data)]
			con.Form = "FFile"
		}
		part, _ := w.CreateFormFile(field, "noname")
		_, _ = part.Write(data)
		_ = w.Close()
		ctype = w.FormDataContentType()
	}
	r := httptest.NewRequest("POST", "/upload/", &body)
	r.Header.Set("Content-Type", ctype)
	if u := s.user(req.Auth); u != nil {
		r = r.WithContext(auth.CtxWithUser(r.Context(), *u))
	}
	r = mux.SetURLVars(r, map[string]string{"repo": req.Repo})
	w := httptest.NewRecorder()
	s.up.ServeHTTP(w, r)
	raw, _ := io.ReadAll(w.Result().Body)
	resp := c17Resp{HTTP: w.Code, Body: strings.TrimSpace(string(raw))}
	var out struct {
		Hash string `json:"hash"`
	}
	if w.Code == 200 && json.Unmarshal(raw, &out) == nil {
		resp.Blob = s.content[out.Hash]
	}
	return resp, con
}

func (s *c17Sess) mutate(req c17Req, pre *c17State) (c17Resp, c17Concrete) {
	f := s.schema.mutation(req.Field)
	doc, vars, con := s.build(f, req, pre)
	code, data, errs := s.gqlDo(doc, vars, s.user(req.Auth))
	resp := c17Resp{HTTP: code, Errors: errs}
	if len(errs) > 0 || data == nil || data[req.Field] == nil {
		msg := "no data"
		if len(errs) > 0 {
			msg = errs[0]
		}
		resp.Class = s.classify(msg)
		return resp, con
	}
	pay := c17Map(data[req.Field])
	// operations in the order of the payload type's fields
	if pt := s.schema.Types[f.Type.named().Name]; pt != nil {
		for _, pf := range pt.Fields {
			v := c17Map(pay[pf.Name])
			if v == nil {
				continue
			}
			if pf.Type.named().Name == "Bug" {
				q := s.snapFromGQL(v)
				resp.Bug = &q
			} else if id, ok := v["id"].(string); ok {
				resp.OpIds = append(resp.OpIds, id)
				resp.OpAu = append(resp.OpAu, s.identIndex(entity.Id(c17Str(c17Map(v["author"])["id"]))))
			}
		}
	}
	return resp, con
}

// ---------------------------------------------------------------- Coq rendering

type c17Ren struct {
	ids   map[string]int
	s     *c17Sess
	pool  map[string]string
	binds []string
}

// share binds a rendered sub-term to a let-variable once per case: texts, snapshots, bugs and whole
// observations repeat many times (three views per observation, unchanged observations after refusals).
func (r *c17Ren) share(prefix, term string) string {
	if r.pool == nil {
		r.pool = map[string]string{}
	}
	if v, ok := r.pool[term]; ok {
		return v
	}
	v := fmt.Sprintf("%s%d", prefix, len(r.pool))
	r.pool[term] = v
	r.binds = append(r.binds, fmt.Sprintf("let %s := %s in ", v, term))
	return v
}
func (r *c17Ren) text(x string) string {
	if x == "" {
		return "[]"
	}
	return r.share("t", coqRunes(x))
}
func (r *c17Ren) texts(xs []string) string {
	ys := make([]string, len(xs))
	for i, x := range xs {
		ys[i] = r.text(x)
	}
	return coqList(ys)
}

func (r *c17Ren) id(x string) string {
	return fmt.Sprintf("%d%%N", r.ids[x])
}
func c17Text(x string) string {
	rs := []rune(x)
	if len(rs) == 0 {
		return "[]"
	}
	return coqRunes(x)
}
func c17Texts2(xs []string) string {
	ys := make([]string, len(xs))
	for i, x := range xs {
		ys[i] = c17Text(x)
	}
	return coqList(ys)
}
func c17NList(xs []int) string {
	if len(xs) == 0 {
		return "[]"
	}
	ys := make([]string, len(xs))
	for i, x := range xs {
		ys[i] = fmt.Sprint(x)
	}
	return "[" + strings.Join(ys, "; ") + "]%N"
}
func (r *c17Ren) idList(xs []string) string {
	ys := make([]int, len(xs))
	for i, x := range xs {
		ys[i] = r.ids[x]
	}
	return c17NList(ys)
}
func (r *c17Ren) op(o c17OpObs) string {
	switch o.K {
	case "create":
		return fmt.Sprintf("OCreate %s %d%%N %s %s %s", r.id(o.Id), o.Au, r.text(o.Title), r.text(o.Msg), c17NList(o.Files))
	case "comment":
		return fmt.Sprintf("OComment %s %d%%N %s %s", r.id(o.Id), o.Au, r.text(o.Msg), c17NList(o.Files))
	case "edit":
		return fmt.Sprintf("OEdit %s %d%%N %s %s %s", r.id(o.Id), o.Au, r.id(o.Target), r.text(o.Msg), c17NList(o.Files))
	case "title":
		return fmt.Sprintf("OTitle %s %d%%N %s %s", r.id(o.Id), o.Au, r.text(o.Title), r.text(o.Was))
	case "status":
		return fmt.Sprintf("OStatus %s %d%%N %s", r.id(o.Id), o.Au, coqBool(o.Closed))
	case "labels":
		return fmt.Sprintf("OLabels %s %d%%N %s %s", r.id(o.Id), o.Au, r.texts(o.Added), r.texts(o.Removed))
	}
	return fmt.Sprintf("OOther %s %d%%N", r.id(o.Id), o.Au)
}
func (r *c17Ren) snap(s c17Snap) string {
	cs := make([]string, len(s.Comments))
	for i, c := range s.Comments {
		cs[i] = fmt.Sprintf("{| cm_id := %s; cm_au := %d%%N; cm_msg := %s; cm_files := %s |}", r.id(c.Id), c.Au, r.text(c.Msg), c17NList(c.Files))
	}
	return r.share("s", fmt.Sprintf("{| sn_closed := %s; sn_title := %s; sn_labels := %s; sn_comments := %s; sn_nops := %d; sn_actors := %s; sn_parts := %s |}",
		coqBool(s.Closed), r.text(s.Title), r.texts(s.Labels), coqList(cs), s.NOps, c17NList(s.Actors), c17NList(s.Parts)))
}
func (r *c17Ren) state(st c17State, refRank, hashRank ranker, clockNames ranker) string {
	var gs, cs, refs, clocks []string
	for _, g := range st.Git {
		ops := make([]string, len(g.Ops))
		for i, o := range g.Ops {
			ops[i] = r.share("p", r.op(o))
		}
		gs = append(gs, r.share("g", fmt.Sprintf("mkg %s %s %s", r.id(g.Id), coqList(ops), r.snap(g.Snap))))
	}
	for _, c := range st.Cache {
		cs = append(cs, r.share("c", fmt.Sprintf("mkc %s %s %s %s %s %s %d", r.id(c.Id), r.idList(c.OpIds), r.snap(c.Snap), coqBool(c.ExClosed), r.text(c.ExTitle), r.texts(c.ExLabels), c.ExNCom)))
	}
	for _, p := range st.Refs {
		refs = append(refs, fmt.Sprintf("(%d, %d)", refRank.m[p[0]], hashRank.m[p[1]]))
	}
	for _, p := range st.Clocks {
		clocks = append(clocks, fmt.Sprintf("(%d, %s%%N)", clockNames.m[p[0]], p[1]))
	}
	q := "None"
	if st.QueryOK {
		var qs []string
		for _, b := range st.Query {
			qs = append(qs, fmt.Sprintf("(%s, %s)", r.id(b.Id), r.snap(b.Snap)))
		}
		q = "(Some " + coqList(qs) + ")"
	}
	return r.share("o", fmt.Sprintf("mkos %s %s %s %d %s %s %s", coqList(gs), coqList(cs), coqList(refs), st.NObj, coqList(clocks), c17NList(st.Blobs), q))
}

func c17UserTerm(mode string) string {
	switch mode {
	case "a":
		return "(Some 1%N)"
	case "b":
		return "(Some 2%N)"
	case "ghost":
		return "(Some 3%N)"
	}
	return "None"
}

// ---------------------------------------------------------------- driver

type c17Driver struct{}

func init() { register("C17", c17Driver{}) }

func (c17Driver) Run(raw json.RawMessage) Case {
	var in c17Input
	if err := json.Unmarshal(raw, &in); err != nil {
		return Case{Skip: "bad input: " + err.Error()}
	}
	s, err := c17Open()
	defer s.close()
	if err != nil {
		return Case{Skip: "open: " + err.Error()}
	}
	if in.LogErrors {
		s.gql = graphql.NewHandler(s.mrc, io.Discard)
	}
	if err := s.introspect(); err != nil {
		// a served schema that cannot be introspected is a broken correspondence, not a skip
		panic(err)
	}
	if err := s.setup(in); err != nil {
		return Case{Skip: "setup: " + err.Error()}
	}
	s.contents(in)
	init := s.observe(nil)
	pre := init
	var steps []c17StepObs
	tagset := map[string]bool{}
	for _, req := range in.Steps {
		var so c17StepObs
		so.Req = req
		switch req.Kind {
		case "upload":
			so.Resp, so.Con = s.upload(req)
			tagset["field:upload"] = true
		default:
			if s.schema.mutation(req.Field) == nil {
				return Case{Skip: "the schema serves no mutation " + req.Field}
			}
			so.Resp, so.Con = s.mutate(req, &pre)
			tagset["field:"+req.Field] = true
			if !so.Con.Known {
				tagset["unknown-mutation"] = true
			}
		}
		so.Post = s.observe(s.user(req.Auth))
		// ids of operations that exist now and did not before
		old := map[string]bool{}
		for _, g := range pre.Git {
			for _, o := range g.Ops {
				old[o.Id] = true
			}
		}
		for _, g := range so.Post.Git {
			for _, o := range g.Ops {
				if !old[o.Id] {
					so.New = append(so.New, o.Id)
				}
			}
		}
		outcome := "ok"
		if so.Resp.Class != "" {
			outcome = so.Resp.Class
		}
		if req.Kind == "upload" {
			outcome = fmt.Sprint(so.Resp.HTTP)
		}
		tagset["auth:"+req.Auth] = true
		tagset["var:"+req.Var] = true
		tagset["outcome:"+req.Auth+":"+outcome] = true
		changed := !c17Same(pre, so.Post)
		if req.Auth == "none" && (changed || outcome == "ok" || outcome == "200") {
			tagset["unauthenticated-change:"+req.Field+req.Payload] = true
		}
		if so.Con.WF && so.Con.Known && len(req.Files) > 0 && len(so.Resp.Errors) > 0 && so.Resp.Errors[0] == "internal system error" {
			tagset["files-internal-error"] = true
		}
		if req.Field == "editComment" && outcome == "ok" && len(req.Files) > 0 {
			for _, g := range so.Post.Git {
				for _, o := range g.Ops {
					for _, n := range so.New {
						if o.Id == n && o.K == "edit" && len(o.Files) == 0 {
							tagset["editComment-files-dropped"] = true
						}
					}
				}
			}
		}
		steps = append(steps, so)
		pre = so.Post
	}
	// ---- render
	var allIds, refNames, hashes, clockNames []string
	texts := []string{}
	collectState := func(st c17State) {
		for _, g := range st.Git {
			allIds = append(allIds, g.Id)
			for _, o := range g.Ops {
				allIds = append(allIds, o.Id)
				if o.Target != "" {
					allIds = append(allIds, o.Target)
				}
				texts = append(texts, o.Title, o.Msg, o.Was)
				texts = append(texts, o.Added...)
				texts = append(texts, o.Removed...)
			}
		}
		for _, c := range st.Cache {
			allIds = append(allIds, c.Id)
			allIds = append(allIds, c.OpIds...)
		}
		for _, q := range st.Query {
			allIds = append(allIds, q.Id)
		}
		for _, p := range st.Refs {
			refNames = append(refNames, p[0])
			hashes = append(hashes, p[1])
		}
		for _, p := range st.Clocks {
			clockNames = append(clockNames, p[0])
		}
	}
	collectState(init)
	for _, so := range steps {
		collectState(so.Post)
		if so.Resp.Bug != nil {
			allIds = append(allIds, so.Resp.Bug.Id)
		}
		allIds = append(allIds, so.Resp.OpIds...)
		texts = append(texts, so.Req.Title, so.Req.Msg)
		texts = append(texts, so.Req.Added...)
		texts = append(texts, so.Req.Removed...)
	}
	rk := rankOf(allIds)
	delete(rk.m, "")
	ren := &c17Ren{ids: rk.m, s: s}
	table := make([]string, len(rk.m))
	for id, i := range rk.m {
		if i >= 1 && i <= len(table) {
			table[i-1] = c17Text(id)
		}
	}
	// the code points in use that unicode.IsGraphic rejects (the model's oracle for text.Empty)
	ng := map[rune]bool{}
	for _, t := range texts {
		for _, c := range t {
			if !unicode.IsGraphic(c) {
				ng[c] = true
			}
		}
	}
	var ngl []int
	for c := range ng {
		ngl = append(ngl, int(c))
	}
	sort.Ints(ngl)
	rr, hr, cr := rankOf(refNames), rankOf(hashes), rankOf(clockNames)
	var stepTerms []string
	for _, so := range steps {
		var reqT, respT string
		u := c17UserTerm(so.Req.Auth)
		if so.Req.Kind == "upload" {
			form := so.Con.Form
			if form == "FFile" {
				form = fmt.Sprintf("(FFile %d%%N %s)", so.Con.Content, coqBool(so.Con.Image))
			}
			reqT = fmt.Sprintf("RUpload {| u_repo_ok := %s; u_form := %s |} %s", coqBool(so.Con.RepoOK), form, u)
			respT = fmt.Sprintf("PHttp %d %d%%N", so.Resp.HTTP, so.Resp.Blob)
		} else {
			if m, ok := c17IsKnown(so.Req.Field); ok {
				var files []int
				for _, f := range so.Req.Files {
					if f < 0 {
						f = 0
					}
					files = append(files, f)
				}
				reqT = fmt.Sprintf("RMut %s {| a_wf := %s; a_files_ok := %s; a_repo_ok := %s; a_prefix := %s; a_title := %s; a_msg := %s; a_files := %s; a_added := %s; a_removed := %s; a_fresh := %s |} %s",
					m, coqBool(so.Con.WF), coqBool(!so.Con.NoBlob), coqBool(so.Con.RepoOK), c17Text(so.Con.Prefix), ren.text(so.Req.Title), ren.text(so.Req.Msg),
					c17NList(files), ren.texts(so.Req.Added), ren.texts(so.Req.Removed), ren.idList(so.New), u)
			} else {
				reqT = "RUnknown " + u
			}
			if so.Resp.Class != "" {
				respT = "PErr " + so.Resp.Class
			} else if so.Resp.Bug != nil {
				respT = fmt.Sprintf("POk {| p_bug := %s; p_snap := %s; p_ops := %s |} %s", ren.id(so.Resp.Bug.Id), ren.snap(so.Resp.Bug.Snap), ren.idList(so.Resp.OpIds), c17NList(so.Resp.OpAu))
			} else {
				respT = "POkOpaque"
			}
		}
		stepTerms = append(stepTerms, fmt.Sprintf("mkstep (%s) (%s) %s", reqT, respT, ren.state(so.Post, rr, hr, cr)))
	}
	initT := ren.state(init, rr, hr, cr)
	term := strings.Join(ren.binds, "") + fmt.Sprintf("mkcase %s %s %s %s %s", coqList(table), c17NList(ngl), coqBool(c17CreateKeepsFiles()), initT, coqList(stepTerms))
	var tags []string
	for t := range tagset {
		tags = append(tags, t)
	}
	sort.Strings(tags)
	// the report keeps an observation only where it differs from the one before
	type stepReport struct {
		Req     c17Req      `json:"req"`
		Con     c17Concrete `json:"concrete"`
		Resp    c17Resp     `json:"resp"`
		New     []string    `json:"new_ops,omitempty"`
		Changed bool        `json:"changed"`
		Post    *c17State   `json:"post,omitempty"`
	}
	var reports []stepReport
	prev := init
	for i := range steps {
		so := steps[i]
		so.Con.Doc = ""
		rep := stepReport{Req: so.Req, Con: so.Con, Resp: so.Resp, New: so.New, Changed: !c17Same(prev, so.Post)}
		if rep.Changed || !so.Post.QueryOK {
			cp := steps[i].Post
			if c17ViewsAgree(cp) {
				cp.Cache, cp.Query = nil, nil // same story as the git view
			}
			rep.Post = &cp
		}
		reports = append(reports, rep)
		prev = so.Post
	}
	obs := map[string]interface{}{"init": init, "steps": reports}
	nontrivial := false
	for _, so := range steps {
		if so.Resp.Class == "" || so.Req.Auth == "none" {
			nontrivial = true
		}
	}
	if in.LogErrors {
		tags = append(tags, "handler:log-errors")
	}
	return Case{Coq: term, Obs: obs, Tags: tags, NonTrivial: nontrivial, Key: string(raw)}
}

// c17ViewsAgree: the cache view and the query answer carry the same snapshots as the git view.
func c17ViewsAgree(st c17State) bool {
	if len(st.Cache) != len(st.Git) || len(st.Query) != len(st.Git) || !st.QueryOK {
		return false
	}
	for i, g := range st.Git {
		a, _ := json.Marshal(g.Snap)
		b, _ := json.Marshal(st.Cache[i].Snap)
		c, _ := json.Marshal(st.Query[i].Snap)
		if st.Cache[i].Id != g.Id || st.Query[i].Id != g.Id || !bytes.Equal(a, b) || !bytes.Equal(a, c) || len(st.Cache[i].OpIds) != len(g.Ops) {
			return false
		}
	}
	return true
}

// c17Same tells whether two observations show the same repository (refs, objects, git and cache views).
func c17Same(a, b c17State) bool {
	x, _ := json.Marshal([]interface{}{a.Refs, a.Objs, a.Git, a.Cache, a.Blobs})
	y, _ := json.Marshal([]interface{}{b.Refs, b.Objs, b.Git, b.Cache, b.Blobs})
	return bytes.Equal(x, y)
}

// c17CreateKeepsFiles probes the linked code: does CreateOperation.Apply copy the files into the first comment?
func c17CreateKeepsFiles() bool {
	repo := repository.NewMockRepo()
	id, err := identity.NewIdentity(repo, "probe", "probe@example.org")
	if err != nil {
		panic(err)
	}
	b, _, err := bug.Create(id, 1600000000, "t", "m", []repository.Hash{"0123456789012345678901234567890123456789"}, nil)
	if err != nil {
		panic(err)
	}
	sn := b.Compile()
	return len(sn.Comments) == 1 && len(sn.Comments[0].Files) == 1
}

var _ = context.Background

// ---------------------------------------------------------------- generation

var c17Texts = []string{"hello", "fix the thing", "second thoughts", "  padded  ", "line1\nline2", "crlf\r\nend", "ctl\x01x\x7f",
	"tab\there", "café 日本 \U0001F600", "\u00a0nbsp\u00a0", "nel\u0085", "x\u2028y", "\r\x01\n", "a", "ZZ top"}
var c17Blank = []string{"", "   ", "\u200b", "\x01\x02", "\n\t", "\ufeff", "\u2028"}
var c17Labels = []string{"bug", "ui", "p1", "wont fix", " ui ", "Bug", "", "a\x01b", "\u200b", "x\ny"}

func c17Pick(r *Rand, xs []string) string { return xs[r.Intn(len(xs))] }

func c17GenSetup(r *Rand) []c17SBug {
	nb := []int{0, 1, 1, 2, 2, 2, 3}[r.Intn(7)]
	var bugs []c17SBug
	for i := 0; i < nb; i++ {
		b := c17SBug{Author: r.Intn(2), Title: c17Pick(r, []string{"crash on start", "typo", "slow query", "Feature: dark mode"}), Msg: c17Pick(r, []string{"it breaks", "", "steps:\n1. run\n2. see"}), File: r.Chance(1, 4)}
		n := r.Intn(5)
		for j := 0; j < n; j++ {
			o := c17Op{Author: r.Intn(2)}
			switch r.Intn(7) {
			case 0, 1:
				o.K, o.Text, o.File = "comment", c17Pick(r, []string{"me too", "any news?", "works for me"}), r.Chance(1, 4)
			case 2:
				o.K = "close"
			case 3:
				o.K = "open"
			case 4:
				o.K, o.Text = "title", c17Pick(r, []string{"better title", "crash on start (linux)"})
			case 5:
				o.K, o.Add = "labels", []string{c17Pick(r, c17Labels[:4]), c17Pick(r, c17Labels[:4])}
				if r.Chance(1, 3) {
					o.Rm = []string{c17Pick(r, c17Labels[:4])}
				}
			case 6:
				o.K, o.Text = "edit", c17Pick(r, []string{"it breaks badly", "edited"})
			}
			b.Ops = append(b.Ops, o)
		}
		bugs = append(bugs, b)
	}
	return bugs
}

var c17Variants = []string{"valid", "valid", "valid-rich", "bad-target", "empty-prefix", "short-prefix", "invalid-value", "bad-hash", "missing-file", "omit", "null", "bad-repo", "named-repo"}

// a well-formed hash naming no object of the repository: the request passes the schema, the file can't be recorded
const c17MissingFile = 9
const c17MissingHash = "abababababababababababababababababababab"

func c17GenReq(r *Rand, field, authMode, variant string) c17Req {
	q := c17Req{Kind: "mutation", Field: field, Auth: authMode, Var: variant, Bug: r.Intn(6), Comment: r.Intn(6),
		PLen: []int{64, 64, 7, 10, 16}[r.Intn(5)], Title: c17Pick(r, c17Texts[:3]), Msg: c17Pick(r, c17Texts[:3])}
	labels := func(n int, from []string) []string {
		xs := []string{}
		for i := 0; i < n; i++ {
			xs = append(xs, c17Pick(r, from))
		}
		return xs
	}
	q.Added = labels(r.Range(1, 2), c17Labels[:4])
	if r.Chance(1, 2) {
		q.Removed = labels(1, c17Labels[:4])
	}
	switch variant {
	case "valid-rich":
		q.Title, q.Msg = c17Pick(r, c17Texts), c17Pick(r, c17Texts)
		q.Files = [][]int{{1}, {2, 3}, {1, 1}}[r.Intn(3)]
		q.Added, q.Removed = labels(r.Range(0, 3), c17Labels), labels(r.Range(0, 2), c17Labels)
	case "bad-target":
		q.PLen = -1
	case "empty-prefix":
		q.PLen = 0
	case "short-prefix":
		q.PLen = r.Range(1, 4)
	case "invalid-value":
		q.Title, q.Msg = c17Pick(r, c17Blank), c17Pick(r, c17Blank)
		q.Added, q.Removed = labels(r.Intn(2), c17Labels[6:]), nil
	case "bad-hash":
		q.Files = []int{1, -1}
	case "missing-file":
		q.Files = [][]int{{c17MissingFile}, {1, c17MissingFile}, {c17MissingFile, 2}}[r.Intn(3)]
	case "omit":
		q.Omit = true
	case "null":
		q.Null = true
	case "bad-repo":
		q.Repo = "nope"
	case "named-repo":
		q.Repo = "__default"
	}
	return q
}

func c17GenUpload(r *Rand, authMode string) c17Req {
	q := c17Req{Kind: "upload", Field: "upload", Auth: authMode, PN: r.Intn(3),
		Payload: []string{"png", "png", "gif", "jpeg", "text", "html", "empty", "nofield", "notmultipart"}[r.Intn(9)]}
	q.Var = q.Payload
	switch r.Intn(6) {
	case 0:
		q.Repo = "nope"
		q.Var += "-bad-repo"
	case 1:
		q.Repo = "__default"
	}
	return q
}

// c17Fields introspects the served schema (a fresh handler on an empty repository).
func c17Fields() []string {
	s, err := c17Open()
	defer s.close()
	if err != nil {
		panic(err)
	}
	if err := s.introspect(); err != nil {
		panic(err)
	}
	var names []string
	for _, f := range s.schema.Mutations {
		names = append(names, f.Name)
	}
	return names
}

func (c17Driver) Gen(r *Rand, tier string) []json.RawMessage {
	fields := c17Fields()
	auths := []string{"none", "a", "b", "ghost"}
	var res []json.RawMessage
	rounds, random := 1, 200
	if tier == "thorough" {
		rounds, random = 20, 4000
	}
	nonEmpty := func() []c17SBug {
		for {
			if b := c17GenSetup(r); len(b) > 0 {
				return b
			}
		}
	}
	for k := 0; k < rounds; k++ {
		// systematic: every served mutation x every authentication mode x every argument variant
		for _, f := range fields {
			for _, a := range auths {
				in := c17Input{Bugs: nonEmpty()}
				seen := map[string]bool{}
				for _, v := range c17Variants {
					if seen[v] {
						continue
					}
					seen[v] = true
					in.Steps = append(in.Steps, c17GenReq(r, f, a, v))
				}
				in.LogErrors = len(res)%3 == 1
				res = append(res, mustJSON(in))
			}
		}
		for _, a := range auths {
			in := c17Input{Bugs: c17GenSetup(r)}
			for i := 0; i < 9; i++ {
				in.Steps = append(in.Steps, c17GenUpload(r, a))
			}
			res = append(res, mustJSON(in))
		}
	}
	// random sessions mixing fields and modes, so that refusals are interleaved with accepted changes
	for i := 0; i < random; i++ {
		in := c17Input{Bugs: c17GenSetup(r)}
		n := r.Range(5, 9)
		for j := 0; j < n; j++ {
			a := []string{"none", "none", "none", "a", "a", "b", "b", "ghost"}[r.Intn(8)]
			if r.Chance(1, 8) {
				in.Steps = append(in.Steps, c17GenUpload(r, a))
				continue
			}
			f := fields[r.Intn(len(fields))]
			v := c17Variants[r.Intn(len(c17Variants))]
			if r.Chance(1, 2) {
				v = []string{"valid", "valid-rich"}[r.Intn(2)]
			}
			in.Steps = append(in.Steps, c17GenReq(r, f, a, v))
		}
		in.LogErrors = i%3 == 1
		res = append(res, mustJSON(in))
	}
	return res
}
