package main

// C11 — the cache always agrees with a cache rebuilt from the git data.
//
// Two users, two go-git repositories sharing a bare remote, each driven through a real
// cache.RepoCache whose capacity is forced down (VerifSetCacheSize) so that eviction happens.
// After EVERY action the acting user's live cache is asked everything it serves (all excerpts,
// a fixed battery of queries incl. full-text search, known labels, metadata lookups, identity
// excerpts, resolved identities and a Resolve + snapshot of every bug) and the same questions
// are put to a SECOND RepoCache built from scratch on a copy of the git data from which the
// cache files and indexes were deleted. Both answer sheets, the cache-level event list, the
// git refs and the commit graph (read through RepoData) go to Coq (K_C11), where the Cache model
// predicts the live answers and C11_ok compares live with rebuilt.
// Staged operations are saved through both doors of the cache: BugCache.Commit() and (input flag "an")
// BugCache.CommitAsNeeded(), the one the terminal UI and the bridge exporters use; the latter also on bugs
// and identities with nothing pending, where it has to succeed and change nothing.
// Audit round: pulls also go through RepoCache.Pull (pullc), identities are also renamed by the other user (idfor: a diverged
// identity is refused for ever, so a pull has a refused entity next to new and updated ones), an IdentityCache is held across a pull
// that replaces it and used afterwards (idhold / idheld), and caches are closed with uncommitted operations.

import (
	"encoding/json"
	"fmt"
	"io"
	"os"
	"path/filepath"
	"sort"
	"strings"
	"time"

	"github.com/99designs/keyring"

	"github.com/MichaelMure/git-bug/cache"
	"github.com/MichaelMure/git-bug/entities/bug"
	"github.com/MichaelMure/git-bug/entities/identity"
	"github.com/MichaelMure/git-bug/entity"
	"github.com/MichaelMure/git-bug/query"
	"github.com/MichaelMure/git-bug/repository"
)

// ---- vocabulary: analyzer-neutral words (no English stop word, distinct stems, none a substring of another) ----

var c11Words = []string{"kiwi", "mango", "lemon", "plum", "olive", "cedar", "maple", "birch", "quartz", "topaz", "amber", "onyx"}

// identity names: user u takes c11Names[u], c11Names[u+2], ... (never hexadecimal: an id prefix cannot match)
// c11Names[12:] are the names given by a rename made by somebody else than the owner (action idfor, idheld on the other's identity)
var c11Names = []string{"ayla", "bert", "cleo", "dina", "egon", "fritz", "gwen", "hugo", "ines", "jost", "kurt", "lotte", "mira", "nils", "otto", "paul"}

const c11MaxVersions = 6
const c11ForeignNames = 12 // index of the first foreign name

func init() {
	for _, set := range [][]string{c11Words, c11Names} {
		for i, a := range set {
			for j, b := range set {
				if i != j && strings.Contains(a, b) {
					panic("c11 vocabulary: " + b + " is a substring of " + a)
				}
			}
		}
	}
}

func c11Text(ws []int) string {
	var xs []string
	for _, w := range ws {
		xs = append(xs, c11Words[((w%len(c11Words))+len(c11Words))%len(c11Words)])
	}
	if len(xs) == 0 {
		xs = []string{c11Words[0]}
	}
	return strings.Join(xs, " ")
}

// c11Tokens maps a text back to word indices (unknown word: 99).
func c11Tokens(s string) []int {
	res := []int{}
	for _, f := range strings.Fields(s) {
		k := 99
		for i, w := range c11Words {
			if w == f {
				k = i
			}
		}
		res = append(res, k)
	}
	return res
}

func c11NameIdx(s string) int {
	for i, n := range c11Names {
		if n == s {
			return i
		}
	}
	return 99
}

var c11MetaKeys = []string{"origin", "k0", "k1", "k2"}

func c11MetaPairs(m map[string]string) [][2]int {
	res := [][2]int{}
	for k, v := range m {
		ki, vi := 99, 99
		for i, x := range c11MetaKeys {
			if x == k {
				ki = i
			}
		}
		if len(v) == 2 && (v[0] == 'o' || v[0] == 'v' || v[0] == 'r') {
			vi = int(v[1] - '0')
		}
		res = append(res, [2]int{ki, vi})
	}
	sort.Slice(res, func(i, j int) bool { return res[i][0] < res[j][0] || (res[i][0] == res[j][0] && res[i][1] < res[j][1]) })
	return res
}

// the fixed battery of queries (indices are part of the Coq model: K_C11.battery)
func c11Queries() []string {
	w := c11Words
	return []string{
		"status:open",
		"status:closed sort:edit-asc",
		"label:l1",
		"no:label sort:id",
		"title:" + w[0],
		"author:" + c11Names[0],
		"actor:" + c11Names[3],
		"participant:" + c11Names[1],
		w[1],
		w[2] + " status:open sort:creation-asc",
		"metadata:origin:o1",
		"sort:edit",
		w[3] + " label:l0 sort:id-desc",
		"metadata:k0:v0 sort:id",
	}
}

// metadata lookups through ResolveBugCreateMetadata (key index, value index)
var c11Lookups = [][2]int{{0, 0}, {0, 1}, {1, 0}, {2, 1}}

// ---- input ----

type cAct struct {
	K     string `json:"k"` // new comment title status label editcomment meta commit push pull pullc remove resolve reopen idmut idsave idfor idhold idheld
	R     int    `json:"r"`
	E     int    `json:"e,omitempty"`     // ordinal into the user's sorted local bug ids; idhold / idheld: whose identity (user index)
	W     []int  `json:"w,omitempty"`     // words of the text (title / comment / new message)
	W2    []int  `json:"w2,omitempty"`    // new: words of the message
	L     int    `json:"l,omitempty"`     // label number / metadata key / comment ordinal
	V     int    `json:"v,omitempty"`     // metadata value / origin value
	Stage bool   `json:"stage,omitempty"` // edit kinds: leave the operation uncommitted
	AN    bool   `json:"an,omitempty"`    // save with CommitAsNeeded() instead of Commit() (edit kinds, idmut); commit: CommitAsNeeded() on EVERY bug, also those with nothing staged
	Wipe  int    `json:"wipe,omitempty"`  // reopen: 0 keep the cache files, 1 delete the cache files, 2 delete the indexes
	Es    []int  `json:"es,omitempty"`    // resolve: ordinals
	Rot   int    `json:"rot,omitempty"`   // rotation of the observation's resolve order
}

type cInput struct {
	Cap     int    `json:"cap"`
	Actions []cAct `json:"actions"`
	Stress  int    `json:"stress,omitempty"` // instead of a session: this many cache builds from scratch on one repository
	Ids     int    `json:"ids,omitempty"`    // stress: number of identities (default 6)
	Bugs    int    `json:"bugs,omitempty"`   // stress: number of bugs (default 12), each commented by several identities
}

// ---- observations ----

type cExc struct {
	E      int      `json:"e"`
	CL     uint64   `json:"cl"`
	EL     uint64   `json:"el"`
	CT     int64    `json:"ct"`
	ET     int64    `json:"et"`
	Au     int      `json:"au"`
	St     int      `json:"st"`
	Labels []int    `json:"lb"`
	Title  []int    `json:"ti"`
	NC     int      `json:"nc"`
	Actors []int    `json:"ac"`
	Parts  []int    `json:"pa"`
	Meta   [][2]int `json:"md"`
}
type cCom struct {
	Au  int   `json:"au"`
	Msg []int `json:"m"`
}
type cSnap struct {
	E        int      `json:"e"`
	Err      bool     `json:"err,omitempty"`
	Hung     bool     `json:"hung,omitempty"` // Resolve handed back an entity that is locked for ever (it was evicted on the spot)
	Ops      []string `json:"-"`
	OpRanks  []int    `json:"ops"`
	St       int      `json:"st"`
	Title    []int    `json:"ti"`
	Labels   []int    `json:"lb"`
	Comments []cCom   `json:"co"`
	Actors   []int    `json:"ac"`
	Parts    []int    `json:"pa"`
	Dirty    bool     `json:"dirty,omitempty"`
	AuNames  []int    `json:"an"` // display names of the actors as seen through the bug's operations
}
type cIdExc struct {
	U    int      `json:"u"`
	Name int      `json:"n"`
	Meta [][2]int `json:"md"`
}
type cIdRes struct {
	U     int  `json:"u"`
	Err   bool `json:"err,omitempty"`
	Name  int  `json:"n"`
	Dirty bool `json:"dirty,omitempty"`
}
type cViews struct {
	Exc     []cExc   `json:"exc"`
	IdExc   []cIdExc `json:"idexc"`
	Labels  []int    `json:"labels"`
	Queries [][]int  `json:"queries"` // per query: entities in answer order; [-1] = error
	Meta    []int    `json:"meta"`    // per lookup: entity, -1 not found, -2 several, -3 other error
	IdMeta  []int    `json:"idmeta"`
	IdRes   []cIdRes `json:"idres"`
	Snaps   []cSnap  `json:"snaps"`
}

type cMerge struct {
	Ident  bool     `json:"ident,omitempty"`
	E      int      `json:"e"` // bug entity or user index
	Status string   `json:"st"`
	ID     string   `json:"-"`
	NewIdx int      `json:"new_idx,omitempty"` // merge commit written (index in the graph), 0 = none
	Ops    []string `json:"-"`
	HasOps bool     `json:"-"`
}

type cEvent struct {
	Kind   string   `json:"kind"` // idnew idupd idsave idresolve idstale new edit commit commitan push pull pullc remove resolve reopen observe
	R      int      `json:"r"`
	E      int      `json:"e"`
	Out    string   `json:"out"` // done | fail
	Err    string   `json:"err,omitempty"`
	Op     string   `json:"-"` // edit: id of the staged operation
	NewIdx []int    `json:"new_idx,omitempty"`
	Merges []cMerge `json:"merges,omitempty"`
	Wipe   int      `json:"wipe,omitempty"`
	V      int      `json:"v,omitempty"` // idnew/idupd: name index of the new version
	// git level, after the event
	Loc  [][2]int `json:"loc"`
	Trk  [][2]int `json:"trk"`
	Rem  [][2]int `json:"rem"`
	Clk  uint64   `json:"clk"`
	CClk uint64   `json:"cclk"`
	NSt  int      `json:"nst"`
	ILoc [][2]int `json:"iloc"` // identity refs: (user, number of versions)
	ITrk [][2]int `json:"itrk"`
	IRem [][2]int `json:"irem"`
	// observe
	Order     []int   `json:"order,omitempty"`
	Live      *cViews `json:"live,omitempty"`
	Rebuilt   *cViews `json:"rebuilt,omitempty"`
	Quiescent bool    `json:"quiescent,omitempty"`
}

// operation contents, keyed by operation id
type cOp struct {
	Kind   string
	Au     int
	Time   int64
	Title  []int
	Msg    []int
	Target string
	St     int
	Added  []int
	Remvd  []int
	KV     [][2]int
}

type cUser struct {
	path     string
	repo     repository.ClockedRepo
	raw      *repository.GoGitRepo
	c        *cache.RepoCache
	versions int // versions of the user's own identity committed so far
}

type cSession struct {
	in       cInput
	dir      string
	remote   *repository.GoGitRepo
	users    []*cUser
	userID   []entity.Id // identity id of user u
	g        *wGraph
	entOf    map[string]int
	ops      map[string]*cOp
	events   []cEvent
	tick     int64
	tags     map[string]bool
	skip     string
	nscratch int
	stop     bool                       // a resolved entity turned out to be locked for ever: the session ends there
	staged   [2]map[entity.Id]bool      // bugs on which this harness left an operation uncommitted (histogram only, the verdict never reads it)
	held     [2][2]*cache.IdentityCache // held[r][k]: the IdentityCache of user k's identity that user r got earlier (idhold) and still holds
	nforeign int                        // foreign names used so far
}

func (s *cSession) fail(format string, a ...interface{}) {
	if s.skip == "" {
		s.skip = fmt.Sprintf(format, a...)
	}
}

func (s *cSession) now() int64 { s.tick++; return 1600000000 + s.tick }

type c11Repo struct {
	*repository.GoGitRepo
	kr repository.Keyring
}

func (k c11Repo) Keyring() repository.Keyring { return k.kr }

func (s *cSession) openCache(u *cUser, first bool) error {
	var g *repository.GoGitRepo
	var err error
	if first {
		g, err = repository.InitGoGitRepo(u.path, "git-bug")
		if err == nil {
			_ = g.LocalConfig().StoreString("user.name", "testuser")
			_ = g.LocalConfig().StoreString("user.email", "testuser@example.com")
			err = g.AddRemote("origin", s.remote.GetLocalRemote())
		}
	} else {
		g, err = repository.OpenGoGitRepo(u.path, "git-bug", []repository.ClockLoader{bug.ClockLoader})
	}
	if err != nil {
		return err
	}
	u.raw = g
	u.repo = c11Repo{GoGitRepo: g, kr: keyring.NewArrayKeyring(nil)}
	c, err := cache.NewRepoCacheNoEvents(u.repo)
	if err != nil {
		return err
	}
	c.VerifSetCacheSize(s.in.Cap)
	u.c = c
	return nil
}

func (s *cSession) setup() {
	var err error
	s.dir, err = os.MkdirTemp("", "verif-c11-")
	if err != nil {
		panic(err)
	}
	s.remote, err = repository.InitBareGoGitRepo(s.dir+"/remote", "git-bug")
	if err != nil {
		panic(err)
	}
	for i := 0; i < 2; i++ {
		u := &cUser{path: fmt.Sprintf("%s/rep%d", s.dir, i)}
		if err := s.openCache(u, true); err != nil {
			panic(err)
		}
		s.users = append(s.users, u)
	}
	// each user creates an identity through the cache
	for i, u := range s.users {
		ic, err := u.c.Identities().NewRaw(c11Names[i], fmt.Sprintf("u%d@example.org", i), "", "", nil, map[string]string{"origin": fmt.Sprintf("r%d", i)})
		if err != nil {
			panic(err)
		}
		if err := u.c.SetUserIdentity(ic); err != nil {
			panic(err)
		}
		u.versions = 1
		s.userID = append(s.userID, ic.Id())
		ev := cEvent{Kind: "idnew", R: i, E: i, V: i, Out: "done"}
		s.gitObserve(&ev)
		s.events = append(s.events, ev)
	}
}

func (s *cSession) cleanup() {
	for _, u := range s.users {
		if u.c != nil {
			_ = u.c.Close()
		}
	}
	if s.remote != nil {
		_ = s.remote.Close()
	}
	if s.dir != "" {
		_ = os.RemoveAll(s.dir)
	}
}

// ---- git-level observation (independent of the cache and of dag.read) ----

func (s *cSession) refs(repo repository.ClockedRepo, prefix string) [][2]int {
	names, err := repo.ListRefs(prefix)
	if err != nil {
		s.fail("ListRefs: %v", err)
		return nil
	}
	res := [][2]int{}
	for _, n := range names {
		h, err := repo.ResolveRef(n)
		if err != nil {
			s.fail("ResolveRef %s: %v", n, err)
			continue
		}
		hi, err := s.g.add(repo, h)
		if err != nil {
			s.fail("read commit graph under %s: %v", n, err)
			continue
		}
		root := s.g.root(hi)
		id := n[strings.LastIndex(n, "/")+1:]
		if prev, ok := s.entOf[id]; ok && prev != root {
			s.tags["ref-name-root-mismatch"] = true
		}
		s.entOf[id] = root
		res = append(res, [2]int{root, hi})
	}
	sort.Slice(res, func(i, j int) bool { return res[i][0] < res[j][0] })
	return res
}

// identRefs: (user, number of versions) for identity refs under prefix; the number of versions is the length of
// the commit chain under the ref (every version has a fresh name, but both users may rename an identity).
func (s *cSession) identRefs(repo repository.ClockedRepo, remote string) [][2]int {
	res := [][2]int{}
	for u, id := range s.userID {
		var i *identity.Identity
		var err error
		if remote == "" {
			i, err = identity.ReadLocal(repo, id)
		} else {
			i, err = identity.ReadRemote(repo, remote, string(id))
		}
		if err != nil {
			continue
		}
		if c11NameIdx(i.Name()) == 99 {
			s.fail("identity of user %d has an unexpected name %q", u, i.Name())
			continue
		}
		// the number of versions = the length of the commit chain under the ref (read through RepoData, not through the identity package)
		ref := "refs/identities/" + string(id)
		if remote != "" {
			ref = "refs/remotes/" + remote + "/identities/" + string(id)
		}
		n := 0
		h, err := repo.ResolveRef(ref)
		for err == nil {
			n++
			c, e2 := repo.ReadCommit(h)
			if e2 != nil || len(c.Parents) == 0 {
				break
			}
			h = c.Parents[0]
		}
		res = append(res, [2]int{u, n})
	}
	return res
}

func c11Clock(repo repository.ClockedRepo, name string) uint64 {
	c, err := repo.GetOrCreateClock(name)
	if err != nil {
		return 0
	}
	return uint64(c.Time())
}

func (s *cSession) gitObserve(ev *cEvent) {
	u := s.users[ev.R]
	ev.Loc = s.refs(u.repo, "refs/bugs/")
	ev.Trk = s.refs(u.repo, "refs/remotes/origin/bugs/")
	ev.Rem = s.refs(c11Repo{GoGitRepo: s.remote}, "refs/bugs/")
	ev.Clk = c11Clock(u.repo, "bugs-edit")
	ev.CClk = c11Clock(u.repo, "bugs-create")
	ev.NSt = len(s.g.commits)
	ev.ILoc = s.identRefs(u.repo, "")
	ev.ITrk = s.identRefs(u.repo, "origin")
	ev.IRem = s.identRefs(c11Repo{GoGitRepo: s.remote}, "")
}

func (s *cSession) localIds(r int) []entity.Id {
	ids, err := bug.ListLocalIds(s.users[r].repo)
	if err != nil {
		s.fail("ListLocalIds: %v", err)
	}
	sort.Slice(ids, func(i, j int) bool { return ids[i] < ids[j] })
	return ids
}

func (s *cSession) userOf(id entity.Id) int {
	for u, x := range s.userID {
		if x == id {
			return u
		}
	}
	return 99
}

func (s *cSession) ent(id entity.Id) int {
	if e, ok := s.entOf[string(id)]; ok {
		return e
	}
	return -1
}

// ---- asking a cache everything it serves ----

func (s *cSession) users2ints(ids []entity.Id) []int {
	res := []int{}
	for _, id := range ids {
		res = append(res, s.userOf(id))
	}
	return res
}

func c11Labels(ls []bug.Label) []int {
	res := []int{}
	for _, l := range ls {
		k := 99
		if len(l) == 2 && l[0] == 'l' {
			k = int(l[1] - '0')
		}
		res = append(res, k)
	}
	return res
}

func (s *cSession) ask(c *cache.RepoCache, order []entity.Id) *cViews {
	v := &cViews{Exc: []cExc{}, IdExc: []cIdExc{}, Labels: []int{}, Queries: [][]int{}, Meta: []int{}, IdMeta: []int{}, IdRes: []cIdRes{}, Snaps: []cSnap{}}
	// 1. listing excerpts
	for _, id := range c.Bugs().AllIds() {
		x, err := c.Bugs().ResolveExcerpt(id)
		if err != nil {
			s.tags["excerpt-of-listed-id-missing"] = true
			continue
		}
		v.Exc = append(v.Exc, cExc{E: s.ent(id), CL: uint64(x.CreateLamportTime), EL: uint64(x.EditLamportTime), CT: x.CreateUnixTime - 1600000000, ET: x.EditUnixTime - 1600000000,
			Au: s.userOf(x.AuthorId), St: int(x.Status), Labels: c11Labels(x.Labels), Title: c11Tokens(x.Title), NC: x.LenComments,
			Actors: s.users2ints(x.Actors), Parts: s.users2ints(x.Participants), Meta: c11MetaPairs(x.CreateMetadata)})
	}
	sort.Slice(v.Exc, func(i, j int) bool { return v.Exc[i].E < v.Exc[j].E })
	for _, id := range c.Identities().AllIds() {
		x, err := c.Identities().ResolveExcerpt(id)
		if err != nil {
			s.tags["excerpt-of-listed-id-missing"] = true
			continue
		}
		v.IdExc = append(v.IdExc, cIdExc{U: s.userOf(id), Name: c11NameIdx(x.Name), Meta: c11MetaPairs(x.ImmutableMetadata)})
	}
	sort.Slice(v.IdExc, func(i, j int) bool { return v.IdExc[i].U < v.IdExc[j].U })
	// 2. known labels
	v.Labels = c11Labels(c.Bugs().ValidLabels())
	// 3. queries
	for _, qs := range c11Queries() {
		q, err := query.Parse(qs)
		if err != nil {
			panic("c11 battery: " + err.Error())
		}
		ids, err := c11Query(c, q)
		if err != nil {
			v.Queries = append(v.Queries, []int{-1})
			s.tags["query-error"] = true
			continue
		}
		es := []int{}
		for _, id := range ids {
			es = append(es, s.ent(id))
		}
		v.Queries = append(v.Queries, es)
	}
	// 4. metadata lookups (a hit loads the bug)
	for _, l := range c11Lookups {
		val := fmt.Sprintf("v%d", l[1])
		if l[0] == 0 {
			val = fmt.Sprintf("o%d", l[1])
		}
		b, err := c.Bugs().ResolveBugCreateMetadata(c11MetaKeys[l[0]], val)
		switch {
		case err == nil:
			v.Meta = append(v.Meta, s.ent(b.Id()))
		case entity.IsErrNotFound(err):
			v.Meta = append(v.Meta, -1)
		case entity.IsErrMultipleMatch(err):
			v.Meta = append(v.Meta, -2)
		default:
			v.Meta = append(v.Meta, -3)
		}
	}
	for u := 0; u < 2; u++ {
		i, err := c.Identities().ResolveIdentityImmutableMetadata("origin", fmt.Sprintf("r%d", u))
		switch {
		case err == nil:
			v.IdMeta = append(v.IdMeta, s.userOf(i.Id()))
		case entity.IsErrNotFound(err):
			v.IdMeta = append(v.IdMeta, -1)
		case entity.IsErrMultipleMatch(err):
			v.IdMeta = append(v.IdMeta, -2)
		default:
			v.IdMeta = append(v.IdMeta, -3)
		}
	}
	// 5. resolved identities
	for u, id := range s.userID {
		i, err := c.Identities().Resolve(id)
		if err != nil {
			if _, e2 := c.Identities().ResolveExcerpt(id); e2 == nil {
				v.IdRes = append(v.IdRes, cIdRes{U: u, Err: true})
			}
			continue
		}
		v.IdRes = append(v.IdRes, cIdRes{U: u, Name: c11NameIdx(i.Name()), Dirty: i.NeedCommit()})
	}
	// 6. every bug resolved, in the given order
	for _, id := range order {
		b, err := c.Bugs().Resolve(id)
		if err != nil {
			v.Snaps = append(v.Snaps, cSnap{E: s.ent(id), Err: true})
			continue
		}
		// an entity that Resolve evicted on the spot is locked for ever (any use of it blocks): it is recognised
		// without touching it, by resolving again, which then loads another instance instead of hitting the cache
		if b2, err2 := c.Bugs().Resolve(id); err2 != nil || b2 != b {
			v.Snaps = append(v.Snaps, cSnap{E: s.ent(id), Hung: true})
			s.tags["resolved-handle-locked"] = true
			s.stop = true
			continue
		}
		snap := b.Snapshot()
		cs := cSnap{E: s.ent(id), St: int(snap.Status), Title: c11Tokens(snap.Title), Labels: c11Labels(snap.Labels), Dirty: b.NeedCommit(),
			Comments: []cCom{}, Actors: []int{}, Parts: []int{}, AuNames: []int{}, Ops: []string{}}
		for _, op := range snap.Operations {
			cs.Ops = append(cs.Ops, string(op.Id()))
		}
		for _, cm := range snap.Comments {
			cs.Comments = append(cs.Comments, cCom{Au: s.userOf(cm.Author.Id()), Msg: c11Tokens(cm.Message)})
		}
		for _, a := range snap.Actors {
			cs.Actors = append(cs.Actors, s.userOf(a.Id()))
			cs.AuNames = append(cs.AuNames, c11NameIdx(a.Name()))
		}
		for _, a := range snap.Participants {
			cs.Parts = append(cs.Parts, s.userOf(a.Id()))
		}
		v.Snaps = append(v.Snaps, cs)
	}
	return v
}

// c11Query guards against the panics of the filters (an identity excerpt that cannot be resolved).
func c11Query(c *cache.RepoCache, q *query.Query) (ids []entity.Id, err error) {
	defer func() {
		if r := recover(); r != nil {
			err = fmt.Errorf("panic: %v", r)
		}
	}()
	return c.Bugs().Query(q)
}

func c11CopyTree(src, dst string, skip func(rel string) bool) error {
	return filepath.Walk(src, func(p string, info os.FileInfo, err error) error {
		if err != nil {
			return err
		}
		rel, _ := filepath.Rel(src, p)
		if rel != "." && skip(filepath.ToSlash(rel)) {
			if info.IsDir() {
				return filepath.SkipDir
			}
			return nil
		}
		target := filepath.Join(dst, rel)
		if info.IsDir() {
			return os.MkdirAll(target, 0o755)
		}
		// git objects are immutable: a hard link is as good as a copy
		if strings.HasPrefix(filepath.ToSlash(rel), ".git/objects/") && os.Link(p, target) == nil {
			return nil
		}
		in, err := os.Open(p)
		if err != nil {
			return err
		}
		defer in.Close()
		out, err := os.Create(target)
		if err != nil {
			return err
		}
		if _, err := io.Copy(out, in); err != nil {
			out.Close()
			return err
		}
		return out.Close()
	})
}

// rebuilt answers the same questions from a cache built from scratch on a copy of the git data.
func (s *cSession) rebuilt(r int, order []entity.Id) *cViews {
	u := s.users[r]
	s.nscratch++
	dst := fmt.Sprintf("%s/scratch%d", s.dir, s.nscratch)
	err := c11CopyTree(u.path, dst, func(rel string) bool {
		return rel == ".git/git-bug/cache" || rel == ".git/git-bug/indexes" || rel == ".git/git-bug/lock"
	})
	if err != nil {
		s.fail("copy of the git data: %v", err)
		return nil
	}
	defer os.RemoveAll(dst)
	g, err := repository.OpenGoGitRepo(dst, "git-bug", nil)
	if err != nil {
		s.fail("open the copy: %v", err)
		return nil
	}
	c, err := cache.NewRepoCacheNoEvents(c11Repo{GoGitRepo: g, kr: keyring.NewArrayKeyring(nil)})
	if err != nil {
		s.tags["rebuild-failed"] = true
		s.fail("cache build on the copy failed: %v", err)
		_ = g.Close()
		return nil
	}
	v := s.ask(c, order)
	_ = c.Close()
	return v
}

func rotate(ids []entity.Id, k int) []entity.Id {
	n := len(ids)
	if n == 0 {
		return ids
	}
	k = ((k % n) + n) % n
	res := append([]entity.Id{}, ids[k:]...)
	return append(res, ids[:k]...)
}

func (s *cSession) observe(r, rot int) {
	ids := rotate(s.localIds(r), rot)
	ev := cEvent{Kind: "observe", R: r, E: -1, Out: "done"}
	// make sure every id is known to the graph before views are canonicalised
	s.gitObserve(&ev)
	for _, id := range ids {
		ev.Order = append(ev.Order, s.ent(id))
	}
	ev.Live = s.ask(s.users[r].c, ids)
	ev.Rebuilt = s.rebuilt(r, ids)
	ev.Quiescent = true
	for _, sn := range ev.Live.Snaps {
		if sn.Dirty {
			ev.Quiescent = false
		}
	}
	for _, ir := range ev.Live.IdRes {
		if ir.Dirty {
			ev.Quiescent = false
		}
	}
	s.gitObserve(&ev)
	s.events = append(s.events, ev)
	if ev.Rebuilt != nil {
		s.goDiff(&ev)
	}
}

// goDiff only produces tags (histogram, finding signatures); the verdict is C11_ok in Coq.
func (s *cSession) goDiff(ev *cEvent) {
	if !ev.Quiescent {
		s.tags["observe-with-staged-operations"] = true
		return
	}
	j := func(v interface{}) string { b, _ := json.Marshal(v); return string(b) }
	l, r := ev.Live, ev.Rebuilt
	if j(l.Exc) != j(r.Exc) {
		s.tags["diff:bug-excerpts"] = true
	}
	if j(l.IdExc) != j(r.IdExc) {
		s.tags["diff:identity-excerpts"] = true
	}
	if j(l.Labels) != j(r.Labels) {
		s.tags["diff:labels"] = true
	}
	for i := range l.Queries {
		if j(l.Queries[i]) != j(r.Queries[i]) {
			if i == 8 || i == 9 || i == 12 {
				s.tags["diff:search"] = true
			} else {
				s.tags["diff:query"] = true
			}
		}
	}
	if j(l.Meta) != j(r.Meta) || j(l.IdMeta) != j(r.IdMeta) {
		s.tags["diff:metadata-lookup"] = true
	}
	if j(l.IdRes) != j(r.IdRes) {
		s.tags["diff:resolved-identity"] = true
	}
	if len(l.Snaps) != len(r.Snaps) {
		s.tags["diff:resolved-bug"] = true
	} else {
		for i := range l.Snaps {
			a, b := l.Snaps[i], r.Snaps[i]
			an, bn := a.AuNames, b.AuNames
			a.AuNames, b.AuNames = nil, nil
			if j(a) != j(b) || j(a.Ops) != j(b.Ops) {
				s.tags["diff:resolved-bug"] = true
			}
			if j(an) != j(bn) {
				s.tags["diff:actor-name"] = true
			}
		}
	}
}

// ---- actions ----

func (s *cSession) pick(r, e int) (entity.Id, bool) {
	ids := s.localIds(r)
	if len(ids) == 0 {
		return "", false
	}
	return ids[((e%len(ids))+len(ids))%len(ids)], true
}

func (s *cSession) newCommits(before int) []int {
	var res []int
	for i := before; i < len(s.g.commits); i++ {
		res = append(res, i)
	}
	return res
}

func (s *cSession) push(ev cEvent) {
	s.gitObserve(&ev)
	s.events = append(s.events, ev)
}

// commitBug saves the loaded bug: Commit(), or (asNeeded) CommitAsNeeded(), which is what the terminal UI and the bridge exporters
// call and which must also succeed, and change nothing, when nothing is staged.
func (s *cSession) commitBug(r int, b *cache.BugCache, asNeeded bool) {
	ev := cEvent{Kind: "commit", R: r, E: s.ent(b.Id())}
	before := len(s.g.commits)
	var err error
	if asNeeded {
		ev.Kind = "commitan"
		if b.NeedCommit() {
			s.tags["save:commit-as-needed"] = true
		} else {
			s.tags["save:commit-as-needed-nothing-staged"] = true
		}
		err = b.CommitAsNeeded()
	} else {
		err = b.Commit()
	}
	if err != nil {
		ev.Out, ev.Err = "fail", err.Error()
		s.tags["commit-failed"] = true
	} else {
		ev.Out = "done"
		delete(s.staged[r], b.Id())
	}
	s.gitObserve(&ev)
	ev.NewIdx = s.newCommits(before)
	s.events = append(s.events, ev)
}

// idRename: identity k gets a new version (name index) through the loaded IdentityCache ic of user r, saved at once
func (s *cSession) idRename(r, k int, ic *cache.IdentityCache, name int, asNeeded bool) {
	u := s.users[r]
	ev := cEvent{Kind: "idupd", R: r, E: k, V: name}
	// A replica whose clocks lag behind the times recorded in the last version of an identity cannot add a version
	// to it (Validate: non-chronological clock; reading or merging an identity does not witness its times): a
	// liveness limit of identity editing that this property does not cover (design C05, audit A3). Such a rename is
	// not attempted: the session goes on without it.
	clocks, _ := u.repo.AllClocks()
	for cname, t := range ic.LastModificationLamports() {
		if cl, ok := clocks[cname]; !ok || cl.Time() < t {
			s.tags["identity-rename-skipped:lagging-clock"] = true
			return
		}
	}
	err := ic.Mutate(u.repo, func(m *identity.Mutator) { m.Name = c11Names[name] })
	if err == nil && asNeeded {
		s.tags["identity-save:commit-as-needed"] = true
		err = ic.CommitAsNeeded()
	} else if err == nil {
		err = ic.Commit()
	}
	if err != nil {
		ev.Out, ev.Err = "fail", err.Error()
		s.tags["identity-update-failed"] = true
	} else {
		ev.Out = "done"
		if k == r {
			u.versions++
		}
		s.tags["identity-update"] = true
	}
	s.push(ev)
}

func (s *cSession) do(a cAct) {
	r := ((a.R % 2) + 2) % 2
	u := s.users[r]
	c := u.c
	author, err := c.GetUserIdentity()
	if err != nil {
		s.fail("GetUserIdentity: %v", err)
		return
	}
	au := r
	switch a.K {
	case "new":
		t := s.now()
		title, msg := c11Text(a.W), c11Text(a.W2)
		before := len(s.g.commits)
		b, op, err := c.Bugs().NewRaw(author, t, title, msg, nil, map[string]string{"origin": fmt.Sprintf("o%d", a.V%3)})
		ev := cEvent{Kind: "new", R: r, E: -1}
		if err != nil {
			ev.Out, ev.Err = "fail", err.Error()
			s.tags["new-failed"] = true
		} else {
			ev.Out = "done"
			s.ops[string(op.Id())] = &cOp{Kind: "create", Au: au, Time: t, Title: c11Tokens(title), Msg: c11Tokens(msg), KV: [][2]int{{0, a.V % 3}}}
			ev.Op = string(op.Id())
		}
		s.gitObserve(&ev)
		ev.NewIdx = s.newCommits(before)
		if b != nil {
			ev.E = s.ent(b.Id())
		}
		s.events = append(s.events, ev)
	case "comment", "title", "status", "label", "editcomment", "meta":
		id, ok := s.pick(r, a.E)
		if !ok {
			return
		}
		ev := cEvent{Kind: "resolve", R: r, E: s.ent(id)}
		b, err := c.Bugs().Resolve(id)
		if err != nil {
			ev.Out, ev.Err = "fail", err.Error()
			s.tags["resolve-failed"] = true
			s.push(ev)
			return
		}
		ev.Out = "done"
		s.push(ev)
		t := s.now()
		var opid entity.Id
		var co *cOp
		switch a.K {
		case "comment":
			txt := c11Text(a.W)
			_, op, e := b.AddCommentRaw(author, t, txt, nil, nil)
			if err = e; e == nil {
				opid, co = op.Id(), &cOp{Kind: "comment", Msg: c11Tokens(txt)}
			}
		case "title":
			txt := c11Text(a.W)
			op, e := b.SetTitleRaw(author, t, txt, nil)
			if err = e; e == nil {
				opid, co = op.Id(), &cOp{Kind: "title", Title: c11Tokens(txt)}
			}
		case "status":
			if b.Snapshot().Status.String() == "open" {
				op, e := b.CloseRaw(author, t, nil)
				if err = e; e == nil {
					opid, co = op.Id(), &cOp{Kind: "status", St: 2}
				}
			} else {
				op, e := b.OpenRaw(author, t, nil)
				if err = e; e == nil {
					opid, co = op.Id(), &cOp{Kind: "status", St: 1}
				}
			}
		case "label":
			l := ((a.L % 4) + 4) % 4
			name := fmt.Sprintf("l%d", l)
			has := false
			for _, x := range b.Snapshot().Labels {
				if string(x) == name {
					has = true
				}
			}
			var add, rem []string
			co = &cOp{Kind: "label"}
			if has {
				rem = []string{name}
				co.Remvd = []int{l}
			} else {
				add = []string{name}
				co.Added = []int{l}
			}
			_, op, e := b.ChangeLabelsRaw(author, t, add, rem, nil)
			if err = e; e == nil {
				opid = op.Id()
			}
		case "editcomment":
			cms := b.Snapshot().Comments
			k := ((a.L % len(cms)) + len(cms)) % len(cms)
			txt := c11Text(a.W)
			op, e := b.EditCommentRaw(author, t, cms[k].CombinedId(), txt, nil)
			if err = e; e == nil {
				opid, co = op.Id(), &cOp{Kind: "editcomment", Msg: c11Tokens(txt), Target: string(cms[k].TargetId())}
			}
		case "meta":
			k := 1 + ((a.L%3)+3)%3
			op, e := b.SetMetadataRaw(author, t, b.FirstOp().Id(), map[string]string{c11MetaKeys[k]: fmt.Sprintf("v%d", a.V%3)})
			if err = e; e == nil {
				opid, co = op.Id(), &cOp{Kind: "meta", Target: string(b.FirstOp().Id()), KV: [][2]int{{k, a.V % 3}}}
			}
		}
		ev = cEvent{Kind: "edit", R: r, E: s.ent(id)}
		if err != nil {
			ev.Out, ev.Err = "fail", err.Error()
			s.tags["edit-refused"] = true
			s.push(ev)
		} else {
			co.Au, co.Time = au, t
			s.ops[string(opid)] = co
			ev.Out, ev.Op = "done", string(opid)
			s.push(ev)
			s.tags["edit:"+a.K] = true
		}
		if !a.Stage && b.NeedCommit() {
			s.commitBug(r, b, a.AN)
		} else if b.NeedCommit() {
			s.tags["staged-edit"] = true
			s.staged[r][id] = true
		}
	case "commit":
		// commits every bug that has staged operations, in id order; with AN: CommitAsNeeded on every bug, staged operations or not
		for _, id := range s.localIds(r) {
			ev := cEvent{Kind: "resolve", R: r, E: s.ent(id), Out: "done"}
			b, err := c.Bugs().Resolve(id)
			if err != nil {
				ev.Out, ev.Err = "fail", err.Error()
				s.push(ev)
				continue
			}
			s.push(ev)
			if a.AN || b.NeedCommit() {
				s.commitBug(r, b, a.AN)
			}
		}
	case "idmut":
		if u.versions >= c11MaxVersions {
			return
		}
		ic, err := c.GetUserIdentity()
		if err != nil {
			s.fail("GetUserIdentity: %v", err)
			return
		}
		s.idRename(r, r, ic, 2*u.versions+r, a.AN)
	case "idfor":
		// the identity of the OTHER user is renamed here (the same person on two machines, a maintainer fixing a name): the
		// owner's next rename makes the two histories diverge, which the fast-forward only policy refuses for ever
		k := 1 - r
		if s.nforeign >= len(c11Names)-c11ForeignNames {
			return
		}
		ic, err := c.Identities().Resolve(s.userID[k])
		if err != nil {
			return // not known here yet
		}
		name := c11ForeignNames + s.nforeign
		s.nforeign++
		s.idRename(r, k, ic, name, a.AN)
		s.tags["foreign-identity-rename"] = true
	case "idhold":
		// the user gets (and keeps) the IdentityCache of identity k, as every program does with its user identity
		k := ((a.E % 2) + 2) % 2
		ev := cEvent{Kind: "idresolve", R: r, E: k, Out: "done"}
		ic, err := c.Identities().Resolve(s.userID[k])
		if err != nil {
			return
		}
		s.held[r][k] = ic
		s.push(ev)
	case "idheld":
		// a rename made through the IdentityCache obtained earlier. When a pull has replaced the loaded instance in the meantime
		// the held one knows an older history: its commit must not take the pulled versions away from the reference.
		k := ((a.E % 2) + 2) % 2
		ic := s.held[r][k]
		if ic == nil {
			return
		}
		name := 2*u.versions + r
		if k != r {
			if s.nforeign >= len(c11Names)-c11ForeignNames {
				return
			}
			name = c11ForeignNames + s.nforeign
		} else if u.versions >= c11MaxVersions {
			return
		}
		cur, err := c.Identities().Resolve(s.userID[k])
		if err != nil {
			return
		}
		if k != r {
			s.nforeign++
		}
		if cur == ic {
			// still the loaded instance: an ordinary rename (the Resolve above is the one of the model's event)
			s.idRename(r, k, ic, name, a.AN)
			break
		}
		s.push(cEvent{Kind: "idresolve", R: r, E: k, Out: "done"})
		// (an instance that was evicted instead of replaced is locked for ever: never wait for it)
		done := make(chan error, 1)
		go func() {
			err := ic.Mutate(u.repo, func(m *identity.Mutator) { m.Name = c11Names[name] })
			if err == nil {
				err = ic.Commit()
			}
			done <- err
		}()
		select {
		case err = <-done:
		case <-time.After(3 * time.Second):
			s.tags["held-identity-handle-locked"] = true
			s.held[r][k] = nil
			return
		}
		ev := cEvent{Kind: "idstale", R: r, E: k, V: name}
		s.tags["stale-identity-handle-commit"] = true
		if err != nil {
			ev.Out, ev.Err = "fail", err.Error()
		} else {
			ev.Out = "done"
			s.tags["stale-identity-handle-commit-accepted"] = true
			if k == r {
				u.versions++
			}
		}
		s.held[r][k] = nil
		s.push(ev)
	case "pullc":
		// RepoCache.Pull: Fetch + MergeAll behind one call that only reports the first failure
		ev := cEvent{Kind: "pullc", R: r, E: -1}
		if _, err := c.Fetch("origin"); err != nil {
			ev.Kind, ev.Out, ev.Err = "pull", "fail", err.Error()
			s.push(ev)
			return
		}
		s.refs(u.repo, "refs/remotes/origin/bugs/")
		// what MergeAll is going to walk, in its order: the identities, then the bugs, each as ListRefs gives them
		for _, ns := range []string{"identities", "bugs"} {
			names, err := u.repo.ListRefs("refs/remotes/origin/" + ns + "/")
			if err != nil {
				s.fail("ListRefs: %v", err)
				return
			}
			for _, n := range names {
				id := entity.Id(n[strings.LastIndex(n, "/")+1:])
				m := cMerge{ID: string(id), Status: "unknown"}
				if ns == "identities" {
					uu := s.userOf(id)
					if uu == 99 {
						s.fail("unknown identity %s", id)
						return
					}
					m.Ident, m.E = true, uu
				} else {
					m.E = s.ent(id)
				}
				ev.Merges = append(ev.Merges, m)
			}
		}
		before := len(s.g.commits)
		s.tags["pull:repo-cache-pull"] = true
		if err := c.Pull("origin"); err != nil {
			ev.Out, ev.Err = "fail", err.Error()
			s.tags["pull:repo-cache-pull-reports-failure"] = true
			// (code as found: whatever still runs in the background settles)
			time.Sleep(150 * time.Millisecond)
		} else {
			ev.Out = "done"
		}
		s.gitObserve(&ev)
		for _, ci := range s.newCommits(before) {
			root := s.g.root(ci)
			for k := range ev.Merges {
				if !ev.Merges[k].Ident && ev.Merges[k].E == root && ev.Merges[k].NewIdx == 0 {
					ev.Merges[k].NewIdx = ci
					s.tags["merge-commit"] = true
					break
				}
			}
		}
		s.events = append(s.events, ev)
	case "idsave":
		// CommitAsNeeded on the user's own identity, which has no pending version: success, nothing written
		ic, err := c.GetUserIdentity()
		if err != nil {
			s.fail("GetUserIdentity: %v", err)
			return
		}
		ev := cEvent{Kind: "idsave", R: r, E: r}
		if ic.NeedCommit() {
			s.fail("the user identity has a pending version outside an idmut action")
			return
		}
		if err := ic.CommitAsNeeded(); err != nil {
			ev.Out, ev.Err = "fail", err.Error()
			s.tags["identity-save-failed"] = true
		} else {
			ev.Out = "done"
			s.tags["identity-save:nothing-pending"] = true
		}
		s.push(ev)
	case "push":
		ev := cEvent{Kind: "push", R: r, E: -1}
		if _, err := c.Push("origin"); err != nil {
			ev.Out, ev.Err = "fail", err.Error()
			s.tags["push-refused"] = true
		} else {
			ev.Out = "done"
		}
		s.push(ev)
	case "pull":
		ev := cEvent{Kind: "pull", R: r, E: -1}
		if _, err := c.Fetch("origin"); err != nil {
			ev.Out, ev.Err = "fail", err.Error()
			s.push(ev)
			return
		}
		// tracking refs are known to the graph before the merge results are canonicalised
		s.refs(u.repo, "refs/remotes/origin/bugs/")
		before := len(s.g.commits)
		ev.Out = "done"
		for mr := range c.MergeAll("origin") {
			m := cMerge{ID: string(mr.Id)}
			if uu := s.userOf(mr.Id); uu != 99 {
				m.Ident, m.E = true, uu
			} else {
				m.E = s.ent(mr.Id)
			}
			switch {
			case mr.Err != nil:
				m.Status = "error"
				ev.Err = mr.Err.Error()
			case mr.Status == entity.MergeStatusNew:
				m.Status = "new"
			case mr.Status == entity.MergeStatusNothing:
				m.Status = "nothing"
			case mr.Status == entity.MergeStatusUpdated:
				m.Status = "updated"
			case mr.Status == entity.MergeStatusInvalid:
				m.Status = "invalid"
				ev.Err = mr.Reason
			default:
				m.Status = "error"
			}
			if b, ok := mr.Entity.(*bug.Bug); ok && b != nil {
				m.HasOps = true
				for _, op := range b.Operations() {
					m.Ops = append(m.Ops, string(op.Id()))
				}
			}
			kind := "bug"
			if m.Ident {
				kind = "identity"
			}
			s.tags["merge-"+kind+"-"+m.Status] = true
			if !m.Ident && m.Status == "updated" && s.staged[r][mr.Id] {
				// the case the property singles out: an update arrives for a bug that is loaded with uncommitted operations
				s.tags["pull-updates-bug-with-staged-operations"] = true
				delete(s.staged[r], mr.Id)
			}
			ev.Merges = append(ev.Merges, m)
		}
		s.gitObserve(&ev)
		// merge commits written by this MergeAll, attributed to the updated bug of the same entity
		for _, ci := range s.newCommits(before) {
			root := s.g.root(ci)
			for k := range ev.Merges {
				if !ev.Merges[k].Ident && ev.Merges[k].E == root && ev.Merges[k].NewIdx == 0 {
					ev.Merges[k].NewIdx = ci
					s.tags["merge-commit"] = true
					break
				}
			}
		}
		s.events = append(s.events, ev)
	case "remove":
		id, ok := s.pick(r, a.E)
		if !ok {
			return
		}
		ev := cEvent{Kind: "remove", R: r, E: s.ent(id)}
		if err := c.Bugs().Remove(string(id)); err != nil {
			ev.Out, ev.Err = "fail", err.Error()
			s.tags["remove-failed"] = true
		} else {
			ev.Out = "done"
			s.tags["remove"] = true
			delete(s.staged[r], id)
		}
		s.push(ev)
	case "resolve":
		for _, e := range a.Es {
			id, ok := s.pick(r, e)
			if !ok {
				return
			}
			ev := cEvent{Kind: "resolve", R: r, E: s.ent(id), Out: "done"}
			if _, err := c.Bugs().Resolve(id); err != nil {
				ev.Out, ev.Err = "fail", err.Error()
				s.tags["resolve-failed"] = true
			}
			s.push(ev)
		}
		s.tags["resolve-many"] = true
	case "reopen":
		ev := cEvent{Kind: "reopen", R: r, E: -1, Wipe: a.Wipe % 3}
		if len(s.staged[r]) > 0 {
			s.tags["reopen-with-staged-operations"] = true
		}
		s.held[r] = [2]*cache.IdentityCache{}
		if err := c.Close(); err != nil {
			s.fail("close: %v", err)
			return
		}
		u.c = nil
		switch a.Wipe % 3 {
		case 1:
			_ = os.RemoveAll(u.path + "/.git/git-bug/cache")
			s.tags["reopen-without-cache-files"] = true
		case 2:
			_ = os.RemoveAll(u.path + "/.git/git-bug/indexes")
			s.tags["reopen-without-indexes"] = true
		default:
			s.tags["reopen"] = true
		}
		if err := s.openCache(u, false); err != nil {
			s.fail("reopen: %v", err)
			s.tags["reopen-failed"] = true
			return
		}
		ev.Out = "done"
		s.staged[r] = map[entity.Id]bool{}
		s.push(ev)
	default:
		return
	}
	if s.skip == "" {
		s.observe(r, a.Rot)
	}
}

func runC11(in cInput) (*cSession, string) {
	if in.Cap < 1 {
		in.Cap = 2
	}
	s := &cSession{in: in, g: newGraph(), tags: map[string]bool{}, entOf: map[string]int{}, ops: map[string]*cOp{}}
	s.staged = [2]map[entity.Id]bool{{}, {}}
	defer s.cleanup()
	s.setup()
	for _, a := range in.Actions {
		s.do(a)
		if s.skip != "" {
			return s, s.skip
		}
		if s.stop {
			break
		}
	}
	return s, s.skip
}

// ---- stress: many cache builds from scratch (the identity and bug sub-caches are built concurrently) ----

func runC11Stress(in cInput) string {
	n, nids, nbugs := in.Stress, in.Ids, in.Bugs
	if nids < 1 {
		nids = 6
	}
	if nbugs < 1 {
		nbugs = 12
	}
	s := &cSession{in: cInput{Cap: 1000}, g: newGraph(), tags: map[string]bool{}, entOf: map[string]int{}, ops: map[string]*cOp{}}
	s.staged = [2]map[entity.Id]bool{{}, {}}
	defer s.cleanup()
	s.setup()
	u := s.users[0]
	var ids []*cache.IdentityCache
	for i := 0; i < nids; i++ {
		ic, err := u.c.Identities().New(fmt.Sprintf("stress%d", i), fmt.Sprintf("s%d@example.org", i))
		if err != nil {
			return err.Error()
		}
		ids = append(ids, ic)
	}
	for k := 0; k < nbugs; k++ {
		b, _, err := u.c.Bugs().NewRaw(ids[k%nids], s.now(), c11Text([]int{k, k + 1}), c11Text([]int{k}), nil, nil)
		if err != nil {
			return err.Error()
		}
		// comments by several identities: reading the bug resolves every author through the identity sub-cache
		for j := 1; j <= 6; j++ {
			if _, _, err := b.AddCommentRaw(ids[(k+j*5)%nids], s.now(), c11Text([]int{k + j}), nil, nil); err != nil {
				return err.Error()
			}
		}
		if err := b.Commit(); err != nil {
			return err.Error()
		}
	}
	for i := 0; i < n; i++ {
		if err := u.c.Close(); err != nil {
			return err.Error()
		}
		u.c = nil
		_ = os.RemoveAll(u.path + "/.git/git-bug/cache")
		if err := s.openCache(u, false); err != nil {
			return err.Error()
		}
	}
	return ""
}

// ---- generator ----

func genC11(r *Rand, maxActions int) cInput {
	in := cInput{Cap: 2}
	if r.Chance(1, 6) {
		in.Cap = 1
	}
	n := r.Range(5, maxActions)
	words := func(lo, hi int) []int {
		var ws []int
		for i, k := 0, r.Range(lo, hi); i < k; i++ {
			ws = append(ws, r.Intn(len(c11Words)))
		}
		return ws
	}
	newBug := func(rep int) cAct {
		return cAct{K: "new", R: rep, W: words(1, 2), W2: words(1, 3), V: r.Intn(3), Rot: r.Intn(5)}
	}
	in.Actions = append(in.Actions, newBug(r.Intn(2)))
	// half of the sessions start with a bug both users have, so that updates of known bugs and diverged merges are common
	if r.Bool() {
		a := in.Actions[0].R
		in.Actions = append(in.Actions, cAct{K: "push", R: a, Rot: r.Intn(5)}, cAct{K: "pull", R: 1 - a, Rot: r.Intn(5)})
	}
	editKinds := []string{"comment", "comment", "title", "status", "label", "label", "editcomment", "meta"}
	// one committed edit in three is saved with CommitAsNeeded() instead of Commit()
	edit := func(rep, e int, stage bool) cAct {
		return cAct{K: editKinds[r.Intn(len(editKinds))], R: rep, E: e, W: words(1, 3), L: r.Intn(4), V: r.Intn(3), Rot: r.Intn(5), Stage: stage, AN: !stage && r.Chance(1, 3)}
	}
	// "commit what is staged": half of the time CommitAsNeeded() on every bug, those with nothing staged included (a no-op that succeeds)
	commit := func(rep, rot int) cAct { return cAct{K: "commit", R: rep, Rot: rot, AN: r.Chance(1, 2)} }
	// pullOverStaged: user rep leaves an operation uncommitted on the bug of ordinal e (sometimes after a committed edit of his own,
	// so that the pull has to write a merge commit), the other user edits the bug of the same ordinal and publishes it, rep pulls
	// WITHOUT committing first, and later commits whatever is staged: the update arrives for a bug that is loaded with staged
	// operations, and the next commit made through the cache has to build on the merged history. When both users hold the same
	// set of bugs (always at the start of a session, usually after an exchange) the two ordinals name the same bug.
	pullOverStaged := func(rep, e int) {
		if r.Chance(1, 3) {
			in.Actions = append(in.Actions, edit(rep, e, false))
		}
		in.Actions = append(in.Actions, edit(rep, e, true))
		if r.Chance(1, 4) {
			in.Actions = append(in.Actions, edit(rep, e, true))
		}
		in.Actions = append(in.Actions, edit(1-rep, e, false), cAct{K: "push", R: 1 - rep, Rot: r.Intn(5)}, cAct{K: "pull", R: rep, Rot: r.Intn(5)})
		switch r.Intn(4) {
		case 0:
			// the commit is left to the rest of the session
		case 1:
			in.Actions = append(in.Actions, edit(rep, e, false))
		default:
			in.Actions = append(in.Actions, commit(rep, r.Intn(5)))
		}
		if r.Chance(1, 2) {
			in.Actions = append(in.Actions, cAct{K: "push", R: rep, Rot: r.Intn(5)})
		}
	}
	// one session in three that starts with a shared bug goes straight to that scenario
	if len(in.Actions) == 3 && r.Chance(1, 3) {
		pullOverStaged(r.Intn(2), 0)
	}
	for len(in.Actions) < n {
		rep := r.Intn(2)
		rot := r.Intn(5)
		switch x := r.Intn(43); {
		case x == 42:
			in.Actions = append(in.Actions, cAct{K: "idsave", R: rep, Rot: rot})
		case x >= 40:
			pullOverStaged(rep, r.Intn(5))
		case x < 4:
			in.Actions = append(in.Actions, newBug(rep))
		case x < 16:
			a := edit(rep, r.Intn(5), r.Chance(1, 4))
			a.Rot = rot
			in.Actions = append(in.Actions, a)
		case x < 18:
			in.Actions = append(in.Actions, commit(rep, rot))
		case x < 21:
			in.Actions = append(in.Actions, cAct{K: "push", R: rep, Rot: rot})
		case x < 23:
			// a full exchange: this user commits, pulls and pushes, then the other one commits and pulls
			in.Actions = append(in.Actions, commit(rep, rot), cAct{K: "pull", R: rep, Rot: rot}, cAct{K: "push", R: rep, Rot: r.Intn(5)})
			in.Actions = append(in.Actions, commit(1-rep, r.Intn(5)), cAct{K: "pull", R: 1 - rep, Rot: r.Intn(5)})
		case x < 31:
			// a pull usually follows a commit of what is staged; sometimes it does not
			if r.Chance(3, 4) {
				in.Actions = append(in.Actions, commit(rep, rot))
			}
			in.Actions = append(in.Actions, cAct{K: "pull", R: rep, Rot: rot})
			if r.Chance(1, 2) {
				in.Actions = append(in.Actions, cAct{K: "push", R: rep, Rot: r.Intn(5)})
			}
		case x < 34:
			in.Actions = append(in.Actions, cAct{K: "idmut", R: rep, Rot: rot, AN: r.Chance(1, 2)})
			if r.Chance(1, 2) {
				in.Actions = append(in.Actions, cAct{K: "push", R: rep, Rot: r.Intn(5)})
			}
		case x < 36:
			in.Actions = append(in.Actions, cAct{K: "remove", R: rep, E: r.Intn(5), Rot: rot})
		case x < 38:
			var es []int
			for i, k := 0, r.Range(2, 5); i < k; i++ {
				es = append(es, r.Intn(6))
			}
			in.Actions = append(in.Actions, cAct{K: "resolve", R: rep, Es: es, Rot: rot})
		default:
			// closing a cache loses what is staged: usually commit first (1 in 4: not, see closeStaged)
			if r.Chance(3, 4) {
				in.Actions = append(in.Actions, commit(rep, rot))
			}
			w := 0
			if r.Chance(1, 3) {
				w = 1 + r.Intn(2)
			}
			in.Actions = append(in.Actions, cAct{K: "reopen", R: rep, Wipe: w, Rot: r.Intn(5)})
		}
	}
	// One session in three ends with one of three situations found by the audit of the unchanged tree (each is a family, drawn at random):
	pull := func(rep int) cAct {
		if r.Chance(1, 2) {
			return cAct{K: "pullc", R: rep, Rot: r.Intn(5)}
		}
		return cAct{K: "pull", R: rep, Rot: r.Intn(5)}
	}
	push := func(rep int) cAct { return cAct{K: "push", R: rep, Rot: r.Intn(5)} }
	// publish: rep brings its repository up to date and pushes, so that the push is a fast-forward
	publish := func(rep int) {
		in.Actions = append(in.Actions, commit(rep, r.Intn(5)), cAct{K: "pull", R: rep, Rot: r.Intn(5)}, push(rep))
	}
	switch r.Intn(9) {
	case 0:
		// refusedPull: one entity of a pull is refused for ever (an identity edited on both sides: fast-forward only) while other
		// identities and bugs of the same pull are new or updated; the pull goes through RepoCache.Pull, which only reports the failure.
		// Everything the pull merged has to be served at once, after a reopen, and by the pulls that follow.
		rep := r.Intn(2)
		publish(1 - rep)
		in.Actions = append(in.Actions, commit(rep, r.Intn(5)), cAct{K: "pull", R: rep, Rot: r.Intn(5)})
		// both sides give the identity of 1-rep a new version (in either order)
		if r.Bool() {
			in.Actions = append(in.Actions, cAct{K: "idfor", R: rep, Rot: r.Intn(5), AN: r.Bool()}, cAct{K: "idmut", R: 1 - rep, Rot: r.Intn(5)})
		} else {
			in.Actions = append(in.Actions, cAct{K: "idmut", R: 1 - rep, Rot: r.Intn(5)}, cAct{K: "idfor", R: rep, Rot: r.Intn(5), AN: r.Bool()})
		}
		// ... and 1-rep has news: new bugs, edits of known bugs
		for i, k := 0, r.Range(1, 3); i < k; i++ {
			if r.Chance(1, 2) {
				in.Actions = append(in.Actions, newBug(1-rep))
			} else {
				in.Actions = append(in.Actions, edit(1-rep, r.Intn(5), false))
			}
		}
		if r.Chance(1, 3) {
			in.Actions = append(in.Actions, cAct{K: "idmut", R: rep, Rot: r.Intn(5)})
		}
		in.Actions = append(in.Actions, push(1-rep), cAct{K: "pullc", R: rep, Rot: r.Intn(5)})
		for i, k := 0, r.Intn(4); i < k; i++ {
			switch r.Intn(5) {
			case 0:
				in.Actions = append(in.Actions, cAct{K: "reopen", R: rep, Rot: r.Intn(5)})
			case 1:
				in.Actions = append(in.Actions, edit(rep, r.Intn(5), false))
			case 2:
				in.Actions = append(in.Actions, newBug(1-rep), push(1-rep))
			default:
				in.Actions = append(in.Actions, pull(rep))
			}
		}
	case 1:
		// staleHandle: rep holds the IdentityCache of an identity (k: its own, or the other user's), the other user gives that identity a
		// new version and publishes it, rep pulls (the loaded instance is replaced), then renames through the instance it still holds:
		// refused, or on top of the pulled version, but never instead of it.
		rep := r.Intn(2)
		k := rep
		if r.Chance(1, 3) {
			k = 1 - rep
		}
		publish(rep)
		publish(1 - rep)
		in.Actions = append(in.Actions, cAct{K: "pull", R: rep, Rot: r.Intn(5)}, cAct{K: "idhold", R: rep, E: k, Rot: r.Intn(5)})
		if r.Chance(1, 3) {
			in.Actions = append(in.Actions, edit(rep, r.Intn(5), r.Chance(1, 4)))
		}
		if k == rep {
			in.Actions = append(in.Actions, cAct{K: "idfor", R: 1 - rep, Rot: r.Intn(5)})
		} else {
			in.Actions = append(in.Actions, cAct{K: "idmut", R: 1 - rep, Rot: r.Intn(5), AN: r.Bool()})
		}
		in.Actions = append(in.Actions, push(1-rep), pull(rep), cAct{K: "idheld", R: rep, E: k, Rot: r.Intn(5), AN: r.Bool()})
		for i, n := 0, r.Intn(3); i < n; i++ {
			switch r.Intn(4) {
			case 0:
				in.Actions = append(in.Actions, push(rep))
			case 1:
				in.Actions = append(in.Actions, cAct{K: "idmut", R: rep, Rot: r.Intn(5)})
			case 2:
				in.Actions = append(in.Actions, cAct{K: "reopen", R: rep, Rot: r.Intn(5)})
			default:
				in.Actions = append(in.Actions, pull(rep))
			}
		}
	case 2:
		// closeStaged: the cache is closed while edits are uncommitted (the commit failed, the program stopped): they are lost, and the
		// reopened cache has to serve what the repository holds
		rep := r.Intn(2)
		for i, n := 0, r.Range(1, 3); i < n; i++ {
			in.Actions = append(in.Actions, edit(rep, r.Intn(3), !r.Chance(1, 4)))
		}
		in.Actions = append(in.Actions, edit(rep, r.Intn(3), true))
		w := 0
		if r.Chance(1, 5) {
			w = 1 + r.Intn(2)
		}
		in.Actions = append(in.Actions, cAct{K: "reopen", R: rep, Wipe: w, Rot: r.Intn(5)})
		for i, n := 0, r.Intn(3); i < n; i++ {
			switch r.Intn(3) {
			case 0:
				in.Actions = append(in.Actions, edit(rep, r.Intn(3), false))
			case 1:
				in.Actions = append(in.Actions, cAct{K: "reopen", R: rep, Rot: r.Intn(5)})
			default:
				in.Actions = append(in.Actions, pull(rep))
			}
		}
	}
	return in
}

type c11Driver struct{}

func init() { register("C11", c11Driver{}) }

func (c11Driver) Gen(r *Rand, tier string) []json.RawMessage {
	n, maxA := 192, 30
	if tier == "thorough" {
		n, maxA = 3840, 40
	}
	var res []json.RawMessage
	for i := 0; i < n; i++ {
		res = append(res, mustJSON(genC11(r, maxA)))
	}
	return res
}

func (c11Driver) Run(raw json.RawMessage) Case {
	var in cInput
	if err := json.Unmarshal(raw, &in); err != nil {
		return Case{Skip: "bad input: " + err.Error()}
	}
	if in.Stress > 0 {
		if msg := runC11Stress(in); msg != "" {
			return Case{Skip: "stress: " + msg}
		}
		return Case{Coq: "mkcase 2 [] [] [] []", Tags: []string{"stress-build"}, Key: string(raw)}
	}
	s, skip := runC11(in)
	if s == nil || skip != "" {
		return Case{Skip: skip}
	}
	var tags []string
	for t := range s.tags {
		tags = append(tags, t)
	}
	sort.Strings(tags)
	nontrivial := s.tags["merge-bug-updated"] || s.tags["merge-bug-new"] || s.tags["merge-identity-updated"]
	return Case{Coq: s.coqCase(), Obs: s.events, Tags: tags, NonTrivial: nontrivial, Key: string(raw)}
}

// ---- Coq rendering (K_C11.case) ----

func c11N(n int) string { return fmt.Sprintf("%d%%N", n) }
func c11Ns(xs []int) string {
	ys := make([]string, len(xs))
	for i, x := range xs {
		ys[i] = fmt.Sprint(x)
	}
	return "[" + strings.Join(ys, "; ") + "]%N"
}
func c11Users(xs []int) string {
	ys := make([]int, len(xs))
	for i, x := range xs {
		ys[i] = x + 1
	}
	return c11Ns(ys)
}
func c11KV(kv [][2]int) string {
	ys := make([]string, len(kv))
	for i, p := range kv {
		ys[i] = fmt.Sprintf("(%d%%N, %d%%N)", p[0], p[1])
	}
	return coqList(ys)
}
func c11Pairs(m [][2]int) string {
	if m == nil {
		return "[]"
	}
	return coqAmap(m)
}

// c11Code packs a text (word indices) base 16, first word most significant.
func c11Code(ws []int) string {
	c := 0
	for _, w := range ws {
		c = c*16 + (w + 1)
	}
	return c11N(c)
}

func (s *cSession) coqViews(v *cViews, or ranker) string {
	var excs, ids, qs, meta, idmeta, idres, snaps []string
	for _, x := range v.Exc {
		excs = append(excs, fmt.Sprintf("mkexc %d %d%%N %d%%N %d%%N %d%%N %d%%N %d%%N %s %s %d %s %s %s", x.E, x.CL, x.EL, x.CT, x.ET, x.Au+1, x.St,
			c11Ns(x.Labels), c11Ns(x.Title), x.NC, c11Users(x.Actors), c11Users(x.Parts), c11KV(x.Meta)))
	}
	for _, y := range v.IdExc {
		ids = append(ids, fmt.Sprintf("mkiexc %d %d%%N %s", y.U, y.Name, c11KV(y.Meta)))
	}
	for _, q := range v.Queries {
		if len(q) == 1 && q[0] == -1 {
			qs = append(qs, "None")
		} else {
			qs = append(qs, "Some "+coqNats(q))
		}
	}
	look := func(xs []int) []string {
		var res []string
		for _, x := range xs {
			switch {
			case x >= 0:
				res = append(res, fmt.Sprintf("LFound %d", x))
			case x == -1:
				res = append(res, "LNone")
			case x == -2:
				res = append(res, "LMany")
			default:
				res = append(res, "LErr")
			}
		}
		return res
	}
	meta, idmeta = look(v.Meta), look(v.IdMeta)
	for _, z := range v.IdRes {
		idres = append(idres, fmt.Sprintf("mkires %d %s %d%%N %s", z.U, coqBool(z.Err), z.Name, coqBool(z.Dirty)))
	}
	for _, n := range v.Snaps {
		state := 0
		if n.Err {
			state = 1
		}
		if n.Hung {
			state = 2
		}
		ops := make([]int, len(n.Ops))
		for i, o := range n.Ops {
			ops[i] = or.m[o]
		}
		var cms []string
		for _, cm := range n.Comments {
			cms = append(cms, fmt.Sprintf("(%d%%N, %s)", cm.Au+1, c11Ns(cm.Msg)))
		}
		snaps = append(snaps, fmt.Sprintf("mksnap %d %d%%N %s %d%%N %s %s %s %s %s %s %s", n.E, state, c11Ns(ops), n.St, c11Ns(n.Title), c11Ns(n.Labels),
			coqList(cms), c11Users(n.Actors), c11Users(n.Parts), coqBool(n.Dirty), c11Ns(n.AuNames)))
	}
	return fmt.Sprintf("(mkviews %s %s %s %s %s %s %s %s)", coqList(excs), coqList(ids), c11Ns(v.Labels), coqList(qs), coqList(meta), coqList(idmeta), coqList(idres), coqList(snaps))
}

func c11Status(st string) string {
	switch st {
	case "new":
		return "MNew"
	case "nothing":
		return "MNothing"
	case "updated":
		return "MUpdated"
	}
	return "MInvalid"
}

func (s *cSession) coqCase() string {
	var packIDs, opIDs []string
	for _, c := range s.g.commits {
		packIDs = append(packIDs, c.PackID)
		opIDs = append(opIDs, c.Ops...)
	}
	for id, o := range s.ops {
		opIDs = append(opIDs, id)
		if o.Target != "" {
			opIDs = append(opIDs, o.Target)
		}
	}
	for _, ev := range s.events {
		if ev.Op != "" {
			opIDs = append(opIDs, ev.Op)
		}
		for _, v := range []*cViews{ev.Live, ev.Rebuilt} {
			if v != nil {
				for i := range v.Snaps {
					opIDs = append(opIDs, v.Snaps[i].Ops...)
				}
			}
		}
	}
	pr, or := rankOf(packIDs), rankOf(opIDs)
	au := func(id string) int {
		for u, x := range s.userID {
			if string(x) == id {
				return u + 1
			}
		}
		return 100
	}
	opranks := func(xs []string) string {
		ys := make([]int, len(xs))
		for i, x := range xs {
			ys[i] = or.m[x]
		}
		return c11Ns(ys)
	}
	var commits []string
	for _, c := range s.g.commits {
		commits = append(commits, fmt.Sprintf("{| c_parents := %s; c_pack := mkpack %d %d %s %d %d |}", coqNats(c.Parents), pr.m[c.PackID], au(c.Author), opranks(c.Ops), c.Edit, c.Create))
	}
	// operation table
	var ids []string
	for id := range s.ops {
		ids = append(ids, id)
	}
	sort.Slice(ids, func(i, j int) bool { return or.m[ids[i]] < or.m[ids[j]] })
	var optab []string
	for _, id := range ids {
		o, k := s.ops[id], or.m[id]
		oid := fmt.Sprintf("(%d%%N, %d%%N)", k, k)
		tgt := fmt.Sprintf("(%d%%N, %d%%N)", or.m[o.Target], or.m[o.Target])
		a := c11N(o.Au + 1)
		var op string
		meta := "[]"
		switch o.Kind {
		case "create":
			op = fmt.Sprintf("Snap.OCreate %s %s %s %s []", oid, a, c11Code(o.Title), c11Code(o.Msg))
			meta = c11KV(o.KV)
		case "comment":
			op = fmt.Sprintf("Snap.OAddComment %s %s %s []", oid, a, c11Code(o.Msg))
		case "editcomment":
			op = fmt.Sprintf("Snap.OEditComment %s %s %s %s []", oid, a, tgt, c11Code(o.Msg))
		case "title":
			op = fmt.Sprintf("Snap.OSetTitle %s %s %s", oid, a, c11Code(o.Title))
		case "status":
			op = fmt.Sprintf("Snap.OSetStatus %s %s %s", oid, a, c11N(o.St))
		case "label":
			op = fmt.Sprintf("Snap.OLabelChange %s %s %s %s", oid, a, c11Ns(o.Added), c11Ns(o.Remvd))
		case "meta":
			op = fmt.Sprintf("Snap.OSetMetadata %s %s %s %s", oid, a, tgt, c11KV(o.KV))
		}
		optab = append(optab, fmt.Sprintf("(%d%%N, mkop (%s) %d%%N %s)", k, op, o.Time-1600000000, meta))
	}
	// rank of every bug id (sort:id)
	var bugIDs []string
	for id := range s.entOf {
		bugIDs = append(bugIDs, id)
	}
	br := rankOf(bugIDs)
	sort.Strings(bugIDs)
	var idrank []string
	for _, id := range bugIDs {
		idrank = append(idrank, fmt.Sprintf("(%d, %d%%N)", s.entOf[id], br.m[id]))
	}
	// steps
	var steps []string
	for _, ev := range s.events {
		out := "CDone"
		if ev.Out != "done" {
			out = "CFail"
		}
		pack := func() (int, int) {
			if len(ev.NewIdx) > 0 {
				c := s.g.commits[ev.NewIdx[0]]
				return pr.m[c.PackID], au(c.Author)
			}
			return 0, 0
		}
		var h string
		switch ev.Kind {
		case "idnew":
			h = fmt.Sprintf("HEv (VIdNew %d %d %d%%N)", ev.R, ev.E, ev.V)
		case "idupd":
			h = fmt.Sprintf("HEv (VIdUpd %d %d %d%%N)", ev.R, ev.E, ev.V)
		case "new":
			pid, a := pack()
			ops := "[]%N"
			if len(ev.NewIdx) > 0 {
				ops = opranks(s.g.commits[ev.NewIdx[0]].Ops)
			}
			h = fmt.Sprintf("HEv (VNew %d %d%%N %d%%N %s)", ev.R, pid, a, ops)
		case "resolve":
			h = fmt.Sprintf("HEv (VResolve %d %d)", ev.R, ev.E)
		case "edit":
			if ev.Out == "done" {
				h = fmt.Sprintf("HEv (VStage %d %d %d%%N)", ev.R, ev.E, or.m[ev.Op])
			} else {
				h = fmt.Sprintf("HNop %d", ev.R)
			}
		case "commit":
			pid, a := pack()
			h = fmt.Sprintf("HEv (VCommit %d %d %d%%N %d%%N)", ev.R, ev.E, pid, a)
		case "commitan":
			pid, a := pack()
			h = fmt.Sprintf("HEv (VCommitAsNeeded %d %d %d%%N %d%%N)", ev.R, ev.E, pid, a)
		case "idsave":
			h = fmt.Sprintf("HEv (VIdCommitAsNeeded %d %d)", ev.R, ev.E)
		case "idresolve":
			h = fmt.Sprintf("HEv (VIdResolve %d %d)", ev.R, ev.E)
		case "idstale":
			h = fmt.Sprintf("HStale %d %d %s", ev.R, ev.E, coqBool(ev.Out != "done"))
			out = "CDone"
		case "pullc":
			var ims, bms []string
			for _, m := range ev.Merges {
				if m.Ident {
					ims = append(ims, fmt.Sprint(m.E))
				} else {
					mid, mau := 0, 0
					if m.NewIdx > 0 {
						c := s.g.commits[m.NewIdx]
						mid, mau = pr.m[c.PackID], au(c.Author)
					}
					bms = append(bms, fmt.Sprintf("(%d, %d%%N, %d%%N)", m.E, mid, mau))
				}
			}
			h = fmt.Sprintf("HPull (VPull %d %s %s) %s", ev.R, coqList(ims), coqList(bms), coqBool(ev.Out != "done"))
			out = "CDone"
		case "push":
			h = fmt.Sprintf("HEv (VPush %d)", ev.R)
		case "pull":
			if ev.Out != "done" {
				h = fmt.Sprintf("HNop %d", ev.R)
				break
			}
			var ims, bms, ist, bst []string
			for _, m := range ev.Merges {
				if m.Ident {
					ims = append(ims, fmt.Sprint(m.E))
					ist = append(ist, c11Status(m.Status))
				} else {
					mid, mau := 0, 0
					if m.NewIdx > 0 {
						c := s.g.commits[m.NewIdx]
						mid, mau = pr.m[c.PackID], au(c.Author)
					}
					bms = append(bms, fmt.Sprintf("(%d, %d%%N, %d%%N)", m.E, mid, mau))
					bst = append(bst, c11Status(m.Status))
				}
			}
			h = fmt.Sprintf("HEv (VPull %d %s %s)", ev.R, coqList(ims), coqList(bms))
			out = fmt.Sprintf("CPulled %s %s", coqList(ist), coqList(bst))
		case "remove":
			h = fmt.Sprintf("HEv (VRemove %d %d)", ev.R, ev.E)
		case "reopen":
			h = fmt.Sprintf("HEv (VReopen %d %d)", ev.R, ev.Wipe)
		case "observe":
			h = fmt.Sprintf("HObserve %d %s %s %s", ev.R, coqNats(ev.Order), s.coqViews(ev.Live, or), s.coqViews(ev.Rebuilt, or))
		}
		steps = append(steps, fmt.Sprintf("(%s, mkgobs (%s) %s %s %s %d%%N %d%%N %d %s %s %s)", h, out, c11Pairs(ev.Loc), c11Pairs(ev.Trk), c11Pairs(ev.Rem),
			ev.Clk, ev.CClk, ev.NSt, c11Pairs(ev.ILoc), c11Pairs(ev.ITrk), c11Pairs(ev.IRem)))
	}
	return fmt.Sprintf("mkcase %d %s %s %s %s", s.in.Cap, coqList(steps), coqList(commits), coqList(optab), coqList(idrank))
}
