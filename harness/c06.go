package main

// C06: crash points. Every write path is run once to record the sequence of storage mutations
// it issues (through a counting proxy around the repository); then, for every k, the pre-state
// directory is copied, the action is re-run with the storage "dying" at mutation k (the proxy
// panics and turns every later mutation into a refused no-op), the repository is reopened from
// disk and every entity is read. Clock files are additionally torn (every proper prefix).

import (
	"encoding/json"
	"errors"
	"fmt"
	"os"
	"os/exec"
	"path/filepath"
	"sort"
	"strings"

	"github.com/99designs/keyring"
	"github.com/ProtonMail/go-crypto/openpgp"

	"github.com/MichaelMure/git-bug/entities/bug"
	"github.com/MichaelMure/git-bug/entities/identity"
	"github.com/MichaelMure/git-bug/entity"
	"github.com/MichaelMure/git-bug/repository"
	"github.com/MichaelMure/git-bug/util/lamport"
)

type c06Input struct {
	Scenario string `json:"scenario"` // new-bug | edit-bug | merge-diverged | new-identity | mutate-identity | pull-many
	NPacks   int    `json:"npacks"`   // author runs in the staging area (1..3)
	NOps     int    `json:"nops"`
	Salt     int    `json:"salt"`
}

type c06Driver struct{}

func init() { register("C06", c06Driver{}) }

func (c06Driver) Gen(r *Rand, tier string) []json.RawMessage {
	var res []json.RawMessage
	reps := 1
	if tier == "thorough" {
		reps = 12
	}
	for k := 0; k < reps; k++ {
		for _, sc := range []string{"new-bug", "edit-bug", "merge-diverged", "new-identity", "mutate-identity", "pull-many", "pull-bugs", "pull-identities"} {
			for np := 1; np <= 3; np++ {
				if (sc == "new-identity" || sc == "mutate-identity" || sc == "merge-diverged" || sc == "pull-bugs" || sc == "pull-identities") && np > 1 {
					continue
				}
				res = append(res, mustJSON(c06Input{Scenario: sc, NPacks: np, NOps: r.Range(1, 3), Salt: r.Intn(1000)}))
			}
		}
	}
	return res
}

var errDead = errors.New("verif: storage is dead (simulated crash)")

type crashPanic struct{}

// crashRepo counts storage mutations and dies at mutation number trip (0-based).
type crashRepo struct {
	repository.TestedRepo
	trip  int
	count int
	dead  bool
	soft  bool // do not panic (the mutation happens in a goroutine the caller cannot recover): just die
	// faultOnce: mutation number trip fails with an error, once; the storage stays alive
	faultOnce bool
	trace []string
}

func (c *crashRepo) tick(what string) bool {
	if c.dead {
		return false
	}
	if c.count == c.trip && c.faultOnce {
		c.trip = -1
		return false
	}
	if c.count == c.trip {
		c.dead = true
		if c.soft {
			return false
		}
		panic(crashPanic{})
	}
	c.count++
	c.trace = append(c.trace, what)
	return true
}
func (c *crashRepo) StoreData(data []byte) (repository.Hash, error) {
	if !c.tick("obj") {
		return "", errDead
	}
	return c.TestedRepo.StoreData(data)
}
func (c *crashRepo) StoreTree(m []repository.TreeEntry) (repository.Hash, error) {
	if !c.tick("obj") {
		return "", errDead
	}
	return c.TestedRepo.StoreTree(m)
}
func (c *crashRepo) StoreCommit(t repository.Hash, p ...repository.Hash) (repository.Hash, error) {
	if !c.tick("obj") {
		return "", errDead
	}
	return c.TestedRepo.StoreCommit(t, p...)
}
func (c *crashRepo) StoreSignedCommit(t repository.Hash, k *openpgp.Entity, p ...repository.Hash) (repository.Hash, error) {
	if !c.tick("obj") {
		return "", errDead
	}
	return c.TestedRepo.StoreSignedCommit(t, k, p...)
}
func (c *crashRepo) FetchRefs(remote string, prefixes ...string) (string, error) {
	if !c.tick("fetch") {
		return "", errDead
	}
	return c.TestedRepo.FetchRefs(remote, prefixes...)
}
func (c *crashRepo) UpdateRef(ref string, h repository.Hash) error {
	if !c.tick("ref:" + ref) {
		return errDead
	}
	return c.TestedRepo.UpdateRef(ref, h)
}
func (c *crashRepo) CopyRef(src, dst string) error {
	if !c.tick("ref:" + dst) {
		return errDead
	}
	return c.TestedRepo.CopyRef(src, dst)
}
func (c *crashRepo) RemoveRef(ref string) error {
	if !c.tick("ref:" + ref) {
		return errDead
	}
	return c.TestedRepo.RemoveRef(ref)
}
func (c *crashRepo) Increment(name string) (lamport.Time, error) {
	if !c.tick("clock:" + name) {
		return 0, errDead
	}
	return c.TestedRepo.Increment(name)
}
func (c *crashRepo) Witness(name string, t lamport.Time) error {
	// a witness that does not move the clock still rewrites the file: count only real changes
	if c.dead {
		return errDead
	}
	cl, err := c.TestedRepo.GetOrCreateClock(name)
	if err == nil && cl.Time() >= t {
		return c.TestedRepo.Witness(name, t)
	}
	if !c.tick("clock:" + name) {
		return errDead
	}
	return c.TestedRepo.Witness(name, t)
}

func copyDir(src, dst string) error {
	return exec.Command("cp", "-a", src, dst).Run()
}

func openRepo(path string) (repository.TestedRepo, error) {
	g, err := repository.OpenGoGitRepo(path, "git-bug", []repository.ClockLoader{bug.ClockLoader})
	if err != nil {
		return nil, err
	}
	return krRepoOf(g), nil
}

// digest of every local entity: id -> state string
func digest(repo repository.TestedRepo) (map[string]string, uint64) {
	res := map[string]string{}
	var maxEdit uint64
	ids, _ := bug.ListLocalIds(repo)
	for _, id := range ids {
		b, err := bug.Read(repo, id)
		if err != nil {
			res["bug:"+string(id)] = "UNREADABLE: " + err.Error()
			continue
		}
		var ops []string
		for _, op := range b.Operations() {
			ops = append(ops, string(op.Id())[:10])
		}
		res["bug:"+string(id)] = strings.Join(ops, ",")
		if uint64(b.EditLamportTime()) > maxEdit {
			maxEdit = uint64(b.EditLamportTime())
		}
	}
	iids, _ := identity.ListLocalIds(repo)
	for _, id := range iids {
		_, err := identity.ReadLocal(repo, id)
		if err != nil {
			res["identity:"+string(id)] = "UNREADABLE: " + err.Error()
			continue
		}
		res["identity:"+string(id)] = strings.Join(refCommits(repo, "refs/identities/"+string(id)), ",")
	}
	return res, maxEdit
}

type c06Crash struct {
	K        int               `json:"k"`
	Opened   bool              `json:"opened"`
	OpenErr  string            `json:"open_err,omitempty"`
	Verdicts map[string]string `json:"verdicts"` // entity -> old | new | other
	ClockOK  bool              `json:"clock_ok"`
	RedoOK   bool              `json:"redo_ok"`
	RedoErr  string            `json:"redo_err,omitempty"`
}

func (c06Driver) Run(raw json.RawMessage) Case {
	var in c06Input
	if err := json.Unmarshal(raw, &in); err != nil {
		return Case{Skip: "bad input"}
	}
	dir, err := os.MkdirTemp("", "verif-c06-")
	if err != nil {
		panic(err)
	}
	defer os.RemoveAll(dir)
	must := func(err error, what string) {
		if err != nil {
			panic(what + ": " + err.Error())
		}
	}
	// ---- pre-state ----
	remote, err := newTestRepo(dir+"/remote", true)
	must(err, "remote")
	pre, err := newTestRepo(dir+"/pre", false)
	must(err, "pre")
	peer, err := newTestRepo(dir+"/peer", false)
	must(err, "peer")
	_ = pre.AddRemote("origin", remote.GetLocalRemote())
	_ = peer.AddRemote("origin", remote.GetLocalRemote())
	// two-digit clock values, so that a torn clock file has a non-empty proper prefix
	_ = pre.Witness("bugs-edit", 11)
	_ = pre.Witness("bugs-create", 11)
	var authorIDs []entity.Id
	for a := 0; a < 3; a++ {
		id, err := identity.NewIdentity(pre, fmt.Sprintf("author%d", a), fmt.Sprintf("a%d@x.org", a))
		must(err, "identity")
		must(id.Commit(pre), "identity commit")
		authorIDs = append(authorIDs, id.Id())
	}
	_, err = identity.Push(pre, "origin")
	must(err, "identity push")
	must(identity.Pull(peer, "origin"), "identity pull")
	// two existing bugs shared by both sides
	var bugIDs []entity.Id
	a0, _ := identity.ReadLocal(pre, authorIDs[0])
	for i := 0; i < 2; i++ {
		b, _, err := bug.Create(a0, int64(1600000000+i), fmt.Sprintf("bug %d", i), "message", nil, nil)
		must(err, "create")
		_, _, _ = bug.AddComment(b, a0, int64(1600000010+i), "first comment", nil, nil)
		must(b.Commit(pre), "commit")
		bugIDs = append(bugIDs, b.Id())
	}
	_, err = bug.Push(pre, "origin")
	must(err, "push")
	peerRes := entity.Resolvers{&identity.Identity{}: identity.NewSimpleResolver(peer)}
	p0, _ := identity.ReadLocal(peer, authorIDs[1])
	must(bug.Pull(peer, peerRes, "origin", p0), "peer pull")
	if in.Scenario == "pull-identities" {
		// the peer publishes a new identity and a new version of an existing one
		ni, err := identity.NewIdentity(peer, "peer newcomer", "pn@x.org")
		must(err, "peer identity")
		must(ni.Commit(peer), "peer identity commit")
		pa, err := identity.ReadLocal(peer, authorIDs[2])
		must(err, "peer read identity")
		must(pa.Mutate(peer, func(m *identity.Mutator) { m.Name = "renamed by the peer" }), "peer mutate")
		must(pa.Commit(peer), "peer mutate commit")
		_, err = identity.Push(peer, "origin")
		must(err, "peer identity push")
	}
	if in.Scenario == "merge-diverged" || in.Scenario == "pull-many" || in.Scenario == "pull-bugs" {
		// the peer edits bug 0 (-> diverged after our own edit), bug 1 (-> fast-forward) and creates a new one
		pb, err := bug.Read(peer, bugIDs[0])
		must(err, "peer read")
		_, _, _ = bug.AddComment(pb, p0, 1600000100, "peer comment", nil, nil)
		must(pb.Commit(peer), "peer commit")
		if in.Scenario == "pull-many" || in.Scenario == "pull-bugs" {
			pb1, _ := bug.Read(peer, bugIDs[1])
			_, _, _ = bug.AddComment(pb1, p0, 1600000101, "peer comment on 1", nil, nil)
			must(pb1.Commit(peer), "peer commit 1")
			nb, _, _ := bug.Create(p0, 1600000102, "peer's new bug", "m", nil, nil)
			must(nb.Commit(peer), "peer new")
		}
		_, err = bug.Push(peer, "origin")
		must(err, "peer push")
		lb, err := bug.Read(pre, bugIDs[0])
		must(err, "local read")
		_, _, _ = bug.AddComment(lb, a0, 1600000103, "local comment", nil, nil)
		must(lb.Commit(pre), "local commit")
		if in.Scenario != "pull-bugs" {
			_, err = bug.Fetch(pre, "origin")
			must(err, "fetch")
		}
	}
	_ = pre.Close()
	_ = peer.Close()
	_ = remote.Close()
	prePath := dir + "/pre"

	// ---- the action ----
	action := func(repo repository.ClockedRepo) error {
		authors := make([]*identity.Identity, 3)
		for i, id := range authorIDs {
			x, err := identity.ReadLocal(repo, id)
			if err != nil {
				return err
			}
			authors[i] = x
		}
		appendOps := func(b *bug.Bug) {
			for p := 0; p < in.NPacks; p++ {
				for j := 0; j < in.NOps; j++ {
					if p == 0 && j == 0 && len(b.Operations()) == 1 && b.NeedCommit() {
						continue
					}
					_, _, _ = bug.AddComment(b, authors[p%3], int64(1600000200+p*10+j), fmt.Sprintf("comment %d/%d/%d", in.Salt, p, j), nil, nil)
				}
			}
		}
		switch in.Scenario {
		case "new-bug":
			b, _, err := bug.Create(authors[0], int64(1600000150+in.Salt), fmt.Sprintf("new bug %d", in.Salt), "m", nil, nil)
			if err != nil {
				return err
			}
			appendOps(b)
			return b.Commit(repo)
		case "edit-bug":
			b, err := bug.Read(repo, bugIDs[0])
			if err != nil {
				return err
			}
			appendOps(b)
			return b.Commit(repo)
		case "new-identity":
			x, err := identity.NewIdentity(repo, fmt.Sprintf("newcomer %d", in.Salt), "n@x.org")
			if err != nil {
				return err
			}
			return x.Commit(repo)
		case "mutate-identity":
			x := authors[2]
			for j := 0; j < in.NOps; j++ {
				if err := x.Mutate(repo, func(m *identity.Mutator) { m.Name = fmt.Sprintf("renamed %d %d", in.Salt, j) }); err != nil {
					return err
				}
			}
			return x.Commit(repo)
		case "pull-bugs":
			res := entity.Resolvers{&identity.Identity{}: identity.NewSimpleResolver(repo)}
			return bug.Pull(repo, res, "origin", authors[0])
		case "pull-identities":
			return identity.Pull(repo, "origin")
		case "merge-diverged", "pull-many":
			res := entity.Resolvers{&identity.Identity{}: identity.NewSimpleResolver(repo)}
			// drain the channel: the merging goroutine must have finished before the repository is closed
			var first error
			for mr := range bug.MergeAll(repo, res, "origin", authors[0]) {
				if mr.Err != nil && first == nil {
					first = mr.Err
				}
			}
			return first
		}
		return fmt.Errorf("unknown scenario")
	}
	runAt := func(path string, trip int) (trace []string, crashed bool, err error) {
		r, err := openRepo(path)
		if err != nil {
			return nil, false, err
		}
		cr := &crashRepo{TestedRepo: r, trip: trip, soft: in.Scenario == "merge-diverged" || in.Scenario == "pull-many" || in.Scenario == "pull-bugs" || in.Scenario == "pull-identities"}
		func() {
			defer func() {
				if p := recover(); p != nil {
					if _, ok := p.(crashPanic); ok {
						crashed = true
						return
					}
					panic(p)
				}
			}()
			err = action(cr)
		}()
		if cr.dead {
			crashed = true
		}
		_ = r.Close()
		return cr.trace, crashed, err
	}

	// reference run
	oldPath, newPath := dir+"/old", dir+"/new"
	must(copyDir(prePath, oldPath), "copy old")
	must(copyDir(prePath, newPath), "copy new")
	trace, _, err := runAt(newPath, 1<<30)
	if err != nil {
		return Case{Skip: "reference run failed: " + err.Error()}
	}
	ro, err := openRepo(oldPath)
	must(err, "open old")
	oldD, _ := digest(ro)
	_ = ro.Close()
	rn, err := openRepo(newPath)
	must(err, "open new")
	newD, _ := digest(rn)
	_ = rn.Close()
	// entities, in a fixed order; which ref names them. An entity created by the action itself
	// (new-bug, new-identity) gets a different id on every run (random nonce): it is "the fresh
	// entity", index len(ents), and is left out of ents.
	fresh := in.Scenario == "new-bug" || in.Scenario == "new-identity"
	freshKey := ""
	var ents []string
	seen := map[string]bool{}
	for k := range newD {
		if fresh && oldD[k] == "" {
			freshKey = k
			continue
		}
		if !seen[k] {
			seen[k] = true
			ents = append(ents, k)
		}
	}
	for k := range oldD {
		if !seen[k] {
			seen[k] = true
			ents = append(ents, k)
		}
	}
	sort.Strings(ents)
	// new entities get a different id on every run when they carry a nonce/time: match them by "the only new key"
	changed := []string{}
	for _, e := range ents {
		if oldD[e] != newD[e] {
			changed = append(changed, e)
		}
	}
	_ = freshKey

	var crashes []c06Crash
	allOK := true
	for k := 0; k < len(trace); k++ {
		p := fmt.Sprintf("%s/crash%d", dir, k)
		must(copyDir(prePath, p), "copy crash")
		_, crashed, _ := runAt(p, k)
		cobs := c06Crash{K: k, Verdicts: map[string]string{}}
		if !crashed {
			cobs.OpenErr = "the run did not reach mutation k (non-deterministic path)"
		}
		r, err := openRepo(p)
		if err != nil {
			cobs.Opened, cobs.OpenErr = false, err.Error()
			if ents, e2 := os.ReadDir(filepath.Join(p, ".git", "git-bug", "clocks")); e2 == nil {
				for _, f := range ents {
					b, _ := os.ReadFile(filepath.Join(p, ".git", "git-bug", "clocks", f.Name()))
					cobs.OpenErr += fmt.Sprintf(" [%s=%q]", f.Name(), string(b))
				}
			}
			crashes = append(crashes, cobs)
			allOK = false
			_ = os.RemoveAll(p)
			continue
		}
		cobs.Opened = true
		ec := clockOf(r, "bugs-edit") // before any read witnesses anything
		d, maxEdit := digest(r)
		// verdict per entity of the crash state; entities created by the interrupted action have run-specific ids:
		// an entity unknown to both reference states is "new" if it is readable and the reference run created one
		for e, st := range d {
			switch {
			case st == oldD[e] && oldD[e] != "":
				cobs.Verdicts[e] = "old"
			case strings.HasPrefix(st, "UNREADABLE"):
				cobs.Verdicts[e] = "other"
			case oldD[e] == "" && newD[e] == "":
				// created by this run of the action
				cobs.Verdicts[e] = "new-entity"
			case len(st) > len(oldD[e]) && strings.HasPrefix(st, oldD[e]):
				cobs.Verdicts[e] = "new"
			default:
				// merges reorder nothing but add a merge commit: compare op sets
				if sameSet(st, newD[e]) {
					cobs.Verdicts[e] = "new"
				} else {
					cobs.Verdicts[e] = "other"
				}
			}
		}
		for _, e := range ents {
			if _, ok := d[e]; !ok {
				if oldD[e] == "" {
					cobs.Verdicts[e] = "old" // did not exist before, does not exist now
				} else {
					cobs.Verdicts[e] = "other" // an entity disappeared
				}
			}
		}
		cobs.ClockOK = ec >= maxEdit
		_ = r.Close()
		// redo: repeat the interrupted action to completion
		_, _, rerr := runAt(p, 1<<30)
		if rerr != nil {
			cobs.RedoErr = rerr.Error()
		} else {
			r2, err := openRepo(p)
			if err == nil {
				d2, _ := digest(r2)
				cobs.RedoOK = true
				for _, st := range d2 {
					if strings.HasPrefix(st, "UNREADABLE") {
						cobs.RedoOK = false
					}
				}
				// every entity changed by the reference run is changed now too
				for _, e := range changed {
					if oldD[e] != "" && d2[e] == oldD[e] {
						cobs.RedoOK = false
					}
				}
				if len(d2) < len(newD) {
					cobs.RedoOK = false
				}
				if fresh && len(d2) != len(newD) && len(d2) != len(newD)+1 {
					// a crash after the ref update followed by a redo legitimately creates a second entity
					cobs.RedoOK = false
				}
				_ = r2.Close()
			}
		}
		crashes = append(crashes, cobs)
		_ = os.RemoveAll(p)
	}

	// ---- torn clock files: every proper prefix of the final content, and the empty file ----
	type tornObs struct {
		Clock   string `json:"clock"`
		Content string `json:"content"`
		Opened  bool   `json:"opened"`
		Err     string `json:"err,omitempty"`
		Value   uint64 `json:"value"`
		Needed  uint64 `json:"needed"`
	}
	var torn []tornObs
	// (clock-file tearing is the C06c driver's business)
	// ---- Coq term ----
	entIdx := map[string]int{}
	for i, e := range ents {
		entIdx[e] = i
	}
	refEnt := func(ref string) int {
		id := ref[strings.LastIndex(ref, "/")+1:]
		kind := "bug:"
		if strings.Contains(ref, "identities") {
			kind = "identity:"
		}
		if i, ok := entIdx[kind+id]; ok {
			return i
		}
		return len(ents) // the fresh entity
	}
	var tr []string
	for _, t := range trace {
		switch {
		case t == "obj", t == "fetch":
			tr = append(tr, "MObj")
		case strings.HasPrefix(t, "clock:"):
			tr = append(tr, "MClock")
		case strings.HasPrefix(t, "ref:"):
			tr = append(tr, fmt.Sprintf("MRef %d", refEnt(t[4:])))
		}
	}
	var cs []string
	for _, c := range crashes {
		var vs []string
		var keys []string
		for e := range c.Verdicts {
			keys = append(keys, e)
		}
		sort.Strings(keys)
		for _, e := range keys {
			i, ok := entIdx[e]
			if !ok {
				i = len(ents)
			}
			v := map[string]string{"old": "VOld", "new": "VNew", "other": "VOther", "new-entity": "VNew"}[c.Verdicts[e]]
			vs = append(vs, fmt.Sprintf("(%d, %s)", i, v))
		}
		if !c.Opened || !c.ClockOK || !c.RedoOK {
			allOK = false
		}
		cs = append(cs, fmt.Sprintf("mkcrash %d %s %s %s %s", c.K, coqBool(c.Opened), coqList(vs), coqBool(c.ClockOK), coqBool(c.RedoOK)))
	}
	var ts []string
	tornOK := true
	for _, t := range torn {
		ok := t.Opened && t.Value >= t.Needed
		if !ok {
			tornOK = false
		}
		ts = append(ts, coqBool(ok))
	}
	// which entities the reference run changed
	var ch []string
	for _, e := range changed {
		ch = append(ch, fmt.Sprint(entIdx[e]))
	}
	newEntity := fresh
	term := fmt.Sprintf("mkcase6 %d %s %s %s %s %s", len(ents), coqBool(newEntity), coqList(tr), "["+strings.Join(ch, "; ")+"]", coqList(cs), coqList(ts))
	tags := []string{"scenario:" + in.Scenario, fmt.Sprintf("packs:%d", in.NPacks)}
	if !tornOK {
		tags = append(tags, "torn-clock-failed")
	}
	if !allOK {
		tags = append(tags, "crash-point-failed")
	}
	obs := map[string]interface{}{"trace": trace, "crashes": crashes, "torn": torn, "changed": changed}
	return Case{Coq: term, Obs: obs, Tags: tags, NonTrivial: len(trace) > 2, Key: string(raw)}
}

func sameSet(a, b string) bool {
	xs, ys := strings.Split(a, ","), strings.Split(b, ",")
	sort.Strings(xs)
	sort.Strings(ys)
	return strings.Join(xs, ",") == strings.Join(ys, ",")
}

func krRepoOf(g *repository.GoGitRepo) repository.TestedRepo {
	return krRepo{TestedRepo: g, kr: keyring.NewArrayKeyring(nil)}
}

// ---------------------------------------------------------------------------------------------
// C06c: the clock-file write protocol. The file operations PersistedClock issues for one
// Increment are traced on an instrumented billy filesystem; the crash states reachable under the
// observed protocol (in place: every prefix of the new content; write-aside + rename: old or new
// content, plus a zero-length file, which a rename without fsync may leave after a power loss)
// are loaded back, by the lamport package and by OpenGoGitRepo with the clock loaders.

type c06cInput struct {
	Old uint64 `json:"old"`
}

type c06cDriver struct{}

func init() { register("C06c", c06cDriver{}) }

func (c06cDriver) Gen(r *Rand, tier string) []json.RawMessage {
	vals := []uint64{1, 9, 13, 99, 100, 4999, 1000000, 18446744073709551613}
	n := 4
	if tier == "thorough" {
		n = 200
	}
	for i := 0; i < n; i++ {
		vals = append(vals, r.U64()>>uint(r.Intn(60)))
	}
	var res []json.RawMessage
	for _, v := range vals {
		if v == 0 {
			v = 1
		}
		res = append(res, mustJSON(c06cInput{Old: v}))
	}
	return res
}

func (c06cDriver) Run(raw json.RawMessage) Case {
	var in c06cInput
	if err := json.Unmarshal(raw, &in); err != nil || in.Old == 0 {
		return Case{Skip: "bad input"}
	}
	fs := newTraceFS()
	const path = "clocks/bugs-edit"
	c, err := lamport.NewPersistedClock(fs, path)
	if err != nil {
		return Case{Skip: "new clock: " + err.Error()}
	}
	if err := c.Witness(lamport.Time(in.Old)); err != nil {
		return Case{Skip: "witness: " + err.Error()}
	}
	oldContent := fs.content(path)
	fs.ops = nil
	fs.events = nil
	nv, err := c.Increment()
	if err != nil {
		return Case{Skip: "increment: " + err.Error()}
	}
	newContent := fs.content(path)
	inPlace, renamed := false, false
	for _, op := range fs.ops {
		if op == "trunc:"+path {
			inPlace = true
		}
		if strings.HasPrefix(op, "rename:") && strings.HasSuffix(op, "->"+path) {
			renamed = true
		}
	}
	proto := "unknown"
	switch {
	case inPlace:
		proto = "inplace"
	case renamed:
		proto = "rename"
	}
	// ---- crash states of the files the write touched: before each file operation, inside each write, after the last
	type fstate map[string]string
	clone := func(m fstate) fstate {
		r := fstate{}
		for k, v := range m {
			r[k] = v
		}
		return r
	}
	cur := fstate{path: oldContent}
	var fstates []fstate
	for _, ev := range fs.events {
		fstates = append(fstates, clone(cur))
		switch ev.Kind {
		case "trunc":
			cur[ev.Name] = ""
		case "write":
			for i := 1; i < len(ev.Data); i++ {
				t := clone(cur)
				t[ev.Name] += ev.Data[:i]
				fstates = append(fstates, t)
			}
			cur[ev.Name] += ev.Data
		case "rename":
			if v, ok := cur[ev.Name]; ok {
				cur[ev.To] = v
				delete(cur, ev.Name)
			}
		case "remove":
			delete(cur, ev.Name)
		}
	}
	fstates = append(fstates, clone(cur))
	// the zero-length clock file: in-place truncation, or rename without fsync + power loss
	fstates = append(fstates, fstate{path: ""})
	if proto != "rename" {
		for i := 1; i < len(newContent); i++ {
			fstates = append(fstates, fstate{path: newContent[:i]})
		}
	}
	// path numbering for the model: 0 is the clock
	pathID := map[string]int{path: 0}
	var inDir []string
	pid := func(pth string) int {
		pth = filepath.Clean(pth)
		if id, ok := pathID[pth]; ok {
			return id
		}
		id := len(pathID)
		pathID[pth] = id
		if filepath.Dir(pth) == "clocks" {
			inDir = append(inDir, coqNat(id))
		}
		return id
	}
	var evTerms []string
	for _, ev := range fs.events {
		switch ev.Kind {
		case "trunc":
			evTerms = append(evTerms, fmt.Sprintf("FTrunc %d", pid(ev.Name)))
		case "write":
			evTerms = append(evTerms, fmt.Sprintf("FWrite %d %s", pid(ev.Name), coqRunes(ev.Data)))
		case "rename":
			evTerms = append(evTerms, fmt.Sprintf("FRename %d %d", pid(ev.Name), pid(ev.To)))
		case "remove":
			evTerms = append(evTerms, fmt.Sprintf("FRemove %d", pid(ev.Name)))
		}
	}
	inDir = append([]string{"0"}, inDir...)

	// ---- a real repository: an identity and two bugs with several commits each
	dir, err := os.MkdirTemp("", "verif-c06c-")
	if err != nil {
		panic(err)
	}
	defer os.RemoveAll(dir)
	repo, err := newTestRepo(dir+"/r", false)
	if err != nil {
		panic(err)
	}
	needed := in.Old
	if needed > 1<<40 {
		needed = 1 << 40 // keep the stored history cheap to build: the needed value is what is stored
	}
	if needed > 3 {
		_ = repo.Witness("bugs-edit", lamport.Time(needed-3))
	}
	_ = repo.Witness("bugs-create", 1)
	au, err := identity.NewIdentity(repo, "a", "a@x.org")
	if err != nil {
		panic(err)
	}
	_ = au.Commit(repo)
	var theBug *bug.Bug
	for k := 0; k < 2; k++ {
		b, _, err := bug.Create(au, 1600000000, fmt.Sprintf("t%d", k), "m", nil, nil)
		if err != nil {
			panic(err)
		}
		if err := b.Commit(repo); err != nil {
			panic(err)
		}
		for j := 0; j < 2-k; j++ {
			if _, _, err := bug.AddComment(b, au, 1600000100, fmt.Sprintf("c%d", j), nil, nil); err != nil {
				panic(err)
			}
			if err := b.Commit(repo); err != nil {
				panic(err)
			}
		}
		if k == 0 {
			theBug = b
		}
	}
	// highest stored times, read back from the entities
	var stored, storedCreate uint64
	{
		ids, _ := bug.ListLocalIds(repo)
		for _, id := range ids {
			b, err := bug.Read(repo, id)
			if err != nil {
				panic(err)
			}
			if uint64(b.EditLamportTime()) > stored {
				stored = uint64(b.EditLamportTime())
			}
			if uint64(b.CreateLamportTime()) > storedCreate {
				storedCreate = uint64(b.CreateLamportTime())
			}
		}
	}
	baseNames, _ := repo.AllClocks()
	_ = repo.Close()
	gb := func(p string) string { return filepath.Join(p, ".git", "git-bug") }

	usable := func(r repository.TestedRepo) (bool, string) {
		cl, err := r.AllClocks()
		if err != nil {
			return false, "AllClocks: " + err.Error()
		}
		if len(cl) != len(baseNames) {
			var names []string
			for n := range cl {
				names = append(names, n)
			}
			sort.Strings(names)
			return false, "clocks listed: " + strings.Join(names, ",")
		}
		for n := range cl {
			if _, ok := baseNames[n]; !ok {
				return false, "unexpected clock " + n
			}
		}
		ni, err := identity.NewIdentity(r, "n", "n@x.org")
		if err != nil {
			return false, "new identity: " + err.Error()
		}
		if err := ni.Commit(r); err != nil {
			return false, "new identity commit: " + err.Error()
		}
		old, err := identity.ReadLocal(r, au.Id())
		if err != nil {
			return false, "read identity: " + err.Error()
		}
		if err := old.Mutate(r, func(m *identity.Mutator) { m.Name = "a1" }); err != nil {
			return false, "mutate identity: " + err.Error()
		}
		if err := old.Commit(r); err != nil {
			return false, "identity commit: " + err.Error()
		}
		b, err := bug.Read(r, theBug.Id())
		if err != nil {
			return false, "read bug: " + err.Error()
		}
		if _, _, err := bug.AddComment(b, old, 1600000200, "after the crash", nil, nil); err != nil {
			return false, "comment: " + err.Error()
		}
		if err := b.Commit(r); err != nil {
			return false, "bug commit: " + err.Error()
		}
		if _, err := bug.Read(r, theBug.Id()); err != nil {
			return false, "read back bug: " + err.Error()
		}
		if err := old.Mutate(r, func(m *identity.Mutator) { m.Name = "a2" }); err != nil {
			return false, "second mutate: " + err.Error()
		}
		if err := old.Commit(r); err != nil {
			return false, "second identity commit: " + err.Error()
		}
		if _, err := identity.ReadLocal(r, au.Id()); err != nil {
			return false, "read back identity: " + err.Error()
		}
		return true, ""
	}

	type st struct {
		Files     map[string]string `json:"files"`
		Content   string            `json:"content"`
		Extra     int               `json:"extra"`
		LoadOK    bool              `json:"load_ok"`
		LoadVal   uint64            `json:"load_val"`
		RepoOpen  bool              `json:"repo_opens"`
		RepoErr   string            `json:"repo_err,omitempty"`
		RepoVal   uint64            `json:"repo_clock"`
		Usable    bool              `json:"usable"`
		UsableErr string            `json:"usable_err,omitempty"`
	}
	// the content of the trace, scaled to the stored history: old -> the stored time, new -> the next one
	scale := func(content string) string {
		switch {
		case content == newContent:
			return fmt.Sprint(stored + 1)
		case content == oldContent:
			return fmt.Sprint(stored)
		case content == "":
			return ""
		}
		sN := fmt.Sprint(stored + 1)
		if len(content) < len(sN) {
			return sN[:len(content)]
		}
		return sN[:len(sN)-1]
	}
	var sts []st
	var terms []string
	seen := map[string]bool{}
	for i, fsx := range fstates {
		key := fmt.Sprint(fsx)
		if seen[key] {
			continue
		}
		seen[key] = true
		content := fsx[path]
		x := st{Files: fsx, Content: content}
		for pth := range fsx {
			if filepath.Clean(pth) != path && filepath.Dir(filepath.Clean(pth)) == "clocks" {
				x.Extra++
			}
		}
		m := newTraceFS()
		m.put(path, content)
		lc, err := lamport.LoadPersistedClock(m, path)
		if err == nil {
			x.LoadOK, x.LoadVal = true, uint64(lc.Time())
		}
		p := fmt.Sprintf("%s/s%d", dir, i)
		_ = copyDir(dir+"/r", p)
		_ = os.Remove(filepath.Join(gb(p), path))
		for pth, cont := range fsx {
			_ = os.MkdirAll(filepath.Dir(filepath.Join(gb(p), pth)), 0755)
			_ = os.WriteFile(filepath.Join(gb(p), pth), []byte(scale(cont)), 0644)
		}
		r, err := openRepo(p)
		if err != nil {
			x.RepoErr = err.Error()
		} else {
			x.RepoOpen = true
			x.RepoVal = clockOf(r, "bugs-edit")
			x.Usable, x.UsableErr = usable(r)
			_ = r.Close()
		}
		_ = os.RemoveAll(p)
		sts = append(sts, x)
		lv := "None"
		if x.LoadOK {
			lv = fmt.Sprintf("(Some %d%%N)", x.LoadVal)
		}
		terms = append(terms, fmt.Sprintf("mkcstate %s %d %s %s %s %s", coqRunes(content), x.Extra, lv, coqBool(x.RepoOpen),
			coqBool(x.RepoOpen && x.RepoVal >= stored), coqBool(x.Usable)))
	}

	// ---- crash points of the clock rebuild: the process dies after k witnesses reached the storage
	type rb struct {
		Variant  string      `json:"variant"`
		K        int         `json:"k"`
		Calls    [][2]uint64 `json:"calls"`
		Complete bool        `json:"complete"`
		Marker   bool        `json:"marker"`
		After    []string    `json:"after"`
		Reopen   bool        `json:"reopen"`
		ReopenE  string      `json:"reopen_err,omitempty"`
		Final    []string    `json:"final"`
	}
	clockNames := []string{"bugs-create", "bugs-edit"}
	readClockFile := func(p, name string) string { // missing | broken | value
		b, err := os.ReadFile(filepath.Join(gb(p), "clocks", name))
		if err != nil {
			return "missing"
		}
		var v uint64
		if n, err := fmt.Sscanf(string(b), "%d", &v); err != nil || n != 1 {
			return "broken"
		}
		return fmt.Sprint(v)
	}
	cfTerm := func(sx string) string {
		switch sx {
		case "missing":
			return "Missing"
		case "broken":
			return "Broken"
		}
		return "(Val " + sx + "%N)"
	}
	rootFiles := func(p string) map[string]bool {
		res := map[string]bool{}
		es, _ := os.ReadDir(gb(p))
		for _, e := range es {
			if !e.IsDir() {
				res[e.Name()] = true
			}
		}
		return res
	}
	variants := []struct {
		name string
		prep map[string]string // clock name -> "" (delete) | content
	}{
		{"both-missing", map[string]string{"bugs-create": "", "bugs-edit": ""}},
		{"edit-missing", map[string]string{"bugs-edit": ""}},
		{"create-missing-edit-stale", map[string]string{"bugs-create": "", "bugs-edit": "=1"}},
		{"edit-broken", map[string]string{"bugs-edit": "=x"}},
		{"both-broken", map[string]string{"bugs-create": "=", "bugs-edit": "=-"}},
	}
	var rbs []rb
	var rterms []string
	for vi, v := range variants {
		base := fmt.Sprintf("%s/v%d", dir, vi)
		_ = copyDir(dir+"/r", base)
		for name, what := range v.prep {
			f := filepath.Join(gb(base), "clocks", name)
			if what == "" {
				_ = os.Remove(f)
			} else {
				_ = os.WriteFile(f, []byte(what[1:]), 0644)
			}
		}
		var init []string
		for _, n := range clockNames {
			init = append(init, cfTerm(readClockFile(base, n)))
		}
		before := rootFiles(base)
		total := -1
		for k := 0; total < 0 || k <= total; k++ {
			p := fmt.Sprintf("%s/v%d-k%d", dir, vi, k)
			_ = copyDir(base, p)
			dy := &dyingClocks{limit: k}
			loader := repository.ClockLoader{Clocks: bug.ClockLoader.Clocks, Witnesser: func(r repository.ClockedRepo) error {
				dy.ClockedRepo = r
				return bug.ClockLoader.Witnesser(dy)
			}}
			g, err := repository.OpenGoGitRepo(p, "git-bug", []repository.ClockLoader{loader})
			x := rb{Variant: v.name, K: k, Complete: err == nil && !dy.dead}
			if g != nil {
				_ = g.Close()
			}
			if x.Complete && total < 0 {
				total = k
			}
			for _, cl := range dy.calls {
				x.Calls = append(x.Calls, cl)
			}
			for f := range rootFiles(p) {
				if !before[f] {
					x.Marker = true
				}
			}
			for _, n := range clockNames {
				x.After = append(x.After, readClockFile(p, n))
			}
			r, err := openRepo(p)
			if err != nil {
				x.ReopenE = err.Error()
			} else {
				x.Reopen = true
				_ = r.Close()
			}
			for _, n := range clockNames {
				x.Final = append(x.Final, readClockFile(p, n))
			}
			_ = os.RemoveAll(p)
			rbs = append(rbs, x)
			var calls, after, final []string
			for _, cl := range x.Calls {
				calls = append(calls, fmt.Sprintf("(%d, %d%%N)", cl[0], cl[1]))
			}
			for _, a := range x.After {
				after = append(after, cfTerm(a))
			}
			for _, a := range x.Final {
				final = append(final, cfTerm(a))
			}
			rterms = append(rterms, fmt.Sprintf("mkrcase %s %s %s (mkdisk %s %s) %s %s [%d%%N; %d%%N]", coqList(init), coqList(calls), coqBool(x.Complete),
				coqBool(x.Marker), coqList(after), coqBool(x.Reopen), coqList(final), storedCreate, stored))
			if k > 64 {
				break
			}
		}
		_ = os.RemoveAll(base)
	}

	p := map[string]string{"inplace": "PInPlace", "rename": "PRename", "unknown": "PUnknown"}[proto]
	term := fmt.Sprintf("mkcase6c %s %d%%N %d%%N %s %s %s %s %s %s", p, in.Old, uint64(nv), coqRunes(oldContent), coqRunes(newContent),
		coqList(evTerms), coqList(inDir), coqList(terms), coqList(rterms))
	obs := map[string]interface{}{"protocol": proto, "fs_ops": fs.ops, "fs_events": fs.events, "old": oldContent, "new": newContent, "states": sts,
		"stored_edit": stored, "stored_create": storedCreate, "rebuild": rbs}
	tags := []string{"protocol:" + proto}
	for _, x := range sts {
		if x.Extra > 0 {
			tags = append(tags, "leftover-in-clocks-dir")
			break
		}
	}
	return Case{Coq: term, Obs: obs, Tags: tags, NonTrivial: true, Key: string(raw)}
}

// dyingClocks forwards the first `limit` witnesses of a clock rebuild to the repository, then the storage is dead.
type dyingClocks struct {
	repository.ClockedRepo
	limit int
	dead  bool
	calls [][2]uint64
}

func (d *dyingClocks) Witness(name string, t lamport.Time) error {
	if d.dead || len(d.calls) >= d.limit {
		d.dead = true
		return errDead
	}
	idx := uint64(0)
	if name == "bugs-edit" {
		idx = 1
	}
	if err := d.ClockedRepo.Witness(name, t); err != nil {
		return err
	}
	d.calls = append(d.calls, [2]uint64{idx, uint64(t)})
	return nil
}

// ---------------------------------------------------------------------------------------------
// C06r: "repeating the interrupted action completes it", in the same process: a storage call of a
// commit fails once (an error, the process lives), the same in-memory entity is committed again.

type c06rDriver struct{}

func init() { register("C06r", c06rDriver{}) }

func (c06rDriver) Gen(r *Rand, tier string) []json.RawMessage {
	var res []json.RawMessage
	n := 1
	if tier == "thorough" {
		n = 10
	}
	for k := 0; k < n; k++ {
		for _, sc := range []string{"new-bug", "edit-bug"} {
			for np := 1; np <= 3; np++ {
				res = append(res, mustJSON(c06Input{Scenario: sc, NPacks: np, NOps: r.Range(1, 3), Salt: r.Intn(1000)}))
			}
		}
	}
	return res
}

func (c06rDriver) Run(raw json.RawMessage) Case {
	var in c06Input
	if err := json.Unmarshal(raw, &in); err != nil {
		return Case{Skip: "bad input"}
	}
	dir, err := os.MkdirTemp("", "verif-c06r-")
	if err != nil {
		panic(err)
	}
	defer os.RemoveAll(dir)
	pre, err := newTestRepo(dir+"/pre", false)
	if err != nil {
		panic(err)
	}
	var authorIDs []entity.Id
	for a := 0; a < 3; a++ {
		id, err := identity.NewIdentity(pre, fmt.Sprintf("author%d", a), fmt.Sprintf("a%d@x.org", a))
		if err != nil {
			panic(err)
		}
		_ = id.Commit(pre)
		authorIDs = append(authorIDs, id.Id())
	}
	a0, _ := identity.ReadLocal(pre, authorIDs[0])
	base, _, _ := bug.Create(a0, 1600000000, "existing bug", "m", nil, nil)
	_, _, _ = bug.AddComment(base, a0, 1600000001, "c", nil, nil)
	if err := base.Commit(pre); err != nil {
		panic(err)
	}
	baseID := base.Id()
	_ = pre.Close()
	type res struct {
		K        int    `json:"k"`
		RetryOK  bool   `json:"retry_ok"`
		IDStable bool   `json:"id_stable"`
		ReadBack bool   `json:"read_back"`
		Err      string `json:"err,omitempty"`
	}
	// run returns the number of mutations when trip is large
	run := func(path string, trip int) (int, res) {
		out := res{K: trip}
		r, err := openRepo(path)
		if err != nil {
			out.Err = err.Error()
			return 0, out
		}
		defer r.Close()
		cr := &crashRepo{TestedRepo: r, trip: trip, faultOnce: true}
		authors := make([]*identity.Identity, 3)
		for i, id := range authorIDs {
			authors[i], _ = identity.ReadLocal(cr, id)
		}
		var b *bug.Bug
		want := 0
		if in.Scenario == "new-bug" {
			b, _, err = bug.Create(authors[0], int64(1600000150+in.Salt), fmt.Sprintf("new bug %d", in.Salt), "m", nil, nil)
			want = 1
		} else {
			b, err = bug.Read(cr, baseID)
			want = 2
		}
		if err != nil {
			out.Err = err.Error()
			return 0, out
		}
		for p := 0; p < in.NPacks; p++ {
			for j := 0; j < in.NOps; j++ {
				if _, _, err := bug.AddComment(b, authors[p%3], int64(1600000200+p*10+j), fmt.Sprintf("comment %d/%d/%d", in.Salt, p, j), nil, nil); err == nil {
					want++
				}
			}
		}
		idBefore := b.Id()
		err = b.Commit(cr)
		out.IDStable = b.Id() == idBefore
		if err != nil {
			err = b.Commit(cr) // the same action, repeated
			out.IDStable = out.IDStable && b.Id() == idBefore
		}
		out.RetryOK = err == nil
		if err != nil {
			out.Err = err.Error()
		}
		n := cr.count
		_ = r.Close()
		r2, err := openRepo(path)
		if err == nil {
			rb, err := bug.Read(r2, idBefore)
			out.ReadBack = err == nil && len(rb.Operations()) == want && rb.Validate() == nil && rb.Id() == idBefore
			if err != nil {
				out.Err += " / read back: " + err.Error()
			} else if !out.ReadBack {
				out.Err += fmt.Sprintf(" / read back: %d operations, wanted %d, validate=%v", len(rb.Operations()), want, rb.Validate())
			}
			_ = r2.Close()
		}
		return n, out
	}
	ref := dir + "/ref"
	_ = copyDir(dir+"/pre", ref)
	n, first := run(ref, 1<<30)
	if !first.RetryOK || !first.ReadBack {
		return Case{Skip: "reference run failed: " + first.Err}
	}
	var all []res
	var terms []string
	for k := 0; k < n; k++ {
		p := fmt.Sprintf("%s/f%d", dir, k)
		_ = copyDir(dir+"/pre", p)
		_, o := run(p, k)
		all = append(all, o)
		terms = append(terms, fmt.Sprintf("(%s, %s, %s)", coqBool(o.RetryOK), coqBool(o.IDStable), coqBool(o.ReadBack)))
		_ = os.RemoveAll(p)
	}
	return Case{Coq: "mkcase6r " + coqList(terms), Obs: all, Tags: []string{"scenario:" + in.Scenario, fmt.Sprintf("packs:%d", in.NPacks)}, NonTrivial: n > 2, Key: string(raw)}
}
