package main

// C19 — only one process at a time can open a repository's cache.
// Generated schedules of open / close / kill / fail steps are executed by REAL git-bug processes
// (binary $VERIF_GITBUG, built by ./check from /repo's working tree) on one temporary repository per case:
//   hold    a long-lived command is started and watched until it serves or exits
//           (webui = `git-bug webui --no-open`, edit = `git-bug bug new` blocked in its editor)
//   cmd     a short command run to completion, built to take one given exit path (success, error before the
//           cache is opened, error after the lock was taken in the pre-run, error in the command body)
//   end     a running long-lived command is ended: SIGINT, SIGTERM, SIGKILL, or by letting its editor finish
//   killat  a command is started and SIGKILLed after a generated delay
//   burst   2-3 long-lived commands started at the same moment (the test-then-write window)
//   plant   the file a process killed between lock file creation and pid write leaves behind (empty lock file)
//   stall   an HTTP request is put in flight on a serving webui (complete headers, unfinished body) and kept there:
//           a later SIGINT / SIGTERM starts the graceful shutdown, which waits for that request, so the process stays
//           alive, still working on its cache ("asked"); the next `end` of that process lets the request end
//   stop    a live holder is SUSPENDED: SIGSTOP, or SIGTSTP (what ctrl-z sends), and seen in state T of /proc/<pid>/stat.
//           It is alive: its cache is open, it goes on when continued. Every attempt made meanwhile must be refused
//           naming it, its lock must stay. `cont` = SIGCONT. An orderly `end` of a stopped process continues it first
//           (recorded as a step of its own); SIGKILL needs no continuation.
//   zombie  a live holder is SIGKILLed and NOT collected by its parent (the harness controls the reaping of every child:
//           waitid(WNOWAIT) tells that it has exited, the wait that collects it is held back): state Z, dead, nothing
//           held, but kill(pid, 0) still answers. `reap` collects it. What the unchanged code does — the lock of an
//           unreaped holder refuses — is what the model says; the property demands nothing for that interval.
//   Whatever happens, every process is SIGKILLed (which a stopped process obeys) and collected when the case ends;
//   children carry PR_SET_PDEATHSIG = SIGKILL, so a harness that dies leaves no stopped process behind either.
// After every step: exit status, class of the stderr message (with the holder it names), content of
// .git/git-bug/lock, the temporary lock files .git/git-bug/lock.<pid> present, whether anything else below .git
// changed during the step (looked at while a holder lives), and which long-lived processes are still running.
// Process numbers are spawn order.
// Users: every step names the account its process runs as (`u`: 0 = the harness's own user, 1 = uid 65534). When the
// harness is root, schedules exist in which the holder and the other attempts belong to DIFFERENT users, both ways
// round, on a repository directory both may write: for the unprivileged one kill(holder, 0) answers EPERM, which
// still means "alive". The observations are the same as for one user. When the harness is not root all processes
// run as the harness's user and the case is tagged `users:not-root-all-one-user`.
// A command (or a long-lived one) that neither ends nor serves within its time limit is normally cut off and the
// case ends there; but if meanwhile the lock file stopped naming the live holder, the step is recorded (killed,
// message class MHung): it took the lock of a live process and sits behind the holder's search index.

import (
	"bufio"
	"crypto/sha256"
	"encoding/json"
	"fmt"
	"io"
	"io/fs"
	"net"
	"net/http"
	"os"
	"os/exec"
	"path/filepath"
	"regexp"
	"runtime"
	"sort"
	"strconv"
	"strings"
	"sync"
	"syscall"
	"time"
	"unsafe"

	"github.com/MichaelMure/git-bug/repository"
)

type c19Step struct {
	Op      string `json:"op"`
	Kind    string `json:"kind,omitempty"`
	Slot    int    `json:"slot,omitempty"`
	How     string `json:"how,omitempty"`
	DelayUs int    `json:"delay_us,omitempty"`
	N       int    `json:"n,omitempty"`
	// the user the process(es) started by this step run as: 0 = the user of the harness, 1 = another, unprivileged
	// account (uid c19OtherUID); for burst a bit mask over the members. Only honoured when the harness is root.
	U int `json:"u,omitempty"`
}
type c19Input struct {
	Steps []c19Step `json:"steps"`
}

type c19Driver struct{}

func init() {
	register("C19", c19Driver{})
	go func() {
		// children are started from one OS thread that never exits: PR_SET_PDEATHSIG is tied to the forking thread
		runtime.LockOSThread()
		for f := range c19Spawner {
			f()
		}
	}()
}

var c19Spawner = make(chan func())

func c19Start(cmd *exec.Cmd) error {
	ch := make(chan error, 1)
	c19Spawner <- func() { ch <- cmd.Start() }
	return <-ch
}

// ---------------------------------------------------------------- generator

var c19ShortKinds = []string{"ls", "users", "labels", "new", "showbad", "pull", "badflag", "webui-busy", "webui-noid"}

func c19GenCmd(r *Rand, identity bool) c19Step {
	for {
		k := c19ShortKinds[r.Intn(len(c19ShortKinds))]
		if k == "webui-noid" && identity {
			continue
		}
		return c19Step{Op: "cmd", Kind: k}
	}
}

// a command started and killed after a delay: only commands that do not write entities (a kill in the middle of
// a write is the business of C06), the delay spread over the time a start-up takes
func c19GenKillAt(r *Rand, webui bool) c19Step {
	kinds := []string{"ls", "users"}
	if webui {
		kinds = []string{"ls", "users", "webui", "webui"}
	}
	k := kinds[r.Intn(len(kinds))]
	d := r.Intn(120000)
	if k == "webui" && r.Chance(1, 3) {
		d = r.Intn(400000)
	}
	return c19Step{Op: "killat", Kind: k, DelayUs: d}
}

func c19GenCase(r *Rand, tier string) c19Input {
	var in c19Input
	identity := r.Chance(1, 2)
	broken := r.Chance(1, 8)
	if broken {
		identity = true // the unreadable entity is added after a real bug exists, see "break"
	}
	// the first command always runs to completion: it builds the cache, so that no later kill lands in the
	// middle of the initial build (which leaves a half-created search index behind: not a matter of the lock)
	if identity {
		in.Steps = append(in.Steps, c19Step{Op: "usernew"})
	} else {
		in.Steps = append(in.Steps, c19Step{Op: "cmd", Kind: "ls"})
	}
	if broken {
		in.Steps = append(in.Steps, c19Step{Op: "cmd", Kind: "new"}, c19Step{Op: "break"})
	}
	holdKind := func() string {
		if identity && r.Chance(1, 2) {
			return "edit"
		}
		return "webui"
	}
	hows := []string{"int", "term", "kill", "finok", "finerr"}
	n := r.Range(3, 8)
	live := 0 // holders a correct implementation would have at this point
	for i := 0; i < n; i++ {
		x := r.Intn(100)
		switch {
		case broken:
			if x < 75 {
				in.Steps = append(in.Steps, c19GenCmd(r, identity))
			} else {
				in.Steps = append(in.Steps, c19GenKillAt(r, false))
			}
		case live == 0:
			switch {
			case x < 40:
				in.Steps = append(in.Steps, c19Step{Op: "hold", Kind: holdKind()})
				live = 1
			case x < 75:
				in.Steps = append(in.Steps, c19GenCmd(r, identity))
			default:
				in.Steps = append(in.Steps, c19GenKillAt(r, true))
			}
		default:
			switch {
			case x < 40:
				in.Steps = append(in.Steps, c19GenCmd(r, identity))
			case x < 52:
				in.Steps = append(in.Steps, c19Step{Op: "hold", Kind: holdKind()})
			case x < 57:
				// (no effect unless the holder is a webui; an `end` by signal then leaves it alive, shutting down)
				in.Steps = append(in.Steps, c19Step{Op: "stall", Slot: r.Intn(4)})
			case x < 65:
				in.Steps = append(in.Steps, c19GenKillAt(r, true))
			default:
				in.Steps = append(in.Steps, c19Step{Op: "end", Slot: r.Intn(4), How: hows[r.Intn(len(hows))]})
				live = 0
			}
		}
	}
	if !broken {
		switch x := r.Intn(100); {
		case x < 25:
			if live == 1 && r.Chance(2, 3) {
				in.Steps = append(in.Steps, c19Step{Op: "end", Slot: 0, How: hows[r.Intn(len(hows))]})
			}
			in.Steps = append(in.Steps, c19Step{Op: "burst", N: r.Range(2, 3)})
			for k := r.Intn(3); k > 0; k-- {
				if r.Chance(1, 2) {
					in.Steps = append(in.Steps, c19Step{Op: "end", Slot: r.Intn(4), How: hows[r.Intn(3)]})
				} else {
					in.Steps = append(in.Steps, c19GenCmd(r, identity))
				}
			}
		case x < 47:
			// the holder is asked to stop while it serves a request: it lives on until the request ends, and until
			// then everybody else is refused
			if live == 1 {
				in.Steps = append(in.Steps, c19Step{Op: "end", Slot: 0, How: hows[r.Intn(len(hows))]})
				in.Steps = append(in.Steps, c19Step{Op: "end", Slot: 0, How: "kill"}) // (in case the first one only asked)
			}
			in.Steps = append(in.Steps, c19Step{Op: "hold", Kind: "webui"}, c19Step{Op: "stall"},
				c19Step{Op: "end", How: hows[r.Intn(2)]})
			for k := r.Range(1, 3); k > 0; k-- {
				switch y := r.Intn(10); {
				case y < 6:
					in.Steps = append(in.Steps, c19GenCmd(r, identity))
				case y < 8:
					in.Steps = append(in.Steps, c19Step{Op: "hold", Kind: holdKind()})
				default:
					in.Steps = append(in.Steps, c19GenKillAt(r, true))
				}
			}
			if r.Chance(4, 5) {
				how := "int" // = let the request end
				if r.Chance(1, 5) {
					how = "kill"
				}
				in.Steps = append(in.Steps, c19Step{Op: "end", How: how})
				if r.Chance(1, 2) {
					in.Steps = append(in.Steps, c19GenCmd(r, identity))
				}
			}
		case x < 55:
			if live == 1 {
				in.Steps = append(in.Steps, c19Step{Op: "end", Slot: 0, How: hows[r.Intn(len(hows))]})
				in.Steps = append(in.Steps, c19Step{Op: "end", Slot: 0, How: "kill"})
			}
			in.Steps = append(in.Steps, c19Step{Op: "plant"})
			for k := r.Range(1, 2); k > 0; k-- {
				if r.Chance(1, 2) {
					in.Steps = append(in.Steps, c19Step{Op: "hold", Kind: "webui"})
				} else {
					in.Steps = append(in.Steps, c19GenCmd(r, identity))
				}
			}
		}
	}
	return in
}

// Users for a generated schedule. mode 0: whoever opens while nobody holds (the first command, a hold or a burst
// with no live holder) is the harness's user and every attempt made next to a live holder is the other account;
// mode 1: the reverse (the holder is unprivileged, the attempts are root's); mode 2: every step draws its user.
// `live` follows the generator's own idea of "a holder is alive" (an approximation: the observations decide).
func c19AssignUsers(r *Rand, in *c19Input, mode int) {
	holder := mode & 1
	live := false
	for i := range in.Steps {
		s := &in.Steps[i]
		if mode == 2 {
			s.U = r.Intn(2)
			if s.Op == "burst" {
				s.U = r.Intn(8)
			}
			continue
		}
		switch s.Op {
		case "hold":
			if live {
				s.U = 1 - holder
			} else {
				s.U = holder
				live = true
			}
		case "burst":
			if live {
				s.U = 7 * (1 - holder)
			} else {
				// the members race for a free (or stale) lock: one of each at least
				s.U = []int{1, 2, 5, 6}[r.Intn(4)]
				live = true
			}
		case "end", "zombie":
			live = false
		case "usernew", "cmd", "killat":
			if live || i > 0 && r.Chance(1, 2) {
				s.U = 1 - holder // (with nobody alive: the stale lock, or the cache, of the other user's process)
			} else {
				s.U = holder
			}
		}
	}
}

// a holder of one user, attempts of every kind by the other one, the holder dies leaving its lock, the other one opens
func c19GenCross(r *Rand, holder int) c19Input {
	var in c19Input
	identity := r.Chance(1, 2)
	other := 1 - holder
	if identity {
		in.Steps = append(in.Steps, c19Step{Op: "usernew", U: r.Intn(2)})
	} else {
		in.Steps = append(in.Steps, c19Step{Op: "cmd", Kind: "ls", U: r.Intn(2)})
	}
	kind := "webui"
	if identity && r.Chance(1, 2) {
		kind = "edit"
	}
	in.Steps = append(in.Steps, c19Step{Op: "hold", Kind: kind, U: holder})
	asked := kind == "webui" && r.Chance(1, 4)
	if asked {
		in.Steps = append(in.Steps, c19Step{Op: "stall"}, c19Step{Op: "end", How: []string{"int", "term"}[r.Intn(2)]})
	}
	for k := r.Range(1, 3); k > 0; k-- {
		var s c19Step
		switch y := r.Intn(10); {
		case y < 6:
			s = c19GenCmd(r, identity)
		case y < 8:
			s = c19Step{Op: "hold", Kind: []string{"webui", kind}[r.Intn(2)]}
		case y < 9:
			s = c19GenKillAt(r, true)
		default:
			s = c19Step{Op: "burst", N: 2, U: 3 * other}
		}
		if s.Op != "burst" {
			s.U = other
		}
		in.Steps = append(in.Steps, s)
	}
	hows := []string{"kill", "kill", "kill", "int", "term", "finok", "finerr", "kill"}
	in.Steps = append(in.Steps, c19Step{Op: "end", How: hows[r.Intn(len(hows))]})
	if asked {
		in.Steps = append(in.Steps, c19Step{Op: "end", How: "kill"}) // (no effect if the first one let the request end)
	}
	for k := r.Range(1, 2); k > 0; k-- {
		s := c19GenCmd(r, identity)
		if r.Chance(1, 3) {
			s = c19Step{Op: "hold", Kind: "webui"}
		}
		s.U = other
		in.Steps = append(in.Steps, s)
	}
	return in
}

// one attempt of any kind made next to a holder
func c19GenAttempt(r *Rand, identity bool, holdKind string) c19Step {
	switch y := r.Intn(10); {
	case y < 6:
		return c19GenCmd(r, identity)
	case y < 8:
		return c19Step{Op: "hold", Kind: []string{"webui", holdKind}[r.Intn(2)]}
	case y < 9:
		return c19GenKillAt(r, true)
	default:
		return c19Step{Op: "burst", N: 2}
	}
}

// A holder that is suspended (SIGSTOP, or SIGTSTP = ctrl-z) while others try: it is alive, they are all refused, its
// lock stays; then it is continued and ends, or is killed as it is, or is killed and left unreaped for a while.
// zombie: the schedule is about the unreaped holder instead (no suspension, or killed while suspended).
func c19GenSuspend(r *Rand, zombie bool) c19Input {
	var in c19Input
	identity := r.Chance(1, 2)
	add := func(s ...c19Step) { in.Steps = append(in.Steps, s...) }
	if identity {
		add(c19Step{Op: "usernew"})
	} else {
		add(c19Step{Op: "cmd", Kind: "ls"})
	}
	kind := "webui"
	if identity && r.Chance(1, 2) {
		kind = "edit"
	}
	add(c19Step{Op: "hold", Kind: kind})
	if r.Chance(1, 3) {
		add(c19GenAttempt(r, identity, kind))
	}
	if kind == "webui" && r.Chance(1, 4) {
		// a request in flight; every second one is also asked to stop: shutting down, waiting for the request
		add(c19Step{Op: "stall"})
		if r.Chance(1, 2) {
			add(c19Step{Op: "end", How: []string{"int", "term"}[r.Intn(2)]})
		}
	}
	stop := c19Step{Op: "stop", How: []string{"stop", "stop", "tstp"}[r.Intn(3)]}
	hows := []string{"int", "term", "kill", "finok", "finerr"}
	opens := func(lo, hi int) {
		for k := r.Range(lo, hi); k > 0; k-- {
			if r.Chance(1, 3) {
				add(c19Step{Op: "hold", Kind: "webui"})
			} else {
				add(c19GenCmd(r, identity))
			}
		}
	}
	if zombie {
		if r.Chance(1, 2) {
			add(stop)
			if r.Chance(1, 2) {
				add(c19GenAttempt(r, identity, kind))
			}
		}
		add(c19Step{Op: "zombie"})
		for k := r.Range(1, 2); k > 0; k-- {
			add(c19GenAttempt(r, identity, kind))
		}
		add(c19Step{Op: "reap"})
		opens(1, 2)
		return in
	}
	add(stop)
	for k := r.Range(1, 3); k > 0; k-- {
		add(c19GenAttempt(r, identity, kind))
	}
	switch x := r.Intn(100); {
	case x < 45:
		// continued; it is the holder it was
		add(c19Step{Op: "cont"})
		if r.Chance(1, 2) {
			add(c19GenAttempt(r, identity, kind))
		}
		if r.Chance(1, 4) {
			add(c19Step{Op: "stop", How: "tstp"}, c19GenAttempt(r, identity, kind), c19Step{Op: "cont"})
		}
		add(c19Step{Op: "end", How: hows[r.Intn(len(hows))]}, c19Step{Op: "end", How: "kill"}) // (the second: if the first only asked)
		opens(1, 1)
	case x < 65:
		// killed as it is: the lock stays behind, stale
		add(c19Step{Op: "end", How: "kill"})
		opens(1, 2)
	case x < 85:
		// ended in an orderly way (the harness continues it first): released
		add(c19Step{Op: "end", How: []string{"int", "term", "finok", "finerr"}[r.Intn(4)]}, c19Step{Op: "end", How: "kill"})
		opens(1, 1)
	default:
		// left suspended to the end of the case
	}
	return in
}

// suspensions strewn over an ordinary schedule: after a hold (sometimes later) the holder is stopped, later continued
// or not; now and then a holder is killed and left unreaped instead of being ended, and reaped some steps later
func c19AddSuspensions(r *Rand, in c19Input) c19Input {
	var out c19Input
	stopped, zombies := false, 0
	for i, s := range in.Steps {
		if s.Op == "end" && r.Chance(1, 5) {
			s = c19Step{Op: "zombie", Slot: s.Slot}
			zombies++
		}
		if stopped && (s.Op == "end" || s.Op == "stall") && r.Chance(1, 2) {
			out.Steps = append(out.Steps, c19Step{Op: "cont", Slot: r.Intn(2)})
			stopped = false
		}
		out.Steps = append(out.Steps, s)
		if s.Op == "end" || s.Op == "zombie" {
			stopped = false
		}
		if (s.Op == "hold" || s.Op == "burst" || s.Op == "stall" || (i > 1 && s.Op == "cmd")) && r.Chance(2, 5) {
			out.Steps = append(out.Steps, c19Step{Op: "stop", Slot: r.Intn(2), How: []string{"stop", "tstp"}[r.Intn(2)]})
			stopped = true
		} else if stopped && r.Chance(1, 6) {
			out.Steps = append(out.Steps, c19Step{Op: "cont", Slot: r.Intn(2)})
			stopped = false
		}
		if zombies > 0 && s.Op != "zombie" && r.Chance(1, 3) {
			out.Steps = append(out.Steps, c19Step{Op: "reap"})
			zombies--
		}
	}
	return out
}

func (c19Driver) Gen(r *Rand, tier string) []json.RawMessage {
	n := 420
	if tier == "thorough" {
		n = 6300
	}
	nx := n / 7 // schedules with two users, on top
	var res []json.RawMessage
	// fixed seeds: the scenarios the property names, always present
	fixed := []c19Input{
		{Steps: []c19Step{{Op: "cmd", Kind: "ls"}, {Op: "cmd", Kind: "new"}, {Op: "cmd", Kind: "ls"}}},
		{Steps: []c19Step{{Op: "cmd", Kind: "ls"}, {Op: "hold", Kind: "webui"}, {Op: "cmd", Kind: "ls"}, {Op: "hold", Kind: "webui"}, {Op: "end", How: "kill"}, {Op: "cmd", Kind: "ls"}}},
		{Steps: []c19Step{{Op: "usernew"}, {Op: "hold", Kind: "edit"}, {Op: "cmd", Kind: "new"}, {Op: "end", How: "term"}, {Op: "cmd", Kind: "new"}}},
		{Steps: []c19Step{{Op: "cmd", Kind: "ls"}, {Op: "cmd", Kind: "webui-busy"}, {Op: "cmd", Kind: "ls"}}},
		{Steps: []c19Step{{Op: "usernew"}, {Op: "cmd", Kind: "new"}, {Op: "break"}, {Op: "cmd", Kind: "ls"}, {Op: "cmd", Kind: "webui-busy"}, {Op: "cmd", Kind: "new"}, {Op: "cmd", Kind: "ls"}}},
		{Steps: []c19Step{{Op: "cmd", Kind: "ls"}, {Op: "hold", Kind: "webui"}, {Op: "burst", N: 3}, {Op: "end", How: "int"}, {Op: "burst", N: 3}}},
		{Steps: []c19Step{{Op: "cmd", Kind: "ls"}, {Op: "plant"}, {Op: "cmd", Kind: "ls"}, {Op: "cmd", Kind: "ls"}}},
		// asked to stop while serving: refused, refused, the request ends, free
		{Steps: []c19Step{{Op: "cmd", Kind: "ls"}, {Op: "hold", Kind: "webui"}, {Op: "stall"}, {Op: "end", How: "int"}, {Op: "cmd", Kind: "ls"},
			{Op: "hold", Kind: "webui"}, {Op: "end", How: "int"}, {Op: "cmd", Kind: "ls"}}},
		{Steps: []c19Step{{Op: "usernew"}, {Op: "hold", Kind: "webui"}, {Op: "stall"}, {Op: "end", How: "term"}, {Op: "cmd", Kind: "new"},
			{Op: "cmd", Kind: "users"}, {Op: "end", How: "term"}, {Op: "cmd", Kind: "new"}}},
		// refused attempts of every family change nothing
		{Steps: []c19Step{{Op: "usernew"}, {Op: "hold", Kind: "webui"}, {Op: "cmd", Kind: "ls"}, {Op: "cmd", Kind: "users"}, {Op: "cmd", Kind: "new"},
			{Op: "hold", Kind: "edit"}, {Op: "cmd", Kind: "webui-busy"}, {Op: "end", How: "int"}, {Op: "cmd", Kind: "ls"}}},
	}
	// (the request that never ends — the shutdown gives up after 30 s, `end giveup` — is run from corpus/C19 only: 35 s a case)
	// two users on one repository: the holder is root's and the others are an unprivileged account's, who is refused
	// (kill(holder, 0) = EPERM: alive), then cleans the dead holder's lock; the reverse; a web UI asked to stop
	fixed = append(fixed,
		c19Input{Steps: []c19Step{{Op: "cmd", Kind: "ls"}, {Op: "hold", Kind: "webui"}, {Op: "cmd", Kind: "ls", U: 1}, {Op: "cmd", Kind: "new", U: 1},
			{Op: "hold", Kind: "webui", U: 1}, {Op: "end", How: "kill"}, {Op: "cmd", Kind: "ls", U: 1}, {Op: "cmd", Kind: "ls"}}},
		c19Input{Steps: []c19Step{{Op: "usernew", U: 1}, {Op: "hold", Kind: "edit", U: 1}, {Op: "cmd", Kind: "new"}, {Op: "cmd", Kind: "ls"},
			{Op: "end", How: "kill"}, {Op: "cmd", Kind: "new"}, {Op: "cmd", Kind: "ls", U: 1}}},
		c19Input{Steps: []c19Step{{Op: "usernew"}, {Op: "hold", Kind: "edit"}, {Op: "cmd", Kind: "users", U: 1}, {Op: "hold", Kind: "edit", U: 1},
			{Op: "end", How: "finok"}, {Op: "cmd", Kind: "new", U: 1}}},
		c19Input{Steps: []c19Step{{Op: "cmd", Kind: "ls", U: 1}, {Op: "hold", Kind: "webui"}, {Op: "stall"}, {Op: "end", How: "term"}, {Op: "cmd", Kind: "ls", U: 1},
			{Op: "hold", Kind: "webui", U: 1}, {Op: "end", How: "int"}, {Op: "cmd", Kind: "ls", U: 1}}},
	)
	// a suspended holder is a live holder: refused while it is stopped (SIGSTOP; ctrl-z under an editor), refused after it
	// was continued, free after its end; killed while stopped: stale; two users; a killed holder nobody has reaped yet
	fixed = append(fixed,
		c19Input{Steps: []c19Step{{Op: "cmd", Kind: "ls"}, {Op: "hold", Kind: "webui"}, {Op: "cmd", Kind: "ls"}, {Op: "stop"}, {Op: "cmd", Kind: "ls"}, {Op: "cmd", Kind: "new"},
			{Op: "hold", Kind: "webui"}, {Op: "cont"}, {Op: "cmd", Kind: "ls"}, {Op: "end", How: "int"}, {Op: "cmd", Kind: "ls"}}},
		c19Input{Steps: []c19Step{{Op: "usernew"}, {Op: "hold", Kind: "edit"}, {Op: "stop", How: "tstp"}, {Op: "cmd", Kind: "new"}, {Op: "cmd", Kind: "users"},
			{Op: "end", How: "finok"}, {Op: "cmd", Kind: "new"}}},
		c19Input{Steps: []c19Step{{Op: "cmd", Kind: "ls"}, {Op: "hold", Kind: "webui"}, {Op: "stop"}, {Op: "cmd", Kind: "webui-busy"}, {Op: "end", How: "kill"},
			{Op: "cmd", Kind: "ls"}, {Op: "cmd", Kind: "ls"}}},
		c19Input{Steps: []c19Step{{Op: "cmd", Kind: "ls"}, {Op: "hold", Kind: "webui"}, {Op: "stop"}, {Op: "cmd", Kind: "ls", U: 1}, {Op: "hold", Kind: "webui", U: 1},
			{Op: "cont"}, {Op: "cmd", Kind: "ls", U: 1}, {Op: "end", How: "term"}, {Op: "cmd", Kind: "ls", U: 1}}},
		c19Input{Steps: []c19Step{{Op: "cmd", Kind: "ls"}, {Op: "hold", Kind: "webui"}, {Op: "zombie"}, {Op: "cmd", Kind: "ls"}, {Op: "reap"}, {Op: "cmd", Kind: "ls"},
			{Op: "cmd", Kind: "ls"}}},
	)
	for _, f := range fixed {
		res = append(res, mustJSON(f))
	}
	for i := 0; i < n; i++ {
		res = append(res, mustJSON(c19GenCase(r.Fork(), tier)))
	}
	for i := 0; i < nx; i++ {
		rr := r.Fork()
		var in c19Input
		if i%2 == 0 {
			in = c19GenCross(rr, (i/2)%2)
		} else {
			in = c19GenCase(rr, tier)
			c19AssignUsers(rr, &in, (i/2)%3)
		}
		res = append(res, mustJSON(in))
	}
	// schedules with a suspended (or unreaped) holder, on top: 4 of 6 targeted (one of them about the unreaped holder),
	// 2 of 6 ordinary schedules with suspensions strewn in, one of these with two users
	for i := 0; i < nx; i++ {
		rr := r.Fork()
		var in c19Input
		switch i % 6 {
		case 0, 1, 3:
			in = c19GenSuspend(rr, false)
		case 4:
			in = c19GenSuspend(rr, true)
		case 2:
			in = c19AddSuspensions(rr, c19GenCase(rr, tier))
		default:
			in = c19AddSuspensions(rr, c19GenCase(rr, tier))
			c19AssignUsers(rr, &in, rr.Intn(3))
		}
		if i%6 < 5 && i%4 == 3 {
			c19AssignUsers(rr, &in, rr.Intn(2))
		}
		res = append(res, mustJSON(in))
	}
	return res
}

// ---------------------------------------------------------------- processes

type c19Proc struct {
	id       int
	fam      string // Coq family
	kind     string
	long     bool
	cmd      *exec.Cmd
	pid      int
	port     int
	errPath  string
	outPath  string
	conn     net.Conn // a request put in flight by the harness and not finished (webui)
	asked    string   // the signal that asked it to stop while that request was in flight; it has not exited since
	askedAt  time.Time
	mark     string
	gofile   string
	done     chan struct{}
	sig      bool          // the harness has sent this process a signal
	timedOut bool          // it neither served nor exited within the time limit
	robbed   bool          // ... and by then the lock file no longer named the live holder
	user     int           // 0 = the harness's user, 1 = the other account (uid c19OtherUID)
	stopped  bool          // suspended by the harness (SIGSTOP / SIGTSTP) and not continued since
	gone     chan struct{} // closed when the process has exited (it may still be a zombie)
	reapMu   sync.Mutex    // held by the harness while the process must not be collected
	unreaped bool          // reapMu is held: once the process has exited it stays a zombie until release()
}

// the second account: "nobody". Not root, not the harness's user: it may not signal the harness's processes.
const c19OtherUID = 65534

type c19Env struct {
	bin, dir, repo, home string
	procs                []*c19Proc
	pids                 map[int]int // pid -> id
	ready                []*c19Proc  // long-lived processes observed serving and not yet ended
	identity, broken     bool
	before               string // snapshot taken when the current step began, "" if there was no live holder then
	askExpired           bool   // something was observed later than 25 s after a webui was asked to stop: its shutdown gives up after 30 s
	nextPort, nextID     int
	slowest              time.Duration // longest start-up (spawn to serving / exit) seen so far in this case
	twoUsers             bool          // steps with u = 1 really run as uid c19OtherUID (the harness is root and the scenario can be built)
	curUser              int           // the user of the processes spawned from now on
	home2, binOther      string        // the other account's HOME; the git-bug binary at a place it can execute
	pidReuse             string        // set when a pid of a reaped process was seen alive again (assumption violated)
	zombies              []*c19Proc    // killed holders the harness has not collected yet
}

func (e *c19Env) procByID(id int) *c19Proc {
	for _, p := range e.procs {
		if p.id == id {
			return p
		}
	}
	return nil
}

// The model assumes that the pid of a dead process is not reused. pid_max is 32768 here and the machine is busy, so
// it does happen that the pid in a stale lock file belongs to an unrelated live process a moment later; git-bug then
// (rightly, from where it stands) refuses. Such cases are set aside, not reported: the lock file, or a refusal,
// names a process this harness has already reaped, and either that pid answers kill(pid, 0) now, or a second
// attempt made at once is not refused by it any more (a real liveness bug would refuse again).
func (e *c19Env) checkReuse(id int, refused bool) {
	q := e.procByID(id)
	if q == nil || !q.exited() || e.pidReuse != "" {
		return
	}
	if syscall.Kill(q.pid, 0) == nil {
		e.pidReuse = fmt.Sprintf("pid %d of reaped process %d is alive again", q.pid, id)
		return
	}
	if refused {
		probe := e.spawn("FBackend", "probe", false, []string{"bug"}, nil)
		if !probe.waitExit(60 * time.Second) {
			probe.destroy()
		}
		if e.msgClass(probe) != fmt.Sprintf("(MLocked %d)", id) {
			e.pidReuse = fmt.Sprintf("refusal naming reaped process %d (pid %d) did not repeat", id, q.pid)
		}
	}
}

func c19LockedID(m string) (int, bool) {
	var id int
	if _, err := fmt.Sscanf(m, "(MLocked %d)", &id); err == nil {
		return id, true
	}
	return 0, false
}

func (e *c19Env) freePort() int {
	for tries := 0; tries < 2000; tries++ {
		e.nextPort++
		p := 10000 + (os.Getpid()*131+e.nextPort*7)%20000
		l, err := net.Listen("tcp", fmt.Sprintf("127.0.0.1:%d", p))
		if err == nil {
			l.Close()
			return p
		}
	}
	panic("no free port")
}

// ---- two users on one repository

// may a user who is neither the owner nor in the group reach (and execute / read) this path?
func c19OpenToOthers(path string) bool {
	for p := path; ; p = filepath.Dir(p) {
		st, err := os.Stat(p)
		if err != nil {
			return false
		}
		need := fs.FileMode(0o001)
		if p == path && !st.IsDir() {
			need = 0o005
		}
		if st.Mode().Perm()&need != need {
			return false
		}
		if p == filepath.Dir(p) {
			return true
		}
	}
}

// The repository is shared: everything below the case directory is made readable and writable for everybody (the
// processes of either user create files and directories with their own umask). Done before every step that starts
// a process; modes are not part of any observation.
func (e *c19Env) openUp() {
	if !e.twoUsers {
		return
	}
	_ = filepath.WalkDir(e.dir, func(path string, d fs.DirEntry, err error) error {
		if err != nil {
			return nil
		}
		if d.IsDir() {
			_ = os.Chmod(path, 0o777)
			return nil
		}
		if info, err := d.Info(); err == nil && info.Mode().IsRegular() && info.Mode().Perm()&0o666 != 0o666 {
			_ = os.Chmod(path, info.Mode().Perm()|0o666)
		}
		return nil
	})
}

// Sets the scene for two users; returns "" or the reason why it cannot be built (then every process runs as the
// harness's user). The other account must be able to reach the case directory and to execute the binary, and
// must NOT be allowed to signal a process of the harness's user (that is the point: kill(pid, 0) = EPERM).
func (e *c19Env) setupTwoUsers() string {
	if os.Geteuid() != 0 {
		return "not-root-all-one-user"
	}
	if !c19OpenToOthers(filepath.Dir(e.dir)) {
		return "no-shared-directory"
	}
	e.home2 = filepath.Join(e.dir, "home2")
	_ = os.MkdirAll(e.home2, 0o777)
	e.binOther = e.bin
	if !c19OpenToOthers(e.bin) {
		e.binOther = filepath.Join(e.dir, "git-bug")
		src, err := os.Open(e.bin)
		if err != nil {
			return "binary-unreadable"
		}
		dst, err := os.OpenFile(e.binOther, os.O_CREATE|os.O_WRONLY, 0o755)
		if err == nil {
			_, err = io.Copy(dst, src)
			dst.Close()
		}
		src.Close()
		if err != nil {
			return "binary-copy-failed"
		}
	}
	e.twoUsers = true
	e.openUp()
	probe := exec.Command("/bin/sh", "-c", fmt.Sprintf("kill -0 %d", os.Getpid()))
	probe.Dir = e.repo
	probe.SysProcAttr = &syscall.SysProcAttr{Credential: &syscall.Credential{Uid: c19OtherUID, Gid: c19OtherUID}}
	err := probe.Run()
	if err == nil {
		e.twoUsers = false
		return "other-user-may-signal"
	}
	if _, ok := err.(*exec.ExitError); !ok {
		e.twoUsers = false
		return "setuid-unavailable" // (the process could not be started under the other account)
	}
	return ""
}

// the live holder, if there is exactly one and the lock file names it
func (e *c19Env) guarded() *c19Proc {
	e.aliveReady()
	if len(e.ready) != 1 {
		return nil
	}
	h := e.ready[0]
	if lk, _ := e.readLock(); lk != fmt.Sprintf("(LkPid %d)", h.id) {
		return nil
	}
	return h
}

// the lock file does not name h any more, and h is alive (looked at after the file was read)
func (e *c19Env) robbed(h *c19Proc) bool {
	if h == nil || h.exited() {
		return false
	}
	lk, _ := e.readLock()
	return lk != fmt.Sprintf("(LkPid %d)", h.id) && !h.exited()
}

// Waits for a command to end. With a live holder h the lock file is watched meanwhile: once it stopped naming h the
// command is given a few more seconds, not the whole limit (it has passed the lock and, as a rule, sits behind
// the holder's search index for ever). robbed: it did not end and the live holder's lock is gone or replaced.
func (e *c19Env) waitWatching(p, h *c19Proc, limit time.Duration) (exited, robbed bool) {
	if h == nil {
		return p.waitExit(limit), false
	}
	t0 := time.Now()
	var since time.Time
	for {
		if p.waitExit(25 * time.Millisecond) {
			return true, false
		}
		if time.Since(t0) > limit {
			return false, e.robbed(h)
		}
		if since.IsZero() {
			if e.robbed(h) {
				since = time.Now()
			}
		} else if time.Since(since) > 4*time.Second {
			return false, e.robbed(h)
		}
	}
}

func (e *c19Env) spawn(fam, kind string, long bool, args []string, extraEnv []string) *c19Proc {
	e.nextID++
	id := e.nextID
	p := &c19Proc{id: id, fam: fam, kind: kind, long: long, done: make(chan struct{}), gone: make(chan struct{})}
	p.errPath = filepath.Join(e.dir, fmt.Sprintf("p%d.err", id))
	p.mark = filepath.Join(e.dir, fmt.Sprintf("p%d.mark", id))
	p.gofile = filepath.Join(e.dir, fmt.Sprintf("p%d.go", id))
	p.outPath = filepath.Join(e.dir, fmt.Sprintf("p%d.out", id))
	errf, err := os.Create(p.errPath)
	if err != nil {
		panic(err)
	}
	var outf *os.File
	if long {
		if outf, err = os.Create(p.outPath); err != nil {
			panic(err)
		}
	}
	p.user = 0
	bin, home := e.bin, e.home
	if e.twoUsers && e.curUser == 1 {
		p.user = 1
		bin, home = e.binOther, e.home2
	}
	cmd := exec.Command(bin, args...)
	cmd.Dir = e.repo
	cmd.Env = append([]string{
		"PATH=" + os.Getenv("PATH"), "HOME=" + home, "GIT_CONFIG_NOSYSTEM=1", "LANG=C",
		// the keyring library probes the D-Bus session bus at start-up and would auto-launch (and leak) a dbus-daemon
		"DBUS_SESSION_BUS_ADDRESS=unix:path=/nonexistent/verif-c19-bus",
		"GIT_EDITOR=" + filepath.Join(e.dir, "editor.sh"), "C19_MARK=" + p.mark, "C19_GO=" + p.gofile,
	}, extraEnv...)
	cmd.Stdin = nil
	cmd.Stdout = nil
	if outf != nil {
		cmd.Stdout = outf
	}
	cmd.Stderr = errf
	cmd.SysProcAttr = &syscall.SysProcAttr{Setpgid: true, Pdeathsig: syscall.SIGKILL}
	if p.user == 1 {
		cmd.SysProcAttr.Credential = &syscall.Credential{Uid: c19OtherUID, Gid: c19OtherUID}
	}
	if err := c19Start(cmd); err != nil {
		panic(err)
	}
	errf.Close()
	if outf != nil {
		outf.Close()
	}
	p.cmd = cmd
	p.pid = cmd.Process.Pid
	e.procs = append(e.procs, p)
	e.pids[p.pid] = id
	go func() {
		// first learn that it has exited without collecting it, then collect it unless the harness holds that back
		c19WaitGone(p.pid)
		close(p.gone)
		p.reapMu.Lock()
		_ = cmd.Wait()
		p.reapMu.Unlock()
		close(p.done)
	}()
	return p
}

// blocks until the child has exited, leaving it in the process table (waitid with WNOWAIT)
func c19WaitGone(pid int) {
	const pPid, wExited, wNoWait = 1, 0x4, 0x1000000
	var info [128]byte
	for {
		_, _, errno := syscall.Syscall6(syscall.SYS_WAITID, pPid, uintptr(pid), uintptr(unsafe.Pointer(&info[0])), wExited|wNoWait, 0, 0)
		if errno != syscall.EINTR {
			return // (on any other error the ordinary wait takes over)
		}
	}
}

// third field of /proc/<pid>/stat: R, S, D running / sleeping; T stopped; t traced; Z zombie; 0 = no such process
func c19ProcState(pid int) byte {
	b, err := os.ReadFile(fmt.Sprintf("/proc/%d/stat", pid))
	if err != nil {
		return 0
	}
	i := strings.LastIndexByte(string(b), ')')
	if i < 0 || i+2 >= len(b) {
		return 0
	}
	return b[i+2]
}

func (p *c19Proc) isGone() bool {
	select {
	case <-p.gone:
		return true
	default:
		return false
	}
}

// from now on the process is not collected when it exits
func (p *c19Proc) holdReap() {
	if !p.unreaped {
		p.reapMu.Lock()
		p.unreaped = true
	}
}

func (p *c19Proc) release() {
	if p.unreaped {
		p.unreaped = false
		p.reapMu.Unlock()
	}
}

// suspends a running child and waits until the kernel shows it stopped; false: it exited, or did not stop
func (p *c19Proc) suspend(sig syscall.Signal) bool {
	_ = p.cmd.Process.Signal(sig)
	for t0 := time.Now(); time.Since(t0) < 10*time.Second; time.Sleep(2 * time.Millisecond) {
		if p.isGone() {
			return false
		}
		if st := c19ProcState(p.pid); st == 'T' {
			p.stopped = true
			return true
		}
	}
	_ = p.cmd.Process.Signal(syscall.SIGCONT)
	return false
}

// continues a stopped child and waits until it is no longer shown stopped
func (p *c19Proc) resume() bool {
	p.stopped = false
	if p.isGone() {
		return false
	}
	_ = p.cmd.Process.Signal(syscall.SIGCONT)
	for t0 := time.Now(); time.Since(t0) < 10*time.Second; time.Sleep(2 * time.Millisecond) {
		if st := c19ProcState(p.pid); st != 'T' {
			return true
		}
	}
	return false
}

func (p *c19Proc) exited() bool {
	select {
	case <-p.done:
		return true
	default:
		return false
	}
}

func (p *c19Proc) waitExit(d time.Duration) bool {
	select {
	case <-p.done:
		return true
	case <-time.After(d):
		return false
	}
}

// kill the process if it still runs, and reap it. A pid is never signalled once its process has been reaped:
// with pid_max = 32768 and this many short-lived processes, pids are recycled within minutes.
func (p *c19Proc) destroy() {
	p.release()
	p.stopped = false
	if !p.exited() {
		p.sig = true
		_ = p.cmd.Process.Kill() // os.Process refuses to signal after Wait has returned
	}
	<-p.done
	p.hangUp()
}

func (p *c19Proc) hangUp() {
	if p.conn != nil {
		_ = p.conn.Close()
		p.conn = nil
	}
}

// Puts a request in flight on a serving webui and leaves it there. A first, complete request on the same
// connection makes sure that the server has accepted the connection and serves it; the second one has all its
// headers and an unfinished body, so its handler sits reading the body until the connection is closed.
func (p *c19Proc) stall() error {
	c, err := net.DialTimeout("tcp", fmt.Sprintf("127.0.0.1:%d", p.port), 2*time.Second)
	if err != nil {
		return err
	}
	_ = c.SetDeadline(time.Now().Add(10 * time.Second))
	body := `{"query":"{__typename}"}`
	_, err = fmt.Fprintf(c, "POST /graphql HTTP/1.1\r\nHost: localhost\r\nContent-Type: application/json\r\nContent-Length: %d\r\n\r\n%s", len(body), body)
	if err == nil {
		var resp *http.Response
		if resp, err = http.ReadResponse(bufio.NewReader(c), nil); err == nil {
			_, err = io.Copy(io.Discard, resp.Body)
			resp.Body.Close()
			if err == nil && resp.Close {
				err = fmt.Errorf("the server closes the connection")
			}
		}
	}
	if err == nil {
		_, err = c.Write([]byte("POST /graphql HTTP/1.1\r\nHost: localhost\r\nContent-Type: application/json\r\nContent-Length: 1000\r\n\r\n{"))
	}
	if err != nil {
		c.Close()
		return err
	}
	_ = c.SetDeadline(time.Time{})
	time.Sleep(30 * time.Millisecond) // (the server reads the headers; a shutdown that comes before that waits as well)
	p.conn = c
	return nil
}

func (p *c19Proc) stdout() string {
	b, _ := os.ReadFile(p.outPath)
	return string(b)
}

func (p *c19Proc) exitClass() string {
	st := p.cmd.ProcessState
	if st == nil {
		return "XSig"
	}
	if ws, ok := st.Sys().(syscall.WaitStatus); ok && ws.Signaled() {
		return "XSig"
	}
	if st.ExitCode() == 0 {
		return "XOk"
	}
	return "XErr"
}

func (p *c19Proc) stderr() string {
	b, _ := os.ReadFile(p.errPath)
	return string(b)
}

var c19LockedRe = regexp.MustCompile(`already locked by the process pid (\d+)`)

// class of the error message: (Coq term, text)
func (e *c19Env) msgClass(p *c19Proc) string {
	s := p.stderr()
	if m := c19LockedRe.FindStringSubmatch(s); m != nil {
		pid, _ := strconv.Atoi(m[1])
		return fmt.Sprintf("(MLocked %d)", e.pids[pid]) // unknown pid -> 0
	}
	if strings.Contains(s, "strconv.Atoi") || strings.Contains(s, "the lock file should be") {
		return "MCorrupt"
	}
	if strings.Contains(s, "remove ") && strings.Contains(s, "git-bug/lock: no such file") {
		return "MRemove"
	}
	if p.exitClass() == "XOk" {
		return "MNone"
	}
	return "MOther"
}

func (e *c19Env) lockPath() string { return filepath.Join(e.repo, ".git", "git-bug", "lock") }

// temporary lock files lock.<pid> in .git/git-bug, by process number (0 = not a pid of this case), sorted
func (e *c19Env) tmpLocks() ([]int, []string) {
	ents, _ := os.ReadDir(filepath.Dir(e.lockPath()))
	var ids []int
	var names []string
	for _, en := range ents {
		n := en.Name()
		if !strings.HasPrefix(n, "lock") || n == "lock" {
			continue
		}
		names = append(names, n)
		pid, err := strconv.Atoi(strings.TrimPrefix(n, "lock."))
		if err != nil {
			ids = append(ids, 0)
		} else {
			ids = append(ids, e.pids[pid]) // unknown pid -> 0
		}
	}
	sort.Ints(ids)
	return ids, names
}

// everything below .git except the lock file and the temporary lock files (those are observed by themselves):
// names, sizes and contents
func (e *c19Env) snapshot() string {
	h := sha256.New()
	root := filepath.Join(e.repo, ".git")
	_ = filepath.WalkDir(root, func(path string, d fs.DirEntry, err error) error {
		if err != nil {
			fmt.Fprintf(h, "ERR %s\n", path)
			return nil
		}
		rel, _ := filepath.Rel(root, path)
		if filepath.Dir(rel) == "git-bug" && strings.HasPrefix(d.Name(), "lock") {
			return nil
		}
		// the logical clocks are brought up to date by OpenGoGitRepo, before the cache is opened and its lock
		// tested: a refused attempt may create missing clocks or complete an interrupted rebuild (marker file).
		// That is idempotent, only moves clocks up (C05/C06) and is not what the cache lock protects.
		if rel == filepath.Join("git-bug", "clocks") || filepath.Dir(rel) == filepath.Join("git-bug", "clocks") ||
			(filepath.Dir(rel) == "git-bug" && strings.HasPrefix(d.Name(), "clocks-") || strings.HasPrefix(d.Name(), ".clocks-")) {
			return nil
		}
		if d.IsDir() {
			fmt.Fprintf(h, "D %s\n", rel)
			return nil
		}
		b, err := os.ReadFile(path)
		if err != nil {
			fmt.Fprintf(h, "ERR %s\n", rel)
			return nil
		}
		fmt.Fprintf(h, "F %s %d %x\n", rel, len(b), sha256.Sum256(b))
		return nil
	})
	return fmt.Sprintf("%x", h.Sum(nil))
}

func (e *c19Env) readLock() (string, string) {
	b, err := os.ReadFile(e.lockPath())
	if err != nil {
		if os.IsNotExist(err) {
			return "LkNone", "absent"
		}
		return "LkOther", "unreadable: " + err.Error()
	}
	if len(b) == 0 {
		return "LkTorn", "empty"
	}
	pid, err := strconv.Atoi(string(b))
	if err != nil {
		return "LkOther", fmt.Sprintf("%q", string(b))
	}
	if id, ok := e.pids[pid]; ok {
		return fmt.Sprintf("(LkPid %d)", id), fmt.Sprintf("pid of process %d", id)
	}
	return "LkOther", fmt.Sprintf("foreign pid %d", pid)
}

func listening(port int) bool {
	c, err := net.DialTimeout("tcp", fmt.Sprintf("127.0.0.1:%d", port), 200*time.Millisecond)
	if err != nil {
		return false
	}
	c.Close()
	return true
}

// Does the web UI p serve? Something accepts connections on its port and p runs — but the ports of the cases that run
// in parallel come from one range, so the listener may be another case's web UI while p has not even reached the
// lock: p itself must have announced its server (printed after the cache was opened, before it listens). Should
// that line ever change, a process that is still there a while later counts as well.
func (e *c19Env) serves(p *c19Proc) bool {
	if !listening(p.port) || p.exited() {
		return false
	}
	if strings.Contains(p.stdout(), "Web UI:") {
		return true
	}
	time.Sleep(200 * time.Millisecond)
	return !p.exited() && listening(p.port) && !strings.Contains(p.stderr(), "already locked")
}

// waits until the long-lived process serves (true) or has exited (false); h: the live holder the lock file named
// when the process was started (nil if none), see waitWatching
func (e *c19Env) waitReady(p, h *c19Proc) bool {
	t0 := time.Now()
	defer func() {
		if d := time.Since(t0); d > e.slowest {
			e.slowest = d
		}
	}()
	deadline := time.Now().Add(25 * time.Second)
	var since, looked time.Time
	for time.Now().Before(deadline) {
		if p.exited() {
			return false
		}
		if h != nil && time.Since(looked) > 50*time.Millisecond {
			looked = time.Now()
			if since.IsZero() {
				if e.robbed(h) {
					since = time.Now()
				}
			} else if time.Since(since) > 4*time.Second {
				break
			}
		}
		if p.kind == "webui" {
			if e.serves(p) {
				return true
			}
		} else if _, err := os.Stat(p.mark); err == nil {
			return true
		}
		time.Sleep(4 * time.Millisecond)
	}
	p.robbed = e.robbed(h)
	p.destroy()
	p.timedOut = true
	return false
}

func (e *c19Env) aliveReady() []int {
	var keep []*c19Proc
	var ids []int
	for _, p := range e.ready {
		if !p.exited() && !(p.unreaped && p.isGone()) {
			keep = append(keep, p)
			ids = append(ids, p.id)
		}
	}
	e.ready = keep
	sort.Ints(ids)
	return ids
}

func (e *c19Env) dropReady(p *c19Proc) {
	var keep []*c19Proc
	for _, q := range e.ready {
		if q != p {
			keep = append(keep, q)
		}
	}
	e.ready = keep
}

// short command kinds: args, family, the exit path the command is built to take
func (e *c19Env) shortCmd(kind string) (args []string, fam, path string, busy net.Listener) {
	pre := func(p string) string {
		if e.broken {
			return "PreErr" // the cache cannot be built: every command that opens it fails in its pre-run, lock taken
		}
		return p
	}
	switch kind {
	case "usernew":
		return []string{"user", "new", "-n", "alice", "-e", "alice@example.org", "--non-interactive"}, "FBackend", pre("Success"), nil
	case "ls":
		return []string{"bug"}, "FBackend", pre("Success"), nil
	case "users":
		return []string{"user"}, "FBackend", pre("Success"), nil
	case "labels":
		return []string{"label"}, "FBackend", pre("Success"), nil
	case "new":
		p := "Success"
		if !e.identity {
			p = "PreErr"
		}
		return []string{"bug", "new", "-t", "title", "-m", "message"}, "FEnsureUser", pre(p), nil
	case "showbad":
		return []string{"bug", "show", "0123456"}, "FBackend", pre("RunErr"), nil
	case "pull":
		return []string{"pull"}, "FBackend", pre("RunErr"), nil
	case "badflag":
		return []string{"bug", "new", "--no-such-flag"}, "FEnsureUser", "EarlyErr", nil
	case "webui-noid":
		// without --read-only the web UI wants the user identity before it opens the cache
		return []string{"webui", "--no-open", "--port", fmt.Sprint(e.freePort())}, "FWebui", "EarlyErr", nil
	case "webui-busy":
		l, err := net.Listen("tcp", "127.0.0.1:0")
		if err != nil {
			panic(err)
		}
		port := l.Addr().(*net.TCPAddr).Port
		return []string{"webui", "--no-open", "--read-only", "--port", fmt.Sprint(port)}, "FWebui", pre("RunErr"), l
	}
	panic("unknown command kind " + kind)
}

func (e *c19Env) startLong(kind string) *c19Proc {
	if kind == "edit" {
		return e.spawn("FEnsureUser", "edit", true, []string{"bug", "new"}, nil)
	}
	port := e.freePort()
	args := []string{"webui", "--no-open", "--port", fmt.Sprint(port)}
	if !e.identity {
		args = append(args, "--read-only")
	}
	p := e.spawn("FWebui", "webui", true, args, nil)
	p.port = port
	return p
}

// the editor script polls for the file: it must never see it empty
func c19WriteAtomic(path, content string) {
	tmp := path + ".tmp"
	if err := os.WriteFile(tmp, []byte(content), 0o644); err != nil {
		panic(err)
	}
	if err := os.Rename(tmp, path); err != nil {
		panic(err)
	}
}

const c19Editor = `#!/bin/sh
: > "$C19_MARK"
i=0
while [ ! -e "$C19_GO" ]; do
  kill -0 $PPID 2>/dev/null || exit 1
  sleep 0.02
  i=$((i+1))
  if [ $i -gt 3000 ]; then exit 1; fi
done
read code < "$C19_GO"
if [ "$code" = "ok" ]; then printf 'a title\n\na message\n' > "$1"; exit 0; fi
exit 1
`

type c19StepObs struct {
	Op      string   `json:"op"`
	Detail  string   `json:"detail,omitempty"`
	Procs   []string `json:"procs,omitempty"`
	Lock    string   `json:"lock"`
	Tmp     []string `json:"tmp_locks,omitempty"`
	Changed bool     `json:"changed,omitempty"`
	Alive   []int    `json:"alive"`
}

func (c19Driver) Run(raw json.RawMessage) (res Case) {
	var in c19Input
	if err := json.Unmarshal(raw, &in); err != nil {
		return Case{Skip: "bad input"}
	}
	bin := os.Getenv("VERIF_GITBUG")
	if bin == "" {
		return Case{Skip: "VERIF_GITBUG not set"}
	}
	if _, err := os.Stat(bin); err != nil {
		return Case{Skip: "git-bug binary missing: " + err.Error()}
	}
	wantTwo := false
	for _, s := range in.Steps {
		if s.U != 0 {
			wantTwo = true
		}
	}
	tmpRoot := ""
	if wantTwo && os.Geteuid() == 0 && !c19OpenToOthers(os.TempDir()) && c19OpenToOthers("/tmp") {
		tmpRoot = "/tmp" // (a place the other account can reach)
	}
	dir, err := os.MkdirTemp(tmpRoot, "verif-c19-")
	if err != nil {
		panic(err)
	}
	e := &c19Env{bin: bin, dir: dir, repo: filepath.Join(dir, "repo"), home: filepath.Join(dir, "home"), pids: map[int]int{}}
	defer func() {
		for _, p := range e.procs {
			p.destroy()
		}
		_ = os.RemoveAll(dir)
	}()
	_ = os.MkdirAll(e.repo, 0o755)
	_ = os.MkdirAll(e.home, 0o755)
	if err := os.WriteFile(filepath.Join(dir, "editor.sh"), []byte(c19Editor), 0o755); err != nil {
		panic(err)
	}
	gr, err := repository.InitGoGitRepo(e.repo, "git-bug")
	if err != nil {
		panic(err)
	}
	_ = gr.LocalConfig().StoreString("user.name", "harness")
	_ = gr.LocalConfig().StoreString("user.email", "harness@example.org")
	_ = gr.Close()

	var terms []string
	var obs []c19StepObs
	tagset := map[string]bool{}
	tag := func(t string) { tagset[t] = true }
	nontrivial := false
	sawLive, sawStale := false, false
	if wantTwo {
		if why := e.setupTwoUsers(); why != "" {
			tag("users:" + why)
		} else {
			tag("users:two")
			// files the processes of one user create during a step (go-billy creates with 0666 &^ umask) must be
			// usable by a process of the other user started in the same step (burst members of both users)
			defer syscall.Umask(syscall.Umask(0))
		}
	} else {
		tag("users:one")
	}

	record := func(op, term, detail string, procs ...*c19Proc) {
		lk, lkText := e.readLock()
		alive := e.aliveReady()
		tmpIDs, tmpNames := e.tmpLocks()
		changed := false
		if e.before != "" {
			changed = e.snapshot() != e.before
			e.before = ""
		}
		if changed {
			tag("changed-under-holder")
		}
		if len(tmpIDs) > 0 {
			tag("tmp-lock-on-disk")
		}
		for _, q := range e.procs {
			if q.asked != "" && time.Since(q.askedAt) > 25*time.Second {
				e.askExpired = true
			}
		}
		if lk == "LkTorn" {
			tag("torn-lock")
		}
		var lid int
		if _, err := fmt.Sscanf(lk, "(LkPid %d)", &lid); err == nil {
			e.checkReuse(lid, false)
		}
		terms = append(terms, fmt.Sprintf("mkso (%s) %s %s %s %s", term, lk, coqNats(alive), coqNats(tmpIDs), coqBool(changed)))
		o := c19StepObs{Op: op, Detail: detail, Lock: lkText, Alive: alive, Tmp: tmpNames, Changed: changed}
		if o.Alive == nil {
			o.Alive = []int{}
		}
		for _, p := range procs {
			s := strings.TrimSpace(p.stderr())
			if len(s) > 160 {
				s = s[:160]
			}
			st := "running"
			if p.exited() {
				st = p.exitClass()
			} else if p.isGone() {
				st = "exited, not collected by its parent (zombie)"
			} else if p.stopped {
				st = "stopped (alive, suspended)"
			}
			who := ""
			if e.twoUsers {
				who = fmt.Sprintf(" uid=%d", []int{os.Geteuid(), c19OtherUID}[p.user])
			}
			o.Procs = append(o.Procs, fmt.Sprintf("#%d pid=%d%s %s %s: %s %q", p.id, p.pid, who, p.fam, p.kind, st, s))
		}
		obs = append(obs, o)
	}
	// what a correct implementation faces at this step (for the non-triviality rule and the histogram)
	// users: the account(s) of the process(es) about to be started; returns the live holder the lock file names, if
	// there is exactly one (its lock is watched while the step runs)
	situation := func(users ...int) *c19Proc {
		e.openUp()
		lk, _ := e.readLock()
		if len(e.aliveReady()) > 0 {
			sawLive = true
			e.before = e.snapshot()
			for _, h := range e.ready {
				if h.stopped {
					tag("suspended:attempt-next-to-stopped-holder")
				}
				for _, u := range users {
					if e.twoUsers && u != h.user {
						tag("cross:attempt-next-to-live-holder-of-other-user")
						if u == 1 {
							tag("cross:holder-not-signalable-by-opener(EPERM)")
						}
					}
				}
			}
		} else if strings.HasPrefix(lk, "(LkPid") {
			sawStale = true
			var id int
			_, _ = fmt.Sscanf(lk, "(LkPid %d)", &id)
			if q := e.procByID(id); q != nil && q.unreaped {
				tag("zombie:open-on-lock-of-unreaped-holder")
			}
			if q := e.procByID(id); q != nil && e.twoUsers {
				for _, u := range users {
					if u != q.user {
						tag("cross:open-on-stale-lock-of-other-user")
					}
				}
			}
		}
		return e.guarded()
	}
	userOf := func(u int) int {
		if e.twoUsers {
			return u & 1
		}
		return 0
	}

	// A command that does not come to an end within its time limit is killed and the case ends there, the
	// unfinished step left out: what was observed before stands on its own. (A second process that got past the
	// lock blocks on the search index's file lock; the step that let it past has been recorded already. On an
	// overloaded machine a plain command can take that long, too.)
steps:
	for _, s := range in.Steps {
		switch s.Op {
		case "break":
			// A bug ref whose commit is not an operation pack: every cache build fails after the lock was taken.
			// Only once a real bug exists, i.e. the bug clocks are on disk: without them opening the repository
			// itself (clock rebuild in LoadRepo) reads the entities and fails before any cache is opened.
			if _, err := os.Stat(filepath.Join(e.repo, ".git", "git-bug", "clocks", "bugs-create")); err != nil {
				continue
			}
			g, err := repository.OpenGoGitRepo(e.repo, "git-bug", nil)
			if err != nil {
				panic(err)
			}
			blob, err := g.StoreData([]byte("not an operation pack"))
			if err != nil {
				panic(err)
			}
			tree, err := g.StoreTree([]repository.TreeEntry{{ObjectType: repository.Blob, Hash: blob, Name: "junk"}})
			if err != nil {
				panic(err)
			}
			commit, err := g.StoreCommit(tree)
			if err != nil {
				panic(err)
			}
			if err := g.UpdateRef("refs/bugs/"+strings.Repeat("a", 64), commit); err != nil {
				panic(err)
			}
			_ = g.Close()
			// an existing cache would be loaded without looking at the refs: drop it
			_ = os.RemoveAll(filepath.Join(e.repo, ".git", "git-bug", "cache"))
			e.broken = true
			tag("repo:broken-entity")

		case "usernew", "cmd":
			kind := s.Kind
			if s.Op == "usernew" {
				kind = "usernew"
			}
			if kind == "webui-noid" && e.identity {
				continue
			}
			e.curUser = userOf(s.U)
			h := situation(e.curUser)
			args, fam, path, busy := e.shortCmd(kind)
			t0 := time.Now()
			p := e.spawn(fam, kind, false, args, nil)
			if done, robbed := e.waitWatching(p, h, 20*time.Second); !done {
				p.destroy()
				if busy != nil {
					busy.Close()
				}
				if robbed {
					// it does not end, and the lock file has stopped naming the live holder: that much is on record
					record("cmd "+kind, fmt.Sprintf("KCmd %d %s %s XSig MHung", p.id, fam, path), strings.Join(args, " ")+" (did not end: killed)", p)
					tag("hung-having-taken-the-lock-of-a-live-holder")
				}
				tag("truncated:cmd-" + kind)
				break steps
			}
			if d := time.Since(t0); d > e.slowest {
				e.slowest = d
			}
			if busy != nil {
				busy.Close()
			}
			x, m := p.exitClass(), e.msgClass(p)
			if id, ok := c19LockedID(m); ok {
				e.checkReuse(id, true)
			}
			if kind == "usernew" && x == "XOk" {
				e.identity = true
			}
			record("cmd "+kind, fmt.Sprintf("KCmd %d %s %s %s %s", p.id, fam, path, x, m), strings.Join(args, " "), p)
			tag("cmd:" + kind)
			tag("path:" + path)
			if strings.HasPrefix(m, "(MLocked") {
				tag("refused")
				if id, _ := c19LockedID(m); e.procByID(id) != nil && e.procByID(id).unreaped {
					tag("zombie:lock-of-unreaped-holder-refuses")
				}
			}
			if m == "MCorrupt" {
				tag("torn-lock")
			}

		case "hold":
			if e.broken || (s.Kind == "edit" && !e.identity) {
				continue
			}
			e.curUser = userOf(s.U)
			h := situation(e.curUser)
			p := e.startLong(s.Kind)
			rdy := e.waitReady(p, h)
			if p.timedOut {
				if p.robbed {
					record("hold "+s.Kind, fmt.Sprintf("KHold %d %s false XSig MHung", p.id, p.fam), strings.Join(p.cmd.Args[1:], " ")+" (neither served nor ended: killed)", p)
					tag("hung-having-taken-the-lock-of-a-live-holder")
				}
				tag("truncated:hold-" + s.Kind)
				break steps
			}
			x, m := "XOk", "MNone"
			if rdy {
				e.ready = append(e.ready, p)
				tag("granted")
			} else {
				x, m = p.exitClass(), e.msgClass(p)
				if strings.HasPrefix(m, "(MLocked") {
					tag("refused")
				}
				if m == "MCorrupt" {
					tag("torn-lock")
				}
				if id, ok := c19LockedID(m); ok {
					e.checkReuse(id, true)
				}
			}
			record("hold "+s.Kind, fmt.Sprintf("KHold %d %s %s %s %s", p.id, p.fam, coqBool(rdy), x, m), strings.Join(p.cmd.Args[1:], " "), p)
			tag("hold:" + s.Kind)

		case "end":
			alive := e.aliveReady()
			if len(alive) == 0 {
				continue
			}
			p := e.ready[s.Slot%len(e.ready)]
			how := s.How
			if p.kind == "webui" {
				if how == "finok" {
					how = "int"
				} else if how == "finerr" {
					how = "term"
				}
			}
			if p.stopped && how != "kill" {
				// signals other than SIGKILL stay pending while a process is stopped, and an editor that has finished is
				// not noticed: it is continued first, a step of its own
				if !p.resume() {
					tag("truncated:cont-before-end")
					break steps
				}
				record("cont (before the end)", fmt.Sprintf("KCont %d", p.id), "SIGCONT", p)
				tag("cont")
			}
			var h string
			if p.asked != "" {
				// shutting down, waiting for the request the harness keeps in flight: SIGKILL, or the request ends
				// (the connection is closed) and the shutdown goes on
				if how == "kill" {
					h = "HKill"
					p.sig = true
					_ = p.cmd.Process.Kill()
				} else if how == "giveup" {
					// the request never ends: the shutdown gives up after 30 s and the process exits by itself
					h = "HGiveUp"
				} else {
					how = "release"
					h = map[string]string{"int": "HInt", "term": "HTerm"}[p.asked]
					p.hangUp()
				}
				if !p.waitExit(60 * time.Second) {
					p.destroy()
					e.dropReady(p)
					tag("truncated:end-" + how + "-asked")
					break steps
				}
				p.destroy()
				e.dropReady(p)
				p.asked = ""
				record("end "+how+" (was asked to stop)", fmt.Sprintf("KEnd %d %s %s %s", p.id, p.fam, h, p.exitClass()), "", p)
				tag("end:" + how + "-asked")
				continue
			}
			if how == "giveup" {
				continue
			}
			if p.conn != nil && (how == "int" || how == "term") {
				// a request is in flight: the graceful shutdown waits for it, the process lives on
				h = map[string]string{"int": "HInt", "term": "HTerm"}[how]
				p.sig = true
				if how == "int" {
					_ = p.cmd.Process.Signal(syscall.SIGINT)
				} else {
					_ = p.cmd.Process.Signal(syscall.SIGTERM)
				}
				t0 := time.Now()
				for !p.exited() && time.Since(t0) < 10*time.Second && !strings.Contains(p.stdout(), "shutting down") {
					time.Sleep(4 * time.Millisecond)
				}
				still := !p.waitExit(150 * time.Millisecond)
				x := "XOk"
				if still {
					p.asked, p.askedAt = how, time.Now()
					tag("asked:still-serving")
				} else {
					// (the server had not taken the request yet, or does not wait for it: an ordinary end)
					p.destroy()
					e.dropReady(p)
					x = p.exitClass()
					tag("asked:exited")
				}
				record("end "+how+" (request in flight)", fmt.Sprintf("KAsk %d %s %s %s %s", p.id, p.fam, h, coqBool(still), x), "", p)
				tag("end:" + how)
				continue
			}
			switch how {
			case "int":
				h = "HInt"
				p.sig = true
				_ = p.cmd.Process.Signal(syscall.SIGINT)
			case "term":
				h = "HTerm"
				p.sig = true
				_ = p.cmd.Process.Signal(syscall.SIGTERM)
			case "finok":
				h = "HFinOk"
				c19WriteAtomic(p.gofile, "ok\n")
			case "finerr":
				h = "HFinErr"
				c19WriteAtomic(p.gofile, "fail\n")
			default:
				h = "HKill"
				p.sig = true
				_ = p.cmd.Process.Kill()
			}
			if !p.waitExit(60 * time.Second) {
				p.destroy()
				e.dropReady(p)
				tag("truncated:end-" + how + "-" + p.kind)
				break steps
			}
			p.destroy()
			e.dropReady(p)
			record("end "+how, fmt.Sprintf("KEnd %d %s %s %s", p.id, p.fam, h, p.exitClass()), "", p)
			tag("end:" + how)

		case "stall":
			var cands []*c19Proc
			e.aliveReady()
			for _, q := range e.ready {
				if q.kind == "webui" && q.conn == nil && q.asked == "" && !q.stopped {
					cands = append(cands, q)
				}
			}
			if len(cands) == 0 {
				continue
			}
			p := cands[s.Slot%len(cands)]
			if err := p.stall(); err != nil {
				tag("stall-failed")
				continue
			}
			record("stall", fmt.Sprintf("KStall %d", p.id), "request in flight: headers sent, body unfinished", p)
			tag("stall")

		case "stop":
			e.aliveReady()
			var cands []*c19Proc
			for _, q := range e.ready {
				if !q.stopped {
					cands = append(cands, q)
				}
			}
			if len(cands) == 0 {
				continue
			}
			p := cands[s.Slot%len(cands)]
			sig, name := syscall.SIGSTOP, "SIGSTOP"
			if s.How == "tstp" {
				sig, name = syscall.SIGTSTP, "SIGTSTP (ctrl-z)"
			}
			if !p.suspend(sig) {
				if p.isGone() {
					// (it ended by itself meanwhile: the next step shows it)
					tag("stop:exited-meanwhile")
					continue
				}
				tag("truncated:stop-did-not-stop")
				break steps
			}
			record("stop", fmt.Sprintf("KStop %d", p.id), name+": seen in state T", p)
			tag("stop:" + strings.ToLower(strings.Fields(name)[0]))
			if p.asked != "" {
				tag("stop:while-shutting-down")
			}

		case "cont":
			e.aliveReady()
			var cands []*c19Proc
			for _, q := range e.ready {
				if q.stopped {
					cands = append(cands, q)
				}
			}
			if len(cands) == 0 {
				continue
			}
			p := cands[s.Slot%len(cands)]
			if !p.resume() {
				tag("truncated:cont")
				break steps
			}
			record("cont", fmt.Sprintf("KCont %d", p.id), "SIGCONT", p)
			tag("cont")

		case "zombie":
			if len(e.aliveReady()) == 0 {
				continue
			}
			p := e.ready[s.Slot%len(e.ready)]
			wasStopped := p.stopped
			p.holdReap()
			p.sig = true
			_ = p.cmd.Process.Kill()
			select {
			case <-p.gone:
			case <-time.After(20 * time.Second):
				p.destroy()
				e.dropReady(p)
				tag("truncated:zombie")
				break steps
			}
			p.stopped = false
			p.asked = ""
			p.hangUp()
			e.dropReady(p)
			e.zombies = append(e.zombies, p)
			record("zombie", fmt.Sprintf("KDie %d", p.id), "SIGKILL, not collected by its parent: state "+strings.Trim(string(c19ProcState(p.pid)), "\x00"), p)
			tag("zombie")
			if wasStopped {
				tag("zombie:killed-while-stopped")
			}

		case "reap":
			if len(e.zombies) == 0 {
				continue
			}
			p := e.zombies[0]
			e.zombies = e.zombies[1:]
			p.release()
			<-p.done
			record("reap", fmt.Sprintf("KReap %d", p.id), "collected by its parent", p)
			tag("reap")

		case "killat":
			e.curUser = userOf(s.U)
			situation(e.curUser)
			var p *c19Proc
			path := "Signalled"
			if s.Kind == "webui" {
				if e.broken {
					continue
				}
				p = e.startLong("webui")
			} else {
				args, fam, pa, _ := e.shortCmd(s.Kind)
				path = pa
				p = e.spawn(fam, s.Kind, false, args, nil)
			}
			select {
			case <-p.done:
			case <-time.After(time.Duration(s.DelayUs) * time.Microsecond):
			}
			p.destroy()
			x, m := p.exitClass(), e.msgClass(p)
			if x == "XSig" {
				m = "MNone"
			}
			if id, ok := c19LockedID(m); ok {
				e.checkReuse(id, true)
			}
			record("killat "+s.Kind, fmt.Sprintf("KKillAt %d %s %s %s %s", p.id, p.fam, path, x, m), fmt.Sprintf("SIGKILL after %dus", s.DelayUs), p)
			tag("killat:" + s.Kind)
			if x == "XSig" {
				lk, _ := e.readLock()
				if lk == fmt.Sprintf("(LkPid %d)", p.id) {
					tag("killed-holding")
				} else {
					tag("killed-not-holding")
				}
			} else {
				tag("killat-too-late")
				tag("path:" + path)
				if m == "MCorrupt" {
					tag("torn-lock")
				}
			}

		case "burst":
			if e.broken {
				continue
			}
			n := s.N
			if n < 2 {
				n = 2
			}
			if n > 3 {
				n = 3
			}
			var us []int
			for i := 0; i < n; i++ {
				us = append(us, userOf(s.U>>i))
			}
			situation(us...)
			var ps []*c19Proc
			for i := 0; i < n; i++ {
				e.curUser = us[i]
				ps = append(ps, e.startLong("webui"))
			}
			// Wait until every member serves or has exited. A member that does neither while another one serves has
			// passed the lock too and sits behind the other holder (the search index is guarded by a file lock of its
			// own): it is given a grace period far above any start-up time seen in this case, reported as hung, killed.
			state := make([]int, n) // 0 undecided, 1 ready, 2 exited, 3 hung
			start := time.Now()
			lastChange := start
			grace := 4 * time.Second
			if g := 20 * e.slowest; g > grace {
				grace = g
			}
			for {
				undecided, anyReady := 0, false
				for i, p := range ps {
					if state[i] == 0 {
						if p.exited() {
							state[i] = 2
							lastChange = time.Now()
						} else if e.serves(p) {
							state[i] = 1
							lastChange = time.Now()
						}
					}
					if state[i] == 0 {
						undecided++
					}
					if state[i] == 1 {
						anyReady = true
					}
				}
				if undecided == 0 {
					break
				}
				// (with nobody serving, two members blocked on each other's index lock are hung as well)
				if ((anyReady || undecided >= 2) && time.Since(lastChange) > grace) || time.Since(start) > 90*time.Second {
					for i := range ps {
						if state[i] == 0 {
							state[i] = 3
						}
					}
					break
				}
				time.Sleep(4 * time.Millisecond)
			}
			var ms []string
			nready := 0
			for i, p := range ps {
				rdy := state[i] == 1
				m := "MNone"
				switch state[i] {
				case 1:
					nready++
					e.ready = append(e.ready, p)
				case 3:
					nready++
					m = "MHung"
					p.destroy()
					tag("burst-member-hung")
				default:
					m = e.msgClass(p)
					if m == "MCorrupt" {
						tag("torn-lock")
					}
					if m == "MRemove" {
						tag("burst-remove-race")
					}
					if id, ok := c19LockedID(m); ok && id < ps[0].id {
						// (a member of this burst that was refused by another member, since gone, is no pid reuse)
						e.checkReuse(id, true)
					}
				}
				ms = append(ms, fmt.Sprintf("(%d, %s, %s)", p.id, coqBool(rdy), m))
			}
			// let the refused ones be gone and a late writer finish before the lock file is read
			time.Sleep(10 * time.Millisecond)
			record(fmt.Sprintf("burst %d", n), fmt.Sprintf("KBurst FWebui %s", coqList(ms)), "", ps...)
			tag(fmt.Sprintf("burst:%d", n))
			if nready >= 2 {
				tag("toctou:two-holders")
			}

		case "plant":
			if e.broken || len(e.aliveReady()) > 0 {
				continue
			}
			// a process that passed repoIsAvailable (a stale lock is cleaned there), created the lock file and was
			// killed before f.Write: the window is a few microseconds wide, so the file it leaves is written directly
			e.nextID++
			id := e.nextID
			_ = os.MkdirAll(filepath.Dir(e.lockPath()), 0o755)
			if err := os.WriteFile(e.lockPath(), nil, 0o644); err != nil {
				panic(err)
			}
			record("plant", fmt.Sprintf("KPlant %d", id), "empty lock file, as left by a process killed between Create and Write")
			tag("planted-torn")
		}
	}
	if e.pidReuse != "" {
		return Case{Skip: "pid reuse, outside the model's assumption: " + e.pidReuse}
	}
	if e.twoUsers {
		// what is left of that: a file created with a narrower mode (0644) by a process of one user and needed by a
		// simultaneous one of the other user. The shared directory is the harness's scene, not git-bug's doing.
		for _, p := range e.procs {
			if strings.Contains(p.stderr(), "permission denied") {
				return Case{Skip: fmt.Sprintf("two users: process %d could not use a file a process of the other user had just created (modes of the shared directory)", p.id)}
			}
		}
	}
	// a web UI that was given a free port and still could not listen lost it to a case running in parallel (the
	// port is chosen, released, and bound again by the child): the machine's doing, not git-bug's
	for _, p := range e.procs {
		if p.kind != "webui-busy" && strings.Contains(p.stderr(), "bind: address already in use") {
			return Case{Skip: fmt.Sprintf("process %d lost its free port to another case running in parallel", p.id)}
		}
	}
	if e.askExpired {
		return Case{Skip: "the case went on for more than 25 s after a webui was asked to stop (its shutdown gives up after 30 s)"}
	}
	// a Go program does not die from a signal by itself (panics and fatal errors exit with status 2): a process found
	// killed by a signal this harness never sent was killed by somebody else on the machine
	for _, p := range e.procs {
		if p.exited() && !p.sig && p.exitClass() == "XSig" {
			return Case{Skip: fmt.Sprintf("process %d (pid %d) was killed by a signal the harness did not send", p.id, p.pid)}
		}
	}
	if sawLive {
		tag("opens-against-live-holder")
		nontrivial = true
	}
	if sawStale {
		tag("opens-on-stale-lock")
		nontrivial = true
	}
	var tags []string
	for t := range tagset {
		tags = append(tags, t)
	}
	sort.Strings(tags)
	tags = append(tags, fmt.Sprintf("n:steps=%d", len(terms)))
	// the processes that ran as the other account
	var others []int
	for _, p := range e.procs {
		if p.user == 1 {
			others = append(others, p.id)
		}
	}
	term := "mkLcase " + coqNats(others) + " " + coqList(terms)
	return Case{Coq: term, Obs: obs, Tags: tags, NonTrivial: nontrivial, Key: term}
}
