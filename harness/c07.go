package main

// C07: hostile or corrupt remote data. A valid bug / identity history is fetched by the victim
// replica; one crafted commit (or ref) from a catalogue of structural mutations is then placed
// under the victim's remote-tracking namespace, exactly as a fetch from a hostile remote would
// leave it, in each local situation (absent, equal, ahead, behind, diverged). MergeAll runs in a
// child process (a crash is an observation).

import (
	"github.com/MichaelMure/git-bug/cache"
	"time"
	"encoding/json"
	"fmt"
	"os"
	"sort"
	"strings"

	"github.com/MichaelMure/git-bug/entities/bug"
	"github.com/MichaelMure/git-bug/entities/identity"
	"github.com/MichaelMure/git-bug/entity"
	"github.com/MichaelMure/git-bug/entity/dag"
	"github.com/MichaelMure/git-bug/repository"
)

type c07Input struct {
	Sit  string `json:"sit"` // absent | equal | ahead | behind | diverged
	Mut  string `json:"mut"`
	Kind string `json:"kind"` // bug | identity
	Salt int    `json:"salt"`
}

type c07Driver struct{}

func init() { register("C07", c07Driver{}) }

var c07Sits = []string{"absent", "equal", "ahead", "behind", "diverged"}

// mutation -> expected to be refused (true) / no expectation (false)
var c07BugMuts = map[string]bool{
	"none": false,
	// tree level
	"no-ops": true, "ops-is-tree": true, "no-version": true, "version-5": true, "version-0": true, "version-abc": true,
	"version-huge": true, "two-versions": false, "edit-abc": true, "edit-missing": true, "edit-two": false, "create-abc": true,
	"create-on-child": false, "extra-blob": false, "empty-tree": true,
	// pack json
	"not-json": true, "empty-object": true, "no-author": true, "author-empty-id": true, "author-unknown": true, "author-number": true,
	"ops-null": false, "ops-string": true, "op-type-42": true, "op-type-string": true, "op-type-missing": true, "op-garbage-fields": true,
	"second-create": true, "dup-op": true, "empty-title": true, "json-trailing": true,
	// commit / dag level
	"clock-equal": true, "clock-jump": true, "merge-with-ops": true, "foreign-root-merge": true,
	"merge-clock-equal": true, "merge-clock-below": true,
	"same-id-other-root": true, "same-ops-both-sides": true,
	// ref level
	"ref-name-mismatch": true, "ref-to-blob": true, "ref-to-tree": true, "ref-bad-name": true,
	// root level (a new bug)
	"first-op-not-create": true, "root-no-create-clock": true, "root-empty-pack": true,
	// byte-level fuzzing of the pack blob: no expectation, judged by the property predicate only
	"fuzz": false,
}
var c07IdentMuts = map[string]bool{
	"none": false, "idv-not-json": true, "idv-wrong-version": true, "idv-two-entries": true, "idv-bad-entry-name": true,
	"idv-ref-mismatch": true, "idv-empty-name": true, "idv-ctrl-char": true, "idv-tree-as-version": true, "idv-ref-to-blob": true,
	"idv-fuzz":     false,
	"idv-null-key": true, "idv-bad-key": true, "idv-times-string": true, "idv-no-nonce": true,
	"idv-other-root": true, "idv-clock-decreases": true, "idv-two-parents": true,
}

func (c07Driver) Gen(r *Rand, tier string) []json.RawMessage {
	var res []json.RawMessage
	var bm, im []string
	for m := range c07BugMuts {
		bm = append(bm, m)
	}
	for m := range c07IdentMuts {
		im = append(im, m)
	}
	sort.Strings(bm)
	sort.Strings(im)
	reps := 1
	if tier == "thorough" {
		reps = 6
	}
	rot := r.Intn(5)
	for k := 0; k < reps; k++ {
		for mi, m := range bm {
			for si, s := range c07Sits {
				// quick: every mutation in 2 of the 5 local situations (rotating with the seed), thorough: all 5
				if tier != "thorough" && m != "none" && (si+mi+rot)%5 > 1 {
					continue
				}
				res = append(res, mustJSON(c07Input{Sit: s, Mut: m, Kind: "bug", Salt: r.Intn(1000)}))
			}
		}
		for _, m := range bm {
			if strings.HasPrefix(m, "ref-") || (strings.HasPrefix(m, "root-") && m != "root-empty-pack") || m == "first-op-not-create" || m == "same-id-other-root" || m == "same-ops-both-sides" {
				continue // (same-id-other-root is a valid bug on its own: corrupt only relative to what the victim holds)
			}
			// the same corrupt commit found under a LOCAL ref: reading must report an error, not crash
			res = append(res, mustJSON(c07Input{Sit: "equal", Mut: m, Kind: "localbug", Salt: r.Intn(1000)}))
		}
		for _, m := range im {
			for _, s := range []string{"absent", "equal", "ahead"} {
				res = append(res, mustJSON(c07Input{Sit: s, Mut: m, Kind: "identity", Salt: r.Intn(1000)}))
			}
		}
	}
	nf := 120
	if tier == "thorough" {
		nf = 6000
	}
	for i := 0; i < nf; i++ {
		kind, mut := "bug", "fuzz"
		sit := c07Sits[r.Intn(len(c07Sits))]
		if i%4 == 3 {
			kind, mut, sit = "identity", "idv-fuzz", []string{"absent", "equal", "ahead"}[r.Intn(3)]
		}
		res = append(res, mustJSON(c07Input{Sit: sit, Mut: mut, Kind: kind, Salt: r.Intn(1 << 30)}))
	}
	var out []json.RawMessage
	for _, x := range res {
		if x != nil {
			out = append(out, x)
		}
	}
	return out
}

type c07Obs struct {
	Status     string            `json:"status"` // status reported for the mutated entity: new|nothing|updated|invalid|error|missing
	Reason     string            `json:"reason,omitempty"`
	Others     []string          `json:"others,omitempty"`
	RefsBefore map[string]string `json:"refs_before"`
	RefsAfter  map[string]string `json:"refs_after"`
	Readable   bool              `json:"all_local_readable"`
	ReadErr    string            `json:"read_err,omitempty"`
	TipEntries []string          `json:"tip_entries,omitempty"`
}

func localRefs(repo repository.TestedRepo) map[string]string {
	res := map[string]string{}
	for _, p := range []string{"refs/bugs/", "refs/identities/"} {
		names, _ := repo.ListRefs(p)
		for _, n := range names {
			h, err := repo.ResolveRef(n)
			if err == nil {
				res[n] = string(h)
			}
		}
	}
	return res
}

func (c07Driver) Run(raw json.RawMessage) Case {
	var in c07Input
	if err := json.Unmarshal(raw, &in); err != nil {
		return Case{Skip: "bad input"}
	}
	dir, err := os.MkdirTemp("", "verif-c07-")
	if err != nil {
		panic(err)
	}
	defer os.RemoveAll(dir)
	remote, _ := newTestRepo(dir+"/remote", true)
	repoA, _ := newTestRepo(dir+"/a", false)
	repoB, _ := newTestRepo(dir+"/b", false)
	defer remote.Close()
	defer repoA.Close()
	defer repoB.Close()
	_ = repoA.AddRemote("origin", remote.GetLocalRemote())
	_ = repoB.AddRemote("origin", remote.GetLocalRemote())
	must := func(err error, what string) {
		if err != nil {
			panic(what + ": " + err.Error())
		}
	}
	// identities
	alice, err := identity.NewIdentity(repoA, "alice", "alice@x.org")
	must(err, "alice")
	must(alice.Commit(repoA), "alice commit")
	victim, err := identity.NewIdentity(repoA, "victim", "victim@x.org")
	must(err, "victim")
	must(victim.Commit(repoA), "victim commit")
	_, err = identity.Push(repoA, "origin")
	must(err, "identity push")
	must(identity.Pull(repoB, "origin"), "identity pull")
	aliceB, err := identity.ReadLocal(repoB, alice.Id())
	must(err, "aliceB")
	victimB, err := identity.ReadLocal(repoB, victim.Id())
	must(err, "victimB")
	resolversB := entity.Resolvers{&identity.Identity{}: identity.NewSimpleResolver(repoB)}
	pullB := func() {
		_, err := bug.Fetch(repoB, "origin")
		if err != nil && !strings.Contains(err.Error(), "up-to-date") {
			panic("fetch: " + err.Error())
		}
		for mr := range bug.MergeAll(repoB, resolversB, "origin", victimB) {
			if mr.Err != nil || mr.Status == entity.MergeStatusInvalid {
				panic("setup merge: " + mr.String())
			}
		}
	}
	// an unrelated local bug of the victim, and a second one shared by both
	other, _, err := bug.Create(victimB, 1600000000, "victim's own bug", "message", nil, nil)
	must(err, "other")
	_, _, _ = bug.AddComment(other, victimB, 1600000001, "own comment", nil, nil)
	must(other.Commit(repoB), "other commit")

	var targetID entity.Id
	trackRef := ""
	legitRef := ""
	if in.Kind == "bug" || in.Kind == "localbug" {
		t, _, err := bug.Create(alice, 1600000100, "target bug", "target message", nil, nil)
		must(err, "target")
		must(t.Commit(repoA), "target commit")
		_, _, _ = bug.AddComment(t, alice, 1600000101, "second", nil, nil)
		must(t.Commit(repoA), "target commit 2")
		targetID = t.Id()
		_, err = bug.Push(repoA, "origin")
		must(err, "push")
		switch in.Sit {
		case "absent":
			_, err := bug.Fetch(repoB, "origin")
			must(err, "fetch")
		case "equal":
			pullB()
		case "ahead":
			pullB()
			tb, err := bug.Read(repoB, targetID)
			must(err, "read tb")
			_, _, _ = bug.AddComment(tb, victimB, 1600000200, "victim ahead", nil, nil)
			must(tb.Commit(repoB), "tb commit")
		case "behind", "diverged":
			pullB()
			if in.Sit == "diverged" {
				tb, err := bug.Read(repoB, targetID)
				must(err, "read tb")
				_, _, _ = bug.AddComment(tb, victimB, 1600000200, "victim diverged", nil, nil)
				must(tb.Commit(repoB), "tb commit")
			}
			_, _, _ = bug.AddComment(t, alice, 1600000102, "alice third", nil, nil)
			must(t.Commit(repoA), "target commit 3")
			_, err = bug.Push(repoA, "origin")
			must(err, "push2")
			_, err = bug.Fetch(repoB, "origin")
			must(err, "fetch2")
		}
		trackRef = "refs/remotes/origin/bugs/" + string(targetID)
	} else {
		targetID = alice.Id()
		trackRef = "refs/remotes/origin/identities/" + string(targetID)
		switch in.Sit {
		case "absent":
			// a brand new identity published by the remote side
			mallory, err := identity.NewIdentity(repoA, "mallory", "m@x.org")
			must(err, "mallory")
			must(mallory.Commit(repoA), "mallory commit")
			_, err = identity.Push(repoA, "origin")
			must(err, "push m")
			_, err = identity.Fetch(repoB, "origin")
			must(err, "fetch m")
			targetID = mallory.Id()
			trackRef = "refs/remotes/origin/identities/" + string(targetID)
		case "ahead":
			must(aliceB.Mutate(repoB, func(m *identity.Mutator) { m.Name = "alice (victim's edit)" }), "mutate")
			must(aliceB.Commit(repoB), "aliceB commit")
		}
	}

	// ---- craft ----
	base, err := repoB.ResolveRef(trackRef)
	must(err, "resolve tracking ref")
	emptyBlob, _ := repoB.StoreData([]byte{})
	obs := c07Obs{}
	extraRefs := []string{}
	store := func(entries []repository.TreeEntry, parents ...repository.Hash) repository.Hash {
		th, err := repoB.StoreTree(entries)
		must(err, "store tree")
		ch, err := repoB.StoreCommit(th, parents...)
		must(err, "store commit")
		return ch
	}
	if in.Kind == "bug" || in.Kind == "localbug" {
		_, parentInfo, _ := readCommitRaw(repoB, base)
		_ = parentInfo
		pc, _, _ := readCommitRaw(repoB, base)
		edit := pc.Edit + 1
		mkOps := func(ops ...dag.Operation) []byte {
			data, err := json.Marshal(packJSON{Author: alice, Operations: ops})
			must(err, "marshal pack")
			return data
		}
		comment := bug.NewAddCommentOp(alice, int64(1600000300+in.Salt), fmt.Sprintf("crafted %d", in.Salt), nil)
		data := mkOps(comment)
		patch := func(f func(m map[string]interface{})) []byte {
			var m map[string]interface{}
			_ = json.Unmarshal(data, &m)
			f(m)
			out, _ := json.Marshal(m)
			return out
		}
		patchOp := func(f func(op map[string]interface{})) []byte {
			return patch(func(m map[string]interface{}) {
				ops := m["ops"].([]interface{})
				f(ops[0].(map[string]interface{}))
			})
		}
		entries := func(opsData []byte) []repository.TreeEntry {
			h, _ := repoB.StoreData(opsData)
			return []repository.TreeEntry{
				{ObjectType: repository.Blob, Hash: emptyBlob, Name: "version-4"},
				{ObjectType: repository.Blob, Hash: h, Name: "ops"},
				{ObjectType: repository.Blob, Hash: emptyBlob, Name: fmt.Sprintf("edit-clock-%d", edit)},
			}
		}
		replace := func(es []repository.TreeEntry, name string, with ...repository.TreeEntry) []repository.TreeEntry {
			var out []repository.TreeEntry
			for _, e := range es {
				if strings.HasPrefix(e.Name, name) {
					out = append(out, with...)
				} else {
					out = append(out, e)
				}
			}
			return out
		}
		es := entries(data)
		parents := []repository.Hash{base}
		newTrack := ""
		var tip repository.Hash
		direct := false
		switch in.Mut {
		case "none":
		case "no-ops":
			es = replace(es, "ops")
		case "ops-is-tree":
			sub, _ := repoB.StoreTree([]repository.TreeEntry{{ObjectType: repository.Blob, Hash: emptyBlob, Name: "x"}})
			es = replace(es, "ops", repository.TreeEntry{ObjectType: repository.Tree, Hash: sub, Name: "ops"})
		case "no-version":
			es = replace(es, "version-")
		case "version-5":
			es = replace(es, "version-", repository.TreeEntry{ObjectType: repository.Blob, Hash: emptyBlob, Name: "version-5"})
		case "version-0":
			es = replace(es, "version-", repository.TreeEntry{ObjectType: repository.Blob, Hash: emptyBlob, Name: "version-0"})
		case "version-abc":
			es = replace(es, "version-", repository.TreeEntry{ObjectType: repository.Blob, Hash: emptyBlob, Name: "version-abc"})
		case "version-huge":
			es = replace(es, "version-", repository.TreeEntry{ObjectType: repository.Blob, Hash: emptyBlob, Name: "version-99999999999999999999999"})
		case "two-versions":
			es = append(es, repository.TreeEntry{ObjectType: repository.Blob, Hash: emptyBlob, Name: "version-5"})
		case "edit-abc":
			es = replace(es, "edit-clock-", repository.TreeEntry{ObjectType: repository.Blob, Hash: emptyBlob, Name: "edit-clock-abc"})
		case "edit-missing":
			es = replace(es, "edit-clock-")
		case "edit-two":
			es = append(es, repository.TreeEntry{ObjectType: repository.Blob, Hash: emptyBlob, Name: fmt.Sprintf("edit-clock-%d", edit+1)})
		case "create-abc":
			es = append(es, repository.TreeEntry{ObjectType: repository.Blob, Hash: emptyBlob, Name: "create-clock-xyz"})
		case "create-on-child":
			es = append(es, repository.TreeEntry{ObjectType: repository.Blob, Hash: emptyBlob, Name: "create-clock-7"})
		case "extra-blob":
			es = append(es, repository.TreeEntry{ObjectType: repository.Blob, Hash: emptyBlob, Name: "extra"})
		case "empty-tree":
			es = []repository.TreeEntry{{ObjectType: repository.Blob, Hash: emptyBlob, Name: "unrelated"}}
		case "not-json":
			es = entries([]byte("this is not json {"))
		case "empty-object":
			es = entries([]byte("{}"))
		case "no-author":
			es = entries(patch(func(m map[string]interface{}) { delete(m, "author") }))
		case "author-empty-id":
			es = entries(patch(func(m map[string]interface{}) { m["author"] = map[string]interface{}{"id": ""} }))
		case "author-unknown":
			es = entries(patch(func(m map[string]interface{}) {
				m["author"] = map[string]interface{}{"id": strings.Repeat("ab", 32)}
			}))
		case "author-number":
			es = entries(patch(func(m map[string]interface{}) { m["author"] = 5 }))
		case "ops-null":
			es = entries(patch(func(m map[string]interface{}) { m["ops"] = nil }))
		case "ops-string":
			es = entries(patch(func(m map[string]interface{}) { m["ops"] = "x" }))
		case "op-type-42":
			es = entries(patchOp(func(op map[string]interface{}) { op["type"] = 42 }))
		case "op-type-string":
			es = entries(patchOp(func(op map[string]interface{}) { op["type"] = "comment" }))
		case "op-type-missing":
			es = entries(patchOp(func(op map[string]interface{}) { delete(op, "type") }))
		case "op-garbage-fields":
			es = entries(patchOp(func(op map[string]interface{}) { op["message"] = []int{1, 2}; op["timestamp"] = "soon" }))
		case "second-create":
			es = entries(mkOps(bug.NewCreateOp(alice, 1600000400, "second create", "x", nil)))
		case "dup-op":
			es = entries(mkOps(comment, comment))
		case "empty-title":
			es = entries(mkOps(bug.NewSetTitleOp(alice, 1600000400, "", "was")))
		case "fuzz":
			es = entries(fuzzBytes(data, in.Salt))
		case "json-trailing":
			es = entries(append(append([]byte{}, data...), []byte(" trailing garbage")...))
		case "clock-equal":
			es = replace(es, "edit-clock-", repository.TreeEntry{ObjectType: repository.Blob, Hash: emptyBlob, Name: fmt.Sprintf("edit-clock-%d", pc.Edit)})
		case "clock-jump":
			es = replace(es, "edit-clock-", repository.TreeEntry{ObjectType: repository.Blob, Hash: emptyBlob, Name: fmt.Sprintf("edit-clock-%d", pc.Edit+1000001)})
		case "merge-with-ops":
			c, _ := repoB.ReadCommit(base)
			if len(c.Parents) == 0 {
				return Case{Skip: "no second parent available"}
			}
			parents = []repository.Hash{base, c.Parents[0]}
		case "merge-clock-equal", "merge-clock-below":
			// a forged merge commit (no operations) whose clock is not above its parents', then a normal commit on
			// top of it: the operations of the child would be ordered among those of its ancestors
			c, _ := repoB.ReadCommit(base)
			if len(c.Parents) == 0 {
				return Case{Skip: "no second parent available"}
			}
			mEdit := pc.Edit
			if in.Mut == "merge-clock-below" && mEdit > 1 {
				mEdit--
			}
			mes := entries(mkOps())
			mes = replace(mes, "edit-clock-", repository.TreeEntry{ObjectType: repository.Blob, Hash: emptyBlob, Name: fmt.Sprintf("edit-clock-%d", mEdit)})
			mc := store(mes, base, c.Parents[0])
			es = replace(es, "edit-clock-", repository.TreeEntry{ObjectType: repository.Blob, Hash: emptyBlob, Name: fmt.Sprintf("edit-clock-%d", mEdit+1)})
			parents = []repository.Hash{mc}
		case "same-ops-both-sides":
			// the remote's new commit carries the very operations (same bytes, same ids) the victim recorded in its
			// own, different, commit: each side is valid, their union holds every operation twice
			if in.Sit != "diverged" && in.Sit != "ahead" {
				return Case{Skip: "needs a local commit the remote does not have"}
			}
			lh, err := repoB.ResolveRef("refs/bugs/" + string(targetID))
			must(err, "local head")
			lc, err := repoB.ReadCommit(lh)
			must(err, "read local head")
			lt, err := repoB.ReadTree(lc.TreeHash)
			must(err, "read local tree")
			found := false
			for _, e := range lt {
				if e.Name == "ops" {
					es = replace(es, "ops", repository.TreeEntry{ObjectType: repository.Blob, Hash: e.Hash, Name: "ops"})
					found = true
				}
			}
			if !found {
				return Case{Skip: "local head has no ops entry"}
			}
			// another logical time than the victim's own commit: the two commits differ
			es = replace(es, "edit-clock-", repository.TreeEntry{ObjectType: repository.Blob, Hash: emptyBlob, Name: fmt.Sprintf("edit-clock-%d", edit+3)})
		case "same-id-other-root":
			// the same bug id (a byte-identical first operation pack) on ANOTHER root commit, then a comment: a
			// history that shares nothing with what the victim holds
			if in.Sit == "absent" {
				return Case{Skip: "a foreign root of an unknown bug is simply a new bug"}
			}
			commits := refCommits(repoB, trackRef)
			first, err := repoB.ReadCommit(repository.Hash(commits[0]))
			must(err, "read first commit")
			_ = repoB.LocalConfig().StoreString("user.name", "somebody else")
			_ = repoB.LocalConfig().StoreString("user.email", "else@example.com")
			root, err := repoB.StoreCommit(first.TreeHash)
			must(err, "store other root")
			if string(root) == commits[0] {
				// same author, same second: the commit object is the same one; a second later it is not
				time.Sleep(1100 * time.Millisecond)
				root, err = repoB.StoreCommit(first.TreeHash)
				must(err, "store other root")
			}
			_ = repoB.LocalConfig().StoreString("user.name", "testuser")
			_ = repoB.LocalConfig().StoreString("user.email", "testuser@example.com")
			if string(root) == commits[0] {
				return Case{Skip: "could not make a distinct root commit"}
			}
			rc, _, _ := readCommitRaw(repoB, root)
			es = replace(es, "edit-clock-", repository.TreeEntry{ObjectType: repository.Blob, Hash: emptyBlob, Name: fmt.Sprintf("edit-clock-%d", rc.Edit+1)})
			parents = []repository.Hash{root}
		case "foreign-root-merge":
			otherHead, _ := repoB.ResolveRef("refs/bugs/" + string(other.Id()))
			oc, _, _ := readCommitRaw(repoB, otherHead)
			if oc.Edit >= edit {
				edit = oc.Edit + 1
			}
			es = entries(mkOps())
			es = replace(es, "edit-clock-", repository.TreeEntry{ObjectType: repository.Blob, Hash: emptyBlob, Name: fmt.Sprintf("edit-clock-%d", edit)})
			parents = []repository.Hash{base, otherHead}
		case "ref-name-mismatch":
			newTrack = "refs/remotes/origin/bugs/" + fmt.Sprintf("%064x", 0xfeed0000+in.Salt)
			tip, direct = base, true
		case "ref-to-blob":
			tip, direct = emptyBlob, true
		case "ref-to-tree":
			th, _ := repoB.StoreTree(es)
			tip, direct = th, true
		case "ref-bad-name":
			newTrack = "refs/remotes/origin/bugs/short-name"
			tip, direct = base, true
		case "first-op-not-create", "root-no-create-clock", "root-empty-pack":
			// a brand new hostile bug
			var ops []dag.Operation
			switch in.Mut {
			case "first-op-not-create":
				ops = []dag.Operation{bug.NewAddCommentOp(alice, int64(1600000500+in.Salt), "no create before me", nil)}
			case "root-no-create-clock":
				ops = []dag.Operation{bug.NewCreateOp(alice, int64(1600000500+in.Salt), "hostile", "x", nil)}
			}
			d := mkOps(ops...)
			res := entries(d)
			if in.Mut != "root-no-create-clock" {
				res = append(res, repository.TreeEntry{ObjectType: repository.Blob, Hash: emptyBlob, Name: "create-clock-1"})
			}
			es, parents = res, nil
			name := fmt.Sprintf("%064x", 0xbad0000+in.Salt)
			if len(ops) > 0 {
				var aux struct {
					Ops []json.RawMessage `json:"ops"`
				}
				_ = json.Unmarshal(d, &aux)
				name = string(entity.DeriveId(aux.Ops[0]))
			}
			newTrack = "refs/remotes/origin/bugs/" + name
		default:
			return Case{Skip: "unknown mutation " + in.Mut}
		}
		if !direct {
			tip = store(es, parents...)
			for _, e := range es {
				obs.TipEntries = append(obs.TipEntries, e.Name)
			}
		}
		ref := trackRef
		if newTrack != "" {
			ref = newTrack
			extraRefs = append(extraRefs, newTrack)
			legitRef = "refs/bugs/" + string(targetID)
			targetID = entity.Id(newTrack[strings.LastIndex(newTrack, "/")+1:])
		}
		if in.Mut == "ref-to-blob" || in.Mut == "ref-to-tree" {
			// go-git refuses nothing here: a ref is just a name and a hash
		}
		if in.Kind == "localbug" {
			ref = "refs/bugs/" + string(targetID)
		}
		must(repoB.UpdateRef(ref, tip), "update tracking ref")
	} else {
		commits := refCommits(repoB, trackRef)
		m, _, err := readVersionBlob(repoB, commits[len(commits)-1])
		must(err, "read version")
		m["unix_time"] = 1700000000
		m["name"] = fmt.Sprintf("crafted %d", in.Salt)
		blobOf := func(v interface{}) repository.Hash {
			d, _ := json.Marshal(v)
			h, _ := repoB.StoreData(d)
			return h
		}
		es := []repository.TreeEntry{{ObjectType: repository.Blob, Hash: blobOf(m), Name: "version"}}
		newTrack := ""
		var tip repository.Hash
		direct := false
		switch in.Mut {
		case "none":
		case "idv-not-json":
			h, _ := repoB.StoreData([]byte("{not json"))
			es[0].Hash = h
		case "idv-wrong-version":
			m["version"] = 1
			es[0].Hash = blobOf(m)
		case "idv-two-entries":
			es = append(es, repository.TreeEntry{ObjectType: repository.Blob, Hash: emptyBlob, Name: "zzz"})
		case "idv-bad-entry-name":
			es[0].Name = "versions"
		case "idv-ref-mismatch":
			newTrack = "refs/remotes/origin/identities/" + fmt.Sprintf("%064x", 0xfeed0000+in.Salt)
			tip, direct = base, true
		case "idv-empty-name":
			m["name"] = ""
			delete(m, "login")
			es[0].Hash = blobOf(m)
		case "idv-ctrl-char":
			m["name"] = "evil\u0007name"
			es[0].Hash = blobOf(m)
		case "idv-fuzz":
			d, _ := json.Marshal(m)
			h, _ := repoB.StoreData(fuzzBytes(d, in.Salt))
			es[0].Hash = h
		case "idv-null-key":
			m["pub_keys"] = []interface{}{nil}
			es[0].Hash = blobOf(m)
		case "idv-bad-key":
			m["pub_keys"] = []interface{}{map[string]interface{}{"pub_key": "not an armored key"}}
			es[0].Hash = blobOf(m)
		case "idv-times-string":
			m["times"] = "soon"
			es[0].Hash = blobOf(m)
		case "idv-no-nonce":
			delete(m, "nonce")
			es[0].Hash = blobOf(m)
		case "idv-tree-as-version":
			sub, _ := repoB.StoreTree([]repository.TreeEntry{{ObjectType: repository.Blob, Hash: emptyBlob, Name: "x"}})
			es = []repository.TreeEntry{{ObjectType: repository.Tree, Hash: sub, Name: "version"}}
		case "idv-ref-to-blob":
			tip, direct = emptyBlob, true
		case "idv-other-root":
			// the same identity id (a byte-identical first version) on top of ANOTHER root commit, then a further
			// version: not a descendant of what the victim holds
			if in.Sit == "absent" {
				return Case{Skip: "a foreign root of an unknown identity is simply a new identity"}
			}
			first, err := repoB.ReadCommit(repository.Hash(commits[0]))
			must(err, "read first commit")
			_ = repoB.LocalConfig().StoreString("user.name", "somebody else")
			_ = repoB.LocalConfig().StoreString("user.email", "else@example.com")
			root, err := repoB.StoreCommit(first.TreeHash)
			must(err, "store other root")
			if string(root) == commits[0] {
				// same author, same second: the commit object is the same one; a second later it is not
				time.Sleep(1100 * time.Millisecond)
				root, err = repoB.StoreCommit(first.TreeHash)
				must(err, "store other root")
			}
			if string(root) == commits[0] {
				return Case{Skip: "could not make a distinct root commit"}
			}
			_ = repoB.LocalConfig().StoreString("user.name", "testuser")
			_ = repoB.LocalConfig().StoreString("user.email", "testuser@example.com")
			tip, direct = store(es, root), true
		case "idv-two-parents":
			// a version commit with two parents: the chain of versions of an identity is linear
			if in.Sit == "absent" {
				return Case{Skip: "needs a known previous version"}
			}
			vh, _ := repoB.ResolveRef("refs/identities/" + string(victim.Id()))
			tip, direct = store(es, base, vh), true
		case "idv-clock-decreases":
			// a version whose lamport time for a clock is lower than in the previous version
			if in.Sit == "absent" {
				return Case{Skip: "needs a known previous version"}
			}
			prev, _, err := readVersionBlob(repoB, commits[len(commits)-1])
			must(err, "read previous version")
			pm := map[string]interface{}{}
			for k, v := range prev {
				pm[k] = v
			}
			pm["times"] = map[string]interface{}{"bugs-edit": 50, "bugs-create": 50}
			pm["unix_time"] = 1700000000
			mid := store([]repository.TreeEntry{{ObjectType: repository.Blob, Hash: blobOf(pm), Name: "version"}}, base)
			m["times"] = map[string]interface{}{"bugs-edit": 49, "bugs-create": 50}
			m["unix_time"] = 1700000001
			es[0].Hash = blobOf(m)
			tip, direct = store(es, mid), true
		default:
			return Case{Skip: "unknown mutation " + in.Mut}
		}
		if !direct {
			tip = store(es, base)
		}
		ref := trackRef
		if newTrack != "" {
			ref = newTrack
			legitRef = "refs/identities/" + string(targetID)
			targetID = entity.Id(newTrack[strings.LastIndex(newTrack, "/")+1:])
		}
		must(repoB.UpdateRef(ref, tip), "update tracking ref")
	}

	// ---- the merge under test ----
	obs.RefsBefore = localRefs(repoB)
	obs.Status = "missing"
	record := func(mr entity.MergeResult) {
		st := "error"
		switch {
		case mr.Err != nil:
			st = "error"
		case mr.Status == entity.MergeStatusNew:
			st = "new"
		case mr.Status == entity.MergeStatusNothing:
			st = "nothing"
		case mr.Status == entity.MergeStatusUpdated:
			st = "updated"
		case mr.Status == entity.MergeStatusInvalid:
			st = "invalid"
		}
		if mr.Id == targetID {
			obs.Status = st
			obs.Reason = mr.Reason
			if mr.Err != nil {
				obs.Reason = mr.Err.Error()
			}
		} else {
			obs.Others = append(obs.Others, st)
		}
	}
	if in.Kind == "localbug" {
		// corrupt data already stored locally: Read and ReadAll must answer with an error or the entity
		obs.RefsAfter = obs.RefsBefore
		rb, err1 := bug.Read(repoB, targetID)
		var err2 error
		for se := range bug.ReadAll(repoB) {
			if se.Err != nil {
				err2 = se.Err
			}
		}
		obs.Status = "updated"
		if err1 != nil {
			obs.Status, obs.Reason = "invalid", err1.Error()
		}
		obs.Readable = true
		if (err1 == nil) != (err2 == nil) {
			obs.Readable, obs.ReadErr = false, "Read and ReadAll disagree on the corrupt bug"
		}
		// every command builds (or loads) the cache over what is stored locally: corrupt data must be reported by
		// the build, not crash it (a panic in the build's goroutine kills this worker: the case is then "crashed")
		if rc, events := cache.NewNamedRepoCache(repoB, ""); rc != nil {
			for range events {
			}
			_ = rc.Close()
		}
		expectInvalid := c07BugMuts[in.Mut]
		switch in.Mut {
		case "dup-op", "empty-title", "second-create":
			// semantic rules are Validate()'s business: Read decodes, Validate must report them
			expectInvalid = false
			if err1 == nil && rb.Validate() == nil {
				obs.Readable, obs.ReadErr = false, "corrupt local bug passes Validate"
			}
		}
		st := map[string]string{"updated": "SUpdated", "invalid": "SInvalid"}[obs.Status]
		var es []string
		for _, n := range obs.TipEntries {
			es = append(es, fmt.Sprintf("(%s, false)", coqRunes(n)))
		}
		term := fmt.Sprintf("mkcase7 %s %s true %s true %s %s", coqBool(expectInvalid), st, coqBool(obs.Readable), coqBool(len(obs.TipEntries) > 0), coqList(es))
		tags := []string{"kind:" + in.Kind, "mut:" + in.Mut, "status:" + obs.Status}
		return Case{Coq: term, Obs: obs, Tags: tags, NonTrivial: in.Mut != "none", Key: fmt.Sprintf("%s/%s/%s", in.Kind, in.Sit, in.Mut)}
	}
	if in.Kind == "bug" {
		for mr := range bug.MergeAll(repoB, resolversB, "origin", victimB) {
			record(mr)
		}
	} else {
		for mr := range identity.MergeAll(repoB, "origin") {
			record(mr)
		}
	}
	obs.RefsAfter = localRefs(repoB)
	obs.Readable = true
	ids, _ := bug.ListLocalIds(repoB)
	for _, id := range ids {
		b, err := bug.Read(repoB, id)
		if err != nil {
			obs.Readable, obs.ReadErr = false, fmt.Sprintf("bug %s: %v", id.Human(), err)
			continue
		}
		if b.Id() != id {
			obs.Readable, obs.ReadErr = false, fmt.Sprintf("bug ref %s holds entity %s", id.Human(), b.Id().Human())
		}
		if err := b.Validate(); err != nil {
			obs.Readable, obs.ReadErr = false, fmt.Sprintf("bug %s invalid: %v", id.Human(), err)
		}
	}
	iids, _ := identity.ListLocalIds(repoB)
	for _, id := range iids {
		x, err := identity.ReadLocal(repoB, id)
		if err != nil {
			obs.Readable, obs.ReadErr = false, fmt.Sprintf("identity %s: %v", id.Human(), err)
			continue
		}
		if x.Id() != id || x.Validate() != nil {
			obs.Readable, obs.ReadErr = false, fmt.Sprintf("identity %s does not match its ref or is invalid", id.Human())
		}
	}

	// when the hostile data sits under a ref of its own, the valid history still served under the
	// original name is merged legitimately: its local ref is not part of the comparison
	same := true
	keys := map[string]bool{}
	for k := range obs.RefsBefore {
		keys[k] = true
	}
	for k := range obs.RefsAfter {
		keys[k] = true
	}
	for k := range keys {
		if legitRef != "" && k == legitRef {
			continue
		}
		if obs.RefsAfter[k] != obs.RefsBefore[k] {
			same = false
		}
	}
	expectInvalid := c07BugMuts[in.Mut]
	if in.Kind == "identity" {
		expectInvalid = c07IdentMuts[in.Mut]
	}
	st := map[string]string{"new": "SNew", "nothing": "SNothing", "updated": "SUpdated", "invalid": "SInvalid", "error": "SError", "missing": "SMissing"}[obs.Status]
	var es []string
	for _, n := range obs.TipEntries {
		es = append(es, fmt.Sprintf("(%s, false)", coqRunes(n)))
	}
	othersOK := true
	for _, o := range obs.Others {
		if o == "invalid" || o == "error" {
			othersOK = false
		}
	}
	term := fmt.Sprintf("mkcase7 %s %s %s %s %s %s %s", coqBool(expectInvalid), st, coqBool(same), coqBool(obs.Readable), coqBool(othersOK),
		coqBool(in.Kind == "bug" && len(obs.TipEntries) > 0), coqList(es))
	tags := []string{"kind:" + in.Kind, "sit:" + in.Sit, "mut:" + in.Mut, "status:" + obs.Status}
	key := fmt.Sprintf("%s/%s/%s", in.Kind, in.Sit, in.Mut)
	if strings.HasSuffix(in.Mut, "fuzz") {
		key += fmt.Sprintf("/%d", in.Salt)
	}
	return Case{Coq: term, Obs: obs, Tags: tags, NonTrivial: in.Mut != "none", Key: key}
}

// fuzzBytes applies 1-3 structure-aware byte mutations, all derived from the seed.
func fuzzBytes(data []byte, seed int) []byte {
	r := NewRand(uint64(seed))
	out := append([]byte(nil), data...)
	tokens := []string{"null", "true", "0", "-1", "1e400", "18446744073709551616", "\"\"", "[]", "{}", "[[[[[[[[[[]]]]]]]]]]", "\"\\ud800\"", "\u0000", "{\"id\":null}"}
	for k, n := 0, 1+r.Intn(3); k < n && len(out) > 0; k++ {
		p := r.Intn(len(out))
		switch r.Intn(8) {
		case 0:
			out[p] ^= byte(1 << uint(r.Intn(8)))
		case 1:
			out = append(out[:p], out[p+1:]...)
		case 2:
			out = append(out[:p], append([]byte{byte(r.Intn(256))}, out[p:]...)...)
		case 3:
			out = out[:p]
		case 4: // replace a JSON value starting at a ':' by a token of another type
			for q := p; q < len(out); q++ {
				if out[q] == ':' {
					end := q + 1
					depth := 0
					inStr := false
					for end < len(out) {
						c := out[end]
						if inStr {
							if c == '\\' {
								end++
							} else if c == '"' {
								inStr = false
							}
						} else if c == '"' {
							inStr = true
						} else if c == '{' || c == '[' {
							depth++
						} else if c == '}' || c == ']' {
							if depth == 0 {
								break
							}
							depth--
						} else if c == ',' && depth == 0 {
							break
						}
						end++
					}
					tok := tokens[r.Intn(len(tokens))]
					out = append(append(append([]byte(nil), out[:q+1]...), []byte(tok)...), out[end:]...)
					break
				}
			}
		case 5: // duplicate a slice
			q := p + r.Intn(len(out)-p)
			out = append(out[:q], append(append([]byte(nil), out[p:q]...), out[q:]...)...)
		case 6: // change the case of a key (encoding/json matches keys case-insensitively)
			for q := p; q < len(out) && q < p+12; q++ {
				if out[q] >= 'a' && out[q] <= 'z' {
					out[q] -= 32
				}
			}
		case 7:
			out = append(out, []byte(tokens[r.Intn(len(tokens))])...)
		}
	}
	return out
}
