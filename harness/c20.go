package main

import (
	"encoding/base64"
	"encoding/json"
	"fmt"
	"strings"

	"github.com/MichaelMure/git-bug/api/graphql/connections"
	"github.com/MichaelMure/git-bug/api/graphql/models"
	"github.com/MichaelMure/git-bug/entities/bug"
	"github.com/MichaelMure/git-bug/entities/identity"
	"github.com/MichaelMure/git-bug/entity"
	"github.com/MichaelMure/git-bug/entity/dag"
	"github.com/MichaelMure/git-bug/repository"
)

// C20: pagination. Calls the seven generated *Con functions directly, with the same
// edge makers the resolvers use (cursor = OffsetToCursor(offset)).

type c20Cursor struct {
	Kind string `json:"k"` // "nil" | "off" | "foreign" | "malformed"
	Off  int    `json:"o,omitempty"`
}
type c20Input struct {
	Con    string    `json:"con"`
	N      int       `json:"n"`
	After  c20Cursor `json:"after"`
	Before c20Cursor `json:"before"`
	First  *int      `json:"first"`
	Last   *int      `json:"last"`
}

type c20Driver struct{}

func init() { register("C20", c20Driver{}) }

var c20Cons = []string{"label", "comment", "operation", "timeline", "identity", "lazybug", "lazyidentity"}

func (c20Driver) Gen(r *Rand, tier string) []json.RawMessage {
	var res []json.RawMessage
	maxN := 4
	if tier == "thorough" {
		maxN = 6
	}
	// exhaustive over n <= maxN for one connection kind per (n) rotating, all cursor and size combos
	ci := 0
	for n := 0; n <= maxN; n++ {
		curs := []c20Cursor{{Kind: "nil"}, {Kind: "foreign"}, {Kind: "foreign", Off: 1 + n%5}, {Kind: "malformed"}}
		for o := 0; o <= n; o++ { // offset n is a well-formed cursor that designates no element
			curs = append(curs, c20Cursor{Kind: "off", Off: o})
		}
		var sizes []*int
		sizes = append(sizes, nil)
		for k := -1; k <= n+1; k++ {
			kk := k
			sizes = append(sizes, &kk)
		}
		for _, a := range curs {
			for _, b := range curs {
				for _, f := range sizes {
					for _, l := range sizes {
						con := c20Cons[ci%len(c20Cons)]
						if tier == "thorough" {
							// every connection kind on every input
							for _, cn := range c20Cons {
								res = append(res, mustJSON(c20Input{cn, n, a, b, f, l}))
							}
							continue
						}
						ci++
						res = append(res, mustJSON(c20Input{con, n, a, b, f, l}))
					}
				}
			}
		}
	}
	// random larger lists
	extra := 600
	if tier == "thorough" {
		extra = 20000
	}
	for i := 0; i < extra; i++ {
		n := r.Range(5, 12)
		mk := func() c20Cursor {
			switch r.Intn(6) {
			case 0:
				return c20Cursor{Kind: "nil"}
			case 1:
				if r.Bool() {
					return c20Cursor{Kind: "foreign", Off: r.Intn(6)}
				}
				return c20Cursor{Kind: "malformed"}
			default:
				return c20Cursor{Kind: "off", Off: r.Intn(n + 2)}
			}
		}
		sz := func() *int {
			if r.Intn(3) == 0 {
				return nil
			}
			k := r.Range(-1, n+2)
			return &k
		}
		res = append(res, mustJSON(c20Input{c20Cons[r.Intn(len(c20Cons))], n, mk(), mk(), sz(), sz()}))
	}
	return res
}

// material shared by all cases of a worker process
type c20Material struct {
	labels   []bug.Label
	comments []bug.Comment
	ops      []dag.Operation
	timeline []bug.TimelineItem
	idents   []models.IdentityWrapper
	ids      []entity.Id
}

var c20Mat *c20Material

const c20MaxN = 16

func c20Build() *c20Material {
	repo := repository.NewMockRepo()
	m := &c20Material{}
	author, err := identity.NewIdentity(repo, "author", "a@example.org")
	if err != nil {
		panic(err)
	}
	b, _, err := bug.Create(author, 1000, "title", "message 0", nil, nil)
	if err != nil {
		panic(err)
	}
	for i := 1; i < c20MaxN; i++ {
		if _, _, err := bug.AddComment(b, author, int64(1000+i), fmt.Sprintf("message %d", i), nil, nil); err != nil {
			panic(err)
		}
	}
	snap := b.Compile()
	m.comments = snap.Comments
	m.ops = snap.Operations
	m.timeline = snap.Timeline
	if len(m.comments) != c20MaxN || len(m.ops) != c20MaxN || len(m.timeline) != c20MaxN {
		panic("c20: unexpected material sizes")
	}
	for i := 0; i < c20MaxN; i++ {
		m.labels = append(m.labels, bug.Label(fmt.Sprintf("label-%02d", i)))
		id, err := identity.NewIdentity(repo, fmt.Sprintf("user %d", i), fmt.Sprintf("u%d@example.org", i))
		if err != nil {
			panic(err)
		}
		m.idents = append(m.idents, models.NewLoadedIdentity(id))
		m.ids = append(m.ids, entity.Id(fmt.Sprintf("%064x", i+1)))
	}
	return m
}

type c20Obs struct {
	Err      string `json:"err,omitempty"` // "", "first", "last", "other:<text>"
	Items    []int  `json:"items"`         // offsets decoded from the returned edges' cursors
	NodesOK  bool   `json:"nodes_ok"`      // nodes[i] is the source element at the edge's offset, edges[i].node too
	HasNext  bool   `json:"has_next"`
	HasPrev  bool   `json:"has_prev"`
	Total    int    `json:"total"`
	Start    *int   `json:"start"` // decoded start cursor (nil: empty string)
	End      *int   `json:"end"`
	BadCur   bool   `json:"bad_cursor,omitempty"` // a returned cursor did not decode
	EmptyCon bool   `json:"empty_con,omitempty"`  // on error: returned connection has no edges
}

func c20CursorStr(c c20Cursor) *string {
	switch c.Kind {
	case "nil":
		return nil
	case "off":
		s := connections.OffsetToCursor(c.Off)
		return &s
	case "foreign":
		// well-formed base64 that designates no element of any list: another prefix, negative, huge, empty or
		// trailing-garbage offsets
		raw := []string{"foreign:3", "cursor:-1", "cursor:-3", "cursor:99999999999999999999", "cursor:", "cursor:1x"}[c.Off%6]
		s := base64.StdEncoding.EncodeToString([]byte(raw))
		return &s
	default:
		s := "%%%not-base64%%%"
		return &s
	}
}

func (c20Driver) Run(raw json.RawMessage) Case {
	var in c20Input
	if err := json.Unmarshal(raw, &in); err != nil {
		return Case{Skip: "bad input: " + err.Error()}
	}
	if in.N > c20MaxN {
		return Case{Skip: "n too large"}
	}
	if c20Mat == nil {
		c20Mat = c20Build()
	}
	m := c20Mat
	input := models.ConnectionInput{After: c20CursorStr(in.After), Before: c20CursorStr(in.Before), First: in.First, Last: in.Last}
	n := in.N
	obs := c20Obs{NodesOK: true}
	var info *models.PageInfo
	var cursors []string
	var err error
	dec := func(cur string) int {
		o, e := connections.CursorToOffset(cur)
		if e != nil {
			obs.BadCur = true
			return -1
		}
		return o
	}
	okIdx := func(o int) bool { return o >= 0 && o < n }
	switch in.Con {
	case "label":
		var con *models.LabelConnection
		con, err = connections.LabelCon(append([]bug.Label(nil), m.labels[:n]...),
			func(v bug.Label, off int) connections.Edge {
				return models.LabelEdge{Node: v, Cursor: connections.OffsetToCursor(off)}
			},
			func(edges []*models.LabelEdge, nodes []bug.Label, info *models.PageInfo, total int) (*models.LabelConnection, error) {
				return &models.LabelConnection{Edges: edges, Nodes: nodes, PageInfo: info, TotalCount: total}, nil
			}, input)
		if con != nil {
			info, obs.Total = con.PageInfo, con.TotalCount
			if len(con.Edges) != len(con.Nodes) {
				obs.NodesOK = false
			}
			for i, e := range con.Edges {
				cursors = append(cursors, e.Cursor)
				o := dec(e.Cursor)
				if !okIdx(o) || e.Node != m.labels[o] || i >= len(con.Nodes) || con.Nodes[i] != m.labels[o] {
					obs.NodesOK = false
				}
			}
		}
	case "comment":
		var con *models.CommentConnection
		con, err = connections.CommentCon(append([]bug.Comment(nil), m.comments[:n]...),
			func(v bug.Comment, off int) connections.Edge {
				return models.CommentEdge{Node: &v, Cursor: connections.OffsetToCursor(off)}
			},
			func(edges []*models.CommentEdge, nodes []bug.Comment, info *models.PageInfo, total int) (*models.CommentConnection, error) {
				var ns []*bug.Comment
				for _, c := range nodes {
					ns = append(ns, &c)
				}
				return &models.CommentConnection{Edges: edges, Nodes: ns, PageInfo: info, TotalCount: total}, nil
			}, input)
		if con != nil {
			info, obs.Total = con.PageInfo, con.TotalCount
			if len(con.Edges) != len(con.Nodes) {
				obs.NodesOK = false
			}
			for i, e := range con.Edges {
				cursors = append(cursors, e.Cursor)
				o := dec(e.Cursor)
				if !okIdx(o) || e.Node.Message != m.comments[o].Message || i >= len(con.Nodes) || con.Nodes[i].Message != m.comments[o].Message {
					obs.NodesOK = false
				}
			}
		}
	case "operation":
		var con *models.OperationConnection
		con, err = connections.OperationCon(append([]dag.Operation(nil), m.ops[:n]...),
			func(v dag.Operation, off int) connections.Edge {
				return models.OperationEdge{Node: v, Cursor: connections.OffsetToCursor(off)}
			},
			func(edges []*models.OperationEdge, nodes []dag.Operation, info *models.PageInfo, total int) (*models.OperationConnection, error) {
				return &models.OperationConnection{Edges: edges, Nodes: nodes, PageInfo: info, TotalCount: total}, nil
			}, input)
		if con != nil {
			info, obs.Total = con.PageInfo, con.TotalCount
			if len(con.Edges) != len(con.Nodes) {
				obs.NodesOK = false
			}
			for i, e := range con.Edges {
				cursors = append(cursors, e.Cursor)
				o := dec(e.Cursor)
				if !okIdx(o) || e.Node != m.ops[o] || i >= len(con.Nodes) || con.Nodes[i] != m.ops[o] {
					obs.NodesOK = false
				}
			}
		}
	case "timeline":
		var con *models.TimelineItemConnection
		con, err = connections.TimelineItemCon(append([]bug.TimelineItem(nil), m.timeline[:n]...),
			func(v bug.TimelineItem, off int) connections.Edge {
				return models.TimelineItemEdge{Node: v, Cursor: connections.OffsetToCursor(off)}
			},
			func(edges []*models.TimelineItemEdge, nodes []bug.TimelineItem, info *models.PageInfo, total int) (*models.TimelineItemConnection, error) {
				return &models.TimelineItemConnection{Edges: edges, Nodes: nodes, PageInfo: info, TotalCount: total}, nil
			}, input)
		if con != nil {
			info, obs.Total = con.PageInfo, con.TotalCount
			if len(con.Edges) != len(con.Nodes) {
				obs.NodesOK = false
			}
			for i, e := range con.Edges {
				cursors = append(cursors, e.Cursor)
				o := dec(e.Cursor)
				if !okIdx(o) || e.Node != m.timeline[o] || i >= len(con.Nodes) || con.Nodes[i] != m.timeline[o] {
					obs.NodesOK = false
				}
			}
		}
	case "identity":
		var con *models.IdentityConnection
		con, err = connections.IdentityCon(append([]models.IdentityWrapper(nil), m.idents[:n]...),
			func(v models.IdentityWrapper, off int) connections.Edge {
				return models.IdentityEdge{Node: v, Cursor: connections.OffsetToCursor(off)}
			},
			func(edges []*models.IdentityEdge, nodes []models.IdentityWrapper, info *models.PageInfo, total int) (*models.IdentityConnection, error) {
				return &models.IdentityConnection{Edges: edges, Nodes: nodes, PageInfo: info, TotalCount: total}, nil
			}, input)
		if con != nil {
			info, obs.Total = con.PageInfo, con.TotalCount
			if len(con.Edges) != len(con.Nodes) {
				obs.NodesOK = false
			}
			for i, e := range con.Edges {
				cursors = append(cursors, e.Cursor)
				o := dec(e.Cursor)
				if !okIdx(o) || e.Node != m.idents[o] || i >= len(con.Nodes) || con.Nodes[i] != m.idents[o] {
					obs.NodesOK = false
				}
			}
		}
	case "lazybug", "lazyidentity":
		// the lazy connections hand back ids; the resolvers' conMakers resolve them afterwards
		type lazyCon struct {
			edges []string
			ids   []entity.Id
			nodes []entity.Id
			info  *models.PageInfo
			total int
		}
		var got *lazyCon
		if in.Con == "lazybug" {
			_, err = connections.LazyBugCon(append([]entity.Id(nil), m.ids[:n]...),
				func(v entity.Id, off int) connections.Edge {
					return connections.LazyBugEdge{Id: v, Cursor: connections.OffsetToCursor(off)}
				},
				func(edges []*connections.LazyBugEdge, nodes []entity.Id, info *models.PageInfo, total int) (*models.BugConnection, error) {
					lc := &lazyCon{info: info, total: total, nodes: nodes}
					for _, e := range edges {
						lc.edges = append(lc.edges, e.Cursor)
						lc.ids = append(lc.ids, e.Id)
					}
					got = lc // the last call is the real one (the first builds the empty connection)
					return &models.BugConnection{PageInfo: info, TotalCount: total}, nil
				}, input)
		} else {
			_, err = connections.LazyIdentityCon(append([]entity.Id(nil), m.ids[:n]...),
				func(v entity.Id, off int) connections.Edge {
					return connections.LazyIdentityEdge{Id: v, Cursor: connections.OffsetToCursor(off)}
				},
				func(edges []*connections.LazyIdentityEdge, nodes []entity.Id, info *models.PageInfo, total int) (*models.IdentityConnection, error) {
					lc := &lazyCon{info: info, total: total, nodes: nodes}
					for _, e := range edges {
						lc.edges = append(lc.edges, e.Cursor)
						lc.ids = append(lc.ids, e.Id)
					}
					got = lc
					return &models.IdentityConnection{PageInfo: info, TotalCount: total}, nil
				}, input)
		}
		if got != nil {
			info, obs.Total = got.info, got.total
			if len(got.edges) != len(got.nodes) {
				obs.NodesOK = false
			}
			for i, cur := range got.edges {
				cursors = append(cursors, cur)
				o := dec(cur)
				if !okIdx(o) || got.ids[i] != m.ids[o] || i >= len(got.nodes) || got.nodes[i] != m.ids[o] {
					obs.NodesOK = false
				}
			}
		}
	default:
		return Case{Skip: "unknown connection " + in.Con}
	}
	if err != nil {
		switch {
		case strings.Contains(err.Error(), "first less than zero"):
			obs.Err = "first"
		case strings.Contains(err.Error(), "last less than zero"):
			obs.Err = "last"
		default:
			obs.Err = "other:" + err.Error()
		}
		obs.EmptyCon = len(cursors) == 0
		cursors = nil
	}
	for _, c := range cursors {
		obs.Items = append(obs.Items, dec(c))
	}
	if info != nil && err == nil {
		obs.HasNext, obs.HasPrev = info.HasNextPage, info.HasPreviousPage
		if info.StartCursor != "" {
			o := dec(info.StartCursor)
			obs.Start = &o
		}
		if info.EndCursor != "" {
			o := dec(info.EndCursor)
			obs.End = &o
		}
	}

	// ---- Coq term ----
	cur := func(c c20Cursor) string {
		switch c.Kind {
		case "nil":
			return "None"
		case "off":
			return fmt.Sprintf("(Some (Off %d))", c.Off)
		default:
			return "(Some Foreign)"
		}
	}
	sz := func(p *int) string {
		if p == nil {
			return "None"
		}
		return coqSome(coqZ(int64(*p)))
	}
	optNat := func(p *int) string {
		if p == nil {
			return "None"
		}
		if *p < 0 {
			return "(Some 99999)"
		}
		return coqSome(coqNat(*p))
	}
	var obsTerm string
	switch {
	case obs.Err == "first":
		obsTerm = "OErrFirst"
	case obs.Err == "last":
		obsTerm = "OErrLast"
	case obs.Err != "":
		obsTerm = "OOther"
	default:
		items := make([]int, len(obs.Items))
		for i, o := range obs.Items {
			if o < 0 {
				o = 99999
			}
			items[i] = o
		}
		obsTerm = fmt.Sprintf("(OOk %s %s %s %d %s %s %s)", coqNats(items), coqBool(obs.HasNext), coqBool(obs.HasPrev), obs.Total,
			optNat(obs.Start), optNat(obs.End), coqBool(obs.NodesOK && !obs.BadCur))
	}
	term := fmt.Sprintf("mkcase %d {| i_after := %s; i_before := %s; i_first := %s; i_last := %s |} %s",
		in.N, cur(in.After), cur(in.Before), sz(in.First), sz(in.Last), obsTerm)

	tags := []string{"con:" + in.Con, "after:" + in.After.Kind, "before:" + in.Before.Kind}
	if in.First != nil {
		tags = append(tags, "first")
	}
	if in.Last != nil {
		tags = append(tags, "last")
	}
	if obs.Err != "" {
		tags = append(tags, "err:"+obs.Err)
	}
	key := string(raw)
	nontrivial := in.N > 0 && (in.First != nil || in.Last != nil || in.After.Kind != "nil" || in.Before.Kind != "nil")
	return Case{Coq: term, Obs: obs, Tags: tags, NonTrivial: nontrivial, Key: key}
}
