package main

// C12, command line part (driver C12c): `git-bug bug [flags] -- [QUERY...]` run as a real process (the binary
// $VERIF_GITBUG built from the tree under test) in the repository of a generated population. What is under test
// is the way from argv to the evaluated query: commands/bug/bug.go repairQuery (the shell removed the quotes
// of `title:"a b"`, or the user protected them), query.Parse, completeQuery (the filter and sort flags).
//
// An argv element is (QueryCli.arg): AQuery = a piece of the query language given verbatim (one or more
// qualifiers, quotes included), AStripped = one qualifier whose quotes the shell removed (values may contain
// U+0020), ARaw = anything else (compared with the model only, nothing is demanded).

import (
	"bytes"
	"encoding/json"
	"fmt"
	"os"
	"os/exec"
	"sort"
	"strings"
	"time"
	"unicode"
)

type c12cArg struct {
	F     int       `json:"f"` // 0 verbatim query piece, 1 stripped qualifier, 2 raw text
	Items []c12Item `json:"items,omitempty"`
	Raw   string    `json:"raw,omitempty"`
}
type c12cFlags struct {
	Status      []string `json:"status,omitempty"`
	Author      []string `json:"author,omitempty"`
	Meta        []string `json:"meta,omitempty"`
	Participant []string `json:"participant,omitempty"`
	Actor       []string `json:"actor,omitempty"`
	Label       []string `json:"label,omitempty"`
	Title       []string `json:"title,omitempty"`
	No          []string `json:"no,omitempty"`
	By          *string  `json:"by,omitempty"`
	Dir         *string  `json:"dir,omitempty"`
}
type c12cInv struct {
	Args  []c12cArg `json:"args"`
	Flags c12cFlags `json:"flags"`
}
type c12cInput struct {
	Pop  c12eInput `json:"pop"`
	Invs []c12cInv `json:"invs"`
}

type c12cDriver struct{}

func init() { register("C12c", c12cDriver{}) }

// mirror of QueryCli.strip_text_ok: a value the shell can have stripped of its quotes and that the command
// can still put back together: not empty, no quote, no colon, no white space other than U+0020
func c12StripOK(t string) bool {
	if t == "" {
		return false
	}
	for _, r := range t {
		if r == ' ' {
			continue
		}
		if r == '"' || r == '\'' || r == ':' || unicode.IsSpace(r) {
			return false
		}
	}
	return true
}

func (it c12Item) texts() []string {
	switch it.K {
	case "search":
		return []string{it.V.T}
	case "metadata":
		return []string{"metadata", it.V.T, it.W.T}
	}
	return []string{it.K, it.V.T}
}

func (a c12cArg) render() string {
	switch a.F {
	case 0:
		return c12Render(a.Items)
	case 1:
		return strings.Join(a.Items[0].texts(), ":")
	}
	return a.Raw
}

func (a c12cArg) coq() string {
	switch a.F {
	case 0:
		return "(AQuery " + c12ItemsCoq(a.Items) + ")"
	case 1:
		return "(AStripped (" + a.Items[0].coq() + "))"
	}
	return "(ARaw " + coqRunes(a.Raw) + ")"
}

func coqOptRunes(s *string) string {
	if s == nil {
		return "None"
	}
	return coqSome(coqRunes(*s))
}

func (f c12cFlags) coq() string {
	return fmt.Sprintf("(mkflags %s %s %s %s %s %s %s %s %s %s)", coqStrs(f.Status), coqStrs(f.Author), coqStrs(f.Meta), coqStrs(f.Participant),
		coqStrs(f.Actor), coqStrs(f.Label), coqStrs(f.Title), coqStrs(f.No), coqOptRunes(f.By), coqOptRunes(f.Dir))
}

func (f c12cFlags) argv() []string {
	var res []string
	add := func(name string, vs []string) {
		for _, v := range vs {
			res = append(res, "--"+name, v)
		}
	}
	add("status", f.Status)
	add("author", f.Author)
	add("metadata", f.Meta)
	add("participant", f.Participant)
	add("actor", f.Actor)
	add("label", f.Label)
	add("title", f.Title)
	add("no", f.No)
	if f.By != nil {
		res = append(res, "--by", *f.By)
	}
	if f.Dir != nil {
		res = append(res, "--direction", *f.Dir)
	}
	return res
}

// a flag value goes through cobra's string-slice reader (CSV): no comma, no double quote, not empty
func c12FlagOK(v string) bool {
	return v != "" && !strings.ContainsAny(v, ",\"\n\r")
}

var c12cRawArgs = []string{"status:open label:bug", "title:it's here", `say "hi" there`, `"unbalanced`, "a:b:c d", "zork quux", ":x", "x:",
	`title:"a b`, "status:open ", " zork", "author:rené descartes", `label:"Good first issue" status:open`, "sort:id sort:edit", "sort:edit asc",
	"no:labels", "metadata:origin", "title:'a b' c", `''`, "zork  quux", "status::open"}

func c12GenInv(r *Rand, in *c12eInput) c12cInv {
	var inv c12cInv
	items := c12GenQuery(r, in)
	// fewer sorts than in the evaluation part: the default order of the command is of interest too
	if r.Chance(1, 3) {
		var kept []c12Item
		for _, it := range items {
			if it.K != "sort" {
				kept = append(kept, it)
			}
		}
		items = kept
	}
	if r.Chance(1, 12) {
		items = nil
	}
	for i := 0; i < len(items); i++ {
		it := items[i]
		strip := true
		for _, t := range it.texts() {
			strip = strip && c12StripOK(t)
		}
		quoted := it.V.S != 0 || (it.W != nil && it.W.S != 0)
		switch {
		case it.V.P == nil && strip && quoted && r.Chance(1, 2):
			// `git bug title:"a b"`: the shell removes the quotes
			inv.Args = append(inv.Args, c12cArg{F: 1, Items: []c12Item{it}})
		case i+1 < len(items) && r.Chance(1, 6):
			// `git bug 'status:open title:"a b"'`: two qualifiers in one argument
			inv.Args = append(inv.Args, c12cArg{F: 0, Items: []c12Item{it, items[i+1]}})
			i++
		default:
			inv.Args = append(inv.Args, c12cArg{F: 0, Items: []c12Item{it}})
		}
	}
	if r.Chance(1, 10) {
		a := c12cArg{F: 2, Raw: c12cRawArgs[r.Intn(len(c12cRawArgs))]}
		k := r.Intn(len(inv.Args) + 1)
		inv.Args = append(inv.Args[:k:k], append([]c12cArg{a}, inv.Args[k:]...)...)
	}
	pick := func(xs []string) string { return xs[r.Intn(len(xs))] }
	var popLabels, popMeta []string
	for _, b := range in.Bugs {
		for _, op := range b.Ops {
			popLabels = append(popLabels, op.Add...)
		}
		var ks []string
		for k := range b.Meta {
			ks = append(ks, k)
		}
		sort.Strings(ks)
		for _, k := range ks {
			popMeta = append(popMeta, k+"="+b.Meta[k])
		}
	}
	f := &inv.Flags
	if r.Chance(1, 4) {
		v := pick([]string{"id", "creation", "edit"})
		if r.Chance(1, 12) {
			v = pick([]string{"title", "ID", "creation-desc"})
		}
		f.By = &v
	}
	if r.Chance(1, 4) {
		v := pick([]string{"asc", "desc"})
		if r.Chance(1, 12) {
			v = pick([]string{"up", "DESC"})
		}
		f.Dir = &v
	}
	if r.Chance(1, 3) {
		for k := r.Range(1, 2); k > 0; k-- {
			v := pick(c12MetaKeys) + "=" + pick(c12MetaVals)
			if len(popMeta) > 0 && r.Chance(2, 3) {
				v = pick(popMeta)
				// a value with an equal sign of its own, when the population has one
				var eq []string
				for _, m := range popMeta {
					if strings.Count(m, "=") > 1 {
						eq = append(eq, m)
					}
				}
				if len(eq) > 0 && r.Chance(1, 2) {
					v = pick(eq)
				}
			}
			if r.Chance(1, 15) {
				v = pick([]string{"origin", "=github", "origin="})
			}
			if c12FlagOK(v) {
				f.Meta = append(f.Meta, v)
			}
		}
	}
	if r.Chance(1, 6) {
		f.Status = append(f.Status, pick([]string{"open", "closed", "OPEN", "closed", "open", "opened"}))
	}
	if r.Chance(1, 6) {
		v := pick(c12LabelQueries)
		if len(popLabels) > 0 && r.Chance(2, 3) {
			v = pick(popLabels)
		}
		f.Label = append(f.Label, v)
	}
	if r.Chance(1, 8) {
		f.Title = append(f.Title, pick([]string{"zork", "ZORK", "Zork quux", "qu", "glorp", "->"}))
	}
	if r.Chance(1, 8) {
		f.Author = append(f.Author, pick([]string{"descartes", "DESCARTES", "rené", "rene", "René Descartes", "zola", "ada", "jr"}))
	}
	if r.Chance(1, 12) {
		f.Actor = append(f.Actor, pick([]string{"descartes", "rené", "zola", "ada"}))
	}
	if r.Chance(1, 12) {
		f.Participant = append(f.Participant, pick([]string{"descartes", "rené", "zola", "ada"}))
	}
	if r.Chance(1, 10) {
		f.No = append(f.No, pick([]string{"label", "label", "label", "labels"}))
	}
	return inv
}

func (c12cDriver) Gen(r *Rand, tier string) []json.RawMessage {
	n, ni := 60, 12
	if tier == "thorough" {
		n = 1200
	}
	var res []json.RawMessage
	for i := 0; i < n; i++ {
		in := c12cInput{Pop: c12GenPopulation(r)}
		if len(in.Pop.Bugs) > 12 { // smaller populations than in the evaluation part: the command line is the subject here
			in.Pop.Bugs = in.Pop.Bugs[:12]
		}
		for k := 0; k < ni; k++ {
			inv := c12GenInv(r, &in.Pop)
			if k < 2 {
				// a plain listing in a requested order: `git bug sort:edit`, `git bug sort:id-desc --by creation`
				inv = c12cInv{Args: []c12cArg{{F: 0, Items: []c12Item{{K: "sort", V: c12Val{T: c12SortVals[r.Intn(len(c12SortVals))]}}}}}}
				if k == 1 {
					v := []string{"id", "creation", "edit", "asc", "desc"}[r.Intn(5)]
					if v == "asc" || v == "desc" {
						inv.Flags.Dir = &v
					} else {
						inv.Flags.By = &v
					}
				}
			}
			in.Invs = append(in.Invs, inv)
		}
		res = append(res, mustJSON(in))
	}
	return res
}

// runs the command; ids (in the order printed) or the error text
func c12RunBug(bin, dir, home string, argv []string) (ids []string, stderr string, failed bool) {
	cmd := exec.Command(bin, argv...)
	cmd.Dir = dir
	cmd.Env = append(os.Environ(), "HOME="+home, "XDG_CONFIG_HOME="+home+"/.config", "GIT_CONFIG_NOSYSTEM=1")
	var out, errb bytes.Buffer
	cmd.Stdout, cmd.Stderr = &out, &errb
	if err := cmd.Start(); err != nil {
		panic(err)
	}
	done := make(chan error, 1)
	go func() { done <- cmd.Wait() }()
	var err error
	select {
	case err = <-done:
	case <-time.After(60 * time.Second):
		_ = cmd.Process.Kill()
		err = fmt.Errorf("timeout")
		<-done
	}
	if err != nil {
		return nil, strings.TrimSpace(errb.String()) + " [" + err.Error() + "]", true
	}
	return strings.Fields(out.String()), strings.TrimSpace(errb.String()), false
}

func (c12cDriver) Run(raw json.RawMessage) Case {
	var in c12cInput
	if err := json.Unmarshal(raw, &in); err != nil || len(in.Pop.Idents) == 0 || len(in.Pop.Bugs) == 0 {
		return Case{Skip: "bad input"}
	}
	bin := os.Getenv("VERIF_GITBUG")
	if bin == "" {
		return Case{Skip: "VERIF_GITBUG not set"}
	}
	p, why := c12BuildPop(&in.Pop)
	if p == nil {
		return Case{Skip: why}
	}
	defer p.close()
	// the caches are written and the lock released: the commands below open the repository themselves
	rc := p.rc
	p.rc = nil
	if err := rc.Close(); err != nil {
		return Case{Skip: "cache close: " + err.Error()}
	}
	home := p.dir + "/home"
	_ = os.MkdirAll(home, 0755)

	type iObs struct {
		Argv   []string `json:"argv"`
		Error  string   `json:"error,omitempty"`
		Result []int    `json:"result"`
	}
	var obs []iObs
	var terms []string
	tagset := map[string]bool{}
	lowerOK, neutral := p.lowerOK, p.neutral
	nonEmpty := 0
	for _, inv0 := range in.Invs {
		inv := inv0
		inv.Args = make([]c12cArg, len(inv0.Args))
		var argStrs, argTerms []string
		for k, a0 := range inv0.Args {
			a := a0
			a.Items = make([]c12Item, len(a0.Items))
			copy(a.Items, a0.Items)
			for i := range a.Items {
				if pp := a.Items[i].V.P; pp != nil {
					id := string(p.identsA[pp.I%len(p.identsA)].Id())
					l := pp.L
					if l > len(id) {
						l = len(id)
					}
					t := id[:l]
					if pp.U {
						t = strings.ToUpper(t)
					}
					a.Items[i].V = c12Val{S: a.Items[i].V.S, T: t}
				}
				lowerOK = lowerOK && c12LowerOK(a.Items[i].V.T)
				if a.Items[i].K == "search" {
					neutral = neutral && c12Neutral(a.Items[i].V.T)
				}
				if a.Items[i].K == "sort" {
					tagset["cli:sort-in-query"] = true
				}
			}
			inv.Args[k] = a
			s := a.render()
			switch {
			case a.F == 1:
				tagset["cli:arg-stripped"] = true
			case a.F == 2:
				tagset["cli:arg-raw"] = true
				lowerOK = lowerOK && c12LowerOK(a.Raw)
				// only what can end up as a search term matters: the pieces without a colon
				for _, w := range strings.Fields(a.Raw) {
					if !strings.Contains(w, ":") {
						neutral = neutral && c12Neutral(w)
					}
				}
			case strings.ContainsAny(s, "\"'"):
				tagset["cli:arg-with-quotes"] = true
			}
			if a.F == 0 && len(a.Items) > 1 {
				tagset["cli:arg-two-qualifiers"] = true
			}
			argStrs = append(argStrs, s)
			argTerms = append(argTerms, a.coq())
		}
		f := inv.Flags
		for _, vs := range [][]string{f.Status, f.Author, f.Meta, f.Participant, f.Actor, f.Label, f.Title, f.No} {
			for _, v := range vs {
				lowerOK = lowerOK && c12LowerOK(v)
			}
		}
		if f.By != nil {
			tagset["cli:flag-by"] = true
		}
		if f.Dir != nil {
			tagset["cli:flag-direction"] = true
		}
		for _, m := range f.Meta {
			tagset["cli:flag-metadata"] = true
			if strings.Count(m, "=") > 1 {
				tagset["cli:flag-metadata-value-with-equal-sign"] = true
			}
		}
		argv := append([]string{"bug"}, f.argv()...)
		argv = append(argv, "--format", "id", "--")
		argv = append(argv, argStrs...)
		ids, stderr, failed := c12RunBug(bin, p.dir+"/a", home, argv)
		o := iObs{Argv: argv}
		var t string
		if failed {
			o.Error = stderr
			t = "CErr"
			tagset["cli:error"] = true
		} else {
			xs := make([]string, len(ids))
			o.Result = make([]int, len(ids))
			for i, id := range ids {
				o.Result[i] = p.rk.m[id] // not an id of the population -> 0, which is no bug
				xs[i] = coqN(uint64(o.Result[i]))
			}
			t = "(CIds " + coqList(xs) + ")"
			if len(ids) > 0 {
				nonEmpty++
			}
			if stderr != "" {
				o.Error = stderr
			}
		}
		obs = append(obs, o)
		terms = append(terms, fmt.Sprintf("(mkinv %s %s %s %s)", coqList(argTerms), coqStrs(argStrs), f.coq(), t))
	}
	if !lowerOK {
		return Case{Skip: "a text uses a code point outside the validated lower-casing table"}
	}
	if !neutral {
		return Case{Skip: "a text or search term is not cut into words by the index as by the model"}
	}
	term := fmt.Sprintf("mkccase %s %s %s", coqList(p.identTerms), coqList(p.bugTerms), coqList(terms))
	tags := []string{fmt.Sprintf("idents:%d", len(p.identsA))}
	switch n := len(p.refs); {
	case n <= 3:
		tags = append(tags, "bugs:1-3")
	case n <= 10:
		tags = append(tags, "bugs:4-10")
	default:
		tags = append(tags, "bugs:11-30")
	}
	for t := range tagset {
		tags = append(tags, t)
	}
	sort.Strings(tags)
	return Case{Coq: term, Obs: map[string]interface{}{"bugs": p.refs, "invocations": obs}, Tags: tags, NonTrivial: nonEmpty > 0, Key: string(raw)}
}
