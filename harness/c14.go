package main

// C14 — removing an entity removes all of it, only it, and is repeatable.
//
// One case = one real go-git repository M with 0..3 bare remotes (and a helper clone H that feeds the
// remotes), a generated create/edit/push/fetch/pull history, then a removal through the entity API
// (bug.Remove, identity.Remove, *.RemoveAll), the cache API (RepoCache.Bugs().Remove,
// Identities().Remove, RemoveAll) or the CLI (git-bug bug rm, git-bug wipe), followed by a generated
// sequence of {the same removal again, close+reopen, cache rebuild, MergeAll of every remote without a
// fetch}. The repository may also hold names that are not ids next to git-bug's refs: remote-tracking branches of the
// user's branches bugs/<x>, identities/<x> (refs/remotes/<remote>/bugs/<x>) and copies kept inside refs/bugs/,
// refs/identities/; the entity API may be given something that is not a complete id; a handle resolved before a
// removal through the cache may edit and commit after it. Before the removal and after every step the harness records every ref of M, what an open
// RepoCache answers (excerpt, Resolve, prefix resolution, query, full-text search, document counts),
// the git configuration and the listing of .git/git-bug. The Coq side replays the steps on Remove.step
// and evaluates C14_ok on what was observed.

import (
	"context"
	"encoding/json"
	"fmt"
	"os"
	"os/exec"
	"path/filepath"
	"sort"
	"strings"
	"time"

	"github.com/MichaelMure/git-bug/cache"
	"github.com/MichaelMure/git-bug/entities/bug"
	"github.com/MichaelMure/git-bug/entities/identity"
	"github.com/MichaelMure/git-bug/entity"
	"github.com/MichaelMure/git-bug/query"
	"github.com/MichaelMure/git-bug/repository"
)

type c14Hist struct {
	K     string `json:"k"`               // new | edit | push | fetch | pull
	Who   string `json:"who"`             // M | H
	Kind  string `json:"kind,omitempty"`  // new: bug | ident
	Share int    `json:"share,omitempty"` // new: leading id characters shared with entity number Of (brute-forced)
	Of    int    `json:"of,omitempty"`
	E     int    `json:"e,omitempty"` // edit: ordinal among the local bugs
	R     int    `json:"r,omitempty"` // remote index
}

type c14Input struct {
	NRem    int       `json:"nrem"`
	Hist    []c14Hist `json:"hist"`
	User    bool      `json:"user"`    // git-bug.identity configured when the removal happens
	Bridges int       `json:"bridges"` // git-bug.bridge.<name>.* subsections
	Opts    int       `json:"opts"`    // other git-bug.<opt> keys
	Settle  bool      `json:"settle"`  // close and reopen the cache before the first look
	Mode    string    `json:"mode"`    // ent | cache | cli
	Act     string    `json:"act"`     // rm | rmall | wipe
	Kind    string    `json:"kind"`    // rm: bug | ident
	Target  int       `json:"target"`  // rm: ordinal among the candidates
	PLen    int       `json:"plen"`    // rm through cache/cli: prefix length (0 = whole id)
	Missing bool      `json:"missing"` // rm: aim at an id that does not exist
	Follow  []string  `json:"follow"`  // again | reopen | rebuild | merge
	// names that are not ids inside git-bug's ref prefixes
	Stray []c14Stray `json:"stray,omitempty"`
	// rm through the entity API: 0 = the whole id, n > 0 = only its first n characters, -1 = the empty id
	EntPfx int `json:"entpfx,omitempty"`
	// cache mode: a BugCache / IdentityCache resolved before the removal edits and commits after it
	Stale bool `json:"stale,omitempty"`
}

type c14Stray struct {
	NS   string `json:"ns"`   // bugs | identities
	Loc  int    `json:"loc"`  // 0: refs/<ns>/<name> (a copy of an entity ref); j+1: refs/remotes/r<j>/<ns>/<name> (a user branch)
	Name string `json:"name"` // not a valid id
}

type c14Ent struct {
	Kind  string
	Id    string
	Term  string // bugs: the unique word of the title
	Extra bool   // identities: authors nothing (may be removed alone)
}

type c14Ref struct {
	Kind string `json:"k"` // bug | ident | other
	Loc  int    `json:"l"` // 0 local, j+1 = remote-tracking under remote r<j>
	Id   string `json:"id"`
	Head string `json:"h"`
}

type c14Pfx struct {
	Kind string `json:"k"`
	P    string `json:"p"`
	Res  string `json:"r"` // none | many | <id>
}

type c14CObs struct {
	Exc   map[string]string `json:"exc"` // "kind:id" -> digest
	Idx   []string          `json:"idx"`
	NDocB int               `json:"ndoc_b"`
	NDocI int               `json:"ndoc_i"`
	Res   []string          `json:"res"`
	Qry   []string          `json:"qry"`
	Pfx   []c14Pfx          `json:"pfx"`
}

type c14Obs struct {
	Refs    []c14Ref    `json:"refs"`
	Cache   *c14CObs    `json:"cache,omitempty"`
	UserSet bool        `json:"user_set"`
	UserId  string      `json:"user,omitempty"`
	Opts    []string    `json:"opts,omitempty"`
	Subs    [][2]string `json:"subs,omitempty"`
	Other   []string    `json:"other,omitempty"`
	Files   []int       `json:"files"`
}

type c14Step struct {
	Act  string  `json:"act"` // Coq term of the action
	Name string  `json:"name"`
	Out  string  `json:"out"` // XOk | XNotFound | XMultiple | XOther | XErr
	Err  string  `json:"err,omitempty"`
	Obs  *c14Obs `json:"obs"`
}

type c14Session struct {
	in       c14Input
	dir      string
	mpath    string
	hpath    string
	rnames   []string
	gitbug   string
	mrepo    *repository.GoGitRepo
	mc       *cache.RepoCache
	raw      *repository.GoGitRepo // entity-API handle on M (ent mode)
	hrepo    *repository.GoGitRepo
	uc       *cache.IdentityCache
	U        *identity.Identity
	V        *identity.Identity
	ents     []c14Ent
	seq      int
	tags     map[string]bool
	skip     string
	target   c14Ent
	prefix   string
	probes   []c14Pfx
	init     *c14Obs
	steps    []c14Step
	opened   bool // ent mode: a cache has been opened
	removed  bool // a removal reported success on an existing target
	foreign  repository.Hash
	entArg   string          // ent mode: what is handed to Remove as the id
	staleB   *cache.BugCache // handle resolved before the removal
	staleI   *cache.IdentityCache
	staleOn  bool   // a handle has been taken (once per case)
	staleEnt string // "kind:id" of the entity whose handle committed after the removal
}

// entity.Id.Validate
func c14ValidId(id string) bool {
	if len(id) != 64 {
		return false
	}
	for _, r := range id {
		if (r < 'a' || r > 'z') && (r < '0' || r > '9') {
			return false
		}
	}
	return true
}

func (s *c14Session) fail(format string, a ...interface{}) {
	if s.skip == "" {
		s.skip = fmt.Sprintf(format, a...)
	}
}

func (s *c14Session) now() int64 { s.seq++; return int64(1600000000 + s.seq) }

var c14Letters = "bcdfghjklmnpqrstvwz"

func c14Term(n int) string {
	t := "wq"
	for i := 0; i < 4; i++ {
		t += string(c14Letters[n%len(c14Letters)])
		n /= len(c14Letters)
	}
	return t + "zk"
}

// ---------------------------------------------------------------- setup

func (s *c14Session) setup() {
	var err error
	base := ""
	if st, e := os.Stat("/dev/shm"); e == nil && st.IsDir() && os.Getenv("TMPDIR") == "" {
		base = "/dev/shm" // many small fsyncs (bleve, go-git): a memory file system halves the run time
	}
	s.dir, err = os.MkdirTemp(base, "verif-c14-")
	if err != nil {
		panic(err)
	}
	home := filepath.Join(s.dir, "home")
	_ = os.MkdirAll(filepath.Join(home, ".config"), 0o755)
	os.Setenv("HOME", home)
	os.Setenv("XDG_CONFIG_HOME", filepath.Join(home, ".config"))
	os.Setenv("GIT_CONFIG_NOSYSTEM", "1")
	s.mpath = filepath.Join(s.dir, "M")
	s.hpath = filepath.Join(s.dir, "H")
	s.mrepo, err = repository.InitGoGitRepo(s.mpath, "git-bug")
	if err != nil {
		panic(err)
	}
	_ = s.mrepo.LocalConfig().StoreString("user.name", "m user")
	_ = s.mrepo.LocalConfig().StoreString("user.email", "m@example.org")
	if s.in.NRem > 0 {
		s.hrepo, err = repository.InitGoGitRepo(s.hpath, "git-bug")
		if err != nil {
			panic(err)
		}
	}
	for j := 0; j < s.in.NRem; j++ {
		name := fmt.Sprintf("r%d", j)
		rp := filepath.Join(s.dir, "remote"+name)
		rr, err := repository.InitBareGoGitRepo(rp, "git-bug")
		if err != nil {
			panic(err)
		}
		_ = rr.Close()
		if err := s.mrepo.AddRemote(name, rp); err != nil {
			panic(err)
		}
		if err := s.hrepo.AddRemote(name, rp); err != nil {
			panic(err)
		}
		s.rnames = append(s.rnames, name)
	}
	// foreign refs that look a little like git-bug's
	blob, err := s.mrepo.StoreData([]byte("not git-bug"))
	if err != nil {
		panic(err)
	}
	tree, err := s.mrepo.StoreTree([]repository.TreeEntry{{ObjectType: repository.Blob, Hash: blob, Name: "f"}})
	if err != nil {
		panic(err)
	}
	commit, err := s.mrepo.StoreCommit(tree)
	if err != nil {
		panic(err)
	}
	s.foreign = commit
	for _, n := range []string{"refs/heads/main", "refs/bugs-old/" + strings.Repeat("ab", 32), "refs/identities-old/x", "refs/remotes/r0/main", "refs/remotes/r0/bugs-old/" + strings.Repeat("cd", 32), "refs/tags/v1"} {
		if err := s.mrepo.UpdateRef(n, commit); err != nil {
			panic(err)
		}
	}
	_ = s.mrepo.LocalConfig().StoreString("verif.keep", "1")
	_ = s.mrepo.LocalConfig().StoreString("verif.sub.key", "2")

	s.mc, err = cache.NewRepoCacheNoEvents(s.mrepo)
	if err != nil {
		panic(err)
	}
	s.uc, err = s.mc.Identities().New("user M", "m@example.org")
	if err != nil {
		panic(err)
	}
	if err := s.mc.SetUserIdentity(s.uc); err != nil {
		panic(err)
	}
	s.U = s.uc.Identity
	s.ents = append(s.ents, c14Ent{Kind: "ident", Id: string(s.U.Id())})
	if s.hrepo != nil {
		s.V, err = identity.NewIdentity(s.hrepo, "user H", "h@example.org")
		if err != nil {
			panic(err)
		}
		if err := s.V.Commit(s.hrepo); err != nil {
			panic(err)
		}
		s.ents = append(s.ents, c14Ent{Kind: "ident", Id: string(s.V.Id())})
	}
}

func (s *c14Session) cleanup() {
	if s.mc != nil {
		_ = s.mc.Close()
		s.mc = nil
	}
	if s.raw != nil {
		_ = s.raw.Close()
	}
	if s.hrepo != nil {
		_ = s.hrepo.Close()
	}
	if s.dir != "" {
		_ = os.RemoveAll(s.dir)
	}
}

// ---------------------------------------------------------------- the CLI

func (s *c14Session) cli(args ...string) (int, string) {
	var out []byte
	code := -1
	for attempt := 0; attempt < 4; attempt++ {
		ctx, cancel := context.WithTimeout(context.Background(), 90*time.Second)
		cmd := exec.CommandContext(ctx, s.gitbug, args...)
		cmd.Dir = s.mpath
		cmd.Env = os.Environ()
		var err error
		out, err = cmd.CombinedOutput()
		cancel()
		code = 0
		if err != nil {
			code = 1
			if ee, ok := err.(*exec.ExitError); ok {
				code = ee.ExitCode()
			}
		}
		if strings.Contains(string(out), "concurrent map") {
			// the cache build of the pinned tree races (another property's finding): not an observation of this one
			s.tags["cache-build-crash"] = true
			continue
		}
		break
	}
	return code, string(out)
}

// prewarm lets a git-bug process open the backend first, so that a cache (re)build never runs inside the harness
func (s *c14Session) prewarm() {
	code, out := s.cli("bug")
	if code != 0 {
		s.tags["prewarm-failed"] = true
		s.fail("git-bug bug failed before opening the cache: %s", out)
	}
}

func (s *c14Session) closeCache() {
	if s.mc != nil {
		if err := s.mc.Close(); err != nil {
			s.fail("close cache: %v", err)
		}
		s.mc = nil
		s.mrepo = nil
	}
}

func (s *c14Session) openCache() {
	if s.mc != nil {
		return
	}
	s.prewarm()
	if s.skip != "" {
		return
	}
	r, err := repository.OpenGoGitRepo(s.mpath, "git-bug", nil)
	if err != nil {
		s.fail("open M: %v", err)
		return
	}
	mc, err := cache.NewRepoCacheNoEvents(r)
	if err != nil {
		s.fail("open cache: %v", err)
		return
	}
	s.mrepo, s.mc = r, mc
	s.opened = true
}

// ---------------------------------------------------------------- history

func (s *c14Session) shareWith(h c14Hist, kind string) string {
	if h.Share <= 0 {
		return ""
	}
	var same []c14Ent
	for _, e := range s.ents {
		if e.Kind == kind {
			same = append(same, e)
		}
	}
	if len(same) == 0 {
		return ""
	}
	n := h.Share
	if n > 3 {
		n = 3
	}
	s.tags["shared-prefix"] = true
	return same[((h.Of%len(same))+len(same))%len(same)].Id[:n]
}

func (s *c14Session) newBug(h c14Hist) {
	pfx := s.shareWith(h, "bug")
	s.seq++
	term := c14Term(s.seq)
	title := "bug " + term
	inM := h.Who == "M"
	var author identity.Interface = s.U
	repo := s.mrepo
	if !inM {
		author, repo = s.V, s.hrepo
	}
	if pfx == "" && inM {
		b, _, err := s.mc.Bugs().NewRaw(s.uc, s.now(), title, "message "+term, nil, nil)
		if err != nil {
			s.fail("new bug: %v", err)
			return
		}
		s.ents = append(s.ents, c14Ent{Kind: "bug", Id: string(b.Id()), Term: term})
		return
	}
	var b *bug.Bug
	for try := 0; try < 200000; try++ {
		var err error
		b, _, err = bug.Create(author, int64(1600000000+s.seq), title, "message "+term, nil, nil)
		if err != nil {
			s.fail("create bug: %v", err)
			return
		}
		if strings.HasPrefix(string(b.Id()), pfx) {
			break
		}
		b = nil
	}
	if b == nil {
		s.fail("no id with prefix %q found", pfx)
		return
	}
	if err := b.Commit(repo); err != nil {
		s.fail("commit bug: %v", err)
		return
	}
	if inM {
		// make the cache aware of it the way a command would: resolve, then edit through the cache
		bc, err := s.mc.Bugs().Resolve(b.Id())
		if err != nil {
			s.fail("resolve new bug: %v", err)
			return
		}
		if _, _, err := bc.AddCommentRaw(s.uc, s.now(), "first comment", nil, nil); err != nil {
			s.fail("comment new bug: %v", err)
			return
		}
		if err := bc.Commit(); err != nil {
			s.fail("commit comment on new bug: %v", err)
			return
		}
	}
	s.ents = append(s.ents, c14Ent{Kind: "bug", Id: string(b.Id()), Term: term})
}

func (s *c14Session) newIdent(h c14Hist) {
	pfx := s.shareWith(h, "ident")
	s.seq++
	name := fmt.Sprintf("extra %d", s.seq)
	inM := h.Who == "M"
	if pfx == "" && inM {
		ic, err := s.mc.Identities().New(name, fmt.Sprintf("x%d@example.org", s.seq))
		if err != nil {
			s.fail("new identity: %v", err)
			return
		}
		s.ents = append(s.ents, c14Ent{Kind: "ident", Id: string(ic.Id()), Extra: true})
		return
	}
	repo := s.mrepo
	if !inM {
		repo = s.hrepo
	}
	var i *identity.Identity
	for try := 0; try < 200000; try++ {
		var err error
		i, err = identity.NewIdentity(repo, name, fmt.Sprintf("x%d@example.org", s.seq))
		if err != nil {
			s.fail("new identity: %v", err)
			return
		}
		if strings.HasPrefix(string(i.Id()), pfx) {
			break
		}
		i = nil
	}
	if i == nil {
		s.fail("no identity id with prefix %q found", pfx)
		return
	}
	if err := i.Commit(repo); err != nil {
		s.fail("commit identity: %v", err)
		return
	}
	if inM {
		ic, err := s.mc.Identities().Resolve(i.Id())
		if err != nil {
			s.fail("resolve new identity: %v", err)
			return
		}
		if err := ic.Mutate(s.mrepo, func(m *identity.Mutator) { m.Name = name + " b" }); err != nil {
			s.fail("mutate identity: %v", err)
			return
		}
		if err := ic.Commit(); err != nil {
			s.fail("commit identity version: %v", err)
			return
		}
	}
	s.ents = append(s.ents, c14Ent{Kind: "ident", Id: string(i.Id()), Extra: true})
}

func sortedIds(ids []entity.Id) []entity.Id {
	sort.Slice(ids, func(i, j int) bool { return ids[i] < ids[j] })
	return ids
}

func (s *c14Session) edit(h c14Hist) {
	if h.Who == "M" {
		ids, _ := bug.ListLocalIds(s.mrepo)
		if len(ids) == 0 {
			return
		}
		id := sortedIds(ids)[((h.E%len(ids))+len(ids))%len(ids)]
		bc, err := s.mc.Bugs().Resolve(id)
		if err != nil {
			s.fail("resolve for edit: %v", err)
			return
		}
		t := s.now()
		switch s.seq % 3 {
		case 0:
			_, _, err = bc.AddCommentRaw(s.uc, t, fmt.Sprintf("comment %d", s.seq), nil, nil)
		case 1:
			if bc.Snapshot().Status.String() == "open" {
				_, err = bc.CloseRaw(s.uc, t, nil)
			} else {
				_, err = bc.OpenRaw(s.uc, t, nil)
			}
		default:
			_, err = bc.ForceChangeLabelsRaw(s.uc, t, []string{fmt.Sprintf("l%d", s.seq)}, nil, nil)
		}
		if err == nil {
			err = bc.Commit()
		}
		if err != nil {
			s.fail("edit: %v", err)
		}
		return
	}
	ids, _ := bug.ListLocalIds(s.hrepo)
	if len(ids) == 0 {
		return
	}
	id := sortedIds(ids)[((h.E%len(ids))+len(ids))%len(ids)]
	b, err := bug.Read(s.hrepo, id)
	if err != nil {
		s.fail("H read: %v", err)
		return
	}
	if _, _, err := bug.AddComment(b, s.V, s.now(), fmt.Sprintf("H comment %d", s.seq), nil, nil); err != nil {
		s.fail("H comment: %v", err)
		return
	}
	if err := b.Commit(s.hrepo); err != nil {
		s.fail("H commit: %v", err)
	}
}

func (s *c14Session) bugResolvers(repo repository.ClockedRepo) entity.Resolvers {
	return entity.Resolvers{&identity.Identity{}: identity.NewSimpleResolver(repo)}
}

func (s *c14Session) drain(ch <-chan entity.MergeResult, what string) {
	for res := range ch {
		if res.Err != nil {
			s.tags[what+"-merge-error"] = true
		} else if res.Status == entity.MergeStatusInvalid {
			s.tags[what+"-merge-invalid"] = true
		}
	}
}

// fetchErr: fetching from a remote nobody has pushed to is not an error of the scenario
func (s *c14Session) fetchErr(err error) bool {
	if err == nil {
		return false
	}
	if strings.Contains(err.Error(), "remote repository is empty") {
		s.tags["fetch-from-empty-remote"] = true
		return true
	}
	s.fail("fetch: %v", err)
	return true
}

func (s *c14Session) hist(h c14Hist) {
	if s.in.NRem == 0 && (h.Who == "H" || h.K == "push" || h.K == "fetch" || h.K == "pull") {
		return
	}
	rn := ""
	if s.in.NRem > 0 {
		rn = s.rnames[((h.R%s.in.NRem)+s.in.NRem)%s.in.NRem]
	}
	switch h.K {
	case "pack":
		// stock git packs the refs (git gc / pack-refs): the loose ref files disappear
		if out, err := exec.Command("git", "-C", s.mpath, "pack-refs", "--all").CombinedOutput(); err != nil {
			s.tags["pack-refs-failed:"+string(out)] = true
		} else {
			s.tags["packed-refs"] = true
		}
	case "new":
		if h.Kind == "ident" {
			s.newIdent(h)
		} else {
			s.newBug(h)
		}
	case "edit":
		s.edit(h)
	case "push":
		if h.Who == "M" {
			if _, err := s.mc.Push(rn); err != nil {
				s.tags["push-refused"] = true
			}
		} else {
			if _, err := identity.Push(s.hrepo, rn); err != nil {
				s.tags["push-refused"] = true
			}
			if _, err := bug.Push(s.hrepo, rn); err != nil {
				s.tags["push-refused"] = true
			}
		}
	case "fetch":
		if h.Who == "M" {
			_, err := s.mc.Fetch(rn)
			s.fetchErr(err)
		}
	case "pull":
		if h.Who == "M" {
			if _, err := s.mc.Fetch(rn); s.fetchErr(err) {
				return
			}
			s.drain(s.mc.MergeAll(rn), "hist")
		} else {
			if _, err := identity.Fetch(s.hrepo, rn); s.fetchErr(err) {
				return
			}
			s.drain(identity.MergeAll(s.hrepo, rn), "hist")
			if _, err := bug.Fetch(s.hrepo, rn); s.fetchErr(err) {
				return
			}
			s.drain(bug.MergeAll(s.hrepo, s.bugResolvers(s.hrepo), rn, s.V), "hist")
		}
	}
}

func (s *c14Session) configure() {
	cfg := s.mrepo.LocalConfig()
	for j := 0; j < s.in.Bridges; j++ {
		_ = cfg.StoreString(fmt.Sprintf("git-bug.bridge.b%d.target", j), "github")
		_ = cfg.StoreString(fmt.Sprintf("git-bug.bridge.b%d.project", j), "p")
	}
	for j := 0; j < s.in.Opts; j++ {
		_ = cfg.StoreString(fmt.Sprintf("git-bug.opt%d", j), "1")
	}
	if !s.in.User {
		if err := cfg.RemoveAll("git-bug.identity"); err != nil {
			s.fail("unset user: %v", err)
		}
	}
	for _, st := range s.in.Stray {
		if (st.NS != "bugs" && st.NS != "identities") || st.Name == "" || c14ValidId(st.Name) {
			s.fail("bad stray ref %+v", st)
			return
		}
		if st.Loc > 0 {
			// what `git fetch` leaves for a branch <ns>/<name> of the remote
			if st.Loc > s.in.NRem {
				continue
			}
			if err := s.mrepo.UpdateRef(fmt.Sprintf("refs/remotes/r%d/%s/%s", st.Loc-1, st.NS, st.Name), s.foreign); err != nil {
				s.fail("user branch: %v", err)
				return
			}
			s.tags["user-tracking-branch"] = true
			continue
		}
		// a copy of an entity ref kept inside the namespace (git update-ref refs/bugs/backup refs/bugs/<id>)
		refs, err := s.mrepo.ListRefs("refs/" + st.NS + "/")
		if err != nil {
			s.fail("list refs: %v", err)
			return
		}
		var ids []string
		for _, r := range refs {
			if id := r[strings.LastIndex(r, "/")+1:]; c14ValidId(id) && r == "refs/"+st.NS+"/"+id {
				ids = append(ids, r)
			}
		}
		if len(ids) == 0 {
			s.tags["stray-local-skipped"] = true
			continue
		}
		sort.Strings(ids)
		if err := s.mrepo.CopyRef(ids[0], "refs/"+st.NS+"/"+st.Name); err != nil {
			s.fail("stray ref: %v", err)
			return
		}
		s.tags["stray-local-name"] = true
	}
}

// ---------------------------------------------------------------- looking at M

func (s *c14Session) classifyRef(name string) (string, int, string) {
	// by prefix: the rest of the name is the "id" (it may be anything, slashes included: Remove.valid_id decides)
	for _, ns := range [][2]string{{"bugs", "bug"}, {"identities", "ident"}} {
		if rest := strings.TrimPrefix(name, "refs/"+ns[0]+"/"); rest != name && rest != "" {
			return ns[1], 0, rest
		}
		for j := 0; j < 3; j++ {
			if rest := strings.TrimPrefix(name, fmt.Sprintf("refs/remotes/r%d/%s/", j, ns[0])); rest != name && rest != "" {
				return ns[1], j + 1, rest
			}
		}
	}
	return "other", 0, name
}

func c14FileClass(rel string) int {
	switch {
	case rel == "cache/bugs":
		return 1
	case rel == "cache/identities":
		return 2
	case strings.HasPrefix(rel, "indexes/bugs/"):
		return 3
	case strings.HasPrefix(rel, "indexes/identities/"):
		return 4
	case strings.HasPrefix(rel, "clocks/"):
		return 5
	case rel == "lock":
		return 6
	}
	return 7
}

func sortedKV(m map[string]string) string {
	var ks []string
	for k := range m {
		ks = append(ks, k)
	}
	sort.Strings(ks)
	var sb strings.Builder
	for _, k := range ks {
		sb.WriteString(k + "=" + m[k] + ";")
	}
	return sb.String()
}

func idStrings(ids []entity.Id) string {
	xs := make([]string, len(ids))
	for i, x := range ids {
		xs[i] = string(x)
	}
	sort.Strings(xs)
	return strings.Join(xs, ",")
}

func digestBug(e *cache.BugExcerpt) string {
	labels := make([]string, len(e.Labels))
	for i, l := range e.Labels {
		labels[i] = string(l)
	}
	sort.Strings(labels)
	return fmt.Sprintf("%d|%d|%d|%d|%s|%s|%s|%s|%d|%s|%s|%s", e.CreateLamportTime, e.EditLamportTime, e.CreateUnixTime, e.EditUnixTime,
		e.AuthorId, e.Status, strings.Join(labels, ","), e.Title, e.LenComments, idStrings(e.Actors), idStrings(e.Participants), sortedKV(e.CreateMetadata))
}

func digestIdent(e *cache.IdentityExcerpt) string {
	return fmt.Sprintf("%s|%s|%s", e.Name, e.Login, sortedKV(e.ImmutableMetadata))
}

func prefixResult(id entity.Id, err error) string {
	switch {
	case err == nil:
		return string(id)
	case entity.IsErrMultipleMatch(err):
		return "many"
	default:
		return "none"
	}
}

func (s *c14Session) observeCache() *c14CObs {
	c := &c14CObs{Exc: map[string]string{}}
	mc := s.mc
	bugIds := map[string]string{} // id -> term
	identIds := map[string]bool{}
	for _, e := range s.ents {
		if e.Kind == "bug" {
			bugIds[e.Id] = e.Term
		} else {
			identIds[e.Id] = true
		}
	}
	if s.target.Kind == "bug" {
		if _, ok := bugIds[s.target.Id]; !ok {
			bugIds[s.target.Id] = s.target.Term
		}
	} else if s.target.Kind == "ident" {
		identIds[s.target.Id] = true
	}
	for _, id := range mc.Bugs().AllIds() {
		if _, ok := bugIds[string(id)]; !ok {
			bugIds[string(id)] = ""
			s.tags["unknown-bug-in-cache"] = true
		}
	}
	for _, id := range mc.Identities().AllIds() {
		if !identIds[string(id)] {
			identIds[string(id)] = true
			s.tags["unknown-identity-in-cache"] = true
		}
	}
	bidx, err := s.mrepo.GetIndex("bugs")
	if err != nil {
		s.fail("bug index: %v", err)
		return c
	}
	iidx, err := s.mrepo.GetIndex("identities")
	if err != nil {
		s.fail("identity index: %v", err)
		return c
	}
	nb, _ := bidx.DocCount()
	ni, _ := iidx.DocCount()
	c.NDocB, c.NDocI = int(nb), int(ni)
	for id, term := range bugIds {
		if ex, err := mc.Bugs().ResolveExcerpt(entity.Id(id)); err == nil {
			c.Exc["bug:"+id] = digestBug(ex)
		}
		if _, err := mc.Bugs().Resolve(entity.Id(id)); err == nil {
			c.Res = append(c.Res, "bug:"+id)
		}
		if term != "" {
			hits, err := bidx.Search([]string{term})
			if err != nil {
				s.fail("search: %v", err)
				continue
			}
			for _, h := range hits {
				if h == id {
					c.Idx = append(c.Idx, "bug:"+id)
				} else {
					s.tags["search-hit-on-other-bug"] = true
				}
			}
		}
	}
	for id := range identIds {
		if ex, err := mc.Identities().ResolveExcerpt(entity.Id(id)); err == nil {
			c.Exc["ident:"+id] = digestIdent(ex)
		}
		if _, err := mc.Identities().Resolve(entity.Id(id)); err == nil {
			c.Res = append(c.Res, "ident:"+id)
		}
	}
	qids, err := mc.Bugs().Query(query.NewQuery())
	if err != nil {
		s.fail("query: %v", err)
	}
	for _, id := range qids {
		c.Qry = append(c.Qry, "bug:"+string(id))
	}
	for _, id := range mc.Identities().AllIds() {
		c.Qry = append(c.Qry, "ident:"+string(id))
	}
	for _, p := range s.probes {
		var r string
		if p.Kind == "bug" {
			ex, err := mc.Bugs().ResolveExcerptPrefix(p.P)
			if err == nil {
				r = prefixResult(ex.Id(), nil)
			} else {
				r = prefixResult("", err)
			}
		} else {
			ex, err := mc.Identities().ResolveExcerptPrefix(p.P)
			if err == nil {
				r = prefixResult(ex.Id(), nil)
			} else {
				r = prefixResult("", err)
			}
		}
		c.Pfx = append(c.Pfx, c14Pfx{p.Kind, p.P, r})
	}
	sort.Strings(c.Idx)
	sort.Strings(c.Res)
	sort.Strings(c.Qry)
	return c
}

// observe looks at M. With a cache open in the harness, the cache answers are included and the lock file
// (ours) is left out of the listing.
func (s *c14Session) observe() *c14Obs {
	o := &c14Obs{}
	repo := s.mrepo
	if repo == nil {
		r, err := repository.OpenGoGitRepo(s.mpath, "git-bug", nil)
		if err != nil {
			s.fail("open M for looking: %v", err)
			return o
		}
		defer r.Close()
		repo = r
	}
	// refs as stock git sees them on disk (go-git keeps a packed-refs view cached by modification time, which can
	// lag behind its own rewrites for an instant; the on-disk truth is what the property is about)
	out, err := exec.Command("git", "-C", s.mpath, "for-each-ref", "--format=%(refname) %(objectname)").CombinedOutput()
	if err != nil {
		s.fail("for-each-ref: %v %s", err, out)
		return o
	}
	for _, line := range strings.Split(strings.TrimSpace(string(out)), "\n") {
		f := strings.Fields(line)
		if len(f) != 2 {
			continue
		}
		k, l, id := s.classifyRef(f[0])
		o.Refs = append(o.Refs, c14Ref{k, l, id, f[1]})
	}
	all, err := repo.LocalConfig().ReadAll("")
	if err != nil {
		s.fail("read config: %v", err)
		return o
	}
	var keys []string
	for k := range all {
		keys = append(keys, k)
	}
	sort.Strings(keys)
	for _, k := range keys {
		if strings.HasPrefix(k, "git-bug.") {
			parts := strings.Split(k, ".")
			switch {
			case k == "git-bug.identity":
				o.UserSet, o.UserId = true, all[k]
			case len(parts) == 2:
				o.Opts = append(o.Opts, parts[1])
			default:
				o.Subs = append(o.Subs, [2]string{strings.Join(parts[1:len(parts)-1], "."), parts[len(parts)-1]})
			}
		} else {
			o.Other = append(o.Other, k+"="+all[k])
		}
	}
	classes := map[int]bool{}
	root := filepath.Join(s.mpath, ".git", "git-bug")
	_ = filepath.Walk(root, func(p string, info os.FileInfo, err error) error {
		if err != nil || info.IsDir() {
			return nil
		}
		rel, _ := filepath.Rel(root, p)
		cl := c14FileClass(filepath.ToSlash(rel))
		if cl == 6 && s.mc != nil {
			return nil
		}
		classes[cl] = true
		return nil
	})
	for cl := range classes {
		o.Files = append(o.Files, cl)
	}
	sort.Ints(o.Files)
	if s.mc != nil {
		o.Cache = s.observeCache()
	}
	return o
}

// ---------------------------------------------------------------- target

func (s *c14Session) pickTarget() {
	if s.in.Act != "rm" {
		s.target = c14Ent{}
		return
	}
	o := s.observe()
	extra := map[string]bool{}
	term := map[string]string{}
	for _, e := range s.ents {
		if e.Extra {
			extra[e.Id] = true
		}
		term[e.Id] = e.Term
	}
	seen := map[string]bool{}
	var cands []string
	for _, r := range o.Refs {
		if r.Kind != s.in.Kind || seen[r.Id] || !c14ValidId(r.Id) {
			continue
		}
		if r.Kind == "ident" && !extra[r.Id] {
			continue
		}
		seen[r.Id] = true
		cands = append(cands, r.Id)
	}
	sort.Strings(cands)
	if s.in.Missing || len(cands) == 0 {
		// an id nobody has
		x := uint64(s.in.Target)*0x9E3779B97F4A7C15 + 12345
		id := ""
		for len(id) < 64 {
			x = x*6364136223846793005 + 1442695040888963407
			id += fmt.Sprintf("%016x", x)
		}
		s.target = c14Ent{Kind: s.in.Kind, Id: id[:64]}
		s.tags["target:missing"] = true
	} else {
		id := cands[((s.in.Target%len(cands))+len(cands))%len(cands)]
		s.target = c14Ent{Kind: s.in.Kind, Id: id, Term: term[id]}
		local, nremote := false, 0
		for _, r := range o.Refs {
			if r.Kind == s.in.Kind && r.Id == id {
				if r.Loc == 0 {
					local = true
				} else {
					nremote++
				}
			}
		}
		if local {
			s.tags["target:local"] = true
		} else {
			s.tags["target:tracking-only"] = true
		}
		s.tags[fmt.Sprintf("target-on-remotes:%d", nremote)] = true
	}
	common := 0
	for _, r := range o.Refs {
		if r.Kind == s.target.Kind && r.Id != s.target.Id {
			k := 0
			for k < len(r.Id) && k < len(s.target.Id) && r.Id[k] == s.target.Id[k] {
				k++
			}
			if k > common {
				common = k
			}
		}
	}
	s.tags[fmt.Sprintf("target-shares-prefix:%d", common)] = true
	n := s.in.PLen
	if n <= 0 || n > 64 {
		n = 64
	}
	s.prefix = s.target.Id[:n]
	s.entArg = s.target.Id
	switch {
	case s.in.EntPfx < 0:
		s.entArg = ""
	case s.in.EntPfx > 0 && s.in.EntPfx < 64:
		s.entArg = s.target.Id[:s.in.EntPfx]
	}
	seenP := map[string]bool{}
	for _, l := range []int{n, 1, 2, 3, 7, 64} {
		p := s.target.Id[:l]
		if !seenP[p] {
			seenP[p] = true
			s.probes = append(s.probes, c14Pfx{Kind: s.in.Kind, P: p})
		}
	}
}

// ---------------------------------------------------------------- actions

func outOf(err error) (string, string) {
	switch {
	case err == nil:
		return "XOk", ""
	case entity.IsErrNotFound(err):
		return "XNotFound", err.Error()
	case entity.IsErrMultipleMatch(err):
		return "XMultiple", err.Error()
	}
	return "XOther", err.Error()
}

func coqKind(k string) string {
	switch k {
	case "bug":
		return "KBug"
	case "ident":
		return "KIdent"
	}
	return "KOther"
}

func (s *c14Session) record(act, name, out, errs string) {
	if s.skip != "" {
		return
	}
	s.steps = append(s.steps, c14Step{Act: act, Name: name, Out: out, Err: errs, Obs: s.observe()})
	s.tags["step:"+name] = true
}

func (s *c14Session) rawRepo() *repository.GoGitRepo {
	if s.raw == nil {
		r, err := repository.OpenGoGitRepo(s.mpath, "git-bug", nil)
		if err != nil {
			s.fail("open M (entity API): %v", err)
			return nil
		}
		s.raw = r
	}
	return s.raw
}

func (s *c14Session) removal() {
	switch s.in.Mode {
	case "ent":
		if s.opened {
			s.tags["again-skipped-cache-open"] = true
			return
		}
		repo := s.rawRepo()
		if repo == nil {
			return
		}
		if s.in.Act == "rm" {
			var err error
			if s.target.Kind == "bug" {
				err = bug.Remove(repo, entity.Id(s.entArg))
			} else {
				err = identity.Remove(repo, entity.Id(s.entArg))
			}
			out, es := outOf(err)
			s.record(fmt.Sprintf("AEntRemove %s %s", coqKind(s.target.Kind), c14Text(s.entArg)), "ent-rm", out, es)
			if s.entArg == s.target.Id {
				s.noteRemoved(out)
			} else if out == "XOk" {
				s.tags["ent-rm-of-a-non-id-succeeded"] = true
			}
		} else {
			out, es := outOf(bug.RemoveAll(repo))
			s.record("AEntRemoveAll KBug", "ent-rmall-bugs", out, es)
			out, es = outOf(identity.RemoveAll(repo))
			s.record("AEntRemoveAll KIdent", "ent-rmall-identities", out, es)
		}
	case "cache":
		s.openCache()
		if s.skip != "" {
			return
		}
		s.takeHandle()
		if s.in.Act == "rm" {
			var err error
			// the holder only races with a removal that is going to happen (a refused one must leave everything as it was,
			// the holder's own commits included)
			var unique error
			if s.target.Kind == "bug" {
				_, unique = s.mc.Bugs().ResolveExcerptPrefix(s.prefix)
			} else {
				_, unique = s.mc.Identities().ResolveExcerptPrefix(s.prefix)
			}
			stopRacer := func() {}
			if unique == nil {
				stopRacer = s.startRacer()
			}
			if s.target.Kind == "bug" {
				err = s.mc.Bugs().Remove(s.prefix)
			} else {
				err = s.mc.Identities().Remove(s.prefix)
			}
			stopRacer()
			out, es := outOf(err)
			s.record(fmt.Sprintf("ACacheRemove %s %s", coqKind(s.target.Kind), c14Text(s.prefix)), "cache-rm", out, es)
			s.noteRemoved(out)
			s.staleCommit(out == "XOk")
		} else {
			stopRacer := s.startRacer()
			err := s.mc.RemoveAll()
			stopRacer()
			out, es := outOf(err)
			s.record("ACacheRemoveAll", "cache-rmall", out, es)
			s.staleCommit(out == "XOk")
		}
	case "cli":
		s.closeCache()
		if s.in.Act == "rm" {
			code, txt := s.cli("bug", "rm", s.prefix)
			out := "XOk"
			if code != 0 {
				out = "XErr"
			}
			s.record("ACliRm "+c14Text(s.prefix), "cli-rm", out, strings.TrimSpace(txt))
			s.noteRemoved(out)
		} else {
			code, txt := s.cli("wipe")
			out := "XOk"
			if code != 0 {
				out = "XErr"
				s.tags["wipe-aborted"] = true
				if strings.Contains(txt, "invalid key prefix") {
					s.tags["wipe-invalid-key-prefix"] = true
				}
			}
			s.record("ACliWipe", "cli-wipe", out, strings.TrimSpace(txt))
		}
	}
}

// takeHandle: somebody resolves the entity that is about to be removed (once per case, right before the first removal)
func (s *c14Session) takeHandle() {
	if !s.in.Stale || s.staleOn {
		return
	}
	s.staleOn = true
	kind, id := s.target.Kind, s.target.Id
	if s.in.Act != "rm" {
		// RemoveAll: one of the local entities
		var bugs, idents []string
		for _, r := range s.init.Refs {
			if r.Loc != 0 || !c14ValidId(r.Id) {
				continue
			}
			if r.Kind == "bug" {
				bugs = append(bugs, r.Id)
			} else if r.Kind == "ident" {
				idents = append(idents, r.Id)
			}
		}
		sort.Strings(bugs)
		sort.Strings(idents)
		t := ((s.in.Target % 16) + 16) % 16
		switch {
		case len(bugs) > 0 && (t%3 != 0 || len(idents) == 0):
			kind, id = "bug", bugs[t%len(bugs)]
		case len(idents) > 0:
			kind, id = "ident", idents[t%len(idents)]
		default:
			return
		}
	}
	if kind == "bug" {
		if h, err := s.mc.Bugs().Resolve(entity.Id(id)); err == nil {
			s.staleB = h
		}
	} else {
		if h, err := s.mc.Identities().Resolve(entity.Id(id)); err == nil {
			s.staleI = h
		}
	}
}

// startRacer: the holder of the handle is in the middle of its work WHILE the removal runs: edit + Commit in a loop on
// the instance resolved before. Every such commit either completes before the instance is marked as removed (its ref is
// then deleted by the removal) or is refused (Remove.v, remove_vs_commits): whatever the schedule, the observations after
// the removal are those of the removal alone, so the model needs no new action. The answers of the racing calls are not
// judged (C18 judges acknowledgements); only what they leave behind is. Returns the function that stops the holder and
// waits for it. Only started when the removal can't fail for lack of a target (a handle was resolved).
func (s *c14Session) startRacer() func() {
	hb, hi := s.staleB, s.staleI
	if (hb == nil && hi == nil) || s.skip != "" {
		return func() {}
	}
	stop, done := make(chan struct{}), make(chan struct{})
	n := 0
	go func() {
		defer close(done)
		for i := 0; i < 400; i++ {
			select {
			case <-stop:
				return
			default:
			}
			var err error
			if hb != nil {
				_, _, _ = hb.AddCommentRaw(s.uc, s.now(), fmt.Sprintf("written while the removal runs %d", i), nil, nil)
				err = hb.Commit()
			} else {
				_ = hi.Mutate(s.mrepo, func(m *identity.Mutator) { m.Name = fmt.Sprintf("renamed while the removal runs %d", i) })
				err = hi.Commit()
			}
			if err == nil {
				n++
			}
		}
	}()
	// let the holder get into its first commit before the removal starts
	time.Sleep(time.Duration(5+((s.in.Target%20)+20)%20) * time.Millisecond)
	return func() {
		close(stop)
		<-done
		s.tags["racing-holder"] = true
		if n > 0 {
			s.tags["racing-holder-committed"] = true
		}
	}
}

// staleCommit: the holder of the handle goes on after the removal: an edit, then Commit. Whatever they answer, the
// removed entity must not be written back.
func (s *c14Session) staleCommit(removed bool) {
	hb, hi := s.staleB, s.staleI
	s.staleB, s.staleI = nil, nil
	if !removed || s.skip != "" {
		return
	}
	switch {
	case hb != nil:
		_, _, _ = hb.AddCommentRaw(s.uc, s.now(), "a comment prepared before the removal", nil, nil)
		out, es := outOf(hb.Commit())
		s.record(fmt.Sprintf("AStaleCommit KBug %s", c14Text(string(hb.Id()))), "stale-commit", out, es)
		s.tags["stale-handle:bug"] = true
		s.staleEnt = "bug:" + string(hb.Id())
		if out == "XOk" {
			s.tags["stale-commit-succeeded"] = true
		}
	case hi != nil:
		_ = hi.Mutate(s.mrepo, func(m *identity.Mutator) { m.Name = "renamed after the removal" })
		out, es := outOf(hi.Commit())
		s.record(fmt.Sprintf("AStaleCommit KIdent %s", c14Text(string(hi.Id()))), "stale-commit", out, es)
		s.tags["stale-handle:ident"] = true
		s.staleEnt = "ident:" + string(hi.Id())
		if out == "XOk" {
			s.tags["stale-commit-succeeded"] = true
		}
	}
}

func (s *c14Session) noteRemoved(out string) {
	if out == "XOk" && !s.tags["target:missing"] {
		s.removed = true
	}
}

func (s *c14Session) follow(f string) {
	if s.skip != "" {
		return
	}
	switch f {
	case "again":
		s.removal()
	case "reopen":
		s.closeCache()
		s.openCache()
		s.record("AReopen", "reopen", "XOk", "")
	case "rebuild":
		s.closeCache()
		_ = os.RemoveAll(filepath.Join(s.mpath, ".git", "git-bug", "cache"))
		_ = os.RemoveAll(filepath.Join(s.mpath, ".git", "git-bug", "indexes"))
		s.openCache()
		s.record("ARebuild", "rebuild", "XOk", "")
	case "merge":
		if s.in.Mode == "ent" && !s.opened {
			repo := s.rawRepo()
			if repo == nil {
				return
			}
			for j, rn := range s.rnames {
				s.drain(identity.MergeAll(repo, rn), "follow")
				s.drain(bug.MergeAll(repo, s.bugResolvers(repo), rn, s.U), "follow")
				s.record(fmt.Sprintf("AEntMerge %d%%N", j+1), "ent-merge", "XOk", "")
			}
			return
		}
		if s.mc == nil {
			s.openCache()
			s.record("AReopen", "reopen", "XOk", "")
		}
		if s.skip != "" {
			return
		}
		for j, rn := range s.rnames {
			s.drain(s.mc.MergeAll(rn), "follow")
			s.record(fmt.Sprintf("ACacheMerge %d%%N", j+1), "cache-merge", "XOk", "")
		}
	}
}

func runC14(in c14Input, gitbug string) *c14Session {
	s := &c14Session{in: in, tags: map[string]bool{}, gitbug: gitbug}
	defer s.cleanup()
	if in.NRem < 0 || in.NRem > 3 {
		s.fail("bad nrem")
		return s
	}
	ok := (in.Mode == "ent" && (in.Act == "rm" || in.Act == "rmall")) || (in.Mode == "cache" && (in.Act == "rm" || in.Act == "rmall")) ||
		(in.Mode == "cli" && (in.Act == "rm" || in.Act == "wipe"))
	if !ok || (in.Act == "rm" && in.Kind != "bug" && in.Kind != "ident") || (in.Mode == "cli" && in.Act == "rm" && (in.Kind != "bug" || !in.User)) {
		s.fail("unsupported combination")
		return s
	}
	s.setup()
	for _, h := range in.Hist {
		s.hist(h)
		if s.skip != "" {
			return s
		}
	}
	s.configure()
	s.pickTarget()
	if s.skip != "" {
		return s
	}
	switch in.Mode {
	case "ent":
		s.closeCache()
		_ = os.RemoveAll(filepath.Join(s.mpath, ".git", "git-bug", "cache"))
		_ = os.RemoveAll(filepath.Join(s.mpath, ".git", "git-bug", "indexes"))
	case "cli":
		s.closeCache()
		s.openCache()
	case "cache":
		// the running cache remembers its user; a missing git-bug.identity only shows after a restart.
		// Identity documents can only be counted: start a single identity removal from a freshly loaded cache.
		if in.Settle || !in.User || (in.Act == "rm" && in.Kind == "ident") {
			s.closeCache()
			s.openCache()
			s.tags["settled"] = true
		}
	}
	if s.skip != "" {
		return s
	}
	s.init = s.observe()
	if c := s.init.Cache; c != nil {
		nb, ni := 0, 0
		for k := range c.Exc {
			if strings.HasPrefix(k, "bug:") {
				nb++
			} else {
				ni++
			}
		}
		if nb != c.NDocB || ni != c.NDocI {
			s.tags["start:index-behind-excerpts"] = true
		}
	}
	s.removal()
	for _, f := range in.Follow {
		s.follow(f)
	}
	return s
}

// ---------------------------------------------------------------- Coq rendering

type c14Ranks struct{ head, digest, opt, sub, other ranker }

// Texts (ids, prefixes, foreign ref names) occur many times in a case: each is bound once by a let.
var c14Names = map[string]string{}
var c14Order []string

func c14Text(t string) string {
	if n, ok := c14Names[t]; ok {
		return n
	}
	n := fmt.Sprintf("t%d", len(c14Order))
	c14Names[t] = n
	c14Order = append(c14Order, t)
	return n
}

func c14Lets(body string) string {
	var sb strings.Builder
	for i, t := range c14Order {
		fmt.Fprintf(&sb, "let t%d : list N := %s in ", i, coqRunes(t))
	}
	sb.WriteString(body)
	c14Names, c14Order = map[string]string{}, nil
	return sb.String()
}

func coqEnt(key string) string {
	i := strings.Index(key, ":")
	return fmt.Sprintf("(%s, %s)", coqKind(key[:i]), c14Text(key[i+1:]))
}

func coqEnts(keys []string) string {
	xs := make([]string, len(keys))
	for i, k := range keys {
		xs[i] = coqEnt(k)
	}
	return coqList(xs)
}

func (o *c14Obs) coq(rk c14Ranks) string {
	var refs []string
	for _, r := range o.Refs {
		loc := "Local"
		if r.Loc > 0 {
			loc = fmt.Sprintf("(Track %d%%N)", r.Loc)
		}
		refs = append(refs, fmt.Sprintf("(mkrn %s %s %s, %d%%N)", coqKind(r.Kind), loc, c14Text(r.Id), rk.head.m[r.Head]))
	}
	cacheT := "None"
	if c := o.Cache; c != nil {
		var keys []string
		for k := range c.Exc {
			keys = append(keys, k)
		}
		sort.Strings(keys)
		var exc []string
		for _, k := range keys {
			exc = append(exc, fmt.Sprintf("(%s, %d%%N)", coqEnt(k), rk.digest.m[c.Exc[k]]))
		}
		var pfx []string
		for _, p := range c.Pfx {
			r := "PNone"
			switch p.Res {
			case "none":
			case "many":
				r = "PMany"
			default:
				r = "PFound " + c14Text(p.Res)
			}
			pfx = append(pfx, fmt.Sprintf("(%s, %s, %s)", coqKind(p.Kind), c14Text(p.P), r))
		}
		cacheT = fmt.Sprintf("(Some (mkcobs %s %s %d %d %s %s %s))", coqList(exc), coqEnts(c.Idx), c.NDocB, c.NDocI, coqEnts(c.Res), coqEnts(c.Qry), coqList(pfx))
	}
	user := "None"
	if o.UserSet {
		user = "(Some " + c14Text(o.UserId) + ")"
	}
	var opts, subs, other []string
	for _, x := range o.Opts {
		opts = append(opts, fmt.Sprintf("%d%%N", rk.opt.m[x]))
	}
	for _, x := range o.Subs {
		subs = append(subs, fmt.Sprintf("(%d%%N, %d%%N)", rk.sub.m[x[0]], rk.opt.m[x[1]]))
	}
	for _, x := range o.Other {
		other = append(other, fmt.Sprintf("%d%%N", rk.other.m[x]))
	}
	var files []string
	for _, f := range o.Files {
		files = append(files, fmt.Sprintf("%d%%N", f))
	}
	return fmt.Sprintf("mkobs %s %s (mkcfg %s %s %s %s) %s", coqList(refs), cacheT, user, coqList(opts), coqList(subs), coqList(other), coqList(files))
}

func (s *c14Session) coqCase() string {
	all := []*c14Obs{s.init}
	for i := range s.steps {
		all = append(all, s.steps[i].Obs)
	}
	var heads, digests, opts, subs, others []string
	// ranks start at 1: 0 is reserved for the text "identity" (Remove.tok_identity)
	for _, o := range all {
		for _, r := range o.Refs {
			heads = append(heads, r.Head)
		}
		if o.Cache != nil {
			for _, d := range o.Cache.Exc {
				digests = append(digests, d)
			}
		}
		opts = append(opts, o.Opts...)
		for _, x := range o.Subs {
			subs = append(subs, x[0])
			opts = append(opts, x[1])
		}
		others = append(others, o.Other...)
	}
	rk := c14Ranks{rankOf(heads), rankOf(digests), rankOf(opts), rankOf(subs), rankOf(others)}
	// universe
	useen := map[string]bool{}
	var univ []string
	add := func(k string) {
		if !useen[k] {
			useen[k] = true
			univ = append(univ, k)
		}
	}
	for _, e := range s.ents {
		add(e.Kind + ":" + e.Id)
	}
	if s.target.Id != "" {
		add(s.target.Kind + ":" + s.target.Id)
	}
	for _, o := range all {
		if o.Cache != nil {
			for k := range o.Cache.Exc {
				add(k)
			}
		}
	}
	sort.Strings(univ)
	// excerpt oracle: (entity, commit of its local ref) -> token, wherever both were seen together
	xseen := map[string]string{}
	var xtab []string
	for _, o := range all {
		if o.Cache == nil {
			continue
		}
		for _, r := range o.Refs {
			if r.Loc != 0 || r.Kind == "other" {
				continue
			}
			k := r.Kind + ":" + r.Id
			d, ok := o.Cache.Exc[k]
			if !ok {
				continue
			}
			key := k + "@" + r.Head
			if prev, ok := xseen[key]; ok {
				if prev != d {
					s.tags["excerpt-differs-for-same-commit"] = true
				}
				continue
			}
			xseen[key] = d
			xtab = append(xtab, fmt.Sprintf("(%s, %d%%N, %d%%N)", coqEnt(k), rk.head.m[r.Head], rk.digest.m[d]))
		}
	}
	var rems []string
	for j := range s.rnames {
		rems = append(rems, fmt.Sprintf("%d%%N", j+1))
	}
	var steps []string
	for _, st := range s.steps {
		steps = append(steps, fmt.Sprintf("(%s, %s, %s)", st.Act, st.Out, st.Obs.coq(rk)))
	}
	return c14Lets(fmt.Sprintf("mkcase %s %s %s (%s) %s", coqList(rems), coqEnts(univ), coqList(xtab), s.init.coq(rk), coqList(steps)))
}

// ---------------------------------------------------------------- generator

func genC14(r *Rand, combo int, thorough bool) c14Input {
	in := c14Input{NRem: r.Intn(4), User: !r.Chance(1, 5), Settle: r.Bool()}
	if r.Chance(1, 3) {
		in.Bridges = r.Range(1, 2)
	}
	if r.Chance(1, 6) {
		in.Opts = 1
	}
	switch combo % 6 {
	case 0:
		in.Mode, in.Act = "ent", "rm"
	case 1:
		in.Mode, in.Act = "cache", "rm"
	case 2:
		in.Mode, in.Act = "cli", "rm"
	case 3:
		in.Mode, in.Act = "ent", "rmall"
	case 4:
		in.Mode, in.Act = "cache", "rmall"
	default:
		in.Mode, in.Act = "cli", "wipe"
	}
	in.Kind = "bug"
	if in.Act == "rm" && in.Mode != "cli" && r.Chance(1, 3) {
		in.Kind = "ident"
	}
	if in.Mode == "cli" && in.Act == "rm" {
		in.User = true
	}
	in.Target = r.Intn(16)
	in.Missing = in.Act == "rm" && r.Chance(1, 14)
	in.PLen = []int{0, 0, 0, 7, 7, 3, 2, 1}[r.Intn(8)]
	maxShare := 2
	if thorough {
		maxShare = 3
	}
	who := func() string {
		if in.NRem > 0 && r.Chance(2, 5) {
			return "H"
		}
		return "M"
	}
	newEnt := func(w string) c14Hist {
		h := c14Hist{K: "new", Who: w, Kind: "bug"}
		if in.Kind == "ident" && r.Chance(1, 2) || r.Chance(1, 6) {
			h.Kind = "ident"
		}
		if r.Chance(1, 3) {
			h.Share, h.Of = r.Range(1, maxShare), r.Intn(8)
		}
		return h
	}
	in.Hist = append(in.Hist, newEnt("M"))
	if in.Kind == "ident" {
		in.Hist = append(in.Hist, c14Hist{K: "new", Who: "M", Kind: "ident"})
	}
	n := r.Range(3, 12)
	if thorough {
		n = r.Range(3, 20)
	}
	for i := 0; i < n; i++ {
		w := who()
		switch x := r.Intn(20); {
		case x < 5:
			in.Hist = append(in.Hist, newEnt(w))
		case x < 9:
			in.Hist = append(in.Hist, c14Hist{K: "edit", Who: w, E: r.Intn(6)})
		case x < 13:
			in.Hist = append(in.Hist, c14Hist{K: "push", Who: w, R: r.Intn(3)})
		case x < 16:
			in.Hist = append(in.Hist, c14Hist{K: "pull", Who: w, R: r.Intn(3)})
		default:
			in.Hist = append(in.Hist, c14Hist{K: "fetch", Who: "M", R: r.Intn(3)})
		}
	}
	if in.NRem > 0 && r.Chance(1, 2) {
		// something that was fetched and never merged
		rr := r.Intn(3)
		in.Hist = append(in.Hist, newEnt("H"), c14Hist{K: "push", Who: "H", R: rr}, c14Hist{K: "fetch", Who: "M", R: rr})
	}
	if r.Chance(1, 4) {
		in.Hist = append(in.Hist, c14Hist{K: "pack", Who: "M"})
	}
	if r.Chance(3, 4) {
		in.Follow = append(in.Follow, "again")
	}
	rest := []string{"reopen", "rebuild", "merge"}
	for i := len(rest) - 1; i > 0; i-- {
		j := r.Intn(i + 1)
		rest[i], rest[j] = rest[j], rest[i]
	}
	for _, f := range rest {
		if r.Chance(3, 4) {
			in.Follow = append(in.Follow, f)
		}
	}
	if r.Chance(1, 3) {
		in.Follow = append(in.Follow, "again")
	}
	if r.Chance(1, 4) {
		in.Follow = append(in.Follow, "merge")
	}
	// drawn last: the stream of the fields above is what it was before these existed
	if in.NRem > 0 && r.Chance(2, 5) {
		for k, n := 0, r.Range(1, 2); k < n; k++ {
			in.Stray = append(in.Stray, c14Stray{NS: c14StrayNS[r.Intn(2)], Loc: 1 + r.Intn(in.NRem), Name: c14StrayNames[r.Intn(len(c14StrayNames))]})
		}
	}
	if in.Act != "rm" && r.Chance(2, 5) {
		for k, n := 0, r.Range(1, 2); k < n; k++ {
			in.Stray = append(in.Stray, c14Stray{NS: c14StrayNS[r.Intn(2)], Loc: 0, Name: c14StrayNames[r.Intn(len(c14StrayNames))]})
		}
	}
	if in.Mode == "ent" && in.Act == "rm" && r.Chance(1, 3) {
		in.EntPfx = []int{-1, 1, 2, 7, 10, 40, 63}[r.Intn(7)]
	}
	if in.Mode == "cache" && r.Chance(1, 2) {
		in.Stale = true
	}
	return in
}

var c14StrayNS = []string{"bugs", "identities"}

// not ids: ordinary branch names, an id of the old repository format (40 characters), a nested name, a name of the
// right length with a character no id has
var c14StrayNames = []string{"fix-crash", "ldap-login", "backup", strings.Repeat("0a1b2c3d", 5), "old/" + strings.Repeat("ab", 32),
	strings.Repeat("ab", 31) + "a_", "x"}

// fixed shapes that every run contains
func c14Shapes() []c14Input {
	all := []string{"again", "reopen", "merge", "rebuild", "merge"}
	fetched := []c14Hist{{K: "new", Who: "M", Kind: "bug"}, {K: "push", Who: "M", R: 0}, {K: "new", Who: "H", Kind: "bug"}, {K: "new", Who: "H", Kind: "ident"},
		{K: "push", Who: "H", R: 0}, {K: "fetch", Who: "M", R: 0}}
	everywhere := []c14Hist{{K: "new", Who: "M", Kind: "bug"}, {K: "new", Who: "M", Kind: "bug", Share: 2, Of: 0}, {K: "new", Who: "M", Kind: "ident"},
		{K: "push", Who: "M", R: 0}, {K: "push", Who: "M", R: 1}, {K: "push", Who: "M", R: 2}, {K: "edit", Who: "M", E: 0}, {K: "new", Who: "H", Kind: "bug"},
		{K: "push", Who: "H", R: 1}, {K: "pull", Who: "M", R: 1}}
	var res []c14Input
	for _, u := range []bool{true, false} {
		for b := 0; b <= 1; b++ {
			res = append(res, c14Input{NRem: 1, Hist: fetched, User: u, Bridges: b, Mode: "cli", Act: "wipe", Kind: "bug", Follow: all})
		}
	}
	res = append(res, c14Input{NRem: 0, Hist: fetched[:1], User: true, Mode: "cli", Act: "wipe", Kind: "bug", Follow: []string{"again", "reopen"}})
	res = append(res, c14Input{NRem: 1, Hist: fetched, User: true, Mode: "cache", Act: "rmall", Kind: "bug", Follow: all})
	res = append(res, c14Input{NRem: 1, Hist: fetched, User: true, Mode: "ent", Act: "rmall", Kind: "bug", Follow: all})
	for _, m := range []string{"ent", "cache", "cli"} {
		for _, pl := range []int{0, 2, 3} {
			res = append(res, c14Input{NRem: 3, Hist: everywhere, User: true, Mode: m, Act: "rm", Kind: "bug", Target: 0, PLen: pl, Follow: all})
		}
	}
	for _, m := range []string{"ent", "cache"} {
		res = append(res, c14Input{NRem: 3, Hist: everywhere, User: true, Mode: m, Act: "rm", Kind: "ident", Target: 0, Follow: all})
		res = append(res, c14Input{NRem: 1, Hist: fetched, User: true, Mode: m, Act: "rm", Kind: "bug", Target: 1, Follow: all})
	}
	// names that are not ids inside git-bug's prefixes: the user's remote-tracking branches stay, copies kept inside the
	// local namespaces go with a RemoveAll / wipe (and do not stop it)
	branches := []c14Stray{{NS: "bugs", Loc: 1, Name: "fix-crash"}, {NS: "identities", Loc: 1, Name: "ldap-login"}}
	copies := []c14Stray{{NS: "bugs", Loc: 0, Name: "backup"}, {NS: "identities", Loc: 0, Name: strings.Repeat("0a1b2c3d", 5)}}
	short := []string{"again", "reopen", "merge"}
	for _, m := range [][2]string{{"ent", "rmall"}, {"cache", "rmall"}, {"cli", "wipe"}} {
		res = append(res, c14Input{NRem: 1, Hist: fetched, User: true, Mode: m[0], Act: m[1], Kind: "bug", Follow: short, Stray: branches})
		res = append(res, c14Input{NRem: 1, Hist: fetched, User: true, Mode: m[0], Act: m[1], Kind: "bug", Follow: short, Stray: copies})
	}
	res = append(res, c14Input{NRem: 1, Hist: fetched, User: true, Mode: "cache", Act: "rm", Kind: "bug", Target: 0, Follow: short, Stray: branches})
	// the entity API given something that is not a complete id
	for _, n := range []int{10, 1, -1} {
		res = append(res, c14Input{NRem: 1, Hist: everywhere[:4], User: true, Mode: "ent", Act: "rm", Kind: "ident", Target: 0, EntPfx: n, Follow: short})
	}
	res = append(res, c14Input{NRem: 1, Hist: everywhere[:4], User: true, Mode: "ent", Act: "rm", Kind: "bug", Target: 0, EntPfx: 10, Follow: short})
	// a handle resolved before the removal commits after it
	late := []string{"rebuild", "again", "reopen"}
	res = append(res, c14Input{NRem: 1, Hist: everywhere[:4], User: true, Mode: "cache", Act: "rm", Kind: "bug", Target: 0, Stale: true, Follow: late})
	res = append(res, c14Input{NRem: 1, Hist: everywhere[:4], User: true, Mode: "cache", Act: "rm", Kind: "ident", Target: 0, Stale: true, Follow: late})
	res = append(res, c14Input{NRem: 1, Hist: everywhere[:4], User: true, Mode: "cache", Act: "rmall", Kind: "bug", Target: 1, Stale: true, Follow: late})
	res = append(res, c14Input{NRem: 1, Hist: everywhere[:4], User: true, Mode: "cache", Act: "rmall", Kind: "bug", Target: 0, Stale: true, Follow: late})
	return res
}

type c14Driver struct{}

func init() { register("C14", c14Driver{}) }

func (c14Driver) Gen(r *Rand, tier string) []json.RawMessage {
	var res []json.RawMessage
	for _, s := range c14Shapes() {
		res = append(res, mustJSON(s))
	}
	n := 280
	if tier == "thorough" {
		n = 2600
	}
	off := r.Intn(6)
	for i := 0; i < n; i++ {
		res = append(res, mustJSON(genC14(r, i+off, tier == "thorough")))
	}
	// targeted stream: everything packed, then RemoveAll through the cache / wipe (the sub-caches remove their
	// entities concurrently: a few percent of such runs lost a removal before the repair)
	np := 60
	if tier == "thorough" {
		np = 600
	}
	for i := 0; i < np; i++ {
		in := c14Input{NRem: r.Intn(2), User: r.Bool(), Mode: []string{"cache", "cli"}[r.Intn(2)], Act: "rmall", Kind: "bug", Follow: []string{"again", "reopen"}}
		if in.Mode == "cli" {
			in.Act = "wipe"
		}
		for k, nb := 0, r.Range(2, 5); k < nb; k++ {
			in.Hist = append(in.Hist, c14Hist{K: "new", Who: "M", Kind: "bug"})
		}
		in.Hist = append(in.Hist, c14Hist{K: "new", Who: "M", Kind: "ident"}, c14Hist{K: "edit", Who: "M", E: r.Intn(4)}, c14Hist{K: "push", Who: "M"}, c14Hist{K: "pack", Who: "M"})
		res = append(res, mustJSON(in))
	}
	return res
}

func (c14Driver) Run(raw json.RawMessage) Case {
	var in c14Input
	if err := json.Unmarshal(raw, &in); err != nil {
		return Case{Skip: "bad input: " + err.Error()}
	}
	gitbug := os.Getenv("VERIF_GITBUG")
	if gitbug == "" {
		return Case{Skip: "VERIF_GITBUG is not set (propcfg needs_gitbug)"}
	}
	s := runC14(in, gitbug)
	if s.init == nil || (s.skip != "" && len(s.steps) == 0) {
		return Case{Skip: "scenario: " + s.skip}
	}
	if s.skip != "" {
		// the scenario could not go on after a removal (e.g. the cache no longer opens on what a failed RemoveAll left):
		// what has been observed up to there is judged
		s.tags["cut-short-after-the-removal"] = true
	}
	// finding signatures
	last := s.init
	for _, st := range s.steps {
		if st.Name == "cli-wipe" || st.Name == "cache-rmall" || st.Name == "ent-rmall-identities" {
			for _, r := range st.Obs.Refs {
				if r.Kind != "other" && r.Loc > 0 && c14ValidId(r.Id) {
					s.tags["removeall-left-tracking-ref"] = true
				}
				if r.Kind != "other" && r.Loc == 0 {
					s.tags["removeall-left-local-ref"] = true
				}
			}
		}
		if st.Name == "cli-wipe" || st.Name == "cache-rmall" || st.Name == "ent-rmall-identities" || st.Name == "ent-rmall-bugs" {
			if st.Out != "XOk" {
				s.tags["removeall-failed"] = true
			}
			after := map[string]bool{}
			for _, r := range st.Obs.Refs {
				after[fmt.Sprintf("%s/%d/%s", r.Kind, r.Loc, r.Id)] = true
			}
			for _, r := range last.Refs {
				if r.Kind != "other" && r.Loc > 0 && !c14ValidId(r.Id) && !after[fmt.Sprintf("%s/%d/%s", r.Kind, r.Loc, r.Id)] {
					s.tags["removeall-took-user-branch"] = true
				}
			}
		}
		if st.Name == "stale-commit" {
			for _, r := range st.Obs.Refs {
				if r.Loc == 0 && r.Kind+":"+r.Id == s.staleEnt {
					s.tags["stale-handle-wrote-ref"] = true
				}
			}
		}
		if st.Name == "cli-wipe" && len(st.Obs.Files) > 0 {
			s.tags["wipe-left-storage"] = true
		}
		last = st.Obs
	}
	coq := s.coqCase()
	tags := []string{"mode:" + in.Mode, "act:" + in.Act, fmt.Sprintf("remotes:%d", in.NRem)}
	if in.Act == "rm" {
		tags = append(tags, "kind:"+in.Kind)
		switch {
		case in.Mode == "ent" && s.entArg != s.target.Id:
			tags = append(tags, fmt.Sprintf("ent-arg:%d-characters", len(s.entArg)))
		case in.Mode == "ent" || len(s.prefix) == 64:
			tags = append(tags, "prefix:whole-id")
		default:
			tags = append(tags, fmt.Sprintf("prefix:%d", len(s.prefix)))
		}
	}
	if in.User {
		tags = append(tags, "user:set")
	} else {
		tags = append(tags, "user:unset")
	}
	if in.Bridges > 0 || in.Opts > 0 {
		tags = append(tags, "other-git-bug-config")
	}
	for _, st := range s.steps[:1] {
		tags = append(tags, "first-outcome:"+st.Out)
	}
	for t := range s.tags {
		tags = append(tags, t)
	}
	sort.Strings(tags)
	nothers := 0
	for _, r := range s.init.Refs {
		if r.Kind != "other" && !(r.Kind == s.target.Kind && r.Id == s.target.Id) {
			nothers++
		}
	}
	nontrivial := nothers > 0 && (s.removed || in.Act != "rm")
	type obsT struct {
		Target string    `json:"target,omitempty"`
		Prefix string    `json:"prefix,omitempty"`
		Init   *c14Obs   `json:"init"`
		Steps  []c14Step `json:"steps"`
	}
	return Case{Coq: coq, Obs: obsT{s.target.Kind + ":" + s.target.Id, s.prefix, s.init, s.steps}, Tags: tags, NonTrivial: nontrivial, Key: string(raw)}
}
