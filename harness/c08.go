package main

// C08: commits by authors with signing keys must carry a valid signature.
//
// One case = one identity history (<= 4 versions over a pool of 3 real OpenPGP keys, built with
// identity.NewIdentityFull / Mutate / Commit while the "bugs-edit" clock is driven with Witness, or written
// version by version in the documented JSON format for histories Validate would refuse) and
//   - probes: bug commits at chosen logical times, written through repository.RepoData in the documented
//     on-disk format, signed by a pool key / a stranger's key / nobody, possibly with the tree swapped after
//     signing (done on the git object itself with go-git); each is read with bug.Read and offered to
//     bug.MergeAll as refs/remotes/origin/bugs/<id>;
//   - writes: bugs created through the normal API by the author as loaded from git, with chosen private keys
//     in the repository keyring, then read back.
// The history handed to Coq is the one read back from the git blobs, not the one requested.

import (
	"bytes"
	"crypto/rand"
	"encoding/json"
	"fmt"
	"io"
	"os"
	"sort"
	"strings"
	"sync"

	"github.com/99designs/keyring"
	"github.com/MichaelMure/git-bug/entities/bug"
	"github.com/MichaelMure/git-bug/entities/identity"
	"github.com/MichaelMure/git-bug/entity"
	"github.com/MichaelMure/git-bug/entity/dag"
	"github.com/MichaelMure/git-bug/repository"
	"github.com/MichaelMure/git-bug/util/lamport"
	"github.com/ProtonMail/go-crypto/openpgp"
	"github.com/ProtonMail/go-crypto/openpgp/armor"
	git "github.com/go-git/go-git/v5"
	"github.com/go-git/go-git/v5/plumbing"
)

const (
	c08PoolSize = 3 // keys an identity may declare; index c08PoolSize is the stranger's key
	c08Clock    = "bugs-edit"
)

type c08Version struct {
	T    *uint64 `json:"t"`    // value of the bugs-edit clock recorded by the version; null = clock not recorded
	Keys []int   `json:"keys"` // pool indices
}
type c08Probe struct {
	T      uint64 `json:"t"`               // edit time of the commit
	Signer int    `json:"s"`               // -1 nobody, 0..2 pool key, 3 the stranger's key
	Alter  int    `json:"alter,omitempty"` // 0 no, 1 operations swapped after signing, 2 edit clock changed after signing, 3..6 the raw bytes of the signed commit changed (c08AlterRaw)
	Warm   int    `json:"warm,omitempty"`  // k+1: before this probe is read, a commit carrying the SAME operations and genuinely signed by pool key k is read in the same process
	Unsort bool   `json:"unsorted,omitempty"` // the commit's tree object lists "ops" before the clock entries (written as raw bytes: git-bug's own writer sorts)
	Empty  int    `json:"empty,omitempty"` // 1, 2: the probe is a commit WITHOUT operations ("ops": [] / null) by the author, at time t+1, on top of a root commit (time t) by an author without keys
}
type c08Write struct {
	Have []int `json:"have"` // private keys present in the keyring
}
type c08Input struct {
	Mode     string       `json:"mode"` // api | raw
	Early    bool         `json:"early,omitempty"`    // api mode: every version is committed as soon as it is made and the author then writes a bug through the API (all private keys at hand); these bugs must still read at the end
	InPlace  bool         `json:"in_place,omitempty"` // api mode: a key change that keeps the number of keys rewrites Mutator.Keys in place and changes nothing else
	Versions []c08Version `json:"versions"`
	Probes   []c08Probe   `json:"probes"`
	Writes   []c08Write   `json:"writes,omitempty"`
}

type c08Driver struct{}

func init() { register("C08", c08Driver{}) }

// ---- key pool: generating an OpenPGP key takes 0.1-0.5 s, so once per worker process ----

var (
	c08poolOnce sync.Once
	c08pool     []*identity.Key
	c08poolPub  []string // armored public part as stored in a version
)

func c08Keys() []*identity.Key {
	c08poolOnce.Do(func() {
		for i := 0; i <= c08PoolSize; i++ {
			k := identity.GenerateKey()
			c08pool = append(c08pool, k)
			b, err := json.Marshal(k)
			if err != nil {
				panic(err)
			}
			c08poolPub = append(c08poolPub, string(b))
		}
	})
	return c08pool
}

// ---- generator ----

// model of the rule, used only to choose which probes to generate and to label them
func c08Eff(vs []c08Version) []uint64 {
	var res []uint64
	var last uint64
	for _, v := range vs {
		if v.T != nil {
			last = *v.T
		}
		res = append(res, last)
	}
	return res
}
func c08InForce(vs []c08Version, t uint64) []int {
	var res []int
	for i, e := range c08Eff(vs) {
		if e > t {
			return res
		}
		res = vs[i].Keys
	}
	return res
}

func c08MaskKeys(m int) []int {
	ks := []int{}
	for i := 0; i < c08PoolSize; i++ {
		if m&(1<<i) != 0 {
			ks = append(ks, i)
		}
	}
	return ks
}

// all sequences of n key sets over the pool, one per class of sequences equal up to a renaming of the keys
func c08KeySeqs(n int) [][]int {
	perms := [][]int{{0, 1, 2}, {0, 2, 1}, {1, 0, 2}, {1, 2, 0}, {2, 0, 1}, {2, 1, 0}}
	apply := func(p []int, m int) int {
		r := 0
		for i := 0; i < c08PoolSize; i++ {
			if m&(1<<i) != 0 {
				r |= 1 << p[i]
			}
		}
		return r
	}
	var res [][]int
	total := 1
	for i := 0; i < n; i++ {
		total *= 1 << c08PoolSize
	}
	for x := 0; x < total; x++ {
		seq := make([]int, n)
		y := x
		for i := 0; i < n; i++ {
			seq[i] = y % (1 << c08PoolSize)
			y /= 1 << c08PoolSize
		}
		canonical := true
		for _, p := range perms {
			for i := 0; i < n; i++ {
				a := apply(p, seq[i])
				if a < seq[i] {
					canonical = false
				}
				if a != seq[i] {
					break
				}
			}
			if !canonical {
				break
			}
		}
		if canonical {
			res = append(res, seq)
		}
	}
	return res
}

// time patterns for n versions as the API can produce them: k leading versions without the clock, then the
// clock at 3 and each later version either at the same time as its predecessor or 2 later
func c08TimePatterns(n int) [][]*uint64 {
	var res [][]*uint64
	for k := 0; k <= n; k++ {
		m := n - k // versions with a time
		gaps := 0
		if m > 1 {
			gaps = m - 1
		}
		for g := 0; g < 1<<gaps; g++ {
			ts := make([]*uint64, n)
			cur := uint64(3)
			for i := 0; i < m; i++ {
				if i > 0 && g&(1<<(i-1)) != 0 {
					cur += 2
				}
				v := cur
				ts[k+i] = &v
			}
			res = append(res, ts)
		}
	}
	return res
}

func c08ProbesFor(vs []c08Version) []c08Probe {
	tset := map[uint64]bool{1: true, 2: true}
	var max uint64
	for _, e := range c08Eff(vs) {
		if e > 0 {
			tset[e-1], tset[e], tset[e+1] = true, true, true
		}
		if e > max {
			max = e
		}
	}
	tset[max+1] = true
	delete(tset, 0)
	var ts []uint64
	for t := range tset {
		ts = append(ts, t)
	}
	sort.Slice(ts, func(i, j int) bool { return ts[i] < ts[j] })
	var res []c08Probe
	for _, t := range ts {
		for s := -1; s <= c08PoolSize; s++ {
			res = append(res, c08Probe{T: t, Signer: s})
		}
		// the right key (any key when none is in force), content changed after signing
		s := 0
		if ks := c08InForce(vs, t); len(ks) > 0 {
			s = ks[0]
		}
		res = append(res, c08Probe{T: t, Signer: s, Alter: 1}, c08Probe{T: t, Signer: s, Alter: 2})
		// genuinely signed, then the bytes of the commit object changed in places a lenient parser skips
		res = append(res, c08Probe{T: t, Signer: s, Alter: 3 + int(t+uint64(len(vs)))%4})
		// the same operations, first seen genuinely signed by the right key, then met again unsigned / signed by a stranger
		res = append(res, c08Probe{T: t, Signer: -1, Warm: s + 1}, c08Probe{T: t, Signer: c08PoolSize, Warm: s + 1})
		// the same commits with a tree that lists "ops" before the clocks: the verdict must not depend on the order
		res = append(res, c08Probe{T: t, Signer: -1, Unsort: true}, c08Probe{T: t, Signer: s, Unsort: true})
		// a commit without operations is a commit like any other: unsigned, signed by a stranger, by the right key
		res = append(res, c08Probe{T: t, Signer: -1, Empty: 1}, c08Probe{T: t, Signer: c08PoolSize, Empty: 2}, c08Probe{T: t, Signer: s, Empty: 1 + int(t%2)})
	}
	return res
}

func c08WritesFor(vs []c08Version) []c08Write {
	return []c08Write{{Have: []int{}}, {Have: []int{0}}, {Have: []int{1}}, {Have: []int{2}}, {Have: []int{0, 1, 2}}}
}

func c08ApiHistories(maxN int) []c08Input {
	var res []c08Input
	for n := 1; n <= maxN; n++ {
		for _, seq := range c08KeySeqs(n) {
			for _, ts := range c08TimePatterns(n) {
				in := c08Input{Mode: "api"}
				for i := 0; i < n; i++ {
					in.Versions = append(in.Versions, c08Version{T: ts[i], Keys: c08MaskKeys(seq[i])})
				}
				in.Probes = c08ProbesFor(in.Versions)
				in.Writes = c08WritesFor(in.Versions)
				in.InPlace = len(res)%2 == 1
				in.Early = len(res)%4 >= 2 && n > 1
				res = append(res, in)
			}
		}
	}
	return res
}

// histories written version by version: times in any order, the clock missing anywhere
func c08RawHistory(r *Rand) c08Input {
	in := c08Input{Mode: "raw"}
	n := r.Range(1, 4)
	for i := 0; i < n; i++ {
		v := c08Version{Keys: c08MaskKeys(r.Intn(1 << c08PoolSize))}
		if !r.Chance(1, 4) {
			t := uint64(r.Range(1, 8))
			v.T = &t
		}
		in.Versions = append(in.Versions, v)
	}
	in.Probes = c08ProbesFor(in.Versions)
	return in
}

func (c08Driver) Gen(r *Rand, tier string) []json.RawMessage {
	var res []json.RawMessage
	all := c08ApiHistories(4)
	if tier == "thorough" {
		for _, in := range all {
			res = append(res, mustJSON(in))
		}
		for i := 0; i < 1500; i++ {
			res = append(res, mustJSON(c08RawHistory(r)))
		}
		return res
	}
	// quick: every history of at most 3 versions, a sample of those with 4, some raw ones
	var long []c08Input
	for _, in := range all {
		if len(in.Versions) <= 3 {
			res = append(res, mustJSON(in))
		} else {
			long = append(long, in)
		}
	}
	for i := 0; i < 350; i++ {
		res = append(res, mustJSON(long[r.Intn(len(long))]))
	}
	for i := 0; i < 100; i++ {
		res = append(res, mustJSON(c08RawHistory(r)))
	}
	return res
}

// ---- building the scenario ----

type c08RawVersion struct {
	Version  int               `json:"version"`
	Times    map[string]uint64 `json:"times"`
	UnixTime int64             `json:"unix_time"`
	Name     string            `json:"name,omitempty"`
	Email    string            `json:"email,omitempty"`
	Keys     []*identity.Key   `json:"pub_keys,omitempty"`
	Nonce    []byte            `json:"nonce"`
}

func c08KeysOf(v c08Version) []*identity.Key {
	pool := c08Keys()
	ks := []*identity.Key{}
	for _, i := range v.Keys {
		ks = append(ks, pool[i].Clone())
	}
	return ks
}

// c08BuildIdentity stores the history and returns the identity's id.
func c08BuildIdentity(repo repository.ClockedRepo, in c08Input) (entity.Id, error) {
	c08EarlyBugs = nil
	if in.Mode == "raw" {
		var last repository.Hash
		var id entity.Id
		for i, v := range in.Versions {
			rv := c08RawVersion{Version: 2, UnixTime: int64(1600000000 + i), Name: fmt.Sprintf("author v%d", i), Email: "a@example.org",
				Keys: c08KeysOf(v), Nonce: make([]byte, 20)}
			if _, err := rand.Read(rv.Nonce); err != nil {
				return "", err
			}
			if v.T != nil {
				rv.Times = map[string]uint64{c08Clock: *v.T}
			}
			data, err := json.Marshal(rv)
			if err != nil {
				return "", err
			}
			if i == 0 {
				id = entity.DeriveId(data)
			}
			blob, err := repo.StoreData(data)
			if err != nil {
				return "", err
			}
			tree, err := repo.StoreTree([]repository.TreeEntry{{ObjectType: repository.Blob, Hash: blob, Name: "version"}})
			if err != nil {
				return "", err
			}
			if last == "" {
				last, err = repo.StoreCommit(tree)
			} else {
				last, err = repo.StoreCommit(tree, last)
			}
			if err != nil {
				return "", err
			}
		}
		return id, repo.UpdateRef("refs/identities/"+string(id), last)
	}
	var id *identity.Identity
	c08EarlyBugs = nil
	early := func(i int) error {
		if !in.Early {
			return nil
		}
		if id.NeedCommit() {
			if err := id.Commit(repo); err != nil {
				return err
			}
		}
		kr := keyring.NewArrayKeyring(nil)
		for k := 0; k < c08PoolSize; k++ {
			if err := c08StorePrivate(kr, c08Keys()[k]); err != nil {
				return err
			}
		}
		wrepo := krRepo{TestedRepo: repo.(repository.TestedRepo), kr: kr}
		wauthor, err := identity.ReadLocal(wrepo, id.Id())
		if err != nil {
			return err
		}
		b, _, err := bug.Create(wauthor, int64(1600003000+i), fmt.Sprintf("written under version %d", i), "message", nil, nil)
		if err != nil {
			return err
		}
		if err := b.Commit(wrepo); err != nil {
			return err
		}
		if _, err := bug.Read(repo, b.Id()); err != nil {
			return fmt.Errorf("a bug just written does not read: %v", err)
		}
		c08EarlyBugs = append(c08EarlyBugs, b.Id())
		return nil
	}
	for i, v := range in.Versions {
		if i > 0 {
			if err := early(i - 1); err != nil {
				return "", err
			}
		}
		if v.T != nil {
			if err := repo.Witness(c08Clock, lamport.Time(*v.T)); err != nil {
				return "", err
			}
		}
		keys := c08KeysOf(v)
		if i == 0 {
			var err error
			id, err = identity.NewIdentityFull(repo, "author v0", "a@example.org", "", "", keys)
			if err != nil {
				return "", err
			}
			continue
		}
		name := fmt.Sprintf("author v%d", i)
		if in.InPlace && len(keys) == len(in.Versions[i-1].Keys) && len(keys) > 0 {
			// a rotation: same number of keys, written over the ones the mutator hands out, nothing else changed
			if err := id.Mutate(repo, func(m *identity.Mutator) {
				for j := range keys {
					m.Keys[j] = keys[j]
				}
			}); err != nil {
				return "", err
			}
			continue
		}
		if err := id.Mutate(repo, func(m *identity.Mutator) { m.Name = name; m.Keys = keys }); err != nil {
			return "", err
		}
	}
	if id.NeedCommit() {
		if err := id.Commit(repo); err != nil {
			return "", err
		}
	}
	return id.Id(), nil
}

// c08ReadHistory reads the stored versions back from the git blobs (documented format), oldest first.
func c08ReadHistory(repo repository.ClockedRepo, id entity.Id) ([]c08Version, error) {
	hashes, err := repo.ListCommits("refs/identities/" + string(id))
	if err != nil {
		return nil, err
	}
	var res []c08Version
	for _, h := range hashes {
		c, err := repo.ReadCommit(h)
		if err != nil {
			return nil, err
		}
		entries, err := repo.ReadTree(c.TreeHash)
		if err != nil {
			return nil, err
		}
		if len(entries) != 1 || entries[0].Name != "version" {
			return nil, fmt.Errorf("unexpected identity tree")
		}
		data, err := repo.ReadData(entries[0].Hash)
		if err != nil {
			return nil, err
		}
		var aux struct {
			Times map[string]uint64 `json:"times"`
			Keys  []json.RawMessage `json:"pub_keys"`
		}
		if err := json.Unmarshal(data, &aux); err != nil {
			return nil, err
		}
		v := c08Version{Keys: []int{}}
		if t, ok := aux.Times[c08Clock]; ok {
			tt := t
			v.T = &tt
		}
		for _, raw := range aux.Keys {
			found := -1
			for i, pub := range c08poolPub {
				if pub == string(raw) {
					found = i
				}
			}
			if found < 0 {
				return nil, fmt.Errorf("stored key is not a pool key")
			}
			v.Keys = append(v.Keys, found)
		}
		res = append(res, v)
	}
	return res, nil
}

// c08Tree stores an operation pack tree holding one create operation and returns (tree, bug id).
func c08Tree(repo repository.ClockedRepo, author identity.Interface, title string, edit uint64, unix int64) (repository.Hash, entity.Id, error) {
	emptyBlob, err := repo.StoreData([]byte{})
	if err != nil {
		return "", "", err
	}
	op := bug.NewCreateOp(author, unix, title, "message", nil)
	data, err := json.Marshal(packJSON{Author: author, Operations: []dag.Operation{op}})
	if err != nil {
		return "", "", err
	}
	var aux struct {
		Ops []json.RawMessage `json:"ops"`
	}
	if err := json.Unmarshal(data, &aux); err != nil || len(aux.Ops) != 1 {
		return "", "", fmt.Errorf("cannot re-read the pack")
	}
	blob, err := repo.StoreData(data)
	if err != nil {
		return "", "", err
	}
	th, err := c08TreeOf(repo, emptyBlob, blob, edit)
	return th, entity.DeriveId(aux.Ops[0]), err
}

func c08TreeOf(repo repository.ClockedRepo, emptyBlob, ops repository.Hash, edit uint64) (repository.Hash, error) {
	return repo.StoreTree([]repository.TreeEntry{
		{ObjectType: repository.Blob, Hash: emptyBlob, Name: "version-4"},
		{ObjectType: repository.Blob, Hash: ops, Name: "ops"},
		{ObjectType: repository.Blob, Hash: emptyBlob, Name: fmt.Sprintf("edit-clock-%d", edit)},
		{ObjectType: repository.Blob, Hash: emptyBlob, Name: "create-clock-1"},
	})
}

// c08Commit writes the probe's commit and returns (commit, bug id).
func c08Commit(repo repository.ClockedRepo, gr *git.Repository, author identity.Interface, p c08Probe, n int) (repository.Hash, entity.Id, error) {
	h, id, _, err := c08CommitWarm(repo, gr, author, p, n)
	return h, id, err
}

// c08CommitWarm also returns the genuinely signed twin (same operations) to be read first, if any.
func c08CommitWarm(repo repository.ClockedRepo, gr *git.Repository, author identity.Interface, p c08Probe, n int) (repository.Hash, entity.Id, repository.Hash, error) {
	h, id, warm, err := c08CommitInner(repo, gr, author, p, n)
	return h, id, warm, err
}

// c08Unsorted writes the same tree again with "ops" (and "version-4") before the clock entries. go-git's encoder
// refuses unsorted trees, its decoder and git-bug's reader accept them: the object is written as raw bytes.
func c08Unsorted(repo repository.ClockedRepo, gr *git.Repository, tree repository.Hash) (repository.Hash, error) {
	entries, err := repo.ReadTree(tree)
	if err != nil {
		return "", err
	}
	var first, rest []repository.TreeEntry
	for _, e := range entries {
		if e.Name == "ops" || strings.HasPrefix(e.Name, "version-") {
			first = append(first, e)
		} else {
			rest = append(rest, e)
		}
	}
	var buf bytes.Buffer
	for _, e := range append(first, rest...) {
		if e.ObjectType != repository.Blob {
			return "", fmt.Errorf("unexpected tree entry")
		}
		h := plumbing.NewHash(string(e.Hash))
		fmt.Fprintf(&buf, "100644 %s\x00", e.Name)
		buf.Write(h[:])
	}
	obj := gr.Storer.NewEncodedObject()
	obj.SetType(plumbing.TreeObject)
	w, err := obj.Writer()
	if err != nil {
		return "", err
	}
	if _, err := w.Write(buf.Bytes()); err != nil {
		return "", err
	}
	if err := w.Close(); err != nil {
		return "", err
	}
	h, err := gr.Storer.SetEncodedObject(obj)
	if err != nil {
		return "", err
	}
	return repository.Hash(h.String()), nil
}

// c08EarlyBugs: the bugs the author wrote through the API under each version but the last (set per case)
var c08EarlyBugs []entity.Id

// c08Plain is an identity without keys (set per case by Run): it authors the root below an empty probe.
var c08Plain identity.Interface

func c08CommitInner(repo repository.ClockedRepo, gr *git.Repository, author identity.Interface, p c08Probe, n int) (repository.Hash, entity.Id, repository.Hash, error) {
	if p.Empty > 0 {
		rootTree, id, err := c08Tree(repo, c08Plain, fmt.Sprintf("root of probe %d", n), p.T, int64(1600001000+n))
		if err != nil {
			return "", "", "", err
		}
		root, err := repo.StoreCommit(rootTree)
		if err != nil {
			return "", "", "", err
		}
		ops := []dag.Operation{}
		if p.Empty == 2 {
			ops = nil
		}
		data, err := json.Marshal(packJSON{Author: author, Operations: ops})
		if err != nil {
			return "", "", "", err
		}
		blob, err := repo.StoreData(data)
		if err != nil {
			return "", "", "", err
		}
		emptyBlob, err := repo.StoreData([]byte{})
		if err != nil {
			return "", "", "", err
		}
		tree, err := repo.StoreTree([]repository.TreeEntry{
			{ObjectType: repository.Blob, Hash: emptyBlob, Name: "version-4"},
			{ObjectType: repository.Blob, Hash: blob, Name: "ops"},
			{ObjectType: repository.Blob, Hash: emptyBlob, Name: fmt.Sprintf("edit-clock-%d", p.T+1)},
		})
		if err != nil {
			return "", "", "", err
		}
		var h repository.Hash
		if p.Signer < 0 {
			h, err = repo.StoreCommit(tree, root)
		} else {
			h, err = repo.StoreSignedCommit(tree, c08Keys()[p.Signer].PGPEntity(), root)
		}
		return h, id, "", err
	}
	tree, id, err := c08Tree(repo, author, fmt.Sprintf("probe %d", n), p.T, int64(1600001000+n))
	if err != nil {
		return "", "", "", err
	}
	if p.Unsort {
		tree, err = c08Unsorted(repo, gr, tree)
		if err != nil {
			return "", "", "", err
		}
	}
	if p.Warm > 0 && p.Alter == 0 {
		warm, err := repo.StoreSignedCommit(tree, c08Keys()[p.Warm-1].PGPEntity())
		if err != nil {
			return "", "", "", err
		}
		var h repository.Hash
		if p.Signer < 0 {
			h, err = repo.StoreCommit(tree)
		} else {
			h, err = repo.StoreSignedCommit(tree, c08Keys()[p.Signer].PGPEntity())
		}
		return h, id, warm, err
	}
	if p.Signer < 0 {
		h, err := repo.StoreCommit(tree)
		return h, id, "", err
	}
	signer := c08Keys()[p.Signer].PGPEntity()
	if p.Alter == 0 {
		h, err := repo.StoreSignedCommit(tree, signer)
		return h, id, "", err
	}
	if p.Alter >= 3 {
		sh, err := repo.StoreSignedCommit(tree, signer)
		if err != nil {
			return "", "", "", err
		}
		h, err := c08AlterRaw(gr, sh, p.Alter)
		return h, id, "", err
	}
	// sign another tree, then make the commit point to this one while keeping the signature
	var signedTree repository.Hash
	switch p.Alter {
	case 1: // other operations (same author, same clocks)
		signedTree, _, err = c08Tree(repo, author, fmt.Sprintf("probe %d as signed", n), p.T, int64(1600001000+n))
	default: // same operations, another edit time
		var entries []repository.TreeEntry
		entries, err = repo.ReadTree(tree)
		if err == nil {
			var emptyBlob, ops repository.Hash
			for _, e := range entries {
				switch e.Name {
				case "ops":
					ops = e.Hash
				case "version-4":
					emptyBlob = e.Hash
				}
			}
			signedTree, err = c08TreeOf(repo, emptyBlob, ops, p.T+1)
		}
	}
	if err != nil {
		return "", "", "", err
	}
	sh, err := repo.StoreSignedCommit(signedTree, signer)
	if err != nil {
		return "", "", "", err
	}
	co, err := gr.CommitObject(plumbing.NewHash(string(sh)))
	if err != nil {
		return "", "", "", err
	}
	if co.PGPSignature == "" {
		return "", "", "", fmt.Errorf("signed commit carries no signature")
	}
	co.TreeHash = plumbing.NewHash(string(tree))
	obj := gr.Storer.NewEncodedObject()
	if err := co.Encode(obj); err != nil {
		return "", "", "", err
	}
	h, err := gr.Storer.SetEncodedObject(obj)
	if err != nil {
		return "", "", "", err
	}
	warm := repository.Hash("")
	if p.Alter == 2 {
		warm = sh // same operations, genuinely signed (with the other edit time)
	}
	return repository.Hash(h.String()), id, warm, nil
}

// c08AlterRaw stores a copy of the signed commit h whose bytes differ in a place that go-git's decoder skips or
// normalises: 3 an unknown header after the committer line, 4 an unknown header after the signature, 5 blanks at the
// end of the committer line, 6 a second "tree" line in front of the real one (the tree C git would read). The
// signature is kept byte for byte: it no longer covers the content of the object.
func c08AlterRaw(gr *git.Repository, h repository.Hash, how int) (repository.Hash, error) {
	obj, err := gr.Storer.EncodedObject(plumbing.CommitObject, plumbing.NewHash(string(h)))
	if err != nil {
		return "", err
	}
	rd, err := obj.Reader()
	if err != nil {
		return "", err
	}
	raw, err := io.ReadAll(rd)
	_ = rd.Close()
	if err != nil {
		return "", err
	}
	text := string(raw)
	ci := strings.Index(text, "\ncommitter ")
	if ci < 0 || !strings.HasPrefix(text, "tree ") {
		return "", fmt.Errorf("unexpected commit layout")
	}
	ce := ci + 1 + strings.Index(text[ci+1:], "\n") // the newline that ends the committer line
	switch how {
	case 3:
		text = text[:ce+1] + "x-injected not covered by the signature\n" + text[ce+1:]
	case 4:
		end := strings.Index(text, "-----END PGP SIGNATURE-----")
		if end < 0 {
			return "", fmt.Errorf("no signature in the signed commit")
		}
		nl := end + strings.Index(text[end:], "\n")
		// skip the continuation lines of the gpgsig header
		for nl+1 < len(text) && text[nl+1] == ' ' {
			nl = nl + 1 + strings.Index(text[nl+1:], "\n")
		}
		text = text[:nl+1] + "x-injected not covered by the signature\n" + text[nl+1:]
	case 5:
		text = text[:ce] + "  " + text[ce:]
	default:
		text = "tree 4b825dc642cb6eb9a060e54bf8d69288fbee4904\n" + text
	}
	no := gr.Storer.NewEncodedObject()
	no.SetType(plumbing.CommitObject)
	w, err := no.Writer()
	if err != nil {
		return "", err
	}
	if _, err := w.Write([]byte(text)); err != nil {
		return "", err
	}
	if err := w.Close(); err != nil {
		return "", err
	}
	nh, err := gr.Storer.SetEncodedObject(no)
	if err != nil {
		return "", err
	}
	if nh.String() == string(h) {
		return "", fmt.Errorf("alteration left the commit unchanged")
	}
	return repository.Hash(nh.String()), nil
}

// c08Read: 0 returned the bug, 1 returned an error, 2 panicked
func c08Read(repo repository.ClockedRepo, id entity.Id) (v int, msg string) {
	defer func() {
		if e := recover(); e != nil {
			v, msg = 2, fmt.Sprint("panic: ", e)
		}
	}()
	b, err := bug.Read(repo, id)
	if err != nil {
		return 1, err.Error()
	}
	if len(b.Operations()) != 1 {
		return 1, "unexpected operation count"
	}
	return 0, ""
}

func c08StorePrivate(kr repository.Keyring, k *identity.Key) error {
	var buf bytes.Buffer
	w, err := armor.Encode(&buf, openpgp.PrivateKeyType, nil)
	if err != nil {
		return err
	}
	if err := k.Private().Serialize(w); err != nil {
		return err
	}
	if err := w.Close(); err != nil {
		return err
	}
	return kr.Set(repository.Item{Key: k.Public().KeyIdString(), Data: buf.Bytes()})
}

type c08ProbeObs struct {
	T     uint64 `json:"t"`
	S     int    `json:"s"`
	Alter int    `json:"alter,omitempty"`
	Kind  string `json:"kind"`
	Read  int    `json:"read"`
	Merge int    `json:"merge"`
	Err   string `json:"err,omitempty"`
}
type c08WriteObs struct {
	Have   []int  `json:"have"`
	T      uint64 `json:"t"`
	Signed bool   `json:"signed"`
	Out    int    `json:"out"`
	Err    string `json:"err,omitempty"`
}

func c08Kind(vs []c08Version, p c08Probe) string {
	inForce := c08InForce(vs, p.T)
	ctx := "keyed"
	if len(inForce) == 0 {
		ctx = "nokey"
	}
	has := func(ks []int, k int) bool {
		for _, x := range ks {
			if x == k {
				return true
			}
		}
		return false
	}
	var who string
	switch {
	case p.Signer < 0:
		who = "nobody"
	case p.Signer == c08PoolSize:
		who = "stranger"
	case has(inForce, p.Signer):
		who = "right"
	default:
		who = "never"
		eff := c08Eff(vs)
		for i, v := range vs {
			if has(v.Keys, p.Signer) {
				if eff[i] <= p.T {
					who = "removed"
					break
				}
				who = "notyet"
			}
		}
	}
	if p.Alter == 1 {
		who += "+ops-swapped"
	} else if p.Alter == 2 {
		who += "+clock-swapped"
	} else if p.Alter >= 3 {
		who += "+raw-bytes-altered"
	}
	return ctx + "/" + who
}

func (c08Driver) Run(raw json.RawMessage) Case {
	var in c08Input
	if err := json.Unmarshal(raw, &in); err != nil || len(in.Versions) == 0 || len(in.Versions) > 8 {
		return Case{Skip: "bad input"}
	}
	for _, v := range in.Versions {
		for _, k := range v.Keys {
			if k < 0 || k >= c08PoolSize {
				return Case{Skip: "bad key index"}
			}
		}
	}
	for _, p := range in.Probes {
		if p.T == 0 || p.Signer < -1 || p.Signer > c08PoolSize || p.Alter < 0 || p.Alter > 6 || (p.Alter > 0 && p.Signer < 0) {
			return Case{Skip: "bad probe"}
		}
	}
	c08Keys()
	// go-git syncs every loose object and ref: on a disk-backed /tmp that is 5x slower than on tmpfs
	base := ""
	if st, err := os.Stat("/dev/shm"); err == nil && st.IsDir() && os.Getenv("VERIF_C08_DISK") == "" {
		base = "/dev/shm"
	}
	dir, err := os.MkdirTemp(base, "verif-c08-")
	if err != nil {
		dir, err = os.MkdirTemp("", "verif-c08-")
	}
	if err != nil {
		panic(err)
	}
	defer os.RemoveAll(dir)
	repo, err := newTestRepo(dir, false)
	if err != nil {
		panic(err)
	}
	defer repo.Close()
	gr, err := git.PlainOpen(dir)
	if err != nil {
		return Case{Skip: "go-git open: " + err.Error()}
	}

	authorID, err := c08BuildIdentity(repo, in)
	if err != nil {
		return Case{Skip: "identity: " + err.Error()}
	}
	vs, err := c08ReadHistory(repo, authorID)
	if err != nil {
		return Case{Skip: "identity read-back: " + err.Error()}
	}
	author, err := identity.ReadLocal(repo, authorID)
	if err != nil {
		return Case{Skip: "identity.ReadLocal: " + err.Error()}
	}
	// a second identity owns the stranger's key; it also authors the merges
	stranger, err := identity.NewIdentityFull(repo, "stranger", "s@example.org", "", "", []*identity.Key{c08Keys()[c08PoolSize].Clone()})
	if err != nil {
		return Case{Skip: "stranger: " + err.Error()}
	}
	if err := stranger.Commit(repo); err != nil {
		return Case{Skip: "stranger: " + err.Error()}
	}

	plain, err := identity.NewIdentityFull(repo, "plain", "p@example.org", "", "", nil)
	if err != nil {
		return Case{Skip: "plain: " + err.Error()}
	}
	if err := plain.Commit(repo); err != nil {
		return Case{Skip: "plain: " + err.Error()}
	}
	c08Plain = plain
	// an empty probe sits one tick above its root
	for i := range in.Probes {
		if in.Probes[i].Empty > 0 {
			if in.Probes[i].Alter != 0 || in.Probes[i].Warm != 0 {
				return Case{Skip: "bad probe"}
			}
		}
	}

	// probes: write, read locally, then offer to MergeAll
	pobs := make([]c08ProbeObs, len(in.Probes))
	ids := make([]entity.Id, len(in.Probes))
	hashes := make([]repository.Hash, len(in.Probes))
	seenHash := map[repository.Hash]bool{}
	for i, p := range in.Probes {
		h, id, warm, err := c08CommitWarm(repo, gr, author, p, i)
		if err != nil {
			return Case{Skip: "probe commit: " + err.Error()}
		}
		if seenHash[h] {
			return Case{Skip: "identical commits"}
		}
		seenHash[h] = true
		ids[i], hashes[i] = id, h
		local := "refs/bugs/" + string(id)
		if warm != "" {
			// the genuinely signed twin is read first, in this process
			if err := repo.UpdateRef(local, warm); err != nil {
				return Case{Skip: "update ref: " + err.Error()}
			}
			_, _ = c08Read(repo, id)
		}
		if err := repo.UpdateRef(local, h); err != nil {
			return Case{Skip: "update ref: " + err.Error()}
		}
		v, msg := c08Read(repo, id)
		pe := p
		if p.Empty > 0 {
			pe.T = p.T + 1
		}
		pobs[i] = c08ProbeObs{T: pe.T, S: p.Signer, Alter: p.Alter, Kind: c08Kind(vs, pe), Read: v, Merge: 2, Err: msg}
		if err := repo.RemoveRef(local); err != nil {
			return Case{Skip: "remove ref: " + err.Error()}
		}
	}
	offered := map[entity.Id]int{}
	for i := range in.Probes {
		if pobs[i].Read == 2 {
			continue // MergeAll would panic in its goroutine and kill the process
		}
		if err := repo.UpdateRef("refs/remotes/origin/bugs/"+string(ids[i]), hashes[i]); err != nil {
			return Case{Skip: "update ref: " + err.Error()}
		}
		offered[ids[i]] = i
		pobs[i].Merge = 3
	}
	if len(offered) > 0 {
		resolvers := entity.Resolvers{&identity.Identity{}: identity.NewSimpleResolver(repo)}
		for mr := range bug.MergeAll(repo, resolvers, "origin", stranger) {
			i, ok := offered[mr.Id]
			if !ok {
				continue
			}
			exists, err := repo.RefExist("refs/bugs/" + string(mr.Id))
			if err != nil {
				continue
			}
			switch {
			case mr.Status == entity.MergeStatusNew && exists:
				if v, _ := c08Read(repo, mr.Id); v == 0 {
					pobs[i].Merge = 0
				}
			case mr.Status == entity.MergeStatusInvalid && !exists:
				pobs[i].Merge = 1
				if pobs[i].Err == "" {
					pobs[i].Err = mr.Reason
				}
			}
		}
	}

	// writes through the normal API, the author being what git holds (public keys only)
	var wobs []c08WriteObs
	for n, w := range in.Writes {
		kr := keyring.NewArrayKeyring(nil)
		for _, k := range w.Have {
			if k < 0 || k > c08PoolSize {
				return Case{Skip: "bad key index"}
			}
			if err := c08StorePrivate(kr, c08Keys()[k]); err != nil {
				return Case{Skip: "keyring: " + err.Error()}
			}
		}
		wrepo := krRepo{TestedRepo: repo, kr: kr}
		wauthor, err := identity.ReadLocal(wrepo, authorID)
		if err != nil {
			return Case{Skip: "identity.ReadLocal: " + err.Error()}
		}
		o := c08WriteObs{Have: append([]int{}, w.Have...)}
		func() {
			defer func() {
				if e := recover(); e != nil {
					o.Out, o.Err = 2, fmt.Sprint("panic: ", e)
				}
			}()
			b, _, err := bug.Create(wauthor, int64(1600002000+n), fmt.Sprintf("written %d", n), "message", nil, nil)
			if err != nil {
				o.Out, o.Err = 3, err.Error()
				return
			}
			bid := b.Id() // before Commit: a failed Commit may leave the in-memory entity without operations
			if err := b.Commit(wrepo); err != nil {
				o.Out, o.Err = 3, err.Error()
				// a refused write must not leave the bug behind
				if exists, e2 := repo.RefExist("refs/bugs/" + string(bid)); e2 != nil || exists {
					o.Out = 2
				}
				return
			}
			h, err := repo.ResolveRef("refs/bugs/" + string(bid))
			if err != nil {
				o.Out, o.Err = 2, "written bug has no ref: "+err.Error()
				return
			}
			wc, _, err := readCommitRaw(repo, h)
			if err != nil {
				o.Out, o.Err = 2, err.Error()
				return
			}
			o.T = wc.Edit
			if co, err := gr.CommitObject(plumbing.NewHash(string(h))); err == nil {
				o.Signed = co.PGPSignature != ""
			}
			o.Out, o.Err = c08Read(repo, bid)
		}()
		wobs = append(wobs, o)
	}

	// the bugs the author wrote under earlier versions must still read now that later versions exist
	var earlyTerms []string
	earlyObs := []string{}
	for _, bid := range c08EarlyBugs {
		v, msg := c08Read(repo, bid)
		h, _ := repo.ResolveRef("refs/bugs/" + string(bid))
		wc, _, _ := readCommitRaw(repo, h)
		earlyTerms = append(earlyTerms, coqPair(coqN(wc.Edit), coqN(uint64(v))))
		earlyObs = append(earlyObs, fmt.Sprintf("t=%d verdict=%d %s", wc.Edit, v, msg))
	}

	// ---- Coq term, tags ----
	nlist := func(xs []int) string {
		s := make([]string, len(xs))
		for i, x := range xs {
			s[i] = coqN(uint64(x))
		}
		return coqList(s)
	}
	var vterms, pterms, wterms []string
	for _, v := range vs {
		t := "None"
		if v.T != nil {
			t = coqSome(coqN(*v.T))
		}
		vterms = append(vterms, coqPair(t, nlist(v.Keys)))
	}
	tagset := map[string]bool{"mode:" + in.Mode: true, fmt.Sprintf("versions:%d", len(vs)): true}
	verdict := []string{"accepted", "rejected", "panicked", "other"}
	keyed := false
	for i, p := range in.Probes {
		s := "None"
		if p.Signer >= 0 {
			s = coqSome(coqN(uint64(p.Signer)))
		}
		o := pobs[i]
		pterms = append(pterms, fmt.Sprintf("mkprobe %s %s %s %s %s %s", coqN(o.T), s, coqBool(p.Alter > 0), coqBool(p.Empty > 0), coqN(uint64(o.Read)), coqN(uint64(o.Merge))))
		if p.Empty > 0 {
			tagset["probe:without-operations"] = true
		}
		if p.Unsort {
			tagset["probe:unsorted-tree"] = true
		}
		tagset["probe:"+o.Kind+"="+verdict[o.Read]] = true
		if o.Read == 2 {
			tagset["panic:read"] = true
		}
		if o.Read == 1 {
			if strings.Contains(o.Err, "signature") {
				tagset["error:signature"] = true
			} else {
				tagset["error:other"] = true
			}
		}
		if strings.HasPrefix(o.Kind, "keyed/") {
			keyed = true
		}
	}
	wout := []string{"written-and-read-back", "written-but-unreadable", "panicked", "refused"}
	for _, o := range wobs {
		wterms = append(wterms, fmt.Sprintf("mkwprobe %s %s %s", nlist(o.Have), coqN(o.T), coqN(uint64(o.Out))))
		kind := "nokey"
		if len(vs[len(vs)-1].Keys) > 0 {
			kind = "keyed"
			private := false
			for _, k := range vs[len(vs)-1].Keys {
				for _, h := range o.Have {
					if h == k {
						private = true
					}
				}
			}
			if private {
				kind += "+private"
			} else {
				kind += "+no-private"
			}
		}
		tagset["write:"+kind+"="+wout[o.Out]] = true
	}
	var tags []string
	for t := range tagset {
		tags = append(tags, t)
	}
	sort.Strings(tags)
	// what was asked for through the API must be what git holds: one version per call that changed something
	requested := "None"
	if in.Mode == "api" {
		var rs []string
		for i, v := range in.Versions {
			if i > 0 && in.InPlace && len(v.Keys) == len(in.Versions[i-1].Keys) && len(v.Keys) > 0 {
				same := true
				for j := range v.Keys {
					same = same && v.Keys[j] == in.Versions[i-1].Keys[j]
				}
				if same {
					continue // nothing changed: Mutate creates no version
				}
				tagset["key-rotation-in-place"] = true
			}
			rs = append(rs, nlist(v.Keys))
		}
		requested = coqSome(coqList(rs))
	}
	if len(earlyTerms) > 0 {
		tagset["early-writes"] = true
	}
	term := fmt.Sprintf("mkcase %s %s %s %s %s", coqList(vterms), requested, coqList(pterms), coqList(wterms), coqList(earlyTerms))
	obs := map[string]interface{}{"versions": vs, "probes": pobs, "writes": wobs, "early_writes": earlyObs}
	return Case{Coq: term, Obs: obs, Tags: tags, NonTrivial: keyed, Key: string(raw)}
}
