package main

// C04: operation sequences with hostile field values are committed in generated chunkings and read
// back: same replica (fresh read), second replica after push/pull, in-memory backend.
// Observed: entity/operation ids vs sha-256 of the stored bytes, identity of every operation (JSON
// and raw field bytes), order, lamport times, Validate on the reader, attached blobs, and the tree
// of every commit written (names, order) for the Tree.v codec model.
//
// Besides the well-behaved use of the API the generator plays the uses an audit found the tree
// unprepared for ("hazards"): text that is not valid UTF-8, operations appended without the
// convenience functions (no create, two creates, unsafe text), authors that are not stored (never
// committed, or changed since), attached files whose blob is missing, a second object of the same
// bug committing in between, a repository clock that witnessed a far-ahead peer, author/committer
// names with blanks around them under signed commits, identity metadata written after Id().
// For these the model Accept.v says what Commit must do (refuse, or write something readable).

import (
	"bytes"
	"crypto/sha256"
	"encoding/json"
	"fmt"
	"io"
	"os"
	"sort"
	"strconv"
	"strings"
	"unicode/utf8"

	gogit "github.com/go-git/go-git/v5"
	"github.com/go-git/go-git/v5/plumbing"

	"github.com/MichaelMure/git-bug/entities/bug"
	"github.com/MichaelMure/git-bug/entities/identity"
	"github.com/MichaelMure/git-bug/entity"
	"github.com/MichaelMure/git-bug/entity/dag"
	"github.com/MichaelMure/git-bug/repository"
	"github.com/MichaelMure/git-bug/util/lamport"
	"github.com/MichaelMure/git-bug/util/text"
)

type c04Op struct {
	K     string `json:"k"` // comment title status label edit meta create
	A     int    `json:"a"`
	Txt   int    `json:"txt"`
	Files []int  `json:"files,omitempty"` // 0-2: stored blobs; 3: well-formed hash without blob; 4: 64 hex digits, no blob
	NMeta int    `json:"nmeta,omitempty"`
	Cut   bool   `json:"cut,omitempty"` // commit after this operation
	// hazards
	Raw   bool   `json:"raw,omitempty"`   // built with the New*Op constructor and appended: nothing validates it before Commit
	Other bool   `json:"other,omitempty"` // before this operation, another object of the bug (read from the repository) commits a comment
	Fresh bool   `json:"fresh,omitempty"` // ... and the object in use is read again afterwards (when it has nothing staged)
	Ahead uint64 `json:"ahead,omitempty"` // before this operation, the repository's edit clock witnesses <edit time of the bug> + ahead - 1
}
type c04Auth struct {
	Name  int    `json:"name,omitempty"`  // index into c04Texts (0: default name)
	State string `json:"state,omitempty"` // "": committed; "fresh": never committed; "mutated": committed, then changed without commit
	Meta  int    `json:"meta,omitempty"`  // 1: SetMetadata, Id(), SetMetadata, Commit; 2: SetMetadata, Commit, SetMetadata, Commit; 3: metadata from c04Texts
}
type c04Input struct {
	Backend string  `json:"backend"` // gogit | mock
	Title   int     `json:"title"`
	Msg     int     `json:"msg"`
	Files   []int   `json:"files,omitempty"`
	NMeta   int     `json:"nmeta,omitempty"`
	Ops     []c04Op `json:"ops"`
	// hazards
	NoCreate bool      `json:"nocreate,omitempty"` // the bug starts as bug.NewBug(): its first operation is whatever comes first
	Keys     bool      `json:"keys,omitempty"`     // the authors have a key pair: commits are signed
	GitKey   string    `json:"gitkey,omitempty"`   // author.name | committer.name | author.email | committer.email of the repository configuration ...
	GitVal   int       `json:"gitval,omitempty"`   // ... set to c04GitVals[gitval]
	Auth     []c04Auth `json:"auth,omitempty"`
}

type c04Driver struct{}

func init() { register("C04", c04Driver{}) }

// hostile text values (index into this table; the API decides what it accepts). 0-13 are valid.
var c04Texts = []string{
	"plain title",
	"  leading and trailing  ",
	"inner   spaces\tand tab",
	"multi-byte: héllo wörld ü ñ 日本語 русский",
	"emoji 🐛🔥 and ZWJ 👩\u200d💻",
	"full-width ＡＢＣ and zero-width\u200bspace\ufeffBOM",
	"quotes \" ' ` and <b>&amp;</b> \\ backslash \\n literal",
	"line one\nline two\r\nline three\n\n",
	strings.Repeat("long text 0123456789 ", 500),
	"RTL ‮override and combining é",
	"json-ish {\"a\":[1,2,{\"b\":null}]} \\u0041",
	"x",
	"label-like:colon,comma;semi",
	"",
	// 14-: the hazards
	"U+FFFD \ufffd itself, U+07FF \u07ff U+0800 \u0800 U+FFFF \uffff U+10000 \U00010000 U+10FFFF \U0010ffff",
	"invalid byte \xff end",
	"truncated \xc3\x28 sequence",
	"overlong \xc0\xaf, surrogate \xed\xa0\x80, beyond \xf4\x90\x80\x80",
	"cut short \xe2\x82",
	"bell \x07 inside",
	"DEL \x7f and C1 \u0085 controls",
	"nul \x00 byte",
}

const c04FirstHazardText = 14

var c04GitVals = []string{"", "John Doe", " John Doe", "John Doe ", "  John   Doe  ", "\tJohn Doe", "John Doe Jr.", "   ", "\"John\"", "Jöhn <Doe>"}

func (c04Driver) Gen(r *Rand, tier string) []json.RawMessage {
	n := 150
	if tier == "thorough" {
		n = 4500
	}
	var res []json.RawMessage
	valid := func() int { return r.Intn(c04FirstHazardText + 1) }
	hazardText := func() int { return c04FirstHazardText + r.Intn(len(c04Texts)-c04FirstHazardText) }
	for c := 0; c < n; c++ {
		in := c04Input{Backend: "gogit", Title: valid(), Msg: valid(), NMeta: []int{0, 0, 1, 20}[r.Intn(4)]}
		if c%4 == 3 {
			in.Backend = "mock"
		}
		for i, k := 0, r.Intn(4); i < k; i++ {
			in.Files = append(in.Files, r.Intn(3))
		}
		l := r.Range(0, 10)
		kinds := []string{"comment", "comment", "title", "status", "label", "edit", "meta"}
		for i := 0; i < l; i++ {
			op := c04Op{K: kinds[r.Intn(len(kinds))], A: r.Intn(3), Txt: valid(), Cut: r.Chance(1, 3)}
			if r.Chance(1, 3) {
				for j, k := 0, r.Range(1, 3); j < k; j++ {
					op.Files = append(op.Files, r.Intn(3))
				}
			}
			if r.Chance(1, 4) {
				op.NMeta = r.Range(1, 5)
			}
			in.Ops = append(in.Ops, op)
		}
		// two cases out of five play one or two hazards
		if c%5 == 1 || c%5 == 3 {
			if l == 0 {
				in.Ops = append(in.Ops, c04Op{K: "comment", A: r.Intn(3), Txt: valid(), Cut: true})
				l = 1
			}
			if r.Chance(1, 2) { // most hazards need a bug that is already stored
				in.Ops[0].Cut = true
			}
			for h, nh := 0, r.Range(1, 2); h < nh; h++ {
				at := r.Intn(l)
				switch r.Intn(12) {
				case 0: // text that cannot be stored as it is
					switch r.Intn(4) {
					case 0:
						in.Title = hazardText()
					case 1:
						in.Msg = hazardText()
					default:
						in.Ops[at].Txt = hazardText()
					}
				case 1: // metadata that cannot be stored as they are (values, and keys, come from the text table)
					if r.Bool() {
						in.NMeta = len(c04Texts)
					} else {
						in.Ops[at].NMeta = len(c04Texts)
					}
				case 2:
					in.NoCreate = true
				case 3:
					in.Ops[at].K, in.Ops[at].Raw = "create", true
				case 4:
					in.Ops[at].Raw = true
					in.Ops[at].K = []string{"comment", "title", "create"}[r.Intn(3)]
					if r.Bool() {
						in.Ops[at].Txt = hazardText()
					}
				case 5:
					in.Auth = make([]c04Auth, 3)
					in.Auth[r.Intn(3)].State = []string{"fresh", "mutated"}[r.Intn(2)]
					in.Keys = in.Keys || r.Bool()
				case 6:
					in.Auth = append(in.Auth, make([]c04Auth, 3-len(in.Auth))...)
					a := &in.Auth[r.Intn(3)]
					if r.Bool() {
						a.Name = []int{3, 4, 1, 13, hazardText(), hazardText()}[r.Intn(6)]
					} else {
						a.Meta = r.Range(1, 3)
					}
				case 7:
					f := 3 + r.Intn(2)
					if r.Chance(1, 3) {
						in.Files = append(in.Files, f)
					} else {
						in.Ops[at].K = []string{"comment", "edit"}[r.Intn(2)]
						in.Ops[at].Files = append(in.Ops[at].Files, f)
					}
				case 8, 9:
					in.Ops[at].Other = true
					in.Ops[at].Fresh = r.Chance(1, 3)
				case 10:
					in.Ops[at].Ahead = []uint64{2, 1000, 999_999, 1_000_000, 1_000_001, 1_000_002, 1_500_000, 1 << 40}[r.Intn(8)]
				case 11:
					in.Keys = true
					in.GitKey = []string{"author.name", "committer.name", "author.email", "committer.email"}[r.Intn(4)]
					in.GitVal = r.Range(1, len(c04GitVals)-1)
				}
			}
		} else if c%10 == 0 {
			in.Keys = true // signed commits without any hazard
		}
		res = append(res, mustJSON(in))
	}
	return res
}

type c04Tree struct {
	Names  []string `json:"names"`
	IsTree []bool   `json:"is_tree"`
	Extra  []string `json:"extra,omitempty"`
}

func treeOf(repo repository.RepoData, h repository.Hash) (c04Tree, []byte, error) {
	c, err := repo.ReadCommit(h)
	if err != nil {
		return c04Tree{}, nil, err
	}
	entries, err := repo.ReadTree(c.TreeHash)
	if err != nil {
		return c04Tree{}, nil, err
	}
	var t c04Tree
	var ops []byte
	for _, e := range entries {
		t.Names = append(t.Names, e.Name)
		t.IsTree = append(t.IsTree, e.ObjectType == repository.Tree)
		if e.Name == "ops" {
			ops, _ = repo.ReadData(e.Hash)
		}
		if e.Name == "extra" && e.ObjectType == repository.Tree {
			sub, err := repo.ReadTree(e.Hash)
			if err == nil {
				for _, s := range sub {
					t.Extra = append(t.Extra, s.Name+"="+string(s.Hash))
				}
			}
		}
	}
	return t, ops, nil
}

func opsJSON(b *bug.Bug) []string {
	var res []string
	for _, op := range b.Operations() {
		j, err := json.Marshal(op)
		if err != nil {
			res = append(res, "ERR:"+err.Error())
			continue
		}
		// the author is stored once per pack, not in the operation: add it for the comparison
		res = append(res, string(op.Id())+"|"+string(op.Author().Id())+"|"+string(j))
	}
	return res
}

// ---- raw (not JSON) view of operations and identities: encoding/json hides invalid UTF-8 on both sides ----

func c04Map(m map[string]string) string {
	ks := make([]string, 0, len(m))
	for k := range m {
		ks = append(ks, k)
	}
	sort.Strings(ks)
	var sb strings.Builder
	for _, k := range ks {
		fmt.Fprintf(&sb, "%q=%q;", k, m[k])
	}
	return sb.String()
}

// the texts an operation carries, in a fixed order (used for the pairs in-memory / read back)
func c04OpTexts(op dag.Operation) []string {
	switch o := op.(type) {
	case *bug.CreateOperation:
		return []string{o.Title, o.Message}
	case *bug.AddCommentOperation:
		return []string{o.Message}
	case *bug.EditCommentOperation:
		return []string{o.Message}
	case *bug.SetTitleOperation:
		return []string{o.Title, o.Was}
	case *bug.LabelChangeOperation:
		var res []string
		for _, l := range o.Added {
			res = append(res, string(l))
		}
		for _, l := range o.Removed {
			res = append(res, string(l))
		}
		return res
	}
	return nil
}

func c04OpMeta(op dag.Operation) string {
	switch o := op.(type) {
	case *bug.CreateOperation:
		return c04Map(o.Metadata)
	case *bug.AddCommentOperation:
		return c04Map(o.Metadata)
	case *bug.EditCommentOperation:
		return c04Map(o.Metadata)
	case *bug.SetTitleOperation:
		return c04Map(o.Metadata)
	case *bug.LabelChangeOperation:
		return c04Map(o.Metadata)
	case *bug.SetStatusOperation:
		return c04Map(o.Metadata)
	case *dag.SetMetadataOperation[*bug.Snapshot]:
		return c04Map(o.Metadata) + "new:" + c04Map(o.NewMetadata)
	}
	return "?"
}

func c04RawOps(b *bug.Bug) []string {
	var res []string
	for _, op := range b.Operations() {
		var sb strings.Builder
		fmt.Fprintf(&sb, "%s|%d|%d|", op.Id(), op.Type(), op.Time().Unix())
		for _, t := range c04OpTexts(op) {
			fmt.Fprintf(&sb, "%q,", t)
		}
		sb.WriteString("|" + c04OpMeta(op))
		if wf, ok := op.(dag.OperationWithFiles); ok {
			fmt.Fprintf(&sb, "|%v", wf.GetFiles())
		}
		res = append(res, sb.String())
	}
	return res
}

func c04Ident(i identity.Interface) string {
	s := fmt.Sprintf("%s|%q|%q|%q|%q|%d keys", i.Id(), i.Name(), i.Email(), i.Login(), i.AvatarUrl(), len(i.Keys()))
	if id, ok := i.(*identity.Identity); ok {
		s += "|" + c04Map(id.ImmutableMetadata()) + "|" + c04Map(id.MutableMetadata())
	}
	return s
}

func c04Authors(b *bug.Bug) []string {
	var res []string
	for _, op := range b.Operations() {
		res = append(res, c04Ident(op.Author()))
	}
	return res
}

// ---- Coq text ----

// bytes of s; a text that is a short unit repeated is written (rep n unit)
func c04Bytes(s string) string {
	lit := func(s string) string {
		xs := make([]string, len(s))
		for i := 0; i < len(s); i++ {
			xs[i] = strconv.Itoa(int(s[i]))
		}
		return "[" + strings.Join(xs, "; ") + "]%N"
	}
	if len(s) > 256 {
		for p := 1; p <= 64; p++ {
			if len(s)%p == 0 && s == strings.Repeat(s[:p], len(s)/p) {
				return fmt.Sprintf("(rep %d %s)", len(s)/p, lit(s[:p]))
			}
		}
	}
	return lit(s)
}

type c04TextTab struct {
	idx     map[string]int
	terms   []string
	invalid bool // a text that is not valid UTF-8 was used
}

func (t *c04TextTab) of(s string) int {
	if i, ok := t.idx[s]; ok {
		return i
	}
	if t.idx == nil {
		t.idx = map[string]int{}
	}
	i := len(t.terms)
	t.idx[s] = i
	if !utf8.ValidString(s) {
		t.invalid = true
	}
	t.terms = append(t.terms, fmt.Sprintf("mktext %s %s %s %s", c04Bytes(s), coqBool(text.Empty(s)), coqBool(text.Safe(s)), coqBool(text.SafeOneLine(s))))
	return i
}

// one attempt to make an operation
type c04OpAtt struct {
	line, line0, multi, utf8 []int // texts that must be: non-empty and one-line safe / one-line safe / safe / valid UTF-8
	predict                  bool  // the four lists are the whole rule for this operation
	accepted                 bool  // by the convenience function, or for a raw operation by its own Validate()
}

func (a c04OpAtt) coq() string {
	return fmt.Sprintf("mkop %s %s %s %s %s %s", coqNats(a.line), coqNats(a.line0), coqNats(a.multi), coqNats(a.utf8), coqBool(a.predict), coqBool(a.accepted))
}

func c04ShapeOK(b *bug.Bug) bool {
	for i, op := range b.Operations() {
		if (i == 0) != (op.Type() == bug.CreateOp) {
			return false
		}
	}
	return len(b.Operations()) > 0
}

func (c04Driver) Run(raw json.RawMessage) Case {
	var in c04Input
	if err := json.Unmarshal(raw, &in); err != nil {
		return Case{Skip: "bad input"}
	}
	// (the sandbox disk is slow for metadata: a git-bug commit costs 50-100 ms there, ~1 ms on tmpfs)
	base := ""
	if st, err := os.Stat("/dev/shm"); err == nil && st.IsDir() {
		base = "/dev/shm"
	}
	dir, err := os.MkdirTemp(base, "verif-c04-")
	if err != nil {
		panic(err)
	}
	defer os.RemoveAll(dir)
	var repoA, repoB repository.TestedRepo
	mock := in.Backend == "mock"
	if mock {
		repoA = repository.NewMockRepo()
	} else {
		remote, err := newTestRepo(dir+"/remote", true)
		if err != nil {
			panic(err)
		}
		defer remote.Close()
		repoA, _ = newTestRepo(dir+"/a", false)
		repoB, _ = newTestRepo(dir+"/b", false)
		defer repoA.Close()
		defer repoB.Close()
		_ = repoA.AddRemote("origin", remote.GetLocalRemote())
		_ = repoB.AddRemote("origin", remote.GetLocalRemote())
	}
	flags := map[string]bool{}
	tags := map[string]bool{"backend:" + in.Backend: true}
	flag := func(name string, v bool) {
		if old, ok := flags[name]; ok {
			flags[name] = old && v
		} else {
			flags[name] = v
		}
	}
	var tab c04TextTab
	txt := func(i int) string { return c04Texts[((i%len(c04Texts))+len(c04Texts))%len(c04Texts)] }

	// ---- configuration of the repository (names git-bug puts in the commits it writes) ----
	gitVal := ""
	if in.GitKey != "" && in.GitVal > 0 {
		gitVal = c04GitVals[in.GitVal%len(c04GitVals)]
		if err := repoA.LocalConfig().StoreString(in.GitKey, gitVal); err != nil {
			return Case{Skip: "config: " + err.Error()}
		}
		tags["hazard:git-ident"] = true
	}

	// ---- authors ----
	var keys [2]*identity.Key
	if in.Keys {
		tags["signed"] = true
		for i := range keys {
			k, priv := c04Key(i)
			keys[i] = k
			if err := repoA.Keyring().Set(repository.Item{Key: k.Public().KeyIdString(), Data: priv}); err != nil {
				return Case{Skip: "keyring: " + err.Error()}
			}
		}
	}
	keyList := func(i int) []*identity.Key {
		if !in.Keys {
			return nil
		}
		return []*identity.Key{keys[i].Clone()}
	}
	var authors []*identity.Identity
	stored := map[entity.Id]bool{} // authors whose in-memory state is the stored one
	for a := 0; a < 3; a++ {
		var hz c04Auth
		if a < len(in.Auth) {
			hz = in.Auth[a]
		}
		defName := fmt.Sprintf("auth%d ünï", a)
		email := fmt.Sprintf("a%d@x.org", a)
		mk := func(name string, withMeta bool) (*identity.Identity, error) {
			id, err := identity.NewIdentityFull(repoA, name, email, "", "", keyList(0))
			if err != nil {
				return nil, err
			}
			if hz.State == "fresh" {
				return id, nil
			}
			if withMeta {
				switch hz.Meta {
				case 1:
					id.SetMetadata("a", "1")
					id0 := id.Id()
					id.SetMetadata("b", "2")
					if err := id.Commit(repoA); err != nil {
						return nil, err
					}
					_, errR := identity.ReadLocal(repoA, id0)
					flag("author:id-stable-when-committed", id.Id() == id0 && errR == nil)
					tags["hazard:identity-metadata"] = true
					return id, nil
				case 2:
					id.SetMetadata("a", "1")
					if err := id.Commit(repoA); err != nil {
						return nil, err
					}
					id.SetMetadata("a", "2")
					id.SetMetadata("c", "3")
					tags["hazard:identity-metadata"] = true
				case 3:
					for i := 0; i < len(c04Texts); i += 3 {
						id.SetMetadata(txt(i+1), txt(i))
					}
					tags["hazard:identity-metadata"] = true
				}
			}
			if err := id.Commit(repoA); err != nil {
				return nil, err
			}
			return id, nil
		}
		name := defName
		if hz.Name != 0 {
			name = txt(hz.Name)
			tags["hazard:identity-name"] = true
		}
		id, err := mk(name, true)
		if err != nil {
			// refused (a name or metadata that cannot be stored): the plain author instead
			tags["author-refused"] = true
			if id, err = mk(defName, false); err != nil {
				panic(err)
			}
		}
		switch hz.State {
		case "fresh":
			tags["hazard:author-not-stored"] = true
		case "mutated":
			tags["hazard:author-not-stored"] = true
			if err := id.Mutate(repoA, func(m *identity.Mutator) {
				m.Name = m.Name + " (changed)"
				if in.Keys {
					m.Keys = keyList(1)
				}
			}); err != nil {
				panic(err)
			}
		default:
			stored[id.Id()] = true
		}
		authors = append(authors, id)
	}
	// every stored author reads back as it is in memory
	for _, id := range authors {
		if !stored[id.Id()] {
			continue
		}
		rl, err := identity.ReadLocal(repoA, id.Id())
		flag("author:reads-back-identical", err == nil && c04Ident(rl) == c04Ident(id))
	}

	// ---- files ----
	blobStored := map[repository.Hash]bool{}
	file := func(i int) repository.Hash {
		switch {
		case i == 3:
			tags["hazard:file-without-blob"] = true
			return repository.Hash("0123456789012345678901234567890123456789")
		case i >= 4:
			tags["hazard:file-without-blob"] = true
			return repository.Hash("0123456789012345678901234567890123456789012345678901234567890123")
		}
		h, err := repoA.StoreData([]byte(fmt.Sprintf("attached file %d \x00\x01 binary", i)))
		if err != nil {
			panic(err)
		}
		blobStored[h] = true
		return h
	}
	files := func(xs []int) []repository.Hash {
		var hs []repository.Hash
		for _, x := range xs {
			hs = append(hs, file(x))
		}
		return hs
	}
	meta := func(n, salt int) map[string]string {
		if n == 0 {
			return nil
		}
		m := map[string]string{}
		for i := 0; i < n; i++ {
			key := fmt.Sprintf("key-%d-%d ü", salt, i)
			if n >= len(c04Texts) && i%5 == 4 {
				key = fmt.Sprintf("%d-%s", i, txt(salt+i+1)) // hazard: keys out of the text table too
			}
			if n >= len(c04Texts) {
				m[key] = txt(salt + i)
			} else {
				m[key] = txt((salt + i) % (c04FirstHazardText + 1))
			}
		}
		return m
	}
	metaKV := func(m map[string]string) (keys, vals []int) {
		ks := make([]string, 0, len(m))
		for k := range m {
			ks = append(ks, k)
		}
		sort.Strings(ks)
		for _, k := range ks {
			if !strings.HasPrefix(k, "key-") { // (the keys the harness writes itself are plain)
				keys = append(keys, tab.of(k))
			}
			vals = append(vals, tab.of(m[k]))
		}
		return
	}
	metaIdx := func(m map[string]string) []int {
		k, v := metaKV(m)
		return append(k, v...)
	}

	// ---- the bug, its objects (handles), the operations ----
	var atts []c04OpAtt          // every attempt to make an operation; its index is the operation's number
	opNum := map[entity.Id]int{} // number of an appended operation
	var evs []string
	type handle struct {
		b       *bug.Bug
		staged  []int // numbers of the operations staged in this object
		invalid bool  // an operation that does not pass its own Validate is staged (appended raw)
		missing bool  // the author of a staged operation is not stored as it is, or the blob of one of its files is not
	}
	var hs [2]*handle
	var wantOps, wantRaw, wantAuthors, wantIDs []string
	var wantFiles []repository.Hash
	var wantCreate, wantEdit lamport.Time
	var idBefore entity.Id
	var committed []int // numbers of the operations of accepted commits
	ncommits := 0
	refMoved := false // by the other object, since the main one was read or committed
	snapshot := func(b *bug.Bug) {
		wantOps, wantRaw, wantAuthors = opsJSON(b), c04RawOps(b), c04Authors(b)
		wantCreate, wantEdit = b.CreateLamportTime(), b.EditLamportTime()
		wantIDs, wantFiles = nil, nil
		for _, op := range b.Operations() {
			wantIDs = append(wantIDs, string(op.Id()))
			if wf, ok := op.(dag.OperationWithFiles); ok {
				wantFiles = append(wantFiles, wf.GetFiles()...)
			}
		}
	}
	kindsOf := func(b *bug.Bug) string {
		var ks []string
		for _, op := range b.Operations() {
			ks = append(ks, fmt.Sprintf("%d%%N", int(op.Type())))
		}
		return coqList(ks)
	}
	commit := func(hi int) bool {
		h := hs[hi]
		if h == nil || !h.b.NeedCommit() {
			return true
		}
		idNow := h.b.Id()
		prereq := !h.missing
		err := h.b.Commit(repoA)
		evs = append(evs, fmt.Sprintf("ECommit %d %s %s %s %s", hi, kindsOf(h.b), coqNats(h.staged), coqBool(prereq), coqBool(err == nil)))
		if err != nil {
			tags["commit-refused"] = true
			stale := hi == 0 && refMoved
			if !h.invalid && !h.missing && !stale && c04ShapeOK(h.b) {
				flag("commit-accepted-data", false) // what the API accepted, on a sound object, must be committable
			}
			return false
		}
		if ncommits == 0 {
			idBefore = idNow
		}
		ncommits++
		committed = append(committed, h.staged...)
		h.staged, h.invalid, h.missing = nil, false, false
		flag("id-stable-after-commit", h.b.Id() == idBefore)
		snapshot(h.b)
		if hi == 0 {
			refMoved = false
		} else {
			refMoved = true
		}
		return true
	}
	// one operation through handle hi; returns false when it was not appended
	perform := func(hi int, o c04Op, i int) bool {
		h := hs[hi]
		b := h.b
		au := authors[o.A%3]
		t := int64(1600000001 + i)
		s := txt(o.Txt)
		m := meta(o.NMeta, i+1)
		att := c04OpAtt{predict: true, utf8: metaIdx(m)}
		var err error
		var op dag.Operation
		setMeta := func(op interface{ SetMetadata(string, string) }) {
			for k, v := range m {
				op.SetMetadata(k, v)
			}
		}
		fs := files(o.Files)
		kind := o.K
		if !o.Raw {
			// without a create operation the convenience functions for titles crash; on an empty bug all but AddComment do
			if b.FirstOp() == nil || ((kind == "title" || kind == "edit") && b.FirstOp().Type() != bug.CreateOp) || kind == "create" {
				kind = "comment"
			}
		}
		switch {
		case o.Raw && kind == "create":
			x := bug.NewCreateOp(au, t, s, txt(o.Txt+1), fs)
			setMeta(x)
			op, att.line, att.multi = x, []int{tab.of(s)}, []int{tab.of(txt(o.Txt + 1))}
		case o.Raw && kind == "title":
			x := bug.NewSetTitleOp(au, t, s, "was")
			setMeta(x)
			op, att.line = x, []int{tab.of(s)}
		case o.Raw:
			kind = "comment"
			x := bug.NewAddCommentOp(au, t, s, fs)
			setMeta(x)
			op, att.multi = x, []int{tab.of(s)}
		case kind == "comment":
			_, op, err = bug.AddComment(b, au, t, s, fs, m)
			att.multi = []int{tab.of(s)}
		case kind == "title":
			// (SetTitle records the previous title, which has to be one-line safe as well)
			was := ""
			if c, ok := b.FirstOp().(*bug.CreateOperation); ok {
				was = c.Title
			}
			for _, x := range b.Operations() {
				if x, ok := x.(*bug.SetTitleOperation); ok {
					was = x.Title
				}
			}
			op, err = bug.SetTitle(b, au, t, s, m)
			att.line, att.line0 = []int{tab.of(s)}, []int{tab.of(was)}
		case kind == "status":
			if b.Compile().Status.String() == "open" {
				op, err = bug.Close(b, au, t, m)
			} else {
				op, err = bug.Open(b, au, t, m)
			}
		case kind == "label":
			add := []string{fmt.Sprintf("l%d", o.Txt%4), "ünï label"}
			if o.Txt >= c04FirstHazardText {
				add = append(add, s)
			}
			_, op, err = bug.ChangeLabels(b, au, t, add, []string{fmt.Sprintf("l%d", (o.Txt+1)%4)}, m)
			att.predict = false
		case kind == "edit":
			_, op, err = bug.EditCreateComment(b, au, t, s, fs, m)
			att.multi = []int{tab.of(s)}
		case kind == "meta":
			nm := meta(o.NMeta+1, i+1)
			op, err = bug.SetMetadata(b, au, t, b.FirstOp().Id(), nm)
			// keys must be one-line safe (may be empty), values safe
			att.utf8 = nil
			att.line0, att.multi = metaKV(nm)
		}
		if o.Raw {
			tags["hazard:raw-operation"] = true
			err = op.Validate()
			b.Append(op.(bug.Operation))
			if err != nil {
				h.invalid = true
			}
			att.accepted = err == nil
		} else {
			att.accepted = err == nil
		}
		atts = append(atts, att)
		if err != nil && !o.Raw {
			tags["op-refused"] = true
			return false
		}
		n := len(atts) - 1
		opNum[op.Id()] = n
		h.staged = append(h.staged, n)
		if !stored[au.Id()] || au.NeedCommit() {
			h.missing = true
		}
		for _, f := range fs {
			if !blobStored[f] {
				h.missing = true
			}
		}
		tags["op:"+kind] = true
		return true
	}

	// -- creation
	if in.NoCreate {
		tags["hazard:no-create"] = true
		hs[0] = &handle{b: bug.NewBug()}
		evs = append(evs, "ELoad 0")
	} else {
		m := meta(in.NMeta, 0)
		title, msg := txt(in.Title), txt(in.Msg)
		fs := files(in.Files)
		b, op, err := bug.Create(authors[0], 1600000000, title, msg, fs, m)
		atts = append(atts, c04OpAtt{line: []int{tab.of(title)}, multi: []int{tab.of(msg)}, utf8: metaIdx(m), predict: true, accepted: err == nil})
		if err != nil {
			tags["create-refused"] = true
		} else {
			h := &handle{b: b, staged: []int{0}}
			opNum[op.Id()] = 0
			if !stored[authors[0].Id()] || authors[0].NeedCommit() {
				h.missing = true
			}
			for _, f := range fs {
				if !blobStored[f] {
					h.missing = true
				}
			}
			hs[0] = h
			evs = append(evs, "ELoad 0")
		}
	}
	accepted := 0
	refused := false
	if hs[0] != nil {
		accepted = len(hs[0].staged)
		for i, o := range in.Ops {
			if o.Ahead > 0 && ncommits > 0 {
				// a peer's bug with a far-ahead edit time has been pulled: the clock of the repository witnessed it
				tags["hazard:clock-ahead"] = true
				if err := repoA.Witness("bugs-edit", hs[0].b.EditLamportTime()+lamport.Time(o.Ahead)-1); err != nil {
					panic(err)
				}
			}
			if o.Other && ncommits > 0 {
				// another object of the same bug, read from the repository, commits a comment
				ob, err := bug.Read(repoA, idBefore)
				if err == nil {
					tags["hazard:second-object"] = true
					hs[1] = &handle{b: ob}
					evs = append(evs, "ELoad 1")
					if perform(1, c04Op{K: "comment", A: 0, Txt: 0}, 100+i) {
						accepted++
						commit(1)
					}
					if o.Fresh && len(hs[0].staged) == 0 {
						if nb, err := bug.Read(repoA, idBefore); err == nil {
							hs[0] = &handle{b: nb}
							evs = append(evs, "ELoad 0")
							refMoved = false
						}
					}
				}
			}
			if !perform(0, o, i) {
				continue
			}
			accepted++
			if o.Cut {
				if !commit(0) {
					refused = true
					break
				}
			}
		}
		if !refused {
			commit(0)
		}
	}

	// ---- Coq term parts that exist even when nothing was committed ----
	var attTerms []string
	for _, a := range atts {
		attTerms = append(attTerms, a.coq())
	}
	finish := func(gogitTrees bool, trees []c04Tree, readable bool, read []int, pairs, names []string, obs map[string]interface{}) Case {
		var tterms []string
		for _, t := range trees {
			var es []string
			for i, n := range t.Names {
				es = append(es, fmt.Sprintf("(%s, %s)", coqRunes(n), coqBool(t.IsTree[i])))
			}
			tterms = append(tterms, coqList(es))
		}
		var fnames []string
		for k := range flags {
			fnames = append(fnames, k)
		}
		sort.Strings(fnames)
		var fl []string
		failed := []string{}
		for _, k := range fnames {
			fl = append(fl, coqBool(flags[k]))
			if !flags[k] {
				failed = append(failed, k)
				tags["flag-false:"+k] = true
			}
		}
		// the recorded finding: the only thing wrong is that a (non-root) commit was stamped more than
		// 10^6 above its parent and the bug cannot be read any more
		if tags["obs:clock-jump"] && len(failed) > 0 {
			only := true
			for _, k := range failed {
				if k != "local:readable" {
					only = false
				}
			}
			if only {
				tags["verdict:clock-jump-only"] = true
			}
		}
		term := fmt.Sprintf("mkcase4 %s %s %s %s %s %s %s %s %s %s", coqBool(gogitTrees), coqList(tterms), coqList(fl),
			coqList(tab.terms), coqList(attTerms), coqList(evs), coqBool(readable), coqNats(read), coqList(pairs), coqList(names))
		if tab.invalid {
			tags["hazard:invalid-utf8"] = true
		}
		if ncommits > 1 {
			tags["multi-commit"] = true
		}
		if len(trees) > ncommits {
			tags["multi-author-split"] = true
		}
		var tg []string
		for t := range tags {
			tg = append(tg, t)
		}
		sort.Strings(tg)
		obs["flags"], obs["failed"], obs["commits"], obs["packs"], obs["ops"] = flags, failed, ncommits, len(trees), accepted
		return Case{Coq: term, Obs: obs, Tags: tg, NonTrivial: accepted > 1, Key: string(raw)}
	}
	if ncommits == 0 {
		// nothing was committed: nothing to read back; the decisions (operations, commit) still go to the model
		tags["nothing-committed"] = true
		if refs, _ := repoA.ListRefs("refs/bugs/"); len(refs) > 0 {
			tags["obs:reference-after-refused-commit"] = true // (atomicity of a failing commit is C06's subject)
		}
		return finish(!mock, nil, true, nil, nil, nil, map[string]interface{}{})
	}

	// ---- read back ----
	var localRead []int
	localReadable := false
	var pairs []string
	seenPair := map[string]bool{}
	compare := func(name string, repo repository.ClockedRepo) {
		rb, err := bug.Read(repo, idBefore)
		if err != nil {
			if name == "local" {
				flag(name+":readable", false) // the replica cannot read what the local repository cannot
				tags["err:"+c04ErrClass(err)] = true
			}
			return
		}
		flag(name+":readable", true)
		got := opsJSON(rb)
		flag(name+":same-ops", strings.Join(got, "\n") == strings.Join(wantOps, "\n"))
		flag(name+":same-payload", strings.Join(c04RawOps(rb), "\n") == strings.Join(wantRaw, "\n"))
		flag(name+":same-authors", strings.Join(c04Authors(rb), "\n") == strings.Join(wantAuthors, "\n"))
		flag(name+":same-id", rb.Id() == idBefore)
		flag(name+":validates", rb.Validate() == nil)
		flag(name+":same-times", rb.CreateLamportTime() == wantCreate && rb.EditLamportTime() == wantEdit)
		// ReadAll gives the same
		found := false
		for se := range bug.ReadAll(repo) {
			if se.Err == nil && se.Entity.Id() == idBefore {
				found = strings.Join(opsJSON(se.Entity), "\n") == strings.Join(wantOps, "\n")
			}
		}
		flag(name+":readall", found)
		if name == "local" {
			localReadable = true
			have := map[int]bool{}
			for _, op := range rb.Operations() {
				n, ok := opNum[op.Id()]
				if !ok {
					n = 9999
				}
				localRead = append(localRead, n)
				have[n] = true
			}
			lost := false
			for _, n := range committed {
				if !have[n] {
					lost = true
				}
			}
			flag("local:no-committed-operation-lost", !lost)
			// texts: in memory (the object that committed last) / read back
			mem := map[entity.Id][]string{}
			for _, h := range hs {
				if h != nil {
					for _, op := range h.b.Operations() {
						mem[op.Id()] = c04OpTexts(op)
					}
				}
			}
			for _, op := range rb.Operations() {
				back := c04OpTexts(op)
				m, ok := mem[op.Id()]
				if !ok || len(m) != len(back) {
					continue
				}
				for i := range m {
					p := fmt.Sprintf("(%d, %d)", tab.of(m[i]), tab.of(back[i]))
					if !seenPair[p] && len(pairs) < 40 {
						seenPair[p] = true
						pairs = append(pairs, p)
					}
				}
			}
		}
	}
	compare("local", repoA)

	// the content of every attached file is stored with the bug
	committedFiles := wantFiles
	filesStored := true
	for _, h := range committedFiles {
		if _, err := repoA.ReadData(h); err != nil {
			filesStored = false
		}
	}
	flag("local:files-stored", filesStored)

	if !mock && localReadable && filesStored { // (a commit pointing to a missing blob makes go-git's push hang)
		if _, err := identity.Push(repoA, "origin"); err != nil {
			return Case{Skip: "identity push: " + err.Error()}
		}
		if _, err := bug.Push(repoA, "origin"); err != nil {
			return Case{Skip: "bug push: " + err.Error()}
		}
		if err := identity.Pull(repoB, "origin"); err != nil {
			return Case{Skip: "identity pull: " + err.Error()}
		}
		resolvers := entity.Resolvers{&identity.Identity{}: identity.NewSimpleResolver(repoB)}
		var merger identity.Interface
		for _, a := range authors {
			if stored[a.Id()] {
				if m, err := identity.ReadLocal(repoB, a.Id()); err == nil {
					merger = m
					break
				}
			}
		}
		if merger == nil {
			return Case{Skip: "no stored author to pull with"}
		}
		if err := bug.Pull(repoB, resolvers, "origin", merger); err != nil {
			flag("replica:pull-accepts", false)
		} else {
			flag("replica:pull-accepts", true)
			if _, err := bug.Read(repoB, idBefore); err != nil {
				flag("replica:readable", false)
			}
			compare("replica", repoB)
			// attached files travel with the bug
			okFiles := true
			for _, h := range committedFiles {
				da, errA := repoA.ReadData(h)
				db, errB := repoB.ReadData(h)
				if errA != nil || errB != nil || !bytes.Equal(da, db) {
					okFiles = false
				}
			}
			flag("replica:files-travel", okFiles)
		}
	}

	// ---- stored form: ids are hashes of the stored bytes; tree shapes ----
	head, err := repoA.ResolveRef("refs/bugs/" + string(idBefore))
	if err != nil {
		return Case{Skip: "resolve: " + err.Error()}
	}
	var trees []c04Tree
	var storedIDs []string
	var chain []repository.Hash
	for h := head; ; {
		chain = append([]repository.Hash{h}, chain...)
		c, err := repoA.ReadCommit(h)
		if err != nil || len(c.Parents) == 0 {
			break
		}
		h = c.Parents[0]
	}
	var prevEdit uint64
	for ci, h := range chain {
		t, opsBlob, err := treeOf(repoA, h)
		if err != nil {
			return Case{Skip: "tree: " + err.Error()}
		}
		trees = append(trees, t)
		for _, n := range t.Names {
			if strings.HasPrefix(n, "edit-clock-") {
				e, _ := strconv.ParseUint(strings.TrimPrefix(n, "edit-clock-"), 10, 64)
				if ci > 0 && e > prevEdit && e-prevEdit > 1_000_000 {
					tags["obs:clock-jump"] = true
				}
				prevEdit = e
			}
		}
		var aux struct {
			Ops []json.RawMessage `json:"ops"`
		}
		if err := json.Unmarshal(opsBlob, &aux); err != nil {
			flag("stored:ops-json", false)
			continue
		}
		for _, rawOp := range aux.Ops {
			storedIDs = append(storedIDs, fmt.Sprintf("%x", sha256.Sum256(rawOp)))
		}
	}
	apiIDs := wantIDs
	flag("stored:op-id-is-hash-of-stored-form", strings.Join(apiIDs, ",") == strings.Join(storedIDs, ","))
	flag("stored:entity-id-is-first-op-hash", len(storedIDs) > 0 && storedIDs[0] == string(idBefore))
	// every file of every operation is referenced exactly once under extra/ of its commit
	// (checked per chain: all file hashes of the bug appear in some extra tree)
	allExtra := map[string]bool{}
	for _, t := range trees {
		seen := map[string]bool{}
		for _, e := range t.Extra {
			kv := strings.SplitN(e, "=", 2)
			if seen[kv[0]] {
				flag("stored:extra-names-distinct", false)
			}
			seen[kv[0]] = true
			allExtra[kv[1]] = true
		}
	}
	flag("stored:extra-names-distinct", true)
	okRef := true
	for _, h := range committedFiles {
		// (go-git stores a 64 digit hash truncated; such a file never passes the blob check)
		if !allExtra[string(h)] {
			okRef = false
		}
	}
	flag("stored:files-referenced", okRef)

	// ---- the names in the commits written (go-git repository only) ----
	var names []string
	if !mock && gitVal != "" {
		if got, ok := c04CommitIdent(dir+"/a", head, in.GitKey); ok {
			names = append(names, fmt.Sprintf("(%s, %s)", coqRunes(gitVal), coqRunes(got)))
		}
	}

	obs := map[string]interface{}{"trees": trees}
	return finish(!mock, trees, localReadable, localRead, pairs, names, obs)
}

func c04ErrClass(err error) string {
	s := err.Error()
	for _, k := range []string{"lamport clock jumping", "signature failure", "identity doesn't exist", "not found"} {
		if strings.Contains(s, k) {
			return strings.ReplaceAll(k, " ", "-")
		}
	}
	return "other"
}

// the name (or address) of the author (or committer) line of a stored commit, as stored
func c04CommitIdent(path string, h repository.Hash, key string) (string, bool) {
	r, err := gogit.PlainOpen(path)
	if err != nil {
		return "", false
	}
	obj, err := r.Storer.EncodedObject(plumbing.CommitObject, plumbing.NewHash(string(h)))
	if err != nil {
		return "", false
	}
	rd, err := obj.Reader()
	if err != nil {
		return "", false
	}
	defer rd.Close()
	data, err := io.ReadAll(rd)
	if err != nil {
		return "", false
	}
	who := strings.SplitN(key, ".", 2)
	for _, l := range strings.Split(string(data), "\n") {
		if l == "" {
			break
		}
		if !strings.HasPrefix(l, who[0]+" ") {
			continue
		}
		l = strings.TrimPrefix(l, who[0]+" ")
		open, cl := strings.LastIndex(l, "<"), strings.LastIndex(l, ">")
		if open < 0 || cl < open {
			return "", false
		}
		if who[1] == "email" {
			return l[open+1 : cl], true
		}
		return strings.TrimSuffix(l[:open], " "), true // "name <" : one separating space
	}
	return "", false
}

func c04Key(i int) (*identity.Key, []byte) {
	var k identity.Key
	if err := json.Unmarshal([]byte(c04KeyPairs[i][0]), &k); err != nil {
		panic(err)
	}
	return &k, []byte(c04KeyPairs[i][1])
}
