package main

// C04: operation sequences with hostile-but-valid field values are committed in generated
// chunkings and read back: same replica (fresh read), second replica after push/pull, in-memory
// backend. Observed: entity/operation ids vs sha-256 of the stored bytes, JSON identity of every
// operation, order, lamport times, Validate on the reader, attached blobs, and the tree of every
// commit written (names, order) for the Tree.v codec model.

import (
	"bytes"
	"crypto/sha256"
	"encoding/json"
	"fmt"
	"os"
	"sort"
	"strings"

	"github.com/MichaelMure/git-bug/entities/bug"
	"github.com/MichaelMure/git-bug/entities/identity"
	"github.com/MichaelMure/git-bug/entity"
	"github.com/MichaelMure/git-bug/repository"
)

type c04Op struct {
	K     string `json:"k"` // comment title status label edit meta
	A     int    `json:"a"`
	Txt   int    `json:"txt"`
	Files []int  `json:"files,omitempty"`
	NMeta int    `json:"nmeta,omitempty"`
	Cut   bool   `json:"cut,omitempty"` // commit after this operation
}
type c04Input struct {
	Backend string  `json:"backend"` // gogit | mock
	Title   int     `json:"title"`
	Msg     int     `json:"msg"`
	Files   []int   `json:"files,omitempty"`
	NMeta   int     `json:"nmeta,omitempty"`
	Ops     []c04Op `json:"ops"`
}

type c04Driver struct{}

func init() { register("C04", c04Driver{}) }

// hostile-but-valid text values (index into this table; the API decides what it accepts)
var c04Texts = []string{
	"plain title",
	"  leading and trailing  ",
	"inner   spaces\tand tab",
	"multi-byte: héllo wörld ü ñ 日本語 русский",
	"emoji 🐛🔥 and ZWJ 👩\u200d💻",
	"full-width ＡＢＣ and zero-width\u200bspace\ufeffBOM",
	"quotes \" ' ` and <b>&amp;</b> \\ backslash \\n literal",
	"line one\nline two\r\nline three\n\n",
	strings.Repeat("long text 0123456789 ", 500),
	"RTL ‮override and combining é",
	"json-ish {\"a\":[1,2,{\"b\":null}]} \\u0041",
	"x",
	"label-like:colon,comma;semi",
	"",
}

func (c04Driver) Gen(r *Rand, tier string) []json.RawMessage {
	n := 120
	if tier == "thorough" {
		n = 4000
	}
	var res []json.RawMessage
	for c := 0; c < n; c++ {
		in := c04Input{Backend: "gogit", Title: r.Intn(len(c04Texts)), Msg: r.Intn(len(c04Texts)), NMeta: []int{0, 0, 1, 20}[r.Intn(4)]}
		if c%4 == 3 {
			in.Backend = "mock"
		}
		for i, k := 0, r.Intn(4); i < k; i++ {
			in.Files = append(in.Files, r.Intn(3))
		}
		l := r.Range(0, 10)
		kinds := []string{"comment", "comment", "title", "status", "label", "edit", "meta"}
		for i := 0; i < l; i++ {
			op := c04Op{K: kinds[r.Intn(len(kinds))], A: r.Intn(3), Txt: r.Intn(len(c04Texts)), Cut: r.Chance(1, 3)}
			if r.Chance(1, 3) {
				for j, k := 0, r.Range(1, 3); j < k; j++ {
					op.Files = append(op.Files, r.Intn(3))
				}
			}
			if r.Chance(1, 4) {
				op.NMeta = r.Range(1, 5)
			}
			in.Ops = append(in.Ops, op)
		}
		res = append(res, mustJSON(in))
	}
	return res
}

type c04Tree struct {
	Names  []string `json:"names"`
	IsTree []bool   `json:"is_tree"`
	Extra  []string `json:"extra,omitempty"`
}

func treeOf(repo repository.RepoData, h repository.Hash) (c04Tree, []byte, error) {
	c, err := repo.ReadCommit(h)
	if err != nil {
		return c04Tree{}, nil, err
	}
	entries, err := repo.ReadTree(c.TreeHash)
	if err != nil {
		return c04Tree{}, nil, err
	}
	var t c04Tree
	var ops []byte
	for _, e := range entries {
		t.Names = append(t.Names, e.Name)
		t.IsTree = append(t.IsTree, e.ObjectType == repository.Tree)
		if e.Name == "ops" {
			ops, _ = repo.ReadData(e.Hash)
		}
		if e.Name == "extra" && e.ObjectType == repository.Tree {
			sub, err := repo.ReadTree(e.Hash)
			if err == nil {
				for _, s := range sub {
					t.Extra = append(t.Extra, s.Name+"="+string(s.Hash))
				}
			}
		}
	}
	return t, ops, nil
}

func opsJSON(b *bug.Bug) []string {
	var res []string
	for _, op := range b.Operations() {
		j, err := json.Marshal(op)
		if err != nil {
			res = append(res, "ERR:"+err.Error())
			continue
		}
		// the author is stored once per pack, not in the operation: add it for the comparison
		res = append(res, string(op.Id())+"|"+string(op.Author().Id())+"|"+string(j))
	}
	return res
}

func (c04Driver) Run(raw json.RawMessage) Case {
	var in c04Input
	if err := json.Unmarshal(raw, &in); err != nil {
		return Case{Skip: "bad input"}
	}
	dir, err := os.MkdirTemp("", "verif-c04-")
	if err != nil {
		panic(err)
	}
	defer os.RemoveAll(dir)
	var repoA, repoB repository.TestedRepo
	mock := in.Backend == "mock"
	if mock {
		repoA = repository.NewMockRepo()
	} else {
		remote, err := newTestRepo(dir+"/remote", true)
		if err != nil {
			panic(err)
		}
		defer remote.Close()
		repoA, _ = newTestRepo(dir+"/a", false)
		repoB, _ = newTestRepo(dir+"/b", false)
		defer repoA.Close()
		defer repoB.Close()
		_ = repoA.AddRemote("origin", remote.GetLocalRemote())
		_ = repoB.AddRemote("origin", remote.GetLocalRemote())
	}
	var authors []*identity.Identity
	for a := 0; a < 3; a++ {
		id, err := identity.NewIdentity(repoA, fmt.Sprintf("auth%d ünï", a), fmt.Sprintf("a%d@x.org", a))
		if err != nil {
			panic(err)
		}
		if err := id.Commit(repoA); err != nil {
			panic(err)
		}
		authors = append(authors, id)
	}
	blob := func(i int) repository.Hash {
		h, err := repoA.StoreData([]byte(fmt.Sprintf("attached file %d \x00\x01 binary", i)))
		if err != nil {
			panic(err)
		}
		return h
	}
	files := func(xs []int) []repository.Hash {
		var hs []repository.Hash
		for _, x := range xs {
			hs = append(hs, blob(x))
		}
		return hs
	}
	meta := func(n, salt int) map[string]string {
		if n == 0 {
			return nil
		}
		m := map[string]string{}
		for i := 0; i < n; i++ {
			m[fmt.Sprintf("key-%d-%d ü", salt, i)] = c04Texts[(salt+i)%len(c04Texts)]
		}
		return m
	}
	flags := map[string]bool{}
	tags := map[string]bool{"backend:" + in.Backend: true}
	flag := func(name string, v bool) {
		if old, ok := flags[name]; ok {
			flags[name] = old && v
		} else {
			flags[name] = v
		}
	}
	b, _, err := bug.Create(authors[0], 1600000000, c04Texts[in.Title%len(c04Texts)], c04Texts[in.Msg%len(c04Texts)], files(in.Files), meta(in.NMeta, 0))
	if err != nil {
		return Case{Skip: "create refused: " + err.Error(), Tags: []string{"refused"}}
	}
	idBefore := b.Id()
	ncommits := 0
	var staged int
	commit := func() bool {
		if !b.NeedCommit() {
			return true
		}
		if err := b.Commit(repoA); err != nil {
			flag("commit-accepted-data", false)
			return false
		}
		ncommits++
		staged = 0
		flag("id-stable-after-commit", b.Id() == idBefore)
		return true
	}
	accepted := 1
	for i, o := range in.Ops {
		au := authors[o.A%3]
		t := int64(1600000001 + i)
		txt := c04Texts[o.Txt%len(c04Texts)]
		var err error
		switch o.K {
		case "comment":
			_, _, err = bug.AddComment(b, au, t, txt, files(o.Files), meta(o.NMeta, i+1))
		case "title":
			_, err = bug.SetTitle(b, au, t, txt, meta(o.NMeta, i+1))
		case "status":
			if b.Compile().Status.String() == "open" {
				_, err = bug.Close(b, au, t, meta(o.NMeta, i+1))
			} else {
				_, err = bug.Open(b, au, t, meta(o.NMeta, i+1))
			}
		case "label":
			_, _, err = bug.ChangeLabels(b, au, t, []string{fmt.Sprintf("l%d", o.Txt%4), "ünï label"}, []string{fmt.Sprintf("l%d", (o.Txt+1)%4)}, meta(o.NMeta, i+1))
		case "edit":
			_, _, err = bug.EditCreateComment(b, au, t, txt, files(o.Files), meta(o.NMeta, i+1))
		case "meta":
			_, err = bug.SetMetadata(b, au, t, b.FirstOp().Id(), meta(o.NMeta+1, i+1))
		}
		if err != nil {
			tags["op-refused"] = true
			continue
		}
		accepted++
		staged++
		tags["op:"+o.K] = true
		if o.Cut {
			if !commit() {
				break
			}
		}
	}
	commit()
	if staged > 0 || ncommits == 0 {
		return Case{Skip: "nothing committed", Tags: []string{"refused"}}
	}
	flag("commit-accepted-data", true)
	want := opsJSON(b)
	wantCreate, wantEdit := b.CreateLamportTime(), b.EditLamportTime()

	// ---- read back ----
	compare := func(name string, repo repository.ClockedRepo) {
		rb, err := bug.Read(repo, idBefore)
		if err != nil {
			flag(name+":readable", false)
			return
		}
		flag(name+":readable", true)
		got := opsJSON(rb)
		flag(name+":same-ops", strings.Join(got, "\n") == strings.Join(want, "\n"))
		flag(name+":same-id", rb.Id() == idBefore)
		flag(name+":validates", rb.Validate() == nil)
		flag(name+":same-times", rb.CreateLamportTime() == wantCreate && rb.EditLamportTime() == wantEdit)
		// ReadAll gives the same
		found := false
		for se := range bug.ReadAll(repo) {
			if se.Err == nil && se.Entity.Id() == idBefore {
				found = strings.Join(opsJSON(se.Entity), "\n") == strings.Join(want, "\n")
			}
		}
		flag(name+":readall", found)
	}
	compare("local", repoA)
	if !mock {
		if _, err := identity.Push(repoA, "origin"); err != nil {
			return Case{Skip: "identity push: " + err.Error()}
		}
		if _, err := bug.Push(repoA, "origin"); err != nil {
			return Case{Skip: "bug push: " + err.Error()}
		}
		if err := identity.Pull(repoB, "origin"); err != nil {
			return Case{Skip: "identity pull: " + err.Error()}
		}
		resolvers := entity.Resolvers{&identity.Identity{}: identity.NewSimpleResolver(repoB)}
		merger, _ := identity.ReadLocal(repoB, authors[0].Id())
		if err := bug.Pull(repoB, resolvers, "origin", merger); err != nil {
			flag("replica:pull-accepts", false)
		} else {
			flag("replica:pull-accepts", true)
			compare("replica", repoB)
			// attached files travel with the bug
			okFiles := true
			for _, op := range b.Operations() {
				if wf, ok := op.(interface{ GetFiles() []repository.Hash }); ok {
					for _, h := range wf.GetFiles() {
						da, errA := repoA.ReadData(h)
						db, errB := repoB.ReadData(h)
						if errA != nil || errB != nil || !bytes.Equal(da, db) {
							okFiles = false
						}
					}
				}
			}
			flag("replica:files-travel", okFiles)
		}
	}

	// ---- stored form: ids are hashes of the stored bytes; tree shapes ----
	head, err := repoA.ResolveRef("refs/bugs/" + string(idBefore))
	if err != nil {
		return Case{Skip: "resolve: " + err.Error()}
	}
	var trees []c04Tree
	var storedIDs []string
	var chain []repository.Hash
	for h := head; ; {
		chain = append([]repository.Hash{h}, chain...)
		c, err := repoA.ReadCommit(h)
		if err != nil || len(c.Parents) == 0 {
			break
		}
		h = c.Parents[0]
	}
	for _, h := range chain {
		t, opsBlob, err := treeOf(repoA, h)
		if err != nil {
			return Case{Skip: "tree: " + err.Error()}
		}
		trees = append(trees, t)
		var aux struct {
			Ops []json.RawMessage `json:"ops"`
		}
		if err := json.Unmarshal(opsBlob, &aux); err != nil {
			flag("stored:ops-json", false)
			continue
		}
		for _, rawOp := range aux.Ops {
			storedIDs = append(storedIDs, fmt.Sprintf("%x", sha256.Sum256(rawOp)))
		}
	}
	var apiIDs []string
	for _, op := range b.Operations() {
		apiIDs = append(apiIDs, string(op.Id()))
	}
	flag("stored:op-id-is-hash-of-stored-form", strings.Join(apiIDs, ",") == strings.Join(storedIDs, ","))
	flag("stored:entity-id-is-first-op-hash", len(storedIDs) > 0 && storedIDs[0] == string(idBefore))
	// every file of every operation is referenced exactly once under extra/ of its commit
	// (checked per chain: all file hashes of the bug appear in some extra tree)
	allExtra := map[string]bool{}
	for _, t := range trees {
		seen := map[string]bool{}
		for _, e := range t.Extra {
			kv := strings.SplitN(e, "=", 2)
			if seen[kv[0]] {
				flag("stored:extra-names-distinct", false)
			}
			seen[kv[0]] = true
			allExtra[kv[1]] = true
		}
	}
	flag("stored:extra-names-distinct", true)
	okRef := true
	for _, op := range b.Operations() {
		if wf, ok := op.(interface{ GetFiles() []repository.Hash }); ok {
			for _, h := range wf.GetFiles() {
				if !allExtra[string(h)] {
					okRef = false
				}
			}
		}
	}
	flag("stored:files-referenced", okRef)

	// ---- Coq term ----
	strT := func(s string) string { return coqRunes(s) }
	var tterms []string
	for _, t := range trees {
		var es []string
		for i, n := range t.Names {
			es = append(es, fmt.Sprintf("(%s, %s)", strT(n), coqBool(t.IsTree[i])))
		}
		tterms = append(tterms, coqList(es))
	}
	var fnames []string
	for k := range flags {
		fnames = append(fnames, k)
	}
	sort.Strings(fnames)
	var fl []string
	failed := []string{}
	for _, k := range fnames {
		fl = append(fl, coqBool(flags[k]))
		if !flags[k] {
			failed = append(failed, k)
			tags["flag-false:"+k] = true
		}
	}
	term := fmt.Sprintf("mkcase4 %s %s %s", coqBool(!mock), coqList(tterms), coqList(fl))
	if ncommits > 1 {
		tags["multi-commit"] = true
	}
	if len(trees) > ncommits {
		tags["multi-author-split"] = true
	}
	var tg []string
	for t := range tags {
		tg = append(tg, t)
	}
	sort.Strings(tg)
	obs := map[string]interface{}{"flags": flags, "failed": failed, "commits": ncommits, "packs": len(trees), "ops": accepted, "trees": trees}
	return Case{Coq: term, Obs: obs, Tags: tg, NonTrivial: accepted > 1, Key: string(raw)}
}
