package main

// A billy filesystem (in memory) that records the operations touching each path.

import (
	"fmt"
	"io"
	"os"

	"github.com/go-git/go-billy/v5"
	"github.com/go-git/go-billy/v5/memfs"
)

type traceFS struct {
	billy.Filesystem
	ops []string
}

func newTraceFS() *traceFS { return &traceFS{Filesystem: memfs.New()} }

func (t *traceFS) OpenFile(name string, flag int, perm os.FileMode) (billy.File, error) {
	if flag&os.O_TRUNC != 0 {
		t.ops = append(t.ops, "trunc:"+name)
	} else if flag&(os.O_WRONLY|os.O_RDWR) != 0 {
		t.ops = append(t.ops, "write:"+name)
	}
	return t.Filesystem.OpenFile(name, flag, perm)
}
func (t *traceFS) Create(name string) (billy.File, error) {
	t.ops = append(t.ops, "trunc:"+name)
	return t.Filesystem.Create(name)
}
func (t *traceFS) Rename(from, to string) error {
	t.ops = append(t.ops, fmt.Sprintf("rename:%s->%s", from, to))
	return t.Filesystem.Rename(from, to)
}
func (t *traceFS) Remove(name string) error {
	t.ops = append(t.ops, "remove:"+name)
	return t.Filesystem.Remove(name)
}
func (t *traceFS) TempFile(dir, prefix string) (billy.File, error) {
	f, err := t.Filesystem.TempFile(dir, prefix)
	if err == nil {
		t.ops = append(t.ops, "trunc:"+f.Name())
	}
	return f, err
}
func (t *traceFS) content(name string) string {
	f, err := t.Filesystem.Open(name)
	if err != nil {
		return ""
	}
	defer f.Close()
	b, _ := io.ReadAll(f)
	return string(b)
}
func (t *traceFS) put(name, content string) {
	f, err := t.Filesystem.Create(name)
	if err != nil {
		panic(err)
	}
	_, _ = f.Write([]byte(content))
	_ = f.Close()
}
