package main

// A billy filesystem (in memory) that records the operations touching each path.

import (
	"fmt"
	"io"
	"os"

	"github.com/go-git/go-billy/v5"
	"github.com/go-git/go-billy/v5/memfs"
)

// fsEvent is one mutation of the traced filesystem, with the data written.
type fsEvent struct {
	Kind string `json:"kind"` // trunc | write | rename | remove
	Name string `json:"name"`
	To   string `json:"to,omitempty"`
	Data string `json:"data,omitempty"`
}

type traceFS struct {
	billy.Filesystem
	ops      []string
	events   []fsEvent
	failNext int // > 0: the failNext-th mutating call from now fails (storage fault injection)
}

var errInjected = fmt.Errorf("verif: injected storage fault")

func (t *traceFS) fault() bool {
	if t.failNext > 0 {
		t.failNext--
		if t.failNext == 0 {
			return true
		}
	}
	return false
}

func newTraceFS() *traceFS { return &traceFS{Filesystem: memfs.New()} }

func (t *traceFS) OpenFile(name string, flag int, perm os.FileMode) (billy.File, error) {
	if flag&(os.O_WRONLY|os.O_RDWR|os.O_TRUNC|os.O_CREATE) != 0 && t.fault() {
		return nil, errInjected
	}
	if flag&os.O_TRUNC != 0 {
		t.ops = append(t.ops, "trunc:"+name)
		t.events = append(t.events, fsEvent{Kind: "trunc", Name: name})
	} else if flag&(os.O_WRONLY|os.O_RDWR) != 0 {
		t.ops = append(t.ops, "write:"+name)
	}
	f, err := t.Filesystem.OpenFile(name, flag, perm)
	if err != nil || flag&(os.O_WRONLY|os.O_RDWR) == 0 {
		return f, err
	}
	return &traceFile{File: f, t: t, name: name}, nil
}

// traceFile records the data written through it.
type traceFile struct {
	billy.File
	t    *traceFS
	name string
}

func (f *traceFile) Write(p []byte) (int, error) {
	f.t.events = append(f.t.events, fsEvent{Kind: "write", Name: f.name, Data: string(p)})
	return f.File.Write(p)
}
func (t *traceFS) Create(name string) (billy.File, error) {
	if t.fault() {
		return nil, errInjected
	}
	t.ops = append(t.ops, "trunc:"+name)
	t.events = append(t.events, fsEvent{Kind: "trunc", Name: name})
	f, err := t.Filesystem.Create(name)
	if err != nil {
		return f, err
	}
	return &traceFile{File: f, t: t, name: name}, nil
}
func (t *traceFS) Rename(from, to string) error {
	if t.fault() {
		return errInjected
	}
	t.ops = append(t.ops, fmt.Sprintf("rename:%s->%s", from, to))
	t.events = append(t.events, fsEvent{Kind: "rename", Name: from, To: to})
	return t.Filesystem.Rename(from, to)
}
func (t *traceFS) Remove(name string) error {
	t.ops = append(t.ops, "remove:"+name)
	t.events = append(t.events, fsEvent{Kind: "remove", Name: name})
	return t.Filesystem.Remove(name)
}
func (t *traceFS) TempFile(dir, prefix string) (billy.File, error) {
	f, err := t.Filesystem.TempFile(dir, prefix)
	if err == nil {
		t.ops = append(t.ops, "trunc:"+f.Name())
		t.events = append(t.events, fsEvent{Kind: "trunc", Name: f.Name()})
		return &traceFile{File: f, t: t, name: f.Name()}, nil
	}
	return f, err
}
func (t *traceFS) content(name string) string {
	f, err := t.Filesystem.Open(name)
	if err != nil {
		return ""
	}
	defer f.Close()
	b, _ := io.ReadAll(f)
	return string(b)
}
func (t *traceFS) put(name, content string) {
	f, err := t.Filesystem.Create(name)
	if err != nil {
		panic(err)
	}
	_, _ = f.Write([]byte(content))
	_ = f.Close()
}
