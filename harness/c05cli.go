package main

// C05 (CLI part): real git-bug processes on one repository. Clock files are deleted (or not)
// between commands; the logical times of the bug created next are read back through the library.

import (
	"encoding/json"
	"fmt"
	"os"
	"os/exec"
	"sort"
	"strings"

	"github.com/MichaelMure/git-bug/entities/bug"
)

type c05cliInput struct {
	NBugs     int    `json:"nbugs"`     // bugs created before
	NComments int    `json:"ncomments"` // comments added to the first bug
	Mode      string `json:"mode"`      // keep | delete-clocks | delete-edit-only
	Then      string `json:"then"`      // new | comment
}

type c05cliDriver struct{}

func init() { register("C05cli", c05cliDriver{}) }

func (c05cliDriver) Gen(r *Rand, tier string) []json.RawMessage {
	var res []json.RawMessage
	n := 1
	if tier == "thorough" {
		n = 6
	}
	for k := 0; k < n; k++ {
		for _, mode := range []string{"keep", "delete-clocks", "delete-edit-only"} {
			for _, then := range []string{"new", "comment"} {
				res = append(res, mustJSON(c05cliInput{NBugs: r.Range(1, 3), NComments: r.Range(0, 3), Mode: mode, Then: then}))
			}
		}
	}
	return res
}

func gitbug(dir string, args ...string) (string, error) {
	bin := os.Getenv("VERIF_GITBUG")
	cmd := exec.Command(bin, args...)
	cmd.Dir = dir
	cmd.Env = append(os.Environ(), "HOME="+dir+"/home", "XDG_CONFIG_HOME="+dir+"/home/.config", "GIT_CONFIG_NOSYSTEM=1")
	out, err := cmd.CombinedOutput()
	return string(out), err
}

func (c05cliDriver) Run(raw json.RawMessage) Case {
	var in c05cliInput
	if err := json.Unmarshal(raw, &in); err != nil {
		return Case{Skip: "bad input"}
	}
	if os.Getenv("VERIF_GITBUG") == "" {
		return Case{Skip: "VERIF_GITBUG not set"}
	}
	dir, err := os.MkdirTemp("", "verif-c05cli-")
	if err != nil {
		panic(err)
	}
	defer os.RemoveAll(dir)
	_ = os.MkdirAll(dir+"/home", 0755)
	repoDir := dir + "/repo"
	r, err := newTestRepo(repoDir, false)
	if err != nil {
		panic(err)
	}
	_ = r.Close()
	run := func(args ...string) string {
		out, err := gitbug(repoDir, args...)
		if err != nil {
			panic(fmt.Sprintf("git-bug %v: %v\n%s", args, err, out))
		}
		return out
	}
	run("user", "new", "--non-interactive", "-n", "tester", "-e", "t@x.org")
	for i := 0; i < in.NBugs; i++ {
		run("bug", "new", "--non-interactive", "-t", fmt.Sprintf("bug %d", i), "-m", "message")
	}
	times := func() (ids []string, edits, creates map[string]uint64) {
		rr, err := openRepo(repoDir)
		if err != nil {
			panic(err)
		}
		defer rr.Close()
		edits, creates = map[string]uint64{}, map[string]uint64{}
		for se := range bug.ReadAll(rr) {
			if se.Err != nil {
				panic(se.Err)
			}
			id := string(se.Entity.Id())
			ids = append(ids, id)
			edits[id], creates[id] = uint64(se.Entity.EditLamportTime()), uint64(se.Entity.CreateLamportTime())
		}
		sort.Strings(ids)
		return
	}
	ids0, _, _ := times()
	for i := 0; i < in.NComments; i++ {
		run("bug", "comment", "new", ids0[0], "--non-interactive", "-m", fmt.Sprintf("comment %d", i))
	}
	ids1, edits1, creates1 := times()
	// note: reading through the library above witnesses the clocks; restore what the CLI left by
	// deleting afterwards (delete modes) or by leaving them (keep)
	switch in.Mode {
	case "delete-clocks":
		_ = os.RemoveAll(repoDir + "/.git/git-bug/clocks")
	case "delete-edit-only":
		_ = os.Remove(repoDir + "/.git/git-bug/clocks/bugs-edit")
	}
	target := ""
	if in.Then == "new" {
		run("bug", "new", "--non-interactive", "-t", "the bug created after the clocks were lost", "-m", "message")
	} else {
		target = ids1[len(ids1)-1]
		run("bug", "comment", "new", target, "--non-interactive", "-m", "a comment after the clocks were lost")
	}
	ids2, edits2, creates2 := times()
	var prevE, prevC []string
	for _, id := range ids1 {
		prevE = append(prevE, fmt.Sprint(edits1[id]))
		prevC = append(prevC, fmt.Sprint(creates1[id]))
	}
	var newE, newC uint64
	if in.Then == "new" {
		for _, id := range ids2 {
			if _, ok := edits1[id]; !ok {
				newE, newC = edits2[id], creates2[id]
			}
		}
	} else {
		newE, newC = edits2[target], 0
	}
	lost := in.Mode != "keep"
	term := fmt.Sprintf("mkcasecli %s %s [%s]%%N [%s]%%N %d%%N %d%%N", coqBool(lost), coqBool(in.Then == "new"),
		strings.Join(prevE, "; "), strings.Join(prevC, "; "), newE, newC)
	obs := map[string]interface{}{"prev_edit": edits1, "prev_create": creates1, "new_edit": newE, "new_create": newC}
	return Case{Coq: term, Obs: obs, Tags: []string{"mode:" + in.Mode, "then:" + in.Then}, NonTrivial: true, Key: string(raw)}
}
