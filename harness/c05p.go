package main

// C05 (persisted clock part): traces of increments, witnesses and re-loads on lamport.PersistedClock
// and lamport.MemClock over an instrumented in-memory filesystem, with injected storage faults.

import (
	"encoding/json"
	"fmt"
	"strconv"
	"strings"

	"github.com/MichaelMure/git-bug/repository"
	"github.com/MichaelMure/git-bug/util/lamport"
)

type c05pStep struct {
	K string `json:"k"` // inc | witness | reload | fault
	V uint64 `json:"v,omitempty"`
}
type c05pInput struct {
	Steps []c05pStep `json:"steps"`
	Impl  string     `json:"impl,omitempty"` // "" = PersistedClock over a traced filesystem | "mock" = the mock repository's clocks | "mem" = MemClock
}

type c05pDriver struct{}

func init() { register("C05p", c05pDriver{}) }

func (c05pDriver) Gen(r *Rand, tier string) []json.RawMessage {
	n := 300
	if tier == "thorough" {
		n = 8000
	}
	var res []json.RawMessage
	for c := 0; c < n; c++ {
		var in c05pInput
		cur := uint64(1)
		for i, l := 0, r.Range(3, 16); i < l; i++ {
			switch x := r.Intn(12); {
			case x < 4:
				in.Steps = append(in.Steps, c05pStep{K: "inc"})
				cur++
			case x < 8:
				v := cur + uint64(r.Intn(7))
				if v > 2 {
					v -= 2
				}
				if r.Chance(1, 6) {
					v = cur + uint64(r.Intn(1000))
				}
				in.Steps = append(in.Steps, c05pStep{K: "witness", V: v})
				if v > cur {
					cur = v
				}
			case x < 10:
				in.Steps = append(in.Steps, c05pStep{K: "reload"})
			default:
				in.Steps = append(in.Steps, c05pStep{K: "fault", V: uint64(1 + r.Intn(2))})
				// the same operation is usually retried after a failure
				v := cur + uint64(r.Intn(5))
				in.Steps = append(in.Steps, c05pStep{K: "witness", V: v}, c05pStep{K: "witness", V: v})
				if v > cur {
					cur = v
				}
			}
		}
		in.Steps = append(in.Steps, c05pStep{K: "reload"})
		if c%5 == 4 {
			// the in-memory implementations: no restart, no storage
			in.Impl = []string{"mock", "mem"}[(c/5)%2]
			var keep []c05pStep
			for _, st := range in.Steps {
				if st.K == "inc" || st.K == "witness" {
					keep = append(keep, st)
				}
			}
			in.Steps = keep
		}
		res = append(res, mustJSON(in))
	}
	return res
}

func (c05pDriver) Run(raw json.RawMessage) Case {
	var in c05pInput
	if err := json.Unmarshal(raw, &in); err != nil {
		return Case{Skip: "bad input"}
	}
	if in.Impl == "mock" || in.Impl == "mem" {
		var inc func() (lamport.Time, error)
		var wit func(lamport.Time) error
		var now func() lamport.Time
		if in.Impl == "mock" {
			mr := repository.NewMockRepoClock()
			inc = func() (lamport.Time, error) { return mr.Increment("x") }
			wit = func(t lamport.Time) error { return mr.Witness("x", t) }
			now = func() lamport.Time {
				c, _ := mr.GetOrCreateClock("x")
				return c.Time()
			}
		} else {
			mc := lamport.NewMemClock()
			inc, wit, now = mc.Increment, mc.Witness, mc.Time
		}
		var terms []string
		for _, st := range in.Steps {
			switch st.K {
			case "inc":
				t, err := inc()
				terms = append(terms, fmt.Sprintf("mkpstep PInc 0%%N %s %d%%N %d%%N (Some %d%%N)", coqBool(err == nil), uint64(t), uint64(now()), uint64(now())))
			case "witness":
				err := wit(lamport.Time(st.V))
				terms = append(terms, fmt.Sprintf("mkpstep PWitness %d%%N %s 0%%N %d%%N (Some %d%%N)", st.V, coqBool(err == nil), uint64(now()), uint64(now())))
			}
		}
		return Case{Coq: "mkcase5p " + coqList(terms), Obs: map[string]interface{}{"steps": len(terms), "impl": in.Impl}, Tags: []string{"impl:" + in.Impl},
			NonTrivial: len(terms) > 3, Key: string(raw)}
	}
	fs := newTraceFS()
	const path = "clocks/x"
	pc, err := lamport.NewPersistedClock(fs, path)
	if err != nil {
		return Case{Skip: err.Error()}
	}
	mc := lamport.NewMemClock()
	var terms []string
	tags := map[string]bool{}
	fileVal := func() string {
		c := strings.TrimSpace(fs.content(path))
		if v, err := strconv.ParseUint(c, 10, 64); err == nil {
			return fmt.Sprintf("(Some %d%%N)", v)
		}
		return "None"
	}
	for _, st := range in.Steps {
		ok := true
		ret := uint64(0)
		switch st.K {
		case "inc":
			t, err := pc.Increment()
			ok, ret = err == nil, uint64(t)
			mt, _ := mc.Increment()
			if err == nil && uint64(mt) != uint64(t) {
				tags["mem-and-persisted-differ"] = true
			}
			terms = append(terms, fmt.Sprintf("mkpstep PInc 0%%N %s %d%%N %d%%N %s", coqBool(ok), ret, uint64(pc.Time()), fileVal()))
		case "witness":
			err := pc.Witness(lamport.Time(st.V))
			ok = err == nil
			_ = mc.Witness(lamport.Time(st.V))
			terms = append(terms, fmt.Sprintf("mkpstep PWitness %d%%N %s 0%%N %d%%N %s", st.V, coqBool(ok), uint64(pc.Time()), fileVal()))
		case "reload":
			npc, err := lamport.LoadPersistedClock(fs, path)
			ok = err == nil
			if ok {
				pc = npc
				mc = lamport.NewMemClockWithTime(uint64(pc.Time()))
			}
			terms = append(terms, fmt.Sprintf("mkpstep PReload 0%%N %s 0%%N %d%%N %s", coqBool(ok), uint64(pc.Time()), fileVal()))
			tags["reload"] = true
		case "fault":
			fs.failNext = int(st.V)
			tags["fault"] = true
			continue
		}
		if !ok {
			tags["op-failed"] = true
		}
	}
	var tg []string
	for t := range tags {
		tg = append(tg, t)
	}
	return Case{Coq: "mkcase5p " + coqList(terms), Obs: map[string]interface{}{"steps": len(terms)}, Tags: tg, NonTrivial: len(terms) > 3, Key: string(raw)}
}
