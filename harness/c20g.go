package main

// C20 (GraphQL part): every paginated field of the served API is walked page by page, forwards
// (first/after) and backwards (last/before), through the real handler; the pages of one walk come
// from successive HTTP requests, as for a real client.

import (
	"bytes"
	"encoding/json"
	"fmt"
	"net/http/httptest"
	"os"
	"sort"
	"strings"

	"github.com/MichaelMure/git-bug/api/graphql"
	"github.com/MichaelMure/git-bug/cache"
	"github.com/MichaelMure/git-bug/entities/bug"
	"github.com/MichaelMure/git-bug/entities/identity"
	"github.com/MichaelMure/git-bug/entity"
)

type c20gInput struct {
	NIdent    int `json:"nident"`
	NBugs     int `json:"nbugs"`
	NComments int `json:"ncomments"`
	K         int `json:"k"` // page size
	Ties      int `json:"ties,omitempty"` // bugs created offline on a second replica at the same logical and wall-clock times as the first ones, then pulled: their sort keys tie
}

type c20gDriver struct{}

func init() { register("C20g", c20gDriver{}) }

func (c20gDriver) Gen(r *Rand, tier string) []json.RawMessage {
	n := 6
	if tier == "thorough" {
		n = 120
	}
	var res []json.RawMessage
	for i := 0; i < n; i++ {
		res = append(res, mustJSON(c20gInput{NIdent: r.Range(3, 9), NBugs: r.Range(2, 7), NComments: r.Range(1, 8), K: r.Range(1, 4), Ties: []int{0, 2, 5}[i%3]}))
	}
	return res
}

type gqlPage struct {
	Nodes    []map[string]interface{}  `json:"nodes"`
	Edges    []struct{ Cursor string } `json:"edges"`
	PageInfo struct {
		HasNextPage     bool   `json:"hasNextPage"`
		HasPreviousPage bool   `json:"hasPreviousPage"`
		StartCursor     string `json:"startCursor"`
		EndCursor       string `json:"endCursor"`
	} `json:"pageInfo"`
	TotalCount int `json:"totalCount"`
}

func (c20gDriver) Run(raw json.RawMessage) Case {
	var in c20gInput
	if err := json.Unmarshal(raw, &in); err != nil || in.K < 1 {
		return Case{Skip: "bad input"}
	}
	dir, err := os.MkdirTemp("", "verif-c20g-")
	if err != nil {
		panic(err)
	}
	defer os.RemoveAll(dir)
	repo, err := newTestRepo(dir+"/r", false)
	if err != nil {
		panic(err)
	}
	var authors []*identity.Identity
	for i := 0; i < in.NIdent; i++ {
		id, err := identity.NewIdentity(repo, fmt.Sprintf("user %02d", i), fmt.Sprintf("u%d@x.org", i))
		if err != nil {
			panic(err)
		}
		_ = id.Commit(repo)
		authors = append(authors, id)
	}
	var firstBug string
	for b := 0; b < in.NBugs; b++ {
		x, _, err := bug.Create(authors[b%len(authors)], int64(1600000000+b), fmt.Sprintf("bug %d", b), "m", nil, nil)
		if err != nil {
			panic(err)
		}
		if b == 0 {
			for c := 0; c < in.NComments; c++ {
				au := authors[(c+1)%len(authors)]
				_, _, _ = bug.AddComment(x, au, int64(1600000100+c), fmt.Sprintf("comment %d", c), nil, nil)
				if c%2 == 0 {
					_, _ = bug.ForceChangeLabels(x, au, int64(1600000200+c), []string{fmt.Sprintf("label-%d", c), fmt.Sprintf("Label-%d", c), "bug", "Bug", "BUG"}, nil, nil)
				}
			}
		}
		_, _ = bug.ForceChangeLabels(x, authors[0], int64(1600000300+b), []string{fmt.Sprintf("bl-%d", b)}, nil, nil)
		if err := x.Commit(repo); err != nil {
			panic(err)
		}
		if b == 0 {
			firstBug = string(x.Id())
		}
	}
	if in.Ties > 0 {
		// a second replica that worked offline: same clocks, same seconds
		remote, err := newTestRepo(dir+"/remote", true)
		if err != nil {
			panic(err)
		}
		repo2, err := newTestRepo(dir+"/r2", false)
		if err != nil {
			panic(err)
		}
		_ = repo.AddRemote("origin", remote.GetLocalRemote())
		_ = repo2.AddRemote("origin", remote.GetLocalRemote())
		if _, err := identity.Push(repo, "origin"); err != nil {
			panic(err)
		}
		if err := identity.Pull(repo2, "origin"); err != nil {
			panic(err)
		}
		for b := 0; b < in.Ties; b++ {
			au, err := identity.ReadLocal(repo2, authors[b%len(authors)].Id())
			if err != nil {
				panic(err)
			}
			x, _, err := bug.Create(au, int64(1600000000+b%in.NBugs), fmt.Sprintf("twin %d", b), "m", nil, nil)
			if err != nil {
				panic(err)
			}
			if err := x.Commit(repo2); err != nil {
				panic(err)
			}
		}
		if _, err := bug.Push(repo2, "origin"); err != nil {
			panic(err)
		}
		if _, err := bug.Fetch(repo, "origin"); err != nil {
			panic(err)
		}
		resolvers := entity.Resolvers{&identity.Identity{}: identity.NewSimpleResolver(repo)}
		for mr := range bug.MergeAll(repo, resolvers, "origin", authors[0]) {
			if mr.Err != nil || mr.Status == entity.MergeStatusInvalid {
				panic("merge of the twins: " + mr.String())
			}
		}
		_ = repo2.Close()
		_ = remote.Close()
	}
	mrc := cache.NewMultiRepoCache()
	_, events := mrc.RegisterDefaultRepository(repo)
	for ev := range events {
		if ev.Err != nil {
			panic(ev.Err)
		}
	}
	handler := graphql.NewHandler(mrc, nil)
	defer handler.Close()
	defer mrc.Close()

	post := func(q string) (map[string]json.RawMessage, string) {
		body, _ := json.Marshal(map[string]string{"query": q})
		req := httptest.NewRequest("POST", "/graphql", bytes.NewReader(body))
		req.Header.Set("Content-Type", "application/json")
		rec := httptest.NewRecorder()
		handler.ServeHTTP(rec, req)
		var resp struct {
			Data   map[string]json.RawMessage `json:"data"`
			Errors []struct{ Message string } `json:"errors"`
		}
		if err := json.Unmarshal(rec.Body.Bytes(), &resp); err != nil {
			return nil, "decode: " + err.Error()
		}
		if len(resp.Errors) > 0 {
			return nil, resp.Errors[0].Message
		}
		return resp.Data, ""
	}
	// field -> (query template with %s for the connection arguments, path to the connection, node key selection)
	type fld struct{ name, tmpl, sel, key string }
	bugSel := fmt.Sprintf(`bug(prefix: "%s")`, firstBug)
	fields := []fld{
		{"allIdentities", `{ repository { allIdentities(%s) { %s } } }`, "nodes { id }", "id"},
		{"allBugs", `{ repository { allBugs(%s) { %s } } }`, "nodes { id }", "id"},
		{"validLabels", `{ repository { validLabels(%s) { %s } } }`, "nodes { name }", "name"},
		{"comments", `{ repository { ` + bugSel + ` { comments(%s) { %s } } } }`, "nodes { id }", "id"},
		{"operations", `{ repository { ` + bugSel + ` { operations(%s) { %s } } } }`, "nodes { id }", "id"},
		{"timeline", `{ repository { ` + bugSel + ` { timeline(%s) { %s } } } }`, "nodes { id }", "id"},
		{"actors", `{ repository { ` + bugSel + ` { actors(%s) { %s } } } }`, "nodes { id }", "id"},
		{"participants", `{ repository { ` + bugSel + ` { participants(%s) { %s } } } }`, "nodes { id }", "id"},
	}
	fetch := func(f fld, args string) (*gqlPage, string) {
		q := fmt.Sprintf(f.tmpl, args, f.sel+" edges { cursor } pageInfo { hasNextPage hasPreviousPage startCursor endCursor } totalCount")
		data, e := post(q)
		if e != "" {
			return nil, e
		}
		// descend to the connection
		var cur json.RawMessage = data["repository"]
		for _, seg := range []string{"bug", f.name} {
			var m map[string]json.RawMessage
			if err := json.Unmarshal(cur, &m); err != nil {
				return nil, "shape"
			}
			if v, ok := m[seg]; ok {
				cur = v
			}
		}
		var p gqlPage
		if err := json.Unmarshal(cur, &p); err != nil {
			return nil, "page decode: " + err.Error()
		}
		return &p, ""
	}
	keyOf := func(f fld, n map[string]interface{}) string { return fmt.Sprint(n[f.key]) }

	var terms []string
	obs := map[string]interface{}{}
	tags := []string{fmt.Sprintf("k:%d", in.K)}
	if in.Ties > 0 {
		tags = append(tags, "tied-sort-keys")
	}
	for _, f := range fields {
		full, e := fetch(f, "first: 1000")
		if e != "" {
			return Case{Skip: "query " + f.name + ": " + e}
		}
		// the universe of elements, ranked by key; "list order" is the order of the full request
		var keys []string
		for _, n := range full.Nodes {
			keys = append(keys, keyOf(f, n))
		}
		pos := map[string]int{}
		for i, k := range keys {
			pos[k] = i
		}
		n := len(keys)
		walk := func(forward bool) (pages [][]int, flags []bool, totals []int, errS string) {
			cursor := ""
			for steps := 0; steps < n+3; steps++ {
				var args string
				if forward {
					args = fmt.Sprintf("first: %d", in.K)
					if cursor != "" {
						args += fmt.Sprintf(`, after: "%s"`, cursor)
					}
				} else {
					args = fmt.Sprintf("last: %d", in.K)
					if cursor != "" {
						args += fmt.Sprintf(`, before: "%s"`, cursor)
					}
				}
				p, e := fetch(f, args)
				if e != "" {
					return pages, flags, totals, e
				}
				var pg []int
				for _, nd := range p.Nodes {
					if i, ok := pos[keyOf(f, nd)]; ok {
						pg = append(pg, i)
					} else {
						pg = append(pg, 9999)
					}
				}
				pages = append(pages, pg)
				totals = append(totals, p.TotalCount)
				more := p.PageInfo.HasNextPage
				cursor = p.PageInfo.EndCursor
				if !forward {
					more = p.PageInfo.HasPreviousPage
					cursor = p.PageInfo.StartCursor
				}
				flags = append(flags, more)
				if !more || len(p.Nodes) == 0 {
					break
				}
			}
			return
		}
		for round := 0; round < 3; round++ {
			fp, ff, ft, e1 := walk(true)
			bp, bf, bt, e2 := walk(false)
			if e1 != "" || e2 != "" {
				return Case{Skip: "walk " + f.name + ": " + e1 + e2}
			}
			pagesT := func(ps [][]int) string {
				var xs []string
				for _, p := range ps {
					xs = append(xs, coqNats(p))
				}
				return coqList(xs)
			}
			boolsT := func(bs []bool) string {
				var xs []string
				for _, b := range bs {
					xs = append(xs, coqBool(b))
				}
				return coqList(xs)
			}
			terms = append(terms, fmt.Sprintf("mkwalk %d %d %d %s %s %s %s %s %s", n, in.K, full.TotalCount, pagesT(fp), boolsT(ff), coqNats(ft), pagesT(bp), boolsT(bf), coqNats(bt)))
			obs[fmt.Sprintf("%s#%d", f.name, round)] = map[string]interface{}{"n": n, "forward": fp, "backward": bp, "fwd_more": ff, "bwd_more": bf}
			if n > in.K && round == 0 {
				tags = append(tags, "multi-page:"+f.name)
			}
		}
	}
	sort.Strings(tags)
	return Case{Coq: "mkcase20g " + coqList(terms), Obs: obs, Tags: tags, NonTrivial: true, Key: string(raw) + strings.Join(tags, ",")}
}
