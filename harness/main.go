// Command harness runs the real git-bug implementation (built from /repo's working tree)
// on generated or given inputs and prints, per case, the canonical observation as a Coq
// term together with a JSON description. It is driven by /verif/check.
//
//	harness gen    <prop> -seed N -tier quick|thorough -out inputs.jsonl
//	harness run    <prop> -inputs inputs.jsonl -out cases.jsonl [-workers K]
//	harness worker <prop> -inputs inputs.jsonl -from a -to b        (internal)
package main

import (
	"bufio"
	"encoding/json"
	"flag"
	"fmt"
	"os"
	"os/exec"
	"runtime"
	"sort"
	"strings"
	"sync"
	"time"
)

// Case is what a driver reports for one input.
type Case struct {
	I          int             `json:"i"`
	Input      json.RawMessage `json:"input"`
	Coq        string          `json:"coq,omitempty"`     // Coq term of the check's case type
	Obs        interface{}     `json:"obs,omitempty"`     // human readable observation
	Tags       []string        `json:"tags,omitempty"`    // classification, used for histograms and finding signatures
	NonTrivial bool            `json:"nontrivial"`        // by the driver's stated rule
	Key        string          `json:"key,omitempty"`     // dedupe key (distinctness)
	Crashed    bool            `json:"crashed,omitempty"` // the worker process died on this input
	Stderr     string          `json:"stderr,omitempty"`
	Skip       string          `json:"skip,omitempty"` // harness could not build the scenario (not an observation)
}

// Driver is one property's generator + runner.
type Driver interface {
	// Gen returns inputs; corpus inputs are prepended by the python driver.
	Gen(r *Rand, tier string) []json.RawMessage
	// Run executes the implementation on one input.
	Run(input json.RawMessage) Case
}

var drivers = map[string]Driver{}

func register(name string, d Driver) { drivers[name] = d }

func main() {
	if len(os.Args) < 3 {
		fmt.Fprintln(os.Stderr, "usage: harness gen|run|worker <prop> ...")
		os.Exit(2)
	}
	mode, prop := os.Args[1], os.Args[2]
	d, ok := drivers[prop]
	if !ok {
		var names []string
		for n := range drivers {
			names = append(names, n)
		}
		sort.Strings(names)
		fmt.Fprintf(os.Stderr, "unknown driver %q (have %v)\n", prop, names)
		os.Exit(2)
	}
	fs := flag.NewFlagSet(mode, flag.ExitOnError)
	seed := fs.Uint64("seed", 1, "seed")
	tier := fs.String("tier", "quick", "tier")
	out := fs.String("out", "", "output file")
	inputs := fs.String("inputs", "", "inputs file (jsonl)")
	from := fs.Int("from", 0, "first input index")
	to := fs.Int("to", -1, "one past last input index")
	workers := fs.Int("workers", runtime.NumCPU(), "worker processes")
	perCase := fs.Duration("case-timeout", 120*time.Second, "per case watchdog")
	_ = fs.Parse(os.Args[3:])

	switch mode {
	case "gen":
		r := NewRand(*seed)
		ins := d.Gen(r, *tier)
		w := mustCreate(*out)
		bw := bufio.NewWriter(w)
		for _, in := range ins {
			bw.Write(in)
			bw.WriteByte('\n')
		}
		bw.Flush()
		w.Close()
	case "worker":
		ins := readInputs(*inputs)
		if *to < 0 || *to > len(ins) {
			*to = len(ins)
		}
		bw := bufio.NewWriter(os.Stdout)
		for i := *from; i < *to; i++ {
			fmt.Fprintf(bw, "START %d\n", i)
			bw.Flush()
			c := d.Run(ins[i])
			c.I = i
			c.Input = ins[i]
			b, err := json.Marshal(c)
			if err != nil {
				panic(err)
			}
			fmt.Fprintf(bw, "CASE %s\n", b)
			bw.Flush()
		}
	case "run":
		ins := readInputs(*inputs)
		res := runIsolated(prop, *inputs, ins, *workers, *perCase)
		w := mustCreate(*out)
		bw := bufio.NewWriter(w)
		for _, c := range res {
			b, _ := json.Marshal(c)
			bw.Write(b)
			bw.WriteByte('\n')
		}
		bw.Flush()
		w.Close()
	default:
		fmt.Fprintln(os.Stderr, "unknown mode", mode)
		os.Exit(2)
	}
}

func mustCreate(p string) *os.File {
	if p == "" || p == "-" {
		return os.Stdout
	}
	f, err := os.Create(p)
	if err != nil {
		panic(err)
	}
	return f
}

func readInputs(p string) []json.RawMessage {
	f, err := os.Open(p)
	if err != nil {
		panic(err)
	}
	defer f.Close()
	var res []json.RawMessage
	sc := bufio.NewScanner(f)
	sc.Buffer(make([]byte, 1<<20), 1<<28)
	for sc.Scan() {
		l := strings.TrimSpace(sc.Text())
		if l == "" {
			continue
		}
		res = append(res, json.RawMessage(append([]byte(nil), l...)))
	}
	return res
}

// runIsolated runs all inputs in child processes so that a crash of the implementation
// (several are panics inside goroutines, which recover() cannot reach) is an observation.
func runIsolated(prop, inputsPath string, ins []json.RawMessage, workers int, perCase time.Duration) []Case {
	n := len(ins)
	res := make([]Case, n)
	done := make([]bool, n)
	if workers < 1 {
		workers = 1
	}
	// contiguous chunks, small enough to balance
	chunk := (n + workers*4 - 1) / (workers * 4)
	if chunk < 1 {
		chunk = 1
	}
	type span struct{ a, b int }
	jobs := make(chan span, n)
	for a := 0; a < n; a += chunk {
		b := a + chunk
		if b > n {
			b = n
		}
		jobs <- span{a, b}
	}
	close(jobs)
	var wg sync.WaitGroup
	self, _ := os.Executable()
	for w := 0; w < workers; w++ {
		wg.Add(1)
		go func() {
			defer wg.Done()
			for sp := range jobs {
				a := sp.a
				for a < sp.b {
					a = runSpan(self, prop, inputsPath, ins, a, sp.b, res, done, perCase)
				}
			}
		}()
	}
	wg.Wait()
	for i := range res {
		if !done[i] {
			res[i] = Case{I: i, Input: ins[i], Crashed: true, Stderr: "worker produced no result"}
		}
	}
	return res
}

// runSpan runs [a,b) in one child; returns the index to continue from.
func runSpan(self, prop, inputsPath string, ins []json.RawMessage, a, b int, res []Case, done []bool, perCase time.Duration) int {
	cmd := exec.Command(self, "worker", prop, "-inputs", inputsPath, "-from", fmt.Sprint(a), "-to", fmt.Sprint(b))
	var errb tailBuffer
	cmd.Stderr = &errb
	stdout, _ := cmd.StdoutPipe()
	if err := cmd.Start(); err != nil {
		panic(err)
	}
	cur := -1
	lines := make(chan string)
	go func() {
		sc := bufio.NewScanner(stdout)
		sc.Buffer(make([]byte, 1<<20), 1<<28)
		for sc.Scan() {
			lines <- sc.Text()
		}
		close(lines)
	}()
	timedOut := false
	timer := time.NewTimer(perCase)
loop:
	for {
		select {
		case l, ok := <-lines:
			if !ok {
				break loop
			}
			if strings.HasPrefix(l, "START ") {
				fmt.Sscanf(l, "START %d", &cur)
				if !timer.Stop() {
					select {
					case <-timer.C:
					default:
					}
				}
				timer.Reset(perCase)
			} else if strings.HasPrefix(l, "CASE ") {
				var c Case
				if err := json.Unmarshal([]byte(l[5:]), &c); err == nil {
					res[c.I] = c
					done[c.I] = true
				}
			}
		case <-timer.C:
			timedOut = true
			cmd.Process.Kill()
			for range lines {
			}
			break loop
		}
	}
	err := cmd.Wait()
	if err == nil && !timedOut {
		return b
	}
	// the child died on input cur
	if cur < a {
		cur = a
	}
	if !done[cur] {
		msg := errb.String()
		if timedOut {
			msg = "TIMEOUT (no result within " + perCase.String() + ")\n" + msg
		}
		res[cur] = Case{I: cur, Input: ins[cur], Crashed: true, Stderr: msg}
		done[cur] = true
	}
	return cur + 1
}

type tailBuffer struct {
	mu  sync.Mutex
	buf []byte
}

func (t *tailBuffer) Write(p []byte) (int, error) {
	t.mu.Lock()
	defer t.mu.Unlock()
	t.buf = append(t.buf, p...)
	if len(t.buf) > 16384 {
		// keep head (panic message) and tail
		head := append([]byte(nil), t.buf[:6144]...)
		tail := t.buf[len(t.buf)-6144:]
		t.buf = append(append(head, []byte("\n...\n")...), tail...)
	}
	return len(p), nil
}
func (t *tailBuffer) String() string { t.mu.Lock(); defer t.mu.Unlock(); return string(t.buf) }

// ---- PRNG: splitmix64, every random choice derives from VERIF_SEED ----

type Rand struct{ s uint64 }

// NewRand scrambles the seed before using it as the state: the state advances by a constant per draw, so states
// derived linearly from the seed would make the streams of different seeds shifted copies of one another.
func NewRand(seed uint64) *Rand {
	z := seed + 0x9E3779B97F4A7C15
	z = (z ^ (z >> 30)) * 0xBF58476D1CE4E5B9
	z = (z ^ (z >> 27)) * 0x94D049BB133111EB
	return &Rand{s: z ^ (z >> 31)}
}
func (r *Rand) U64() uint64 {
	r.s += 0x9E3779B97F4A7C15
	z := r.s
	z = (z ^ (z >> 30)) * 0xBF58476D1CE4E5B9
	z = (z ^ (z >> 27)) * 0x94D049BB133111EB
	return z ^ (z >> 31)
}
func (r *Rand) Intn(n int) int {
	if n <= 0 {
		return 0
	}
	return int(r.U64() % uint64(n))
}
func (r *Rand) Range(lo, hi int) int { return lo + r.Intn(hi-lo+1) } // inclusive
func (r *Rand) Bool() bool           { return r.U64()&1 == 1 }
func (r *Rand) Chance(num, den int) bool {
	return r.Intn(den) < num
}
func (r *Rand) Fork() *Rand { return &Rand{s: r.U64()} }

// ---- Coq term printers ----

func coqNat(n int) string { return fmt.Sprint(n) }
func coqN(n uint64) string {
	return fmt.Sprintf("%d%%N", n)
}
func coqZ(n int64) string {
	if n < 0 {
		return fmt.Sprintf("(%d)%%Z", n)
	}
	return fmt.Sprintf("%d%%Z", n)
}
func coqBool(b bool) string {
	if b {
		return "true"
	}
	return "false"
}
func coqList(xs []string) string { return "[" + strings.Join(xs, "; ") + "]" }
func coqNats(xs []int) string {
	s := make([]string, len(xs))
	for i, x := range xs {
		s[i] = coqNat(x)
	}
	return coqList(s)
}
func coqNs(xs []uint64) string {
	s := make([]string, len(xs))
	for i, x := range xs {
		s[i] = coqN(x)
	}
	return coqList(s)
}
func coqSome(s string) string { return "(Some " + s + ")" }
func coqOpt(s *string) string {
	if s == nil {
		return "None"
	}
	return coqSome(*s)
}
func coqPair(a, b string) string { return "(" + a + ", " + b + ")" }

// coqRunes renders text as a list of code points (N).
func coqRunes(s string) string {
	rs := []rune(s)
	xs := make([]string, len(rs))
	for i, r := range rs {
		xs[i] = fmt.Sprintf("%d", r)
	}
	return "[" + strings.Join(xs, "; ") + "]%N"
}

func mustJSON(v interface{}) json.RawMessage {
	b, err := json.Marshal(v)
	if err != nil {
		panic(err)
	}
	return b
}
