package main

// C18 — concurrent use of one cache loses no acknowledged edit.
//
// 2..16 goroutines run generated mixes of cache calls (new bug, edit + commit on shared and private
// bugs, commit, resolve, query, all ids) against ONE real cache.RepoCache on a temporary go-git
// repository, under a chosen GOMAXPROCS and a chosen number of loaded entities (forcing eviction),
// optionally after a close/reopen of the cache (so that every bug is first resolved from disk, as
// after a server start). A watchdog turns a run that does not finish into an observation
// (stuck=true plus a classified goroutine dump). Observed: per call its error class, per bug the
// acknowledged operations, the history stored in git (read back on a fresh repository handle after
// Close, commit by commit), and whether the live cache agreed with a cache rebuilt from git.
// Checkpoints: whenever every goroutine has returned from its calls (all wait at a barrier while one of them runs
// the call "snap"; and once they are done, before the flush) the cache files are copied as they are on disk, next to
// the excerpt of every entity. After the live cache is closed, each set of files is put back and the repository is
// opened through the normal path (the files are loaded, nothing is rebuilt): the excerpts so loaded must be those
// of the entities (bugs with staged operations excepted), the last set also those of the cache rebuilt from git.
// Per commit of every bug the lamport edit time is read back as well: it must increase along the chain (flavour fresh
// starts from a repository without any bug, where the clocks of the bugs do not exist yet). Flavour lru: barrier-stepped
// runs on a bounded cache in which a handle in use is provably among the most recently used bugs (c18Bounded): a hang
// there is not the by-design wait for an evicted handle.
// The schedule is not observable: coq/K_C18.v decides whether the outcome is one the model allows.

import (
	"encoding/json"
	"fmt"
	"os"
	"os/exec"
	"path/filepath"
	"regexp"
	"runtime"
	"sort"
	"strings"
	"sync"
	"sync/atomic"
	"syscall"
	"time"

	"github.com/99designs/keyring"

	"github.com/MichaelMure/git-bug/cache"
	"github.com/MichaelMure/git-bug/entities/bug"
	"github.com/MichaelMure/git-bug/entity"
	"github.com/MichaelMure/git-bug/query"
	"github.com/MichaelMure/git-bug/repository"
)

// one call of a goroutine
type c18Call struct {
	K      string `json:"k"`            // new | edit | commit | resolve | query | queryq | querys | allids | barrier | snap
	B      int    `json:"b"`            // shared bug index (>= 0) or -1: the goroutine's own latest bug
	Op     string `json:"op,omitempty"` // edit: comment | title | close | open | label | body; querys: the search term
	Commit bool   `json:"commit,omitempty"`
	Prefix bool   `json:"prefix,omitempty"` // resolve through ResolvePrefix (as the web UI does)
	N      int    `json:"n,omitempty"`      // query / querys / allids: number of repetitions (default 1)
	Pause  int    `json:"pause,omitempty"`  // edit: number of barriers the goroutine passes between its Resolve and the edit (it keeps the handle meanwhile)
}

type c18Input struct {
	Procs     int         `json:"procs"`      // GOMAXPROCS
	CacheSize int         `json:"cache_size"` // 0: default (1000, no eviction)
	Shared    int         `json:"shared"`     // bugs created before the goroutines start
	Reopen    bool        `json:"reopen"`     // close and reopen the cache before the goroutines start
	Threads   [][]c18Call `json:"threads"`
	Flavor    string      `json:"flavor"`
	Timeout   int         `json:"timeout_s,omitempty"` // watchdog hard limit, default 120
	Rebuilds  int         `json:"rebuilds,omitempty"`  // flavour rebuild: number of cache rebuilds before the goroutines start
	Authors   int         `json:"authors,omitempty"`   // flavour rebuild: identities, each the author of Shared bugs
	FastDisk  bool        `json:"fast_disk,omitempty"` // put the repository on a memory file system (/dev/shm) when there is one: many more rounds per second
	BudgetMs  int         `json:"budget_ms,omitempty"` // flavour persist: once the goroutines have run for so long, the remaining edits are skipped (slow disks)
	Reps      int         `json:"reps,omitempty"`      // the run is repeated, each time on a new repository, up to so many times; the first repetition that hangs or stores anything wrong (else the last one) is the observation
}

type c18Driver struct{}

func init() { register("C18", c18Driver{}) }

var c18EditOps = []string{"comment", "comment", "comment", "title", "close", "open", "label", "body"}

// terms of the full-text queries: words of the titles / messages written by the set-up and by the edits
var c18SearchTerms = []string{"shared", "message", "comment", "title"}

// flavour burst: groups of 2-4 goroutines edit the same bug at the same time (a barrier before every round),
// each bug is edited by one group in one round only and the operations stay staged: whatever excerpt the
// racing entityUpdated calls leave behind is what the cache shows once the goroutines are done.
func c18GenBurst(r *Rand, big bool) c18Input {
	in := c18Input{Flavor: "burst"}
	in.Procs = []int{2, 4, 16, 16}[r.Intn(4)]
	if r.Chance(1, 8) {
		in.Procs = 1
	}
	group := r.Range(2, 4)
	ngroups := r.Range(2, 3)
	if big {
		ngroups = r.Range(2, 4)
	}
	rounds := r.Range(4, 6)
	in.Shared = ngroups * rounds
	// mostly on a cache that was just opened: every first Resolve reads its bug from git while it holds the
	// sub-cache lock, so the notifications of the other groups queue up behind it (as after a server start)
	in.Reopen = !r.Chance(1, 6)
	ops := []string{"comment", "close", "title", "label", "comment", "open", "body"}
	for g := 0; g < ngroups; g++ {
		for m := 0; m < group; m++ {
			var calls []c18Call
			for k := 0; k < rounds; k++ {
				calls = append(calls, c18Call{K: "barrier", B: -1})
				// the members of a group issue different kinds of operations: any overtaken excerpt differs from the final one
				calls = append(calls, c18Call{K: "edit", B: g*rounds + k, Op: ops[(m+k)%len(ops)], Commit: false, Prefix: r.Chance(1, 4)})
			}
			in.Threads = append(in.Threads, calls)
		}
	}
	return in
}

// flavour churn: 12-16 goroutines resolve, edit and commit 3-4 bugs through a cache that was just opened and
// may hold 1-2 of them: every Resolve is likely to read its bug from git while the others load, commit and
// evict the very same bug (the window of a Resolve that reads before it looks again; most runs end on the
// by-design wait for an evicted handle, what was acknowledged before is still compared with git)
func c18GenChurn(r *Rand) c18Input {
	in := c18Input{Flavor: "churn", Reopen: true}
	in.Procs = []int{1, 2, 4}[r.Intn(3)]
	nth := r.Range(12, 16)
	in.Shared = r.Range(3, 4)
	in.CacheSize = r.Range(1, 2)
	for t := 0; t < nth; t++ {
		var calls []c18Call
		for k := 0; k < 6; k++ {
			calls = append(calls, c18Call{K: "edit", B: r.Intn(in.Shared), Op: c18EditOps[r.Intn(len(c18EditOps))], Commit: true, Prefix: r.Bool()})
		}
		in.Threads = append(in.Threads, calls)
	}
	return in
}

// flavour persist: 8-16 goroutines, in rounds: a barrier, then every goroutine makes one small change (edit +
// Commit, or a staged edit) of a bug that is mostly its own, so that the notifications - each of which saves the
// excerpts in .git/git-bug/cache - finish at about the same time; a second barrier, then ONE goroutine takes a
// checkpoint while the others wait (call snap): the cache files as they are on disk at that moment, next to the
// excerpt of every entity. Every checkpoint is a point where "the goroutines are done": a process that stopped there
// and started again (the normal path: the cache files are loaded, nothing is rebuilt) must list what git holds.
// Few processors for many goroutines on purpose: a goroutine that gives up its processor inside a system call
// (creating / writing the cache file) queues behind all the others before it goes on.
func c18GenPersist(r *Rand, big bool) c18Input {
	in := c18Input{Flavor: "persist", FastDisk: true, BudgetMs: 5000}
	in.Procs = []int{2, 4, 4, 16, 1, 2}[r.Intn(6)]
	// few goroutines, many rounds: per round the last two or three notifications decide what is on disk, and the
	// evaluation of a case in Coq grows with the cube of the number of calls (unary operation numbers)
	nth := r.Range(3, 6)
	if big {
		nth = r.Range(6, 10)
	}
	rounds := r.Range(40, 60)
	if rounds*nth > 320 {
		rounds = 320 / nth
	}
	in.Shared = nth
	if r.Chance(1, 4) {
		in.Shared = r.Range((nth+1)/2, nth) // some goroutines share a bug
	}
	in.Reopen = r.Chance(1, 3)
	ops := []string{"title", "close", "comment", "open", "label", "title", "body"}
	for t := 0; t < nth; t++ {
		var calls []c18Call
		for k := 0; k < rounds; k++ {
			calls = append(calls, c18Call{K: "barrier", B: -1})
			b := t % in.Shared
			if r.Chance(1, 10) {
				b = r.Intn(in.Shared)
			}
			switch {
			case r.Chance(1, 12): // sits this round out
			case r.Chance(1, 12):
				calls = append(calls, c18Call{K: "edit", B: b, Op: ops[(t+k)%len(ops)], Commit: false})
			default:
				calls = append(calls, c18Call{K: "edit", B: b, Op: ops[(t+k)%len(ops)], Commit: true, Prefix: r.Chance(1, 8)})
			}
			calls = append(calls, c18Call{K: "barrier", B: -1})
			if t == 0 {
				calls = append(calls, c18Call{K: "snap", B: -1})
			}
		}
		in.Threads = append(in.Threads, calls)
	}
	return in
}

// flavour fresh: a repository that was just created: one identity, no bug yet, hence no lamport clock of the bugs
// (bugs-create / bugs-edit are created by the first commit of a bug) and no index. 8-16 goroutines, released by one
// barrier, create their first bug at once and then edit it once or twice, every edit committed: the first uses of
// whatever the repository creates on demand race with each other and with the first commits. One goroutine in three
// polls the bug list before it starts, so that not everybody arrives at the same moment. On the disk of the
// machine, not on a memory file system: creating a file takes long enough there for the others to get on.
// The run is repeated on a new repository up to three times: the first repetition that hangs or stores anything wrong,
// else the last one, is observed in full and reported.
func c18GenFresh(r *Rand, big bool) c18Input {
	in := c18Input{Flavor: "fresh", Shared: 0}
	in.Procs = []int{1, 1, 4, 4, 16, 2}[r.Intn(6)]
	in.Reps = 3
	nth := r.Range(12, 16)
	if big {
		nth = r.Range(14, 20)
	}
	edits := r.Range(1, 2)
	for t := 0; t < nth; t++ {
		calls := []c18Call{{K: "barrier", B: -1}}
		if r.Chance(1, 3) {
			calls = append(calls, c18Call{K: "allids", B: -1, N: r.Range(1, 40)})
		}
		calls = append(calls, c18Call{K: "new", B: -1})
		for k := 0; k < edits; k++ {
			calls = append(calls, c18Call{K: "edit", B: -1, Op: c18EditOps[r.Intn(len(c18EditOps))], Commit: true})
		}
		in.Threads = append(in.Threads, calls)
	}
	return in
}

// flavour lru: the cache may hold c bugs, there are more bugs than that, and at most c goroutines. The run is a
// sequence of steps separated by barriers; in every step ONE goroutine does something to a bug, the others wait
// (or run queries, which do not load anything):
//
//	hold  a goroutine resolves a bug (mostly the least recently used loaded one) and keeps the handle;
//	load  a goroutine without a handle resolves another bug (mostly one that is not loaded: somebody is evicted);
//	use   a goroutine that holds a handle edits the bug through it and commits.
//
// Between the hold and the use of a handle the other goroutines resolve at most c-1 distinct other bugs, nothing is
// staged when a bug is loaded, every goroutine holds at most one handle: the bug was the most recently used one
// when its handle was taken, so it cannot be among those the cache evicts (c18Bounded checks this on the input).
// Waiting for ever on such a handle is therefore NOT the by-design behaviour "more entities in use than the cache
// may hold" (finding F-evicted-handle): it is a deadlock.
func c18GenLru(r *Rand, big bool) c18Input {
	in := c18Input{Flavor: "lru", FastDisk: true}
	in.Procs = []int{1, 2, 4, 16}[r.Intn(4)]
	c := r.Range(2, 4)
	in.CacheSize = c
	n := c + r.Range(1, 3)
	in.Shared = n
	nth := r.Range(2, c)
	in.Reopen = r.Bool()
	steps := r.Range(8, 14)
	if big {
		steps = r.Range(12, 20)
	}
	// the list of loaded bugs as the (unchanged) cache keeps it, least recently used first
	var lru []int
	if !in.Reopen {
		for b := n - c; b < n; b++ {
			lru = append(lru, b)
		}
	}
	touch := func(b int) {
		var l []int
		for _, x := range lru {
			if x != b {
				l = append(l, x)
			}
		}
		lru = append(l, b)
		if len(lru) > c {
			lru = lru[len(lru)-c:]
		}
	}
	loaded := func(b int) bool {
		for _, x := range lru {
			if x == b {
				return true
			}
		}
		return false
	}
	type hold struct {
		bug     int
		call    int          // index of the edit call in the goroutine's program
		touched map[int]bool // other bugs resolved (or about to be used) since the handle was taken
	}
	holds := map[int]*hold{}
	heldBy := func(b int) bool {
		for _, h := range holds {
			if h.bug == b {
				return true
			}
		}
		return false
	}
	// may bug b be touched now? every handle in use must stay among the c-1 most recent other bugs
	allowed := func(b int, by int) bool {
		for g, h := range holds {
			if g == by || h.bug == b || h.touched[b] {
				continue
			}
			if len(h.touched)+1 > c-1 {
				return false
			}
		}
		return true
	}
	note := func(b int, by int) {
		for g, h := range holds {
			if g != by && h.bug != b {
				h.touched[b] = true
			}
		}
	}
	in.Threads = make([][]c18Call, nth)
	ops := []string{"comment", "title", "label", "comment", "close", "open", "body"}
	step := func(actor int, call *c18Call) {
		// everybody passes the barrier that ends the previous step; a goroutine that holds a handle does so inside its edit call
		for g := 0; g < nth; g++ {
			if h, ok := holds[g]; ok {
				in.Threads[g][h.call].Pause++
			} else {
				in.Threads[g] = append(in.Threads[g], c18Call{K: "barrier", B: -1})
			}
		}
		if call != nil {
			in.Threads[actor] = append(in.Threads[actor], *call)
		}
		for g := 0; g < nth; g++ {
			if _, ok := holds[g]; !ok && g != actor && r.Chance(1, 4) {
				in.Threads[g] = append(in.Threads[g], c18Call{K: []string{"queryq", "allids", "querys"}[r.Intn(3)], B: 0, Op: "shared"})
			}
		}
	}
	if in.Reopen {
		// warm the cache up: one goroutine resolves c bugs in a row
		g := r.Intn(nth)
		perm := make([]int, n)
		for i := range perm {
			perm[i] = i
		}
		for i := n - 1; i > 0; i-- {
			j := r.Intn(i + 1)
			perm[i], perm[j] = perm[j], perm[i]
		}
		for _, b := range perm[:c] {
			step(g, &c18Call{K: "resolve", B: b})
			touch(b)
		}
	}
	for k := 0; k < steps || len(holds) > 0; k++ {
		var free, holders []int
		for g := 0; g < nth; g++ {
			if _, ok := holds[g]; ok {
				holders = append(holders, g)
			} else {
				free = append(free, g)
			}
		}
		closing := k >= steps
		x := r.Intn(100)
		switch {
		case !closing && len(free) > 0 && (len(holders) == 0 || x < 25):
			// hold: mostly the least recently used loaded bug nobody holds
			g := free[r.Intn(len(free))]
			b := -1
			if r.Chance(3, 4) {
				for _, y := range lru {
					if !heldBy(y) {
						b = y
						break
					}
				}
			}
			if b < 0 {
				b = r.Intn(n)
			}
			if heldBy(b) || !allowed(b, g) {
				step(-1, nil)
				continue
			}
			h := &hold{bug: b, call: len(in.Threads[g]) + 1, touched: map[int]bool{}}
			for _, o := range holds {
				h.touched[o.bug] = true // the others will use theirs
			}
			if len(h.touched) > c-1 {
				step(-1, nil)
				continue
			}
			note(b, g)
			step(g, &c18Call{K: "edit", B: b, Op: ops[r.Intn(len(ops))], Commit: true, Prefix: r.Chance(1, 4)})
			holds[g] = h
			touch(b)
		case !closing && len(free) > 0 && len(holders) > 0 && x < 70:
			// load: mostly a bug that is not loaded
			g := free[r.Intn(len(free))]
			b := -1
			for try := 0; try < 8 && b < 0; try++ {
				y := r.Intn(n)
				if heldBy(y) || (loaded(y) && !r.Chance(1, 5)) {
					continue
				}
				b = y
			}
			if b < 0 || !allowed(b, g) {
				// no room left: somebody has to use its handle first
				g2 := holders[r.Intn(len(holders))]
				step(-1, nil)
				touch(holds[g2].bug)
				delete(holds, g2)
				continue
			}
			note(b, g)
			step(g, &c18Call{K: "resolve", B: b, Prefix: r.Chance(1, 4)})
			touch(b)
		case len(holders) > 0:
			// use: the barrier of this step is the last one inside the edit call of the holder
			g := holders[r.Intn(len(holders))]
			step(-1, nil)
			touch(holds[g].bug)
			delete(holds, g)
		default:
			step(-1, nil)
		}
	}
	return in
}

func c18GenCase(r *Rand, flavor string, big bool) c18Input {
	if flavor == "fresh" {
		return c18GenFresh(r, big)
	}
	if flavor == "lru" {
		return c18GenLru(r, big)
	}
	if flavor == "persist" {
		return c18GenPersist(r, big)
	}
	if flavor == "burst" {
		return c18GenBurst(r, big)
	}
	if flavor == "churn" {
		return c18GenChurn(r)
	}
	in := c18Input{Flavor: flavor}
	in.Procs = []int{1, 2, 4, 16}[r.Intn(4)]
	nth := r.Range(2, 8)
	if big {
		nth = r.Range(2, 16)
	}
	ncalls := r.Range(3, 8)
	in.Shared = r.Range(1, 4)
	switch flavor {
	case "mixed": // default cache size, bugs created in this session: nothing is evicted
		in.Reopen = false
	case "reopen": // every shared bug is resolved from disk first
		in.Reopen = true
	case "evict": // at most CacheSize loaded entities, at least one per goroutine
		in.Reopen = r.Bool()
		in.Shared = r.Range(2, 6)
		in.CacheSize = nth + r.Range(0, 2)
	case "tiny": // fewer loaded entities than goroutines: handles in use can be evicted
		in.Reopen = r.Bool()
		in.Shared = r.Range(2, 6)
		in.CacheSize = r.Range(1, 2)
	case "query": // readers of the whole cache against writers
		in.Reopen = r.Bool()
	}
	for t := 0; t < nth; t++ {
		var calls []c18Call
		hasOwn := false
		for k := 0; k < ncalls; k++ {
			x := r.Intn(100)
			qshare := 20
			if flavor == "query" {
				qshare = 50
			}
			switch {
			case x < qshare:
				qc := c18Call{K: []string{"query", "queryq", "allids", "resolve", "querys"}[r.Intn(5)], B: r.Intn(in.Shared), Prefix: r.Bool()}
				if flavor == "query" && (qc.K == "query" || qc.K == "allids") && r.Bool() {
					qc.N = r.Range(100, 3000) // a client polling the list
				}
				if qc.K == "querys" {
					qc.Op = c18SearchTerms[r.Intn(len(c18SearchTerms))]
					if flavor == "query" && r.Bool() {
						qc.N = r.Range(50, 600) // somebody typing in the search box of the bug list
					}
				}
				calls = append(calls, qc)
			case x < qshare+15:
				calls = append(calls, c18Call{K: "new", B: -1})
				hasOwn = true
			default:
				b := r.Intn(in.Shared)
				if hasOwn && r.Chance(1, 4) {
					b = -1
				}
				c := c18Call{K: "edit", B: b, Op: c18EditOps[r.Intn(len(c18EditOps))], Commit: !r.Chance(1, 8), Prefix: r.Bool()}
				calls = append(calls, c)
				if !c.Commit && r.Bool() {
					calls = append(calls, c18Call{K: "commit", B: b})
				}
			}
		}
		in.Threads = append(in.Threads, calls)
	}
	if flavor == "query" {
		// one goroutine at least keeps searching while the others edit
		t := r.Intn(nth)
		poll := c18Call{K: "querys", B: 0, Op: c18SearchTerms[r.Intn(len(c18SearchTerms))], N: r.Range(200, 800)}
		in.Threads[t] = append([]c18Call{poll}, in.Threads[t]...)
	}
	return in
}

// c18Bounded: does the input, by its construction, keep every handle in use among the bugs the cache may hold?
//   - the cache may hold c >= 2 bugs and there are at most c goroutines, each holding at most one handle at a time
//     (a handle lives inside one edit call: Resolve, Pause barriers, edit, Commit);
//   - the goroutines move in steps (a step ends when all of them have passed a barrier); in every step the calls that
//     resolve, edit or commit a bug belong to ONE goroutine: nothing is staged while somebody else loads a bug;
//   - between the step in which a handle is taken and the step in which it is used, the other goroutines resolve at
//     most c-1 distinct other bugs.
//
// Resolve makes the bug the most recently used one, every later load evicts from the least recently used end and
// stops as soon as c bugs are left: the bug of a handle in use is never evicted (CacheLru.recent_handle_survives).
func c18Bounded(in c18Input) bool {
	c := in.CacheSize
	if c < 2 || len(in.Threads) > c || len(in.Threads) < 1 {
		return false
	}
	type ev struct{ step, thread, bug int }
	var evs []ev
	type span struct{ from, to, thread, bug int }
	var spans []span
	for t, calls := range in.Threads {
		st := 0
		for _, call := range calls {
			switch call.K {
			case "barrier":
				st++
			case "query", "queryq", "querys", "allids":
			case "resolve":
				if call.B < 0 || call.B >= in.Shared {
					return false
				}
				evs = append(evs, ev{st, t, call.B})
			case "edit":
				if call.B < 0 || call.B >= in.Shared || !call.Commit || call.Pause < 0 {
					return false
				}
				evs = append(evs, ev{st, t, call.B})
				spans = append(spans, span{st, st + call.Pause, t, call.B})
				st += call.Pause
				evs = append(evs, ev{st, t, call.B})
			default:
				return false
			}
		}
	}
	owner := map[int]int{}
	for _, e := range evs {
		if o, ok := owner[e.step]; ok && o != e.thread {
			return false
		}
		owner[e.step] = e.thread
	}
	for _, sp := range spans {
		others := map[int]bool{}
		for _, e := range evs {
			if e.thread != sp.thread && e.step >= sp.from && e.step <= sp.to && e.bug != sp.bug {
				others[e.bug] = true
			}
		}
		if len(others) > c-1 {
			return false
		}
	}
	return len(spans) > 0
}

func (c18Driver) Gen(r *Rand, tier string) []json.RawMessage {
	// quick: about 60 stress runs; thorough: 18x more and up to 16 goroutines
	plan := []struct {
		flavor string
		n      int
	}{{"mixed", 10}, {"reopen", 14}, {"evict", 12}, {"query", 10}, {"tiny", 4}, {"burst", 5}, {"churn", 4}, {"persist", 10}, {"fresh", 4}, {"lru", 6}}
	mult := 1
	if tier == "thorough" {
		mult = 18
	}
	var res, persist, fresh []json.RawMessage
	for _, p := range plan {
		for i := 0; i < p.n*mult; i++ {
			c := mustJSON(c18GenCase(r, p.flavor, tier == "thorough" || i%4 == 0))
			if p.flavor == "fresh" {
				fresh = append(fresh, c)
			} else if p.flavor == "persist" {
				persist = append(persist, c)
			} else {
				res = append(res, c)
			}
		}
	}
	// the persist cases are long lists of calls, the most expensive ones to evaluate in Coq: spread them evenly over
	// the run (hence over the shards, which are evaluated in parallel); generated after the older flavours, so that
	// the cases of those are the ones the same seed gave before. The fresh cases (up to three repetitions on the disk
	// of the machine) take longest to run: they go first, so that the rest of the run overlaps with them.
	var merged []json.RawMessage
	np, no, j := len(persist), len(res), 0
	for i, c := range res {
		merged = append(merged, c)
		for j < np && (j+1)*no/(np+1) == i+1 {
			merged = append(merged, persist[j])
			j++
		}
	}
	merged = append(merged, persist[j:]...)
	// (every third case from the start: the runner hands out the cases in small contiguous chunks)
	var all []json.RawMessage
	for i, c := range merged {
		if i%3 == 0 && len(fresh) > 0 {
			all = append(all, fresh[0])
			fresh = fresh[1:]
		}
		all = append(all, c)
	}
	return append(all, fresh...)
}

// ---- running ----

// error classes of a call
const (
	c18OK         = 0
	c18NoPending  = 1 // Commit: "can't commit an entity with no pending operation"
	c18Missing    = 2 // "entity missing from cache" (the handle was evicted)
	c18NotFound   = 3
	c18Other      = 4
	c18Panic      = 5
	c18Unfinished = 6 // the call had not returned when the watchdog fired
)

func c18Class(err error) int {
	if err == nil {
		return c18OK
	}
	s := err.Error()
	switch {
	case strings.Contains(s, "no pending operation"):
		return c18NoPending
	case strings.Contains(s, "entity missing from cache"):
		return c18Missing
	case entity.IsErrNotFound(err):
		return c18NotFound
	}
	return c18Other
}

// what one goroutine recorded for one call
type c18Rec struct {
	T, K   int
	Bug    string // entity id the call was about ("" if none)
	OpID   string // id of the operation issued by the call ("" if none)
	EditE  int    // class of the edit / new / query call
	CommE  int    // class of the commit part (c18OK if there was none)
	HasC   bool   // a commit was attempted
	ErrTxt string
	Done   bool
}

type c18Run struct {
	in        c18Input
	dir       string
	c         *cache.RepoCache
	author    *cache.IdentityCache
	shared    []entity.Id
	recs      [][]c18Rec
	doneCount *atomic.Int64
	notes     []string
	bar       *c18Barrier
	cks       []c18Checkpoint
	tmpfs     bool
	began     time.Time   // the goroutines were started
	cut       atomic.Bool // the budget of the run is used up: remaining edits are skipped
}

// a point where every goroutine of the run has returned from its calls (all of them wait at a barrier, or all are
// done): the cache files as they are on disk, and per bug the cache lists the excerpt of the entity it hands out
type c18Checkpoint struct {
	Label string
	Files map[string][]byte
	Bugs  map[string]c18CkBug
}

type c18CkBug struct {
	Staged bool   // operations not committed yet: the entity of the cache is ahead of git by design
	Want   string // excerpt computed from the entity
}

func c18CacheFileDir(dir string) string { return filepath.Join(dir, ".git", "git-bug", "cache") }

// checkpoint must only be called while no other goroutine of the run is inside a cache call
func (s *c18Run) checkpoint(label string) {
	ck := c18Checkpoint{Label: label, Files: map[string][]byte{}, Bugs: map[string]c18CkBug{}}
	ents, _ := os.ReadDir(c18CacheFileDir(s.dir))
	for _, e := range ents {
		if e.IsDir() {
			continue
		}
		if data, err := os.ReadFile(filepath.Join(c18CacheFileDir(s.dir), e.Name())); err == nil {
			ck.Files[e.Name()] = data
		}
	}
	for _, id := range s.c.Bugs().AllIds() {
		b, err := s.c.Bugs().Resolve(id)
		if err != nil {
			continue
		}
		ck.Bugs[id.String()] = c18CkBug{Staged: b.NeedCommit(), Want: c18ExcerptStr(cache.NewBugExcerpt(b))}
	}
	s.cks = append(s.cks, ck)
}

// Once the live cache is closed: for every checkpoint, put the cache files of that moment back, open the
// repository through the normal path (NewRepoCache loads the files; it rebuilds only when it cannot) and compare
// the excerpt of every bug that had nothing staged with the excerpt its entity gave at the checkpoint.
// Returns bug id -> difference, notes, and what the cache loaded from the files of the LAST checkpoint (the
// goroutines were done; the flush that followed only commits staged operations) lists for the bugs that had
// nothing staged: the caller compares it with the cache rebuilt from git.
func (s *c18Run) reloadChecks() (map[string]string, []string, map[string]string) {
	res := map[string]string{}
	lastLoaded := map[string]string{}
	var notes []string
	for i, ck := range s.cks {
		if len(ck.Files) == 0 {
			notes = append(notes, "checkpoint "+ck.Label+": no cache files")
			continue
		}
		for name, data := range ck.Files {
			if err := os.WriteFile(filepath.Join(c18CacheFileDir(s.dir), name), data, 0o644); err != nil {
				notes = append(notes, "checkpoint "+ck.Label+": "+err.Error())
			}
		}
		if err := s.open(); err != nil {
			notes = append(notes, "checkpoint "+ck.Label+": open: "+err.Error())
			continue
		}
		accepted := true
		for name, data := range ck.Files {
			now, err := os.ReadFile(filepath.Join(c18CacheFileDir(s.dir), name))
			if err != nil || string(now) != string(data) {
				accepted = false
			}
		}
		if !accepted {
			// the files were not loaded as they were: the cache was built again from git, nothing to compare
			notes = append(notes, "checkpoint "+ck.Label+": saved cache not accepted, rebuilt")
			_ = s.c.Close()
			continue
		}
		last := i == len(s.cks)-1
		for id, cb := range ck.Bugs {
			if cb.Staged {
				continue
			}
			ex, err := s.c.Bugs().ResolveExcerpt(entity.Id(id))
			if err != nil {
				res[id] = fmt.Sprintf("checkpoint %s: the saved cache, loaded again, does not know the bug: %v", ck.Label, err)
				continue
			}
			have := c18ExcerptStr(ex)
			if last {
				lastLoaded[id] = have
			}
			if have != cb.Want {
				res[id] = fmt.Sprintf("checkpoint %s: the saved cache, loaded again, holds {%s}; the entity gave {%s}", ck.Label, have, cb.Want)
			}
		}
		_ = s.c.Close()
	}
	return res, notes, lastLoaded
}

// a cyclic barrier for the goroutines of one run; a goroutine that ends leaves it for good
type c18Barrier struct {
	mu      sync.Mutex
	cond    *sync.Cond
	parties int
	arrived int
	gen     int
}

func c18NewBarrier(n int) *c18Barrier {
	b := &c18Barrier{parties: n}
	b.cond = sync.NewCond(&b.mu)
	return b
}

// c18BarrierWait is recognised by name in the goroutine dumps of the watchdog
func c18BarrierWait(b *c18Barrier) {
	b.mu.Lock()
	defer b.mu.Unlock()
	b.arrived++
	if b.arrived >= b.parties {
		b.arrived = 0
		b.gen++
		b.cond.Broadcast()
		return
	}
	g := b.gen
	for g == b.gen {
		b.cond.Wait()
	}
}

func (b *c18Barrier) leave() {
	b.mu.Lock()
	defer b.mu.Unlock()
	b.parties--
	if b.parties > 0 && b.arrived >= b.parties {
		b.arrived = 0
		b.gen++
		b.cond.Broadcast()
	}
}

func (s *c18Run) open() error {
	r, err := repository.OpenGoGitRepo(s.dir, "git-bug", nil)
	if err != nil {
		return err
	}
	c, err := cache.NewRepoCacheNoEvents(krRepo{TestedRepo: r, kr: keyring.NewArrayKeyring(nil)})
	if err != nil {
		return err
	}
	s.c = c
	return nil
}

func (s *c18Run) setup() error {
	dir := ""
	var err error
	if s.in.FastDisk {
		if st, e := os.Stat("/dev/shm"); e == nil && st.IsDir() {
			if dir, err = os.MkdirTemp("/dev/shm", "verif-c18-"); err == nil {
				s.tmpfs = true
			}
		}
	}
	if dir == "" {
		if dir, err = os.MkdirTemp("", "verif-c18-"); err != nil {
			return err
		}
	}
	s.dir = dir
	r, err := newTestRepo(dir, false)
	if err != nil {
		return err
	}
	c, err := cache.NewRepoCacheNoEvents(r)
	if err != nil {
		return err
	}
	s.c = c
	id, err := c.Identities().New("worker", "worker@example.org")
	if err != nil {
		return err
	}
	if err := c.SetUserIdentity(id); err != nil {
		return err
	}
	for i := 0; i < s.in.Shared; i++ {
		b, _, err := c.Bugs().NewRaw(id, int64(1600000000+i), fmt.Sprintf("shared %d", i), "first message", nil, nil)
		if err != nil {
			return err
		}
		s.shared = append(s.shared, b.Id())
	}
	for a := 0; a < s.in.Authors; a++ {
		ida, err := c.Identities().New(fmt.Sprintf("author %d", a), fmt.Sprintf("a%d@example.org", a))
		if err != nil {
			return err
		}
		for i := 0; i < s.in.Shared; i++ {
			if _, _, err := c.Bugs().NewRaw(ida, int64(1600000500+a*10+i), fmt.Sprintf("by author %d nr %d", a, i), "message", nil, nil); err != nil {
				return err
			}
		}
	}
	// building the cache runs the identity and the bug builds concurrently
	for n := 0; n < s.in.Rebuilds; n++ {
		if err := s.c.Close(); err != nil {
			return err
		}
		for _, d := range c18CacheDirs(s.dir) {
			_ = os.RemoveAll(d)
		}
		if err := s.open(); err != nil {
			return err
		}
	}
	if s.in.Reopen {
		if err := s.c.Close(); err != nil {
			return err
		}
		if err := s.open(); err != nil {
			return err
		}
	}
	if s.in.CacheSize > 0 {
		s.c.VerifSetCacheSize(s.in.CacheSize)
	}
	a, err := s.c.GetUserIdentity()
	if err != nil {
		return err
	}
	s.author = a
	return nil
}

func (s *c18Run) resolve(id entity.Id, prefix bool) (*cache.BugCache, error) {
	if prefix {
		return s.c.Bugs().ResolvePrefix(id.String())
	}
	return s.c.Bugs().Resolve(id)
}

// a word that only the text written by call k of goroutine t contains
func c18Word(t, k int) string { return fmt.Sprintf("w%dx%dz", t, k) }

// Once the goroutines are done, before the flush: the full-text index against the entities. For every text a
// successful edit wrote (comment, title, body of the first comment): the bug is found by the word only that
// text contains exactly when the text is still part of what the entity of the cache shows (a later title or
// body edit replaces the earlier one). Returns bug id -> difference.
func (s *c18Run) staleIndex(calls []c18Rec) map[string]string {
	res := map[string]string{}
	texts := map[string]string{}
	for _, r := range calls {
		call := s.in.Threads[r.T][r.K]
		if call.K != "edit" || r.OpID == "" || r.EditE != c18OK || r.Bug == "" {
			continue
		}
		switch call.Op {
		case "title", "body", "comment":
		default:
			continue
		}
		if _, ok := texts[r.Bug]; !ok {
			b, err := s.c.Bugs().Resolve(entity.Id(r.Bug))
			if err != nil {
				continue
			}
			snap := b.Snapshot()
			var sb strings.Builder
			for _, c := range snap.Comments {
				sb.WriteString(c.Message + " ")
			}
			sb.WriteString(snap.Title + " ")
			texts[r.Bug] = sb.String()
		}
		word := c18Word(r.T, r.K)
		want := strings.Contains(texts[r.Bug], word+" ")
		q, err := query.Parse(word + " sort:id")
		if err != nil {
			panic(err)
		}
		ids, err := s.c.Bugs().Query(q)
		if err != nil {
			res[r.Bug] = "index: query " + word + ": " + err.Error()
			continue
		}
		have := false
		for _, id := range ids {
			if id.String() == r.Bug {
				have = true
			}
		}
		if have != want {
			res[r.Bug] = fmt.Sprintf("index: the text of call t%d k%d (%s) is in the entity: %v, found by the full-text search: %v", r.T, r.K, call.Op, want, have)
		}
	}
	return res
}

// one goroutine
func (s *c18Run) worker(t int, start <-chan struct{}, wg *sync.WaitGroup) {
	defer wg.Done()
	defer s.bar.leave()
	var own entity.Id
	recs := s.recs[t]
	k := 0
	defer func() {
		if e := recover(); e != nil {
			if k < len(recs) {
				recs[k].EditE = c18Panic
				recs[k].ErrTxt = fmt.Sprint(e)
				recs[k].Done = true
			}
		}
	}()
	<-start
	for k = 0; k < len(s.in.Threads[t]); k++ {
		call := s.in.Threads[t][k]
		rec := &recs[k]
		rec.T, rec.K = t, k
		unix := int64(1600001000 + t*100 + k)
		target := own
		if call.B >= 0 && call.B < len(s.shared) {
			target = s.shared[call.B]
		}
		fail := func(err error) {
			rec.EditE = c18Class(err)
			rec.ErrTxt = err.Error()
		}
		switch call.K {
		case "new":
			b, op, err := s.c.Bugs().NewRaw(s.author, unix, fmt.Sprintf("own t%d k%d", t, k), "message", nil, nil)
			if op != nil {
				rec.OpID = op.Id().String()
				rec.Bug = rec.OpID // a bug's id is the id of its create operation
			}
			if err != nil {
				fail(err)
			} else {
				own = b.Id()
			}
		case "edit":
			if target == "" || s.cut.Load() {
				for p := 0; p < call.Pause; p++ {
					c18BarrierWait(s.bar)
				}
				rec.Done = true
				continue
			}
			rec.Bug = target.String()
			b, err := s.resolve(target, call.Prefix)
			// the goroutine keeps the handle while the others go on (steps of the run: see c18GenLru)
			for p := 0; p < call.Pause; p++ {
				c18BarrierWait(s.bar)
			}
			if err != nil {
				fail(err)
				break
			}
			var opid entity.Id
			switch call.Op {
			case "title":
				o, e := b.SetTitleRaw(s.author, unix, fmt.Sprintf("title t%d k%d %s", t, k, c18Word(t, k)), nil)
				if err = e; o != nil {
					opid = o.Id()
				}
			case "close":
				o, e := b.CloseRaw(s.author, unix, nil)
				if err = e; o != nil {
					opid = o.Id()
				}
			case "open":
				o, e := b.OpenRaw(s.author, unix, nil)
				if err = e; o != nil {
					opid = o.Id()
				}
			case "label":
				_, o, e := b.ChangeLabelsRaw(s.author, unix, []string{fmt.Sprintf("l%d-%d", t, k)}, nil, nil)
				if err = e; o != nil {
					opid = o.Id()
				}
			case "body":
				_, o, e := b.EditCreateCommentRaw(s.author, unix, fmt.Sprintf("body t%d k%d %s", t, k, c18Word(t, k)), nil)
				if err = e; o != nil {
					opid = o.Id()
				}
			default:
				_, o, e := b.AddCommentRaw(s.author, unix, fmt.Sprintf("comment t%d k%d %s", t, k, c18Word(t, k)), nil, nil)
				if err = e; o != nil {
					opid = o.Id()
				}
			}
			rec.OpID = opid.String()
			if err != nil {
				fail(err)
				break
			}
			if call.Commit {
				rec.HasC = true
				if err := b.Commit(); err != nil {
					rec.CommE = c18Class(err)
					rec.ErrTxt = err.Error()
				}
			}
		case "commit":
			if target == "" {
				rec.Done = true
				continue
			}
			rec.Bug = target.String()
			b, err := s.resolve(target, call.Prefix)
			if err != nil {
				fail(err)
				break
			}
			rec.HasC = true
			if err := b.Commit(); err != nil {
				rec.CommE = c18Class(err)
				rec.ErrTxt = err.Error()
			}
		case "resolve":
			if target == "" {
				rec.Done = true
				continue
			}
			b, err := s.resolve(target, call.Prefix)
			if err != nil {
				fail(err)
				break
			}
			_ = b.Snapshot()
		case "query":
			for n := 0; n < call.N || n == 0; n++ {
				if _, err := s.c.Bugs().Query(nil); err != nil {
					fail(err)
					break
				}
			}
		case "queryq":
			q, err := query.Parse("status:open sort:edit")
			if err != nil {
				panic(err)
			}
			if _, err := s.c.Bugs().Query(q); err != nil {
				fail(err)
			}
		case "querys":
			term := call.Op
			if term == "" {
				term = "shared"
			}
			q, err := query.Parse(term + " sort:id")
			if err != nil {
				panic(err)
			}
			for n := 0; n < call.N || n == 0; n++ {
				if _, err := s.c.Bugs().Query(q); err != nil {
					fail(err)
					break
				}
			}
		case "allids":
			for n := 0; n < call.N || n == 0; n++ {
				_ = s.c.Bugs().AllIds()
				_ = s.c.Identities().AllIds()
			}
		case "barrier":
			c18BarrierWait(s.bar)
		case "snap":
			// the others wait at the next barrier
			if s.cut.Load() {
				break
			}
			s.checkpoint(fmt.Sprintf("t%dk%d", t, k))
			if s.in.BudgetMs > 0 && time.Since(s.began) > time.Duration(s.in.BudgetMs)*time.Millisecond {
				s.cut.Store(true)
			}
		}
		rec.Done = true
		if s.doneCount != nil {
			s.doneCount.Add(1)
		}
	}
}

var c18FrameRe = regexp.MustCompile(`(?m)^github\.com/MichaelMure/git-bug/([\w/]+)\.(\(?[\w\[\]\.\*,/ ]+\)?[\w\.]*)\(`)

// classify the goroutine dump of a run that did not finish
func c18ClassifyDump(dump string, mine string) []string {
	tags := map[string]bool{}
	for _, g := range strings.Split(dump, "\n\n") {
		// only the goroutines of this run (a worker process keeps the blocked goroutines of earlier stuck runs)
		if !strings.Contains(g, "git-bug/cache") || !strings.Contains(g, mine) {
			continue
		}
		blockedR := strings.Contains(g, "sync.(*RWMutex).RLock")
		blockedW := strings.Contains(g, "sync.(*RWMutex).Lock") || strings.Contains(g, "sync.(*Mutex).Lock")
		if !blockedR && !blockedW {
			continue
		}
		// the innermost METHOD of the cache package is what asked for the lock: package-level helpers in between
		// (a refactoring may route the locking through one, e.g. a generic applyOp) say nothing about whose lock it is
		inner := ""
		for _, l := range strings.Split(g, "\n") {
			if strings.HasPrefix(l, "github.com/MichaelMure/git-bug/cache.(") {
				inner = l
				break
			}
		}
		if inner == "" {
			for _, l := range strings.Split(g, "\n") {
				if strings.HasPrefix(l, "github.com/MichaelMure/git-bug/cache.") {
					inner = l
					break
				}
			}
		}
		innerHandle := strings.Contains(inner, "cache.(*BugCache).") || strings.Contains(inner, "cache.(*CachedEntityBase[") || strings.Contains(inner, "cache.(*withSnapshot[") ||
			strings.Contains(inner, "cache.(*IdentityCache).")
		switch {
		case strings.Contains(inner, ").AllIds") && strings.Contains(g, "RepoCacheBug).Query"):
			tags["stuck:query-allids-waits-rlock"] = true
		case blockedR && !innerHandle && strings.Contains(g, "RepoCacheBug).Query") && !strings.Contains(inner, "RepoCacheBug).Query"):
			// a function called by Query asks for the sub-cache read lock that Query already holds
			tags["stuck:query-reenters-rlock"] = true
		case innerHandle && strings.Contains(g, ").evictIfNeeded"):
			tags["stuck:evict-waits-entity-lock"] = true
		case strings.Contains(inner, ").evictIfNeeded"):
			tags["stuck:evict-waits-cache-lock"] = true
		case strings.Contains(inner, ").entityUpdated"):
			tags["stuck:notify-waits-cache-lock"] = true
		case innerHandle && strings.Contains(g, ").entityUpdated") && strings.Contains(g, "cache.NewRepoCacheBug.func"):
			// entityUpdated, after it released the sub-cache lock: index data of an instance evicted meanwhile
			tags["stuck:index-evicted-entity"] = true
		case innerHandle && strings.Contains(g, ").entityUpdated"):
			tags["stuck:notify-waits-entity-lock"] = true
		case innerHandle:
			// a goroutine that uses a handle it resolved earlier waits for the entity lock
			tags["stuck:handle-entity-lock"] = true
		case strings.Contains(inner, "cache.(*SubCache[") || strings.Contains(inner, "cache.(*RepoCacheBug)"):
			tags["stuck:waits-cache-lock"] = true
		default:
			tags["stuck:other-lock"] = true
		}
	}
	var res []string
	for t := range tags {
		res = append(res, t)
	}
	sort.Strings(res)
	return res
}

func c18CacheDirs(dir string) []string {
	return []string{filepath.Join(dir, ".git", "git-bug", "cache"), filepath.Join(dir, ".git", "git-bug", "indexes")}
}

// ---- observation of the cache (live, then rebuilt) ----

type c18BugView struct {
	Excerpt string   `json:"excerpt"`
	Ops     []string `json:"ops"`
	Snap    string   `json:"snap"`
}

type c18View struct {
	Bugs    map[string]c18BugView `json:"bugs"`
	Queries map[string][]string   `json:"queries"`
	Err     string                `json:"err,omitempty"`
}

func c18ExcerptStr(ex *cache.BugExcerpt) string {
	labels := make([]string, len(ex.Labels))
	for i, l := range ex.Labels {
		labels[i] = string(l)
	}
	return fmt.Sprintf("create=%d edit=%d cunix=%d eunix=%d author=%s status=%v labels=%v title=%q ncomments=%d actors=%v participants=%v",
		ex.CreateLamportTime, ex.EditLamportTime, ex.CreateUnixTime, ex.EditUnixTime, ex.AuthorId, ex.Status, labels, ex.Title, ex.LenComments, ex.Actors, ex.Participants)
}

// Once the goroutines are done (and before anything else touches the cache): for every bug the cache
// lists, the excerpt it holds (what Query, ResolveExcerpt and the bug lists show) against the excerpt
// computed from the entity the cache hands out for that id, staged operations included, which is what
// every entityUpdated stores and what a rebuild computes. Returns id -> difference.
func c18StaleExcerpts(c *cache.RepoCache) map[string]string {
	res := map[string]string{}
	for _, id := range c.Bugs().AllIds() {
		ex, err := c.Bugs().ResolveExcerpt(id)
		if err != nil {
			continue // listed and gone: reported by the comparison with the rebuilt cache
		}
		have := c18ExcerptStr(ex)
		b, err := c.Bugs().Resolve(id)
		if err != nil {
			res[id.String()] = fmt.Sprintf("excerpt {%s} but the bug does not resolve: %v", have, err)
			continue
		}
		if want := c18ExcerptStr(cache.NewBugExcerpt(b)); want != have {
			res[id.String()] = fmt.Sprintf("cache holds {%s}, its entity gives {%s}", have, want)
		}
	}
	return res
}

func c18Observe(c *cache.RepoCache) c18View {
	v := c18View{Bugs: map[string]c18BugView{}, Queries: map[string][]string{}}
	ids := c.Bugs().AllIds()
	for _, id := range ids {
		var bv c18BugView
		ex, err := c.Bugs().ResolveExcerpt(id)
		if err != nil {
			bv.Excerpt = "ERR " + err.Error()
		} else {
			bv.Excerpt = c18ExcerptStr(ex)
		}
		b, err := c.Bugs().Resolve(id)
		if err != nil {
			bv.Snap = "ERR " + err.Error()
		} else {
			snap := b.Snapshot()
			for _, op := range snap.Operations {
				bv.Ops = append(bv.Ops, op.Id().String())
			}
			labels := make([]string, len(snap.Labels))
			for i, l := range snap.Labels {
				labels[i] = string(l)
			}
			bv.Snap = fmt.Sprintf("status=%v title=%q labels=%v ncomments=%d", snap.Status, snap.Title, labels, len(snap.Comments))
		}
		v.Bugs[id.String()] = bv
	}
	for _, qs := range []string{"status:open sort:id", "status:closed sort:id", "comment sort:id", "title sort:id"} {
		q, err := query.Parse(qs)
		if err != nil {
			panic(err)
		}
		res, err := c.Bugs().Query(q)
		if err != nil {
			v.Queries[qs] = []string{"ERR " + err.Error()}
			continue
		}
		xs := make([]string, len(res))
		for i, id := range res {
			xs[i] = id.String()
		}
		sort.Strings(xs)
		v.Queries[qs] = xs
	}
	return v
}

func c18Diff(live, rebuilt c18View) []string {
	var d []string
	for id, a := range live.Bugs {
		b, ok := rebuilt.Bugs[id]
		if !ok {
			d = append(d, "only in live cache: "+id[:7])
			continue
		}
		if a.Excerpt != b.Excerpt {
			d = append(d, fmt.Sprintf("excerpt of %s: live {%s} rebuilt {%s}", id[:7], a.Excerpt, b.Excerpt))
		}
		if a.Snap != b.Snap || strings.Join(a.Ops, ",") != strings.Join(b.Ops, ",") {
			d = append(d, fmt.Sprintf("snapshot of %s: live {%s, %d ops} rebuilt {%s, %d ops}", id[:7], a.Snap, len(a.Ops), b.Snap, len(b.Ops)))
		}
	}
	for id := range rebuilt.Bugs {
		if _, ok := live.Bugs[id]; !ok {
			d = append(d, "missing from live cache: "+id[:7])
		}
	}
	for q, a := range live.Queries {
		if strings.Join(a, ",") != strings.Join(rebuilt.Queries[q], ",") {
			d = append(d, fmt.Sprintf("query %q: live %d results, rebuilt %d", q, len(a), len(rebuilt.Queries[q])))
		}
	}
	sort.Strings(d)
	return d
}

// the history of one bug as stored in git
type c18Stored struct {
	Packs   [][]string `json:"packs"`      // root first
	Times   []uint64   `json:"edit_times"` // the lamport edit time stored with each commit, root first
	Chain   bool       `json:"chain"`      // one root, every other commit exactly one parent
	Read    []string   `json:"read"`       // bug.Read
	ReadErr string     `json:"read_err,omitempty"`
}

func c18ReadStored(repo repository.ClockedRepo, id entity.Id) c18Stored {
	st := c18Stored{Chain: true}
	h, err := repo.ResolveRef("refs/bugs/" + id.String())
	if err != nil {
		st.Chain = false
		st.ReadErr = "ref: " + err.Error()
		return st
	}
	for n := 0; n < 100000; n++ {
		wc, parents, err := readCommitRaw(repo, h)
		if err != nil {
			st.Chain = false
			st.ReadErr = "commit: " + err.Error()
			break
		}
		st.Packs = append([][]string{wc.Ops}, st.Packs...)
		st.Times = append([]uint64{wc.Edit}, st.Times...)
		if len(parents) == 0 {
			break
		}
		if len(parents) > 1 {
			st.Chain = false
		}
		h = parents[0]
	}
	b, err := bug.Read(repo, id)
	if err != nil {
		st.ReadErr = err.Error()
	} else {
		for _, op := range b.Operations() {
			st.Read = append(st.Read, op.Id().String())
		}
	}
	return st
}

type c18Obs struct {
	Stuck      bool                 `json:"stuck"`
	StuckTags  []string             `json:"stuck_tags,omitempty"`
	Dump       string               `json:"dump,omitempty"`
	Calls      []c18Rec             `json:"calls"`
	Flush      map[string]string    `json:"flush,omitempty"`
	Stored     map[string]c18Stored `json:"stored,omitempty"`
	Coherent   bool                 `json:"coherent"`
	Diff       []string             `json:"diff,omitempty"`
	Stale      map[string]string    `json:"stale_excerpts,omitempty"` // before the flush: excerpt in the cache != excerpt of the cached entity
	StaleIndex map[string]string    `json:"stale_index,omitempty"`    // before the flush: full-text index != texts of the cached entity
	SavedStale map[string]string    `json:"saved_stale,omitempty"`    // at a checkpoint: excerpt in the saved cache files, loaded again, != excerpt of the entity
	Checks     int                  `json:"checkpoints"`              // number of checkpoints (the last one: once the goroutines were done)
	Notes      []string             `json:"notes,omitempty"`
	WallMs     int64                `json:"wall_ms"`  // the goroutines
	TotalMs    int64                `json:"total_ms"` // set-up, goroutines, flush, observations, rebuild
}

// what makes a repetition the one to report
var c18Wrong = map[string]bool{"stuck": true, "lost-ack": true, "bad-history": true, "incoherent": true, "stale-excerpt": true,
	"saved-stale": true, "err:panic": true, "err:unfinished": true}

func (c18Driver) Run(raw json.RawMessage) Case {
	var in c18Input
	if err := json.Unmarshal(raw, &in); err != nil || len(in.Threads) == 0 || in.Shared < 0 || (in.Shared < 1 && in.Flavor != "fresh") {
		return Case{Skip: "bad input"}
	}
	var c Case
	for rep := 0; rep < in.Reps || rep == 0; rep++ {
		var again bool
		c, again = c18RunOnce(in, raw, rep+1 >= in.Reps)
		if again {
			continue
		}
		if c.Skip != "" {
			return c
		}
		if in.Reps > 1 {
			c.Tags = append(c.Tags, fmt.Sprintf("repetition:%d", rep+1))
			sort.Strings(c.Tags)
		}
		wrong := false
		for _, t := range c.Tags {
			if c18Wrong[t] {
				wrong = true
			}
		}
		if wrong {
			break
		}
	}
	return c
}

// A repetition that is not the last one is only looked at closely when something is wrong with what it stored: the
// goroutines finished, every acknowledged operation is in git exactly once, every history is a chain that reads back
// with increasing edit times: the repetition is dropped (second result true) and the next one starts.
func (s *c18Run) nothingWrongStored(calls []c18Rec, bugIDs map[string]bool) bool {
	r2, err := repository.OpenGoGitRepo(s.dir, "git-bug", nil)
	if err != nil {
		return false
	}
	defer r2.Close()
	stored := map[string]c18Stored{}
	for id := range bugIDs {
		st := c18ReadStored(r2, entity.Id(id))
		if !st.Chain || st.ReadErr != "" {
			return false
		}
		n := 0
		for _, p := range st.Packs {
			n += len(p)
		}
		if n != len(st.Read) {
			return false
		}
		for i := 1; i < len(st.Times); i++ {
			if st.Times[i] <= st.Times[i-1] {
				return false
			}
		}
		stored[id] = st
	}
	for _, r := range calls {
		call := s.in.Threads[r.T][r.K]
		if r.EditE == c18Panic {
			return false
		}
		acked := r.OpID != "" && r.EditE == c18OK && (call.K == "new" || (call.K == "edit" && call.Commit && (r.CommE == c18OK || r.CommE == c18NoPending)))
		if !acked {
			continue
		}
		n := 0
		for _, p := range stored[r.Bug].Packs {
			for _, o := range p {
				if o == r.OpID {
					n++
				}
			}
		}
		if n != 1 {
			return false
		}
	}
	return true
}

func c18RunOnce(in c18Input, raw json.RawMessage, last bool) (Case, bool) {
	ncalls := 0
	for _, th := range in.Threads {
		for _, c := range th {
			if c.K != "barrier" && c.K != "snap" {
				ncalls++
			}
		}
	}
	if ncalls >= 1000 {
		return Case{Skip: "too many calls: operation numbers would collide with those of the create operations"}, false
	}
	if in.Procs < 1 {
		in.Procs = 1
	}
	s := &c18Run{in: in}
	tStart := time.Now()
	prev := runtime.GOMAXPROCS(in.Procs)
	defer runtime.GOMAXPROCS(prev)
	if err := s.setup(); err != nil {
		if s.dir != "" {
			os.RemoveAll(s.dir)
		}
		return Case{Skip: "setup: " + err.Error()}, false
	}
	t0 := time.Now()
	s.recs = make([][]c18Rec, len(in.Threads))
	for t := range in.Threads {
		s.recs[t] = make([]c18Rec, len(in.Threads[t]))
		for k := range s.recs[t] {
			s.recs[t][k].T, s.recs[t][k].K = t, k
		}
	}
	var doneCount atomic.Int64
	s.doneCount = &doneCount
	s.bar = c18NewBarrier(len(in.Threads))
	start := make(chan struct{})
	var wg sync.WaitGroup
	for t := range in.Threads {
		wg.Add(1)
		go s.worker(t, start, &wg)
	}
	done := make(chan struct{})
	go func() { wg.Wait(); close(done) }()
	s.began = time.Now()
	close(start)
	obs := c18Obs{Coherent: true}
	timeout := in.Timeout
	if timeout <= 0 {
		timeout = 120
	}
	// watchdog: the run is stuck when every goroutine of it that has not finished waits for a lock, twice in a
	// row with no call completed in between (robust on a loaded machine); or when the hard limit expires
	dumpAll := func() string {
		buf := make([]byte, 4<<20)
		return string(buf[:runtime.Stack(buf, true)])
	}
	mine := fmt.Sprintf("main.(*c18Run).worker(%p,", s)
	allBlocked := func(dump string) bool {
		n, atBarrier := 0, 0
		for _, g := range strings.Split(dump, "\n\n") {
			if !strings.Contains(g, mine) {
				continue
			}
			n++
			head := g
			if i := strings.Index(g, "\n"); i >= 0 {
				head = g[:i]
			}
			if strings.Contains(g, "main.c18BarrierWait(") {
				// waits for the other goroutines of the run: blocked, as long as one of them waits for a lock
				atBarrier++
				continue
			}
			if !(strings.Contains(head, "[sync.Mutex.Lock") || strings.Contains(head, "[sync.RWMutex.RLock") || strings.Contains(head, "[sync.RWMutex.Lock") || strings.Contains(head, "[semacquire")) {
				return false
			}
		}
		return n > 0 && atBarrier < n
	}
	deadline := time.After(time.Duration(timeout) * time.Second)
	tick := time.NewTicker(1500 * time.Millisecond)
	defer tick.Stop()
	var stuckDump string
wait:
	for {
		select {
		case <-done:
			break wait
		case <-deadline:
			obs.Stuck = true
			stuckDump = dumpAll()
			if !allBlocked(stuckDump) {
				obs.StuckTags = append(obs.StuckTags, "stuck:timeout-not-blocked")
			}
			break wait
		case <-tick.C:
			before := doneCount.Load()
			if !allBlocked(dumpAll()) {
				continue
			}
			time.Sleep(700 * time.Millisecond)
			d2 := dumpAll()
			select {
			case <-done:
				break wait
			default:
			}
			if allBlocked(d2) && doneCount.Load() == before {
				obs.Stuck = true
				stuckDump = d2
				break wait
			}
		}
	}
	if obs.Stuck {
		obs.StuckTags = append(obs.StuckTags, c18ClassifyDump(stuckDump, mine)...)
		var keep []string
		for _, g := range strings.Split(stuckDump, "\n\n") {
			if strings.Contains(g, "git-bug/cache") && strings.Contains(g, mine) {
				keep = append(keep, g)
			}
		}
		obs.Dump = strings.Join(keep, "\n\n")
		if len(obs.Dump) > 12000 {
			obs.Dump = obs.Dump[:12000]
		}
	}
	obs.WallMs = time.Since(t0).Milliseconds()

	// copy what the goroutines recorded (a stuck goroutine may still own its current record: only Done ones are read)
	// (barriers and checkpoints are not cache calls: they are not part of the observation)
	var calls []c18Rec
	for t := range s.recs {
		for k := range s.recs[t] {
			if ck := in.Threads[t][k].K; ck == "barrier" || ck == "snap" {
				continue
			}
			r := s.recs[t][k]
			if !obs.Stuck || r.Done {
				calls = append(calls, r)
			} else {
				calls = append(calls, c18Rec{T: t, K: k, EditE: c18Unfinished})
			}
		}
	}
	obs.Calls = calls

	// every bug the run knows about
	bugIDs := map[string]bool{}
	for _, id := range s.shared {
		bugIDs[id.String()] = true
	}
	for _, r := range calls {
		if r.Bug != "" {
			bugIDs[r.Bug] = true
		}
	}

	if !last && !obs.Stuck && s.nothingWrongStored(calls, bugIDs) {
		_ = s.c.Close()
		os.RemoveAll(s.dir)
		return Case{}, true
	}

	obs.Flush = map[string]string{}
	flushClass := map[string]int{}
	var live c18View
	if !obs.Stuck {
		// what is on disk now is what the next process would load
		s.checkpoint("done")
		// the excerpts the goroutines left behind against the entities they belong to
		obs.Stale = c18StaleExcerpts(s.c)
		obs.StaleIndex = s.staleIndex(calls)
		// flush what was left staged, then look at the live cache, then close it
		var ids []string
		for id := range bugIDs {
			ids = append(ids, id)
		}
		sort.Strings(ids)
		for _, id := range ids {
			b, err := s.c.Bugs().Resolve(entity.Id(id))
			if err == nil {
				err = b.CommitAsNeeded()
			}
			flushClass[id] = c18Class(err)
			if err != nil {
				obs.Flush[id] = err.Error()
			}
		}
		live = c18Observe(s.c)
		if err := s.c.Close(); err != nil {
			obs.Notes = append(obs.Notes, "close: "+err.Error())
		}
	} else {
		for id := range bugIDs {
			flushClass[id] = c18Unfinished
		}
	}

	// the stored histories, on a fresh repository handle (for a stuck run: a second handle on the same directory)
	obs.Stored = map[string]c18Stored{}
	if r2, err := repository.OpenGoGitRepo(s.dir, "git-bug", nil); err != nil {
		obs.Notes = append(obs.Notes, "reopen repo: "+err.Error())
	} else {
		for id := range bugIDs {
			obs.Stored[id] = c18ReadStored(r2, entity.Id(id))
		}
		_ = r2.Close()
	}

	// the cache as it was saved, loaded again
	var lastLoaded map[string]string
	if !obs.Stuck {
		var notes []string
		obs.SavedStale, notes, lastLoaded = s.reloadChecks()
		obs.Checks = len(s.cks)
		obs.Notes = append(obs.Notes, notes...)
	}

	// cache against a rebuild from git
	if !obs.Stuck {
		for _, d := range c18CacheDirs(s.dir) {
			_ = os.RemoveAll(d)
		}
		if err := s.open(); err != nil {
			obs.Coherent = false
			obs.Diff = []string{"rebuild: " + err.Error()}
		} else {
			rebuilt := c18Observe(s.c)
			obs.Diff = c18Diff(live, rebuilt)
			obs.Coherent = len(obs.Diff) == 0
			// the cache the next process would have loaded, against git
			for id, have := range lastLoaded {
				if rb, ok := rebuilt.Bugs[id]; ok && rb.Excerpt != have && obs.SavedStale[id] == "" {
					obs.SavedStale[id] = fmt.Sprintf("checkpoint done: the saved cache, loaded again, holds {%s}; rebuilt from git {%s}", have, rb.Excerpt)
				}
			}
			_ = s.c.Close()
		}
		os.RemoveAll(s.dir)
	}
	// (a stuck run keeps its goroutines and its directory is removed anyway: they only hold memory)
	if obs.Stuck {
		os.RemoveAll(s.dir)
	}
	obs.TotalMs = time.Since(tStart).Milliseconds()
	return c18Render(in, raw, s, obs, flushClass), false
}

func c18Render(in c18Input, raw json.RawMessage, s *c18Run, obs c18Obs, flushClass map[string]int) Case {
	// numbering: bugs 1..S shared, then one per "new" call; operations: 1 + index of the issuing call
	// in thread-major order; create operations of shared bugs: 1000 + bug number; unknown: 0
	bugNo := map[string]int{}
	opNo := map[string]int{}
	for i, id := range s.shared {
		bugNo[id.String()] = i + 1
		opNo[id.String()] = 1000 + i + 1
	}
	next := len(s.shared) + 1
	for i, r := range obs.Calls {
		if r.OpID != "" {
			opNo[r.OpID] = i + 1
		}
		if r.Bug != "" && bugNo[r.Bug] == 0 {
			bugNo[r.Bug] = next
			next++
		}
	}
	var callTerms []string
	ncommitted, nacked, nerr := 0, 0, 0
	errKinds := map[string]bool{}
	for i, r := range obs.Calls {
		call := in.Threads[r.T][r.K]
		kind := "KRead"
		switch call.K {
		case "new":
			kind = "KNew"
		case "edit":
			kind = "(KEdit " + coqBool(call.Commit) + ")"
		case "commit":
			kind = "KCommit"
		}
		op := 0
		if r.OpID != "" {
			op = i + 1
		}
		e2 := r.CommE
		if !r.HasC {
			e2 = 7
		}
		callTerms = append(callTerms, fmt.Sprintf("mkcall %d %s %d %d %d %d", r.T, kind, bugNo[r.Bug], op, r.EditE, e2))
		if r.HasC && r.CommE == c18OK {
			ncommitted++
		}
		if r.OpID != "" && r.EditE == c18OK && (r.CommE == c18OK || r.CommE == c18NoPending) {
			nacked++
		}
		for _, e := range []int{r.EditE, r.CommE} {
			if e != c18OK {
				nerr++
				errKinds[[]string{"ok", "no-pending", "missing", "not-found", "other", "panic", "unfinished"}[e]] = true
			}
		}
	}
	var ids []string
	for id := range bugNo {
		ids = append(ids, id)
	}
	sort.Slice(ids, func(i, j int) bool { return bugNo[ids[i]] < bugNo[ids[j]] })
	var bugTerms, flushTerms []string
	maxPacks := 0
	for _, id := range ids {
		st := obs.Stored[id]
		var packs []string
		for _, p := range st.Packs {
			xs := make([]int, len(p))
			for i, o := range p {
				xs[i] = opNo[o]
			}
			packs = append(packs, coqNats(xs))
		}
		if len(st.Packs) > maxPacks {
			maxPacks = len(st.Packs)
		}
		read := "None"
		if st.ReadErr == "" {
			xs := make([]int, len(st.Read))
			for i, o := range st.Read {
				xs[i] = opNo[o]
			}
			read = coqSome(coqNats(xs))
		}
		times := make([]int, len(st.Times))
		for i, x := range st.Times {
			times[i] = int(x)
			if x > 20000 {
				times[i] = 20000 // (never seen: a run makes some hundred commits; unary numbers in Coq)
			}
		}
		bugTerms = append(bugTerms, fmt.Sprintf("mkbug %d %s %s %s %s", bugNo[id], coqList(packs), coqBool(st.Chain), read, coqNats(times)))
		flushTerms = append(flushTerms, coqPair(coqNat(bugNo[id]), coqNat(flushClass[id])))
	}
	evict := 0
	if in.CacheSize > 0 {
		evict = 1
		if in.CacheSize < len(in.Threads) {
			evict = 2
		}
	}
	bounded := c18Bounded(in)
	if bounded {
		evict = 3 // something is evicted, but never the bug of a handle in use
	}
	// the bugs whose excerpt was stale once the goroutines were done (0: a bug no call of the run knows)
	staleIDs := map[string]bool{}
	for id := range obs.Stale {
		staleIDs[id] = true
	}
	for id := range obs.StaleIndex {
		staleIDs[id] = true
	}
	var staleNos []int
	for id := range staleIDs {
		staleNos = append(staleNos, bugNo[id])
	}
	sort.Ints(staleNos)
	// the bugs whose excerpt in the saved cache files, loaded again, was not the one of the entity at some checkpoint
	var savedNos []int
	for id := range obs.SavedStale {
		savedNos = append(savedNos, bugNo[id])
	}
	sort.Ints(savedNos)
	// last field: unsynchronised accesses to a Go map seen by the race detector (filled in by the C18r driver)
	term := fmt.Sprintf("mkcase %d %d %s %s %s %s %s %s %s 0", evict, len(s.shared), coqList(callTerms), coqList(flushTerms), coqList(bugTerms), coqBool(obs.Stuck), coqBool(obs.Coherent), coqNats(staleNos), coqNats(savedNos))
	tags := []string{"flavor:" + in.Flavor, fmt.Sprintf("procs:%d", in.Procs), fmt.Sprintf("n:goroutines:%d", len(in.Threads)), fmt.Sprintf("evict:%d", evict)}
	if in.Reopen {
		tags = append(tags, "reopen")
	}
	if bounded {
		tags = append(tags, "lru-bounded")
	}
	if in.Shared == 0 {
		tags = append(tags, "fresh-repository")
	}
	if s.tmpfs {
		tags = append(tags, "disk:tmpfs")
	}
	if s.cut.Load() {
		tags = append(tags, "budget-cut")
	}
	if obs.Stuck {
		tags = append(tags, "stuck")
		tags = append(tags, obs.StuckTags...)
	}
	if len(staleIDs) > 0 {
		tags = append(tags, "stale-excerpt")
		// per stale bug: entityUpdated told a caller "entity missing from cache" about it (the entity was evicted
		// between the change and the notification); or only the full-text index is behind; or neither
		missed := map[string]bool{}
		for _, r := range obs.Calls {
			if r.Bug != "" && (r.EditE == c18Missing || r.CommE == c18Missing) {
				missed[r.Bug] = true
			}
		}
		kinds := map[string]bool{}
		for id := range staleIDs {
			_, ex := obs.Stale[id]
			switch {
			case missed[id]:
				kinds["stale:after-missing"] = true
			case !ex:
				kinds["stale:index-only"] = true
			default:
				kinds["stale:unexplained"] = true
			}
		}
		for k := range kinds {
			tags = append(tags, k)
		}
	}
	if obs.Checks > 1 {
		tags = append(tags, "checkpoints:mid-run")
	}
	for _, n := range obs.Notes {
		if strings.Contains(n, "saved cache not accepted") {
			tags = append(tags, "saved-cache-rebuilt")
			break
		}
	}
	if len(obs.SavedStale) > 0 {
		tags = append(tags, "saved-stale")
		// explained only the way a stale excerpt in memory is: entityUpdated refused the notification about that bug
		missed := map[string]bool{}
		for _, r := range obs.Calls {
			if r.Bug != "" && (r.EditE == c18Missing || r.CommE == c18Missing) {
				missed[r.Bug] = true
			}
		}
		unexplained := false
		for id := range obs.SavedStale {
			if !missed[id] {
				unexplained = true
			}
		}
		if unexplained {
			tags = append(tags, "saved-stale:unexplained")
			has := false
			for _, t := range tags {
				if t == "stale:unexplained" {
					has = true
				}
			}
			if !has {
				tags = append(tags, "stale:unexplained") // keeps the case out of every known finding's signature
			}
		} else {
			tags = append(tags, "saved-stale:after-missing")
		}
	}
	if !obs.Coherent {
		tags = append(tags, "incoherent")
		// the only difference: bugs whose NewBug call failed with "entity missing from cache" (stored, but
		// evicted before their excerpt was written) are unknown to the live cache
		failedNew := map[string]bool{}
		for _, r := range obs.Calls {
			if in.Threads[r.T][r.K].K == "new" && r.EditE == c18Missing && len(r.Bug) >= 7 {
				failedNew[r.Bug[:7]] = true
			}
		}
		// a NewBug that failed does not tell its id: a bug unknown to every successful call counts as one of them,
		// as long as there are not more such bugs than failed NewBug calls
		nFailedNew := 0
		knownBug := map[string]bool{}
		for _, r := range obs.Calls {
			if in.Threads[r.T][r.K].K == "new" && r.EditE == c18Missing {
				nFailedNew++
			}
			if len(r.Bug) >= 7 && !(in.Threads[r.T][r.K].K == "new" && r.EditE == c18Missing) {
				knownBug[r.Bug[:7]] = true
			}
		}
		for _, b := range s.shared {
			if len(b) >= 7 {
				knownBug[string(b)[:7]] = true
			}
		}
		only := nFailedNew > 0
		unknownMissing := 0
		for _, d := range obs.Diff {
			switch {
			case strings.HasPrefix(d, "missing from live cache: ") && failedNew[strings.TrimPrefix(d, "missing from live cache: ")]:
			case strings.HasPrefix(d, "missing from live cache: ") && !knownBug[strings.TrimPrefix(d, "missing from live cache: ")]:
				unknownMissing++
			case strings.HasPrefix(d, "query "):
			default:
				only = false
			}
		}
		if unknownMissing > nFailedNew {
			only = false
		}
		if only {
			tags = append(tags, "incoherent:failed-new-bug-only")
		} else {
			tags = append(tags, "incoherent:unexplained")
		}
	}
	// Go-side classification, for histograms and finding signatures only (the verdict is computed in Coq)
	lost, bad := false, false
	for _, r := range obs.Calls {
		call := in.Threads[r.T][r.K]
		acked := r.OpID != "" && r.EditE == c18OK && (call.K == "new" || (call.K == "edit" && call.Commit && (r.CommE == c18OK || r.CommE == c18NoPending)))
		if !acked {
			continue
		}
		n := 0
		for _, p := range obs.Stored[r.Bug].Packs {
			for _, o := range p {
				if o == r.OpID {
					n++
				}
			}
		}
		if n != 1 {
			lost = true
		}
	}
	clockBad := false
	for _, st := range obs.Stored {
		var flat []string
		for _, p := range st.Packs {
			flat = append(flat, p...)
		}
		if !st.Chain || st.ReadErr != "" || strings.Join(flat, ",") != strings.Join(st.Read, ",") {
			bad = true
		}
		for i := 1; i < len(st.Times); i++ {
			if st.Times[i] <= st.Times[i-1] {
				bad, clockBad = true, true
			}
		}
	}
	if clockBad {
		tags = append(tags, "edit-times-not-increasing")
	}
	if lost {
		tags = append(tags, "lost-ack")
	}
	if bad {
		tags = append(tags, "bad-history")
	}
	for k := range errKinds {
		tags = append(tags, "err:"+k)
	}
	sort.Strings(tags)
	// two goroutines edited the same bug successfully
	editors := map[string]map[int]bool{}
	sameBug := false
	for _, r := range obs.Calls {
		if in.Threads[r.T][r.K].K == "edit" && r.OpID != "" && r.EditE == c18OK {
			if editors[r.Bug] == nil {
				editors[r.Bug] = map[int]bool{}
			}
			editors[r.Bug][r.T] = true
			if len(editors[r.Bug]) >= 2 {
				sameBug = true
			}
		}
	}
	return Case{Coq: term, Obs: obs, Tags: tags, NonTrivial: len(in.Threads) >= 2 && (ncommitted >= 2 || (in.Flavor == "burst" && sameBug)), Key: string(raw)}
}

// ---- C18r: the same runs under the race detector ----
//
// The driver builds a second harness binary with -race (same sources, same /repo), runs one case in it
// and reads the detector's reports. Reports are evidence (tags, observation), with one exception:
// an unsynchronised access to a Go map is counted in the case (c_fatal), because the Go runtime turns
// it into "fatal error: concurrent map read and map write" — an unrecoverable crash of the process —
// whenever the two accesses really overlap.

type c18RaceDriver struct{}

func init() { register("C18r", c18RaceDriver{}) }

func (c18RaceDriver) Gen(r *Rand, tier string) []json.RawMessage {
	n := 4
	if tier == "thorough" {
		n = 60
	}
	var res []json.RawMessage
	// building the cache with several identities and bugs by different authors
	res = append(res, mustJSON(c18Input{Procs: 4, Shared: 1, Authors: 2, Rebuilds: 1, Flavor: "rebuild",
		Threads: [][]c18Call{{{K: "allids"}}, {{K: "allids"}}}}))
	flavors := []string{"reopen", "evict", "query", "mixed"}
	for i := 0; i < n; i++ {
		in := c18GenCase(r, flavors[i%len(flavors)], false)
		if len(in.Threads) > 4 {
			in.Threads = in.Threads[:4]
		}
		for t := range in.Threads {
			if len(in.Threads[t]) > 4 {
				in.Threads[t] = in.Threads[t][:4]
			}
		}
		if in.CacheSize > 0 && in.CacheSize < len(in.Threads) {
			in.CacheSize = len(in.Threads)
		}
		res = append(res, mustJSON(in))
	}
	return res
}

var c18RaceOnce sync.Once
var c18RaceBin, c18RaceErr string

func c18BuildRace() {
	root := os.Getenv("VERIF_ROOT")
	if root == "" {
		c18RaceErr = "VERIF_ROOT not set"
		return
	}
	// a harness built against another tree than /repo carries a tag in its name (vlib.REPO_TAG): its race twin is built
	// from the matching source directory and gets the same tag
	tag := ""
	if self, err := os.Executable(); err == nil {
		tag = strings.TrimPrefix(filepath.Base(self), "harness")
	}
	src := filepath.Join(root, ".work", "harness-build"+tag)
	bin := filepath.Join(root, ".work", "bin", "harness-race"+tag)
	lock, err := os.OpenFile(filepath.Join(root, ".work", "harness-race.lock"), os.O_CREATE|os.O_RDWR, 0o644)
	if err != nil {
		c18RaceErr = err.Error()
		return
	}
	defer lock.Close()
	if err := syscall.Flock(int(lock.Fd()), syscall.LOCK_EX); err != nil {
		c18RaceErr = err.Error()
		return
	}
	defer syscall.Flock(int(lock.Fd()), syscall.LOCK_UN)
	cmd := exec.Command("go", "build", "-race", "-tags", "verif", "-o", bin, ".")
	cmd.Dir = src
	cmd.Env = append(os.Environ(), "GOFLAGS=-mod=mod", "GOPROXY=off", "GOSUMDB=off", "GOTOOLCHAIN=local")
	out, err := cmd.CombinedOutput()
	if err != nil {
		c18RaceErr = "go build -race: " + err.Error() + ": " + string(out)
		return
	}
	c18RaceBin = bin
}

type c18RaceReport struct {
	A, B string // innermost git-bug frame of the two accesses, with the kind of access
	Map  bool   // one of the accesses is inside the runtime's map code
}

var c18HexRe = regexp.MustCompile(`\(0x[0-9a-f, x]*\)|\[go\.shape[^\]]*\]`)

func c18ParseRaces(stderr string) []c18RaceReport {
	var res []c18RaceReport
	parts := strings.Split(stderr, "WARNING: DATA RACE")
	for _, p := range parts[1:] {
		if i := strings.Index(p, "=================="); i >= 0 {
			p = p[:i]
		}
		blocks := strings.Split(strings.TrimSpace(p), "\n\n")
		var sides []string
		isMap := false
		for _, b := range blocks {
			lines := strings.Split(b, "\n")
			head := strings.TrimSpace(lines[0])
			if !(strings.HasPrefix(head, "Read at") || strings.HasPrefix(head, "Write at") || strings.HasPrefix(head, "Previous read at") || strings.HasPrefix(head, "Previous write at")) {
				continue
			}
			kind := "write"
			if strings.Contains(strings.ToLower(head), "read") {
				kind = "read"
			}
			frame := "?"
			first := true
			for _, l := range lines[1:] {
				if !strings.HasPrefix(l, "  ") || strings.HasPrefix(l, "      ") {
					continue
				}
				f := strings.TrimSpace(l)
				if first && strings.HasPrefix(f, "runtime.map") {
					isMap = true
				}
				first = false
				if i := strings.Index(f, "MichaelMure/git-bug/"); i >= 0 {
					frame = c18HexRe.ReplaceAllString(f[i+len("MichaelMure/git-bug/"):], "")
					break
				}
			}
			sides = append(sides, kind+" "+frame)
		}
		if len(sides) >= 2 {
			sort.Strings(sides[:2])
			res = append(res, c18RaceReport{A: sides[0], B: sides[1], Map: isMap})
		}
	}
	return res
}

func (c18RaceDriver) Run(raw json.RawMessage) Case {
	c18RaceOnce.Do(c18BuildRace)
	if c18RaceBin == "" {
		return Case{Skip: "no race-enabled harness: " + c18RaceErr}
	}
	f, err := os.CreateTemp("", "verif-c18r-*.jsonl")
	if err != nil {
		return Case{Skip: err.Error()}
	}
	defer os.Remove(f.Name())
	f.Write(raw)
	f.Write([]byte("\n"))
	f.Close()
	cmd := exec.Command(c18RaceBin, "worker", "C18", "-inputs", f.Name(), "-from", "0", "-to", "1")
	cmd.Env = append(os.Environ(), "GORACE=halt_on_error=0")
	var stdout, stderr strings.Builder
	cmd.Stdout = &stdout
	cmd.Stderr = &stderr
	runErr := cmd.Run()
	var c Case
	got := false
	for _, l := range strings.Split(stdout.String(), "\n") {
		if strings.HasPrefix(l, "CASE ") {
			if json.Unmarshal([]byte(l[5:]), &c) == nil {
				got = true
			}
		}
	}
	if !got {
		// the child died (for instance "fatal error: concurrent map read and map write"): die the same way,
		// so that the parent records a crash with this text
		msg := stderr.String()
		if i := strings.Index(msg, "fatal error"); i >= 0 {
			msg = msg[i:]
		}
		if len(msg) > 6000 {
			msg = msg[:6000]
		}
		fmt.Fprintf(os.Stderr, "race-enabled run died (%v):\n%s\n", runErr, msg)
		os.Exit(3)
	}
	if c.Skip != "" {
		return c
	}
	reports := c18ParseRaces(stderr.String())
	nmap := 0
	kinds := map[string]int{}
	for _, r := range reports {
		k := r.A + " || " + r.B
		if r.Map {
			nmap++
			k = "[map] " + k
		}
		kinds[k]++
	}
	var ks []string
	for k := range kinds {
		ks = append(ks, k)
	}
	sort.Strings(ks)
	var summary []string
	for _, k := range ks {
		summary = append(summary, fmt.Sprintf("%d x %s", kinds[k], k))
		c.Tags = append(c.Tags, "race:"+k)
	}
	if nmap > 0 {
		c.Tags = append(c.Tags, "race-on-map")
	}
	if len(reports) == 0 {
		c.Tags = append(c.Tags, "race:none")
	}
	sort.Strings(c.Tags)
	c.Coq = strings.TrimSuffix(c.Coq, " 0") + fmt.Sprintf(" %d", nmap)
	c.Obs = map[string]interface{}{"run": c.Obs, "race_reports": len(reports), "races_on_maps": nmap, "races": summary}
	c.Input = nil
	return c
}
