package main

// C05 (forged-clock part, finding F-clock): a remote serves a brand new bug whose root commit is
// valid by every rule but carries a chosen edit clock value. The victim merges it, then makes an
// ordinary edit of one of its own older bugs and reads that bug back.

import (
	"encoding/json"
	"fmt"
	"os"

	"github.com/MichaelMure/git-bug/entities/bug"
	"github.com/MichaelMure/git-bug/entities/identity"
	"github.com/MichaelMure/git-bug/entity"
	"github.com/MichaelMure/git-bug/entity/dag"
	"github.com/MichaelMure/git-bug/repository"
)

type c05fInput struct {
	Clock uint64 `json:"clock"` // edit clock of the forged root
}

type c05fDriver struct{}

func init() { register("C05f", c05fDriver{}) }

func (c05fDriver) Gen(r *Rand, tier string) []json.RawMessage {
	vals := []uint64{3, 50, 999999, 1000003, 1000004, 1000005, 5000000, 1 << 40, 18446744073709551614, 18446744073709551615}
	if tier == "thorough" {
		for i := 0; i < 60; i++ {
			vals = append(vals, r.U64()>>uint(r.Intn(63)))
		}
	}
	var res []json.RawMessage
	for _, v := range vals {
		if v == 0 {
			v = 1
		}
		res = append(res, mustJSON(c05fInput{Clock: v}))
	}
	return res
}

func (c05fDriver) Run(raw json.RawMessage) Case {
	var in c05fInput
	if err := json.Unmarshal(raw, &in); err != nil || in.Clock == 0 {
		return Case{Skip: "bad input"}
	}
	dir, err := os.MkdirTemp("", "verif-c05f-")
	if err != nil {
		panic(err)
	}
	defer os.RemoveAll(dir)
	repo, err := newTestRepo(dir+"/victim", false)
	if err != nil {
		panic(err)
	}
	defer repo.Close()
	me, err := identity.NewIdentity(repo, "victim", "v@x.org")
	if err != nil {
		panic(err)
	}
	_ = me.Commit(repo)
	own, _, err := bug.Create(me, 1600000000, "my old bug", "m", nil, nil)
	if err != nil {
		panic(err)
	}
	_, _, _ = bug.AddComment(own, me, 1600000001, "c", nil, nil)
	if err := own.Commit(repo); err != nil {
		panic(err)
	}
	ownEdit := uint64(own.EditLamportTime())
	clockBefore := clockOf(repo, "bugs-edit")

	// the forged root: a valid create operation by a known author, valid tree, chosen edit clock
	create := bug.NewCreateOp(me, 1600000100, "forged clock", "hello", nil)
	data, _ := json.Marshal(packJSON{Author: me, Operations: []dag.Operation{create}})
	var aux struct {
		Ops []json.RawMessage `json:"ops"`
	}
	_ = json.Unmarshal(data, &aux)
	fid := entity.DeriveId(aux.Ops[0])
	empty, _ := repo.StoreData([]byte{})
	blob, _ := repo.StoreData(data)
	tree, _ := repo.StoreTree([]repository.TreeEntry{
		{ObjectType: repository.Blob, Hash: empty, Name: "version-4"},
		{ObjectType: repository.Blob, Hash: blob, Name: "ops"},
		{ObjectType: repository.Blob, Hash: empty, Name: fmt.Sprintf("edit-clock-%d", in.Clock)},
		{ObjectType: repository.Blob, Hash: empty, Name: "create-clock-1"},
	})
	commit, _ := repo.StoreCommit(tree)
	if err := repo.UpdateRef("refs/remotes/origin/bugs/"+string(fid), commit); err != nil {
		panic(err)
	}
	status := "missing"
	res := entity.Resolvers{&identity.Identity{}: identity.NewSimpleResolver(repo)}
	for mr := range bug.MergeAll(repo, res, "origin", me) {
		if mr.Id == fid {
			switch {
			case mr.Err != nil:
				status = "error"
			case mr.Status == entity.MergeStatusNew:
				status = "new"
			case mr.Status == entity.MergeStatusInvalid:
				status = "invalid"
			default:
				status = "other"
			}
		}
	}
	clockAfter := clockOf(repo, "bugs-edit")
	// an ordinary edit of the victim's own, older bug
	b, err := bug.Read(repo, own.Id())
	if err != nil {
		panic(err)
	}
	_, _, _ = bug.AddComment(b, me, 1600000200, "ordinary edit", nil, nil)
	commitErr := b.Commit(repo)
	newEdit := uint64(0)
	readBack := false
	readErr := ""
	if commitErr == nil {
		newEdit = uint64(b.EditLamportTime())
		if _, err := bug.Read(repo, own.Id()); err == nil {
			readBack = true
		} else {
			readErr = err.Error()
		}
	} else {
		readErr = "commit: " + commitErr.Error()
	}
	st := map[string]string{"new": "FNew", "invalid": "FInvalid"}[status]
	if st == "" {
		st = "FOther"
	}
	term := fmt.Sprintf("mkcasef %d%%N %d%%N %d%%N %s %d%%N %s %d%%N %s", in.Clock, ownEdit, clockBefore, st, clockAfter, coqBool(commitErr == nil), newEdit, coqBool(readBack))
	tags := []string{"status:" + status}
	if in.Clock > ownEdit+1000000 {
		tags = append(tags, "forged-root-clock-far-ahead")
	}
	if in.Clock == 18446744073709551615 {
		tags = append(tags, "forged-root-clock-max")
	}
	obs := map[string]interface{}{"forged_clock": in.Clock, "own_edit": ownEdit, "clock_before": clockBefore, "status": status,
		"clock_after": clockAfter, "commit_ok": commitErr == nil, "new_edit": newEdit, "read_back": readBack, "err": readErr}
	return Case{Coq: term, Obs: obs, Tags: tags, NonTrivial: true, Key: string(raw)}
}
