package main

// C09 (and the identity side of C02): identity version chains on two replicas sharing a remote:
// common prefix p, local suffix a, remote suffix b, optionally a crafted invalid last remote
// version; identity.MergeAll on the local replica.

import (
	"encoding/json"
	"fmt"
	"os"
	"sort"
	"strings"

	"github.com/MichaelMure/git-bug/entities/identity"
	"github.com/MichaelMure/git-bug/entity"
	"github.com/MichaelMure/git-bug/repository"
)

type c09Ident struct {
	P     int    `json:"p"` // common versions (>= 1), 0: the identity is new on the remote
	A     int    `json:"a"` // local-only new versions
	B     int    `json:"b"` // remote-only new versions
	Craft string `json:"craft,omitempty"`
}
type c09Input struct {
	Idents []c09Ident `json:"idents"`
}

type c09Driver struct{}

func init() { register("C09", c09Driver{}) }

var c09Crafts = []string{"clock-decrease", "clock-drop", "no-name", "ctrl-char", "short-nonce", "clock-equal", "clock-add", "clock-swap", "clock-swap-2",
	"meta-ctrl-key", "meta-ctrl-value", "meta-fine", "avatar-c1"}

func (c09Driver) Gen(r *Rand, tier string) []json.RawMessage {
	var res []json.RawMessage
	// exhaustive shapes p<=3,a<=3,b<=3 (64 shapes + new-on-remote), grouped 4 identities per case
	var shapes []c09Ident
	for p := 0; p <= 3; p++ {
		for a := 0; a <= 3; a++ {
			for b := 0; b <= 3; b++ {
				if p == 0 && (a > 0 || b == 0) {
					continue
				}
				shapes = append(shapes, c09Ident{P: p, A: a, B: b})
			}
		}
	}
	for i := 0; i < len(shapes); i += 3 {
		j := i + 3
		if j > len(shapes) {
			j = len(shapes)
		}
		res = append(res, mustJSON(c09Input{Idents: shapes[i:j]}))
	}
	// every crafted kind of remote version, each on top of an identity the local side knows (fast-forward position)
	// and on one it does not know, in every run
	for _, k := range c09Crafts {
		res = append(res, mustJSON(c09Input{Idents: []c09Ident{{P: 1, A: 0, B: 2, Craft: k}, {P: 0, A: 0, B: 2, Craft: k}, {P: 2, A: 1, B: 1, Craft: k}}}))
	}
	n := 30
	if tier == "thorough" {
		n = 600
	}
	for c := 0; c < n; c++ {
		var in c09Input
		k := r.Range(1, 5)
		for i := 0; i < k; i++ {
			id := c09Ident{P: r.Range(0, 3), A: r.Range(0, 2), B: r.Range(0, 3)}
			if id.P == 0 {
				id.A = 0
				if id.B == 0 {
					id.B = 1
				}
			}
			if r.Chance(1, 3) {
				id.Craft = c09Crafts[r.Intn(len(c09Crafts))]
			}
			in.Idents = append(in.Idents, id)
		}
		res = append(res, mustJSON(in))
	}
	return res
}

func refCommits(repo repository.Repo, ref string) []string {
	ok, _ := repo.RefExist(ref)
	if !ok {
		return nil
	}
	hs, err := repo.ListCommits(ref)
	if err != nil {
		return nil
	}
	var res []string
	for _, h := range hs {
		res = append(res, string(h))
	}
	return res
}

type c09Version struct {
	Times    map[string]uint64 `json:"times"`
	Name     string            `json:"name"`
	Login    string            `json:"login"`
	Email    string            `json:"email"`
	Nonce    []byte            `json:"nonce"`
	Avatar   string            `json:"avatar_url"`
	Metadata map[string]string `json:"metadata"`
}

func readVersionBlob(repo repository.RepoData, commit string) (map[string]interface{}, c09Version, error) {
	c, err := repo.ReadCommit(repository.Hash(commit))
	if err != nil {
		return nil, c09Version{}, err
	}
	entries, err := repo.ReadTree(c.TreeHash)
	if err != nil || len(entries) != 1 {
		return nil, c09Version{}, fmt.Errorf("unexpected identity tree")
	}
	data, err := repo.ReadData(entries[0].Hash)
	if err != nil {
		return nil, c09Version{}, err
	}
	var m map[string]interface{}
	var v c09Version
	if err := json.Unmarshal(data, &m); err != nil {
		return nil, v, err
	}
	_ = json.Unmarshal(data, &v)
	return m, v, nil
}

// craftVersion appends a raw version commit on top of ref.
func craftVersion(repo repository.ClockedRepo, ref, kind string) error {
	commits := refCommits(repo, ref)
	m, _, err := readVersionBlob(repo, commits[len(commits)-1])
	if err != nil {
		return err
	}
	times, _ := m["times"].(map[string]interface{})
	var names []string
	for k := range times {
		names = append(names, k)
	}
	sort.Strings(names)
	m["unix_time"] = 1700000000
	m["name"] = "crafted"
	switch kind {
	case "clock-decrease":
		for _, n := range names {
			if v, _ := times[n].(float64); v >= 2 {
				times[n] = v - 1
				break
			}
		}
	case "clock-drop":
		delete(times, names[0])
	case "clock-equal": // valid
	case "clock-swap": // a clock is dropped while another one appears: as many clocks as before
		delete(times, names[0])
		times["zzz-extra"] = 3
	case "clock-swap-2": // one dropped, two added
		delete(times, names[len(names)-1])
		times["aaa-extra"] = 1
		times["zzz-extra"] = 3
	case "clock-add": // valid: one more clock than before
		times["zzz-extra"] = 3
	case "no-name":
		m["name"] = ""
		delete(m, "login")
	case "ctrl-char":
		m["name"] = "bad\u0007name"
	case "short-nonce":
		m["nonce"] = []byte("short")
	case "meta-ctrl-key":
		m["metadata"] = map[string]string{"key\u0000\u001b[2J": "value"}
	case "meta-ctrl-value":
		m["metadata"] = map[string]string{"key": "value\u0007\u0000"}
	case "meta-fine": // valid: a value may span lines
		m["metadata"] = map[string]string{"key": "first line\nsecond\tline"}
	case "avatar-c1":
		m["avatar_url"] = "http://example.com/a\u0085b\u009b2J.png"
	}
	data, err := json.Marshal(m)
	if err != nil {
		return err
	}
	blob, err := repo.StoreData(data)
	if err != nil {
		return err
	}
	tree, err := repo.StoreTree([]repository.TreeEntry{{ObjectType: repository.Blob, Hash: blob, Name: "version"}})
	if err != nil {
		return err
	}
	ch, err := repo.StoreCommit(tree, repository.Hash(commits[len(commits)-1]))
	if err != nil {
		return err
	}
	return repo.UpdateRef(ref, ch)
}

func (c09Driver) Run(raw json.RawMessage) Case {
	var in c09Input
	if err := json.Unmarshal(raw, &in); err != nil || len(in.Idents) == 0 {
		return Case{Skip: "bad input"}
	}
	dir, err := os.MkdirTemp("", "verif-c09-")
	if err != nil {
		panic(err)
	}
	defer os.RemoveAll(dir)
	remote, err := newTestRepo(dir+"/remote", true)
	if err != nil {
		panic(err)
	}
	defer remote.Close()
	repoA, _ := newTestRepo(dir+"/a", false) // publishes the "remote" versions
	repoB, _ := newTestRepo(dir+"/b", false) // the local side under test
	defer repoA.Close()
	defer repoB.Close()
	_ = repoA.AddRemote("origin", remote.GetLocalRemote())
	_ = repoB.AddRemote("origin", remote.GetLocalRemote())
	// give the version records some clocks with values >= 2
	_ = repoA.Witness("bugs-edit", 5)
	_ = repoA.Witness("bugs-create", 3)
	// the local side's clocks are ahead: a replica whose clocks are behind the ones recorded in a
	// fetched identity cannot add a version to it (Validate: non-chronological clock), which is
	// outside this property
	_ = repoB.Witness("bugs-edit", 50)
	_ = repoB.Witness("bugs-create", 30)

	n := len(in.Idents)
	ids := make([]entity.Id, n)
	mutate := func(repo repository.ClockedRepo, id entity.Id, tag string, k int) error {
		for j := 0; j < k; j++ {
			x, err := identity.ReadLocal(repo, id)
			if err != nil {
				return err
			}
			_, _ = repo.Increment("bugs-edit")
			if err := x.Mutate(repo, func(m *identity.Mutator) { m.Name = fmt.Sprintf("%s-%d-%s", tag, j, m.Name) }); err != nil {
				return err
			}
			if err := x.Commit(repo); err != nil {
				return err
			}
		}
		return nil
	}
	// phase 1: common prefixes
	for i, sp := range in.Idents {
		if sp.P == 0 {
			continue
		}
		x, err := identity.NewIdentity(repoA, fmt.Sprintf("ident%d", i), fmt.Sprintf("i%d@x.org", i))
		if err != nil {
			return Case{Skip: err.Error()}
		}
		if err := x.Commit(repoA); err != nil {
			return Case{Skip: err.Error()}
		}
		ids[i] = x.Id()
		if err := mutate(repoA, ids[i], "common", sp.P-1); err != nil {
			return Case{Skip: err.Error()}
		}
	}
	if _, err := identity.Push(repoA, "origin"); err != nil && !strings.Contains(err.Error(), "up-to-date") {
		return Case{Skip: "push1: " + err.Error()}
	}
	if err := identity.Pull(repoB, "origin"); err != nil && !strings.Contains(err.Error(), "remote repository is empty") {
		return Case{Skip: "pull1: " + err.Error()}
	}
	// phase 2: diverge
	for i, sp := range in.Idents {
		if sp.P == 0 {
			x, err := identity.NewIdentity(repoA, fmt.Sprintf("ident%d", i), fmt.Sprintf("i%d@x.org", i))
			if err != nil {
				return Case{Skip: err.Error()}
			}
			if err := x.Commit(repoA); err != nil {
				return Case{Skip: err.Error()}
			}
			ids[i] = x.Id()
			if err := mutate(repoA, ids[i], "remote", sp.B-1); err != nil {
				return Case{Skip: err.Error()}
			}
		} else {
			if err := mutate(repoB, ids[i], "local", sp.A); err != nil {
				return Case{Skip: err.Error()}
			}
			if err := mutate(repoA, ids[i], "remote", sp.B); err != nil {
				return Case{Skip: err.Error()}
			}
		}
		if sp.Craft != "" {
			if err := craftVersion(repoA, "refs/identities/"+string(ids[i]), sp.Craft); err != nil {
				return Case{Skip: "craft: " + err.Error()}
			}
		}
	}
	if _, err := identity.Push(repoA, "origin"); err != nil && !strings.Contains(err.Error(), "up-to-date") {
		return Case{Skip: "push2: " + err.Error()}
	}
	if _, err := identity.Fetch(repoB, "origin"); err != nil && !strings.Contains(err.Error(), "up-to-date") {
		return Case{Skip: "fetch: " + err.Error()}
	}
	before := make([][]string, n)
	remoteC := make([][]string, n)
	for i := range in.Idents {
		before[i] = refCommits(repoB, "refs/identities/"+string(ids[i]))
		remoteC[i] = refCommits(repoB, "refs/remotes/origin/identities/"+string(ids[i]))
	}
	// the merge under test
	status := make([]string, n)
	retLast := make([]string, n)
	for i := range status {
		status[i] = "missing"
	}
	idx := map[entity.Id]int{}
	for i, id := range ids {
		idx[id] = i
	}
	nres := 0
	for mr := range identity.MergeAll(repoB, "origin") {
		nres++
		i, ok := idx[mr.Id]
		if !ok {
			continue
		}
		switch {
		case mr.Err != nil:
			status[i] = "error"
		case mr.Status == entity.MergeStatusNew:
			status[i] = "new"
		case mr.Status == entity.MergeStatusNothing:
			status[i] = "nothing"
		case mr.Status == entity.MergeStatusUpdated:
			status[i] = "updated"
		case mr.Status == entity.MergeStatusInvalid:
			status[i] = "invalid"
		}
		if mr.Entity != nil {
			if x, ok := mr.Entity.(*identity.Identity); ok {
				// which version is the last one of the identity handed back: found through its name
				for _, c := range remoteC[i] {
					_, v, err := readVersionBlob(repoB, c)
					if err == nil && v.Name == x.Name() {
						retLast[i] = c
					}
				}
			}
		}
	}
	after := make([][]string, n)
	stable := make([]bool, n)
	var all []string
	clockNames := map[string]bool{}
	versions := make([][]c09Version, n)
	for i := range in.Idents {
		after[i] = refCommits(repoB, "refs/identities/"+string(ids[i]))
		stable[i] = true
		if len(after[i]) > 0 && len(before[i]) > 0 && after[i][0] != before[i][0] {
			stable[i] = false
		}
		if len(after[i]) > 0 {
			if x, err := identity.ReadLocal(repoB, ids[i]); err != nil || x.Id() != ids[i] {
				stable[i] = false
			}
		}
		all = append(all, before[i]...)
		all = append(all, remoteC[i]...)
		all = append(all, after[i]...)
		for _, c := range remoteC[i] {
			_, v, err := readVersionBlob(repoB, c)
			if err != nil {
				return Case{Skip: "read version: " + err.Error()}
			}
			versions[i] = append(versions[i], v)
			for k := range v.Times {
				clockNames[k] = true
			}
		}
	}
	cr := rankOf(all)
	var cn []string
	for k := range clockNames {
		cn = append(cn, k)
	}
	nr := rankOf(cn)
	chain := func(xs []string) string {
		ys := make([]string, len(xs))
		for i, x := range xs {
			ys[i] = fmt.Sprint(cr.m[x])
		}
		return "[" + strings.Join(ys, "; ") + "]%N"
	}
	safe := func(s string) bool {
		for _, r := range s {
			if r == '\n' || r == '\r' || r < 32 || (r >= 127 && r <= 159) {
				return false
			}
		}
		return true
	}
	// metadata: keys are one line, values may span lines (the rule of operations' metadata)
	safeMeta := func(m map[string]string) bool {
		for k, v := range m {
			if !safe(k) {
				return false
			}
			for _, r := range v {
				if r == '\n' || r == '\t' || r == '\r' {
					continue
				}
				if r < 32 || (r >= 127 && r <= 159) {
					return false
				}
			}
		}
		return true
	}
	var terms []string
	tags := map[string]bool{}
	for i, sp := range in.Idents {
		var vs []string
		for _, v := range versions[i] {
			var ts []string
			var ks []string
			for k := range v.Times {
				ks = append(ks, k)
			}
			sort.Strings(ks)
			for _, k := range ks {
				ts = append(ts, fmt.Sprintf("(%d, %d)", nr.m[k], v.Times[k]))
			}
			named := strings.TrimSpace(v.Name) != "" || strings.TrimSpace(v.Login) != ""
			vs = append(vs, fmt.Sprintf("{| v_times := [%s]%%N; v_named := %s; v_safe := %s; v_nonce := %d |}",
				strings.Join(ts, "; "), coqBool(named), coqBool(safe(v.Name) && safe(v.Login) && safe(v.Email) && safe(v.Avatar) && safeMeta(v.Metadata)), len(v.Nonce)))
		}
		st := map[string]string{"new": "INew", "nothing": "INothing", "updated": "IUpdated", "invalid": "IInvalid", "missing": "IMissing", "error": "IError"}[status[i]]
		ret := "None"
		if retLast[i] != "" {
			ret = fmt.Sprintf("(Some %d%%N)", cr.m[retLast[i]])
		}
		terms = append(terms, fmt.Sprintf("mkident %s %s %s %s %s %s %s", chain(before[i]), chain(remoteC[i]), coqList(vs), chain(after[i]), st, ret, coqBool(stable[i])))
		tags["status:"+status[i]] = true
		if sp.Craft != "" {
			tags["craft:"+sp.Craft] = true
		}
		switch {
		case sp.P == 0:
			tags["shape:new"] = true
		case sp.A > 0 && sp.B > 0:
			tags["shape:diverged"] = true
		case sp.B > 0:
			tags["shape:remote-ahead"] = true
		case sp.A > 0:
			tags["shape:local-ahead"] = true
		default:
			tags["shape:equal"] = true
		}
	}
	var tg []string
	for t := range tags {
		tg = append(tg, t)
	}
	sort.Strings(tg)
	obs := map[string]interface{}{"status": status, "results": nres, "before": before, "remote": remoteC, "after": after}
	return Case{Coq: "mkcase9 " + coqList(terms), Obs: obs, Tags: tg, NonTrivial: true, Key: string(raw)}
}
