package main

// C13 — id prefixes and combined comment ids resolve to exactly the right target.
//
// C13p (pure): entity.CombineIds / entity.SeparateIds on generated id pairs, every prefix length 0..64, plus mutated,
// over-long and foreign strings.
// C13c (population): a real cache.RepoCache on a temporary go-git repository holding generated bugs, comments and
// identities whose ids share engineered prefixes (ids are content hashes: the nonce-carrying operations / identity
// versions are re-created until the hash starts as wanted); ResolvePrefix, ResolveExcerptPrefix, ResolveComment and
// commands/select.Resolve are asked for every prefix length 0..64 of every id and combined id, plus foreign prefixes.
// The model receives the REAL id strings as code points; answers are positions in the (sorted) population.
// Every *BugCache a successful answer hands out is USED (Snapshot, which takes the entity's lock) under a watchdog: an
// instance evicted from the sub-cache is locked for ever, so a resolution that returns one returns nothing usable. The same
// questions are asked again with room for only 0..3 loaded entities (SetCacheSize), where resolving one entity evicts others.

import (
	"encoding/json"
	"errors"
	"fmt"
	"os"
	"runtime"
	"sort"
	"strings"
	"time"

	"github.com/99designs/keyring"

	"github.com/MichaelMure/git-bug/cache"
	_select "github.com/MichaelMure/git-bug/commands/select"
	"github.com/MichaelMure/git-bug/entities/bug"
	"github.com/MichaelMure/git-bug/entities/identity"
	"github.com/MichaelMure/git-bug/entity"
	"github.com/MichaelMure/git-bug/repository"
)

func init() {
	register("C13p", c13pDriver{})
	register("C13c", c13cDriver{})
}

const c13Hex = "0123456789abcdef"
const c13Alnum = "0123456789abcdefghijklmnopqrstuvwxyz"

func c13RandStr(r *Rand, alphabet string, n int) string {
	b := make([]byte, n)
	for i := range b {
		b[i] = alphabet[r.Intn(len(alphabet))]
	}
	return string(b)
}

// ------------------------------------------------------------------ pure part

type c13pRaw struct {
	K     int    `json:"k"`               // prefix length of the combined id to start from
	Pos   int    `json:"pos"`             // position to alter (-1: none)
	Ch    string `json:"ch,omitempty"`    // replacement symbol
	Extra string `json:"extra,omitempty"` // appended
}
type c13pInput struct {
	Kind string    `json:"kind"`
	Prim string    `json:"prim"`
	Sec  string    `json:"sec"`
	Raws []c13pRaw `json:"raws"`
}

type c13pDriver struct{}

func (c13pDriver) Gen(r *Rand, tier string) []json.RawMessage {
	n := 200
	if tier == "thorough" {
		n = 4000
	}
	var res []json.RawMessage
	for i := 0; i < n; i++ {
		in := c13pInput{}
		alpha := c13Hex
		switch r.Intn(8) {
		case 0, 1, 2:
			in.Kind = "random"
			in.Prim, in.Sec = c13RandStr(r, alpha, 64), c13RandStr(r, alpha, 64)
		case 3:
			in.Kind = "alnum"
			in.Prim, in.Sec = c13RandStr(r, c13Alnum, 64), c13RandStr(r, c13Alnum, 64)
		case 4:
			// the first comment of a bug: its operation id is the bug id
			in.Kind = "same"
			in.Prim = c13RandStr(r, alpha, 64)
			in.Sec = in.Prim
		case 5, 6:
			// long shared prefix, then different
			in.Kind = "shared"
			l := r.Range(1, 63)
			in.Prim = c13RandStr(r, alpha, 64)
			in.Sec = in.Prim[:l] + c13RandStr(r, alpha, 64-l)
		default:
			// the secondary is the primary shifted by one: neighbouring symbols coincide across the two ids
			in.Kind = "shifted"
			in.Prim = c13RandStr(r, alpha, 64)
			in.Sec = in.Prim[1:] + c13RandStr(r, alpha, 1)
		}
		// strings that are (almost) prefixes of the combined id
		for j := 0; j < 6; j++ {
			k := r.Range(1, 64)
			raw := c13pRaw{K: k, Pos: -1}
			switch r.Intn(4) {
			case 0: // one symbol altered
				raw.Pos = r.Intn(k)
				raw.Ch = string(c13Alnum[r.Intn(len(c13Alnum))])
			case 1: // last symbol altered
				raw.Pos = k - 1
				raw.Ch = string(c13Hex[r.Intn(16)])
			case 2: // over-long or extended
				raw.K = r.Range(60, 64)
				raw.Extra = c13RandStr(r, c13Hex, r.Range(1, 12))
			default: // upper case
				raw.Pos = -2
			}
			in.Raws = append(in.Raws, raw)
		}
		in.Raws = append(in.Raws, c13pRaw{K: 0, Pos: -1, Extra: c13RandStr(r, c13Hex, r.Range(1, 80))})
		res = append(res, mustJSON(in))
	}
	return res
}

func c13Valid(s string) bool {
	if len(s) != 64 {
		return false
	}
	for _, c := range s {
		if c > 126 || c < 33 {
			return false
		}
	}
	return true
}

func (c13pDriver) Run(raw json.RawMessage) Case {
	var in c13pInput
	if err := json.Unmarshal(raw, &in); err != nil || !c13Valid(in.Prim) || !c13Valid(in.Sec) {
		return Case{Skip: "bad input"}
	}
	comb := string(entity.CombineIds(entity.Id(in.Prim), entity.Id(in.Sec)))
	var seps []string
	var obs struct {
		Comb string   `json:"combined"`
		Seps []string `json:"separate_p|s"`
	}
	obs.Comb = comb
	for k := 0; k <= 64; k++ {
		x := comb
		if k < len(comb) {
			x = comb[:k]
		}
		p, s := entity.SeparateIds(x)
		seps = append(seps, coqPair(coqRunes(p), coqRunes(s)))
		if k%16 == 7 || k == 64 {
			obs.Seps = append(obs.Seps, fmt.Sprintf("%d:%s|%s", k, p, s))
		}
	}
	var raws []string
	for _, rs := range in.Raws {
		k := rs.K
		if k > len(comb) {
			k = len(comb)
		}
		if k < 0 {
			k = 0
		}
		x := []byte(comb[:k])
		if rs.Pos >= 0 && rs.Pos < len(x) && len(rs.Ch) == 1 && rs.Ch[0] < 127 && rs.Ch[0] > 32 {
			x[rs.Pos] = rs.Ch[0]
		}
		xs := string(x)
		if rs.Pos == -2 {
			xs = strings.ToUpper(xs)
		}
		for _, c := range rs.Extra {
			if c > 32 && c < 127 {
				xs += string(c)
			}
		}
		p, s := entity.SeparateIds(xs)
		raws = append(raws, coqPair(coqRunes(xs), coqPair(coqRunes(p), coqRunes(s))))
	}
	term := fmt.Sprintf("mkpcase %s %s %s %s %s", coqRunes(in.Prim), coqRunes(in.Sec), coqRunes(comb), coqList(seps), coqList(raws))
	return Case{Coq: term, Obs: obs, Tags: []string{"kind:" + in.Kind}, NonTrivial: true, Key: in.Prim + "/" + in.Sec}
}

// ------------------------------------------------------------------ population part

type c13cIdent struct {
	With     int  `json:"with"`  // earlier identity whose id prefix is to be shared (-1: none)
	Share    int  `json:"share"` // number of shared leading symbols
	ViaCache bool `json:"via_cache,omitempty"`
}
type c13cComment struct {
	WithBug int `json:"with_bug"` // (bug, comment) whose operation id prefix is to be shared; comment 0 is the bug's create operation
	WithCom int `json:"with_com"`
	Share   int `json:"share"`
}
type c13cBug struct {
	With     int           `json:"with"`
	Share    int           `json:"share"`
	ViaCache bool          `json:"via_cache,omitempty"` // created through cache.Bugs().NewRaw after the cache is open (ids not engineered)
	Comments []c13cComment `json:"comments"`            // comments after the first
	Extra    int           `json:"extra,omitempty"`     // further operations that add no comment (set-title, edit-comment)
	Split    int           `json:"split,omitempty"`     // commit after this many operations, then commit the rest
}
type c13cInput struct {
	Idents   []c13cIdent `json:"idents"`
	Bugs     []c13cBug   `json:"bugs"`
	Reopen   bool        `json:"reopen"` // close and reopen the cache (excerpts loaded from the cache files) before asking
	QSeed    uint64      `json:"qseed"`
	NForeign int         `json:"nforeign"`
	// bounds on the number of loaded entities (SetCacheSize) under which the shortest identifying prefixes are asked again,
	// the objects handed out being used; absent: derived from qseed, [-1]: none
	CacheSizes []int `json:"cache_sizes,omitempty"`
}

// c13CacheSizes: two small bounds, 1 most often (every load of another candidate evicts the previous one)
func c13CacheSizes(in *c13cInput) []int {
	if len(in.CacheSizes) > 0 {
		var res []int
		for _, s := range in.CacheSizes {
			if s >= 0 && s <= 8 && len(res) < 3 {
				res = append(res, s)
			}
		}
		return res
	}
	cr := NewRand(in.QSeed ^ 0x13c13c13)
	a := []int{1, 1, 2, 0}[cr.Intn(4)]
	b := []int{2, 3, 1}[cr.Intn(3)]
	if a == b {
		b = 3
	}
	return []int{a, b}
}

// c13Use runs one use of an object handed out by a resolution (a call that takes the object's lock) and reports whether it
// returned. A use that has not returned after a second is looked up in the goroutine dump: waiting for the object's mutex in
// this single-threaded scenario means that the instance was locked by the eviction, for ever. Anything else (a slow machine)
// is waited for, up to a minute.
func c13Use(use func()) bool {
	done := make(chan struct{})
	go c13UseGo(use, done)
	t := time.NewTimer(time.Second)
	defer t.Stop()
	for waited := 0; waited < 60; waited++ {
		select {
		case <-done:
			return true
		case <-t.C:
		}
		buf := make([]byte, 1<<22)
		buf = buf[:runtime.Stack(buf, true)]
		for _, g := range strings.Split(string(buf), "\n\n") {
			if !strings.Contains(g, "main.c13UseGo") {
				continue
			}
			head := g
			if i := strings.IndexByte(g, '\n'); i > 0 {
				head = g[:i]
			}
			if strings.Contains(head, "Mutex") || strings.Contains(head, "semacquire") {
				return false
			}
		}
		t.Reset(time.Second)
	}
	return false
}

func c13UseGo(use func(), done chan struct{}) {
	use()
	close(done)
}

type c13cDriver struct{}

func c13Share(r *Rand, max int) int {
	// 0: half of the time; otherwise 1..max, small values more often
	if r.Chance(1, 2) {
		return 0
	}
	s := 1
	for s < max && r.Chance(1, 2) {
		s++
	}
	return s
}

func (c13cDriver) Gen(r *Rand, tier string) []json.RawMessage {
	n, maxBugs, maxShare := 40, 9, 3
	if tier == "thorough" {
		n, maxBugs, maxShare = 800, 14, 3
	}
	var res []json.RawMessage
	for i := 0; i < n; i++ {
		in := c13cInput{Reopen: r.Chance(1, 3), QSeed: r.U64(), NForeign: 30}
		ni := r.Range(1, 5)
		for j := 0; j < ni; j++ {
			id := c13cIdent{With: -1}
			if j > 0 && r.Chance(1, 4) {
				id.ViaCache = true
			} else if j > 0 {
				id.With, id.Share = r.Intn(j), c13Share(r, 2)
				if in.Idents[id.With].ViaCache {
					id.With, id.Share = -1, 0
				}
			}
			in.Idents = append(in.Idents, id)
		}
		nb := r.Range(2, maxBugs)
		nvia := 0
		if r.Chance(1, 2) {
			nvia = r.Range(1, 2)
		}
		for j := 0; j < nb; j++ {
			b := c13cBug{With: -1}
			if j >= nb-nvia && j > 0 {
				b.ViaCache = true
				nc := r.Range(0, 3)
				for k := 0; k < nc; k++ {
					b.Comments = append(b.Comments, c13cComment{WithBug: -1})
				}
				in.Bugs = append(in.Bugs, b)
				continue
			}
			if j > 0 {
				b.With, b.Share = r.Intn(j), c13Share(r, maxShare)
			}
			nc := r.Range(0, 4)
			for k := 0; k < nc; k++ {
				c := c13cComment{WithBug: -1}
				switch r.Intn(4) {
				case 0: // an earlier comment of the same bug (or the bug's own id)
					c.WithBug, c.WithCom, c.Share = j, r.Intn(k+1), c13Share(r, maxShare)
				case 1, 2: // a comment of an earlier bug: together with shared bug ids this gives combined ids with a common prefix
					if j > 0 {
						c.WithBug = r.Intn(j)
						if b.With >= 0 && r.Chance(2, 3) {
							c.WithBug = b.With
						}
						c.WithCom, c.Share = r.Intn(len(in.Bugs[c.WithBug].Comments)+1), c13Share(r, maxShare)
					}
				}
				if c.Share == 0 {
					c.WithBug, c.WithCom = -1, 0
				}
				b.Comments = append(b.Comments, c)
			}
			b.Extra = r.Intn(3)
			if r.Chance(1, 3) {
				b.Split = r.Range(1, 1+len(b.Comments))
			}
			in.Bugs = append(in.Bugs, b)
		}
		res = append(res, mustJSON(in))
	}
	return res
}

// c13Until re-creates a nonce-carrying object until its content hash starts with want.
func c13Until(want string, mk func(n int) string) bool {
	limit := 400
	for i := 0; i < len(want); i++ {
		limit *= 16
	}
	for n := 0; n < limit; n++ {
		if strings.HasPrefix(mk(n), want) {
			return true
		}
	}
	return false
}

func c13OpenRepo(dir string) (repository.TestedRepo, error) {
	r, err := repository.OpenGoGitRepo(dir, "git-bug", nil)
	if err != nil {
		return nil, err
	}
	return krRepo{TestedRepo: r, kr: keyring.NewArrayKeyring(nil)}, nil
}

type c13Pop struct {
	bugIDs   []string
	bugIdx   map[string]int
	comments [][][2]string // per bug: (operation id, observed combined id)
	identIDs []string
	identIdx map[string]int
}

// c13Obs renders an answer as a K_C13c.obs term.
func (p *c13Pop) multiple(err error, idx map[string]int) (string, bool) {
	var mm *entity.ErrMultipleMatch
	if !errors.As(err, &mm) {
		return "", false
	}
	var xs []int
	for _, id := range mm.Matching {
		i, ok := idx[string(id)]
		if !ok {
			return "OUnknown", true
		}
		xs = append(xs, i)
	}
	sort.Ints(xs)
	return "(OMultiple " + coqNats(xs) + ")", true
}

func (p *c13Pop) entityObs(id string, err error, idx map[string]int) string {
	if err == nil {
		if i, ok := idx[id]; ok {
			return fmt.Sprintf("(OFound %d)", i)
		}
		return "OUnknown"
	}
	if t, ok := p.multiple(err, idx); ok {
		return t
	}
	if entity.IsErrNotFound(err) {
		return "ONotFound"
	}
	return "OOther"
}

type c13Run struct {
	api, base, tweak string
	cap, from        int
	obs              []string // one per prefix length
}

func (ru c13Run) coq() string {
	var segs []string
	for i := 0; i < len(ru.obs); {
		j := i
		for j < len(ru.obs) && ru.obs[j] == ru.obs[i] {
			j++
		}
		segs = append(segs, coqPair(ru.obs[i], fmt.Sprint(j-i)))
		i = j
	}
	return fmt.Sprintf("mkrun %s %s %s %d%%N %d %s", ru.api, ru.base, ru.tweak, ru.cap, ru.from, coqList(segs))
}

func c13Tweak(kind string, ch byte, x string) string {
	switch kind {
	case "upper":
		return strings.ToUpper(x)
	case "mut":
		if x == "" {
			return ""
		}
		return x[:len(x)-1] + string(ch)
	case "snoc":
		return x + string(ch)
	}
	return x
}

func (c13cDriver) Run(raw json.RawMessage) Case {
	var in c13cInput
	if err := json.Unmarshal(raw, &in); err != nil || len(in.Idents) == 0 || len(in.Bugs) == 0 {
		return Case{Skip: "bad input"}
	}
	for i, id := range in.Idents {
		if id.With >= i || id.Share < 0 || id.Share > 4 || (i == 0 && id.ViaCache) {
			return Case{Skip: "bad identity spec"}
		}
	}
	for i, b := range in.Bugs {
		if b.With >= i || b.Share < 0 || b.Share > 4 {
			return Case{Skip: "bad bug spec"}
		}
		for k, c := range b.Comments {
			if c.Share < 0 || c.Share > 4 || c.WithBug > i || (c.WithBug == i && c.WithCom > k) ||
				(c.WithBug >= 0 && c.WithBug < i && c.WithCom > len(in.Bugs[c.WithBug].Comments)) || c.WithCom < 0 {
				return Case{Skip: "bad comment spec"}
			}
		}
	}
	dir, err := os.MkdirTemp("", "verif-c13-")
	if err != nil {
		panic(err)
	}
	defer os.RemoveAll(dir)
	repo, err := newTestRepo(dir, false)
	if err != nil {
		panic(err)
	}
	closed := false
	defer func() {
		if !closed {
			repo.Close()
		}
	}()

	// ---- entity level: identities and bugs with engineered ids, committed before any cache exists
	identIDs := make([]string, len(in.Idents))
	var author *identity.Identity
	for i, spec := range in.Idents {
		if spec.ViaCache {
			continue
		}
		want := ""
		if spec.With >= 0 && identIDs[spec.With] != "" {
			want = identIDs[spec.With][:spec.Share]
		}
		var made *identity.Identity
		ok := c13Until(want, func(n int) string {
			id, err := identity.NewIdentity(repo, fmt.Sprintf("user %d", i), fmt.Sprintf("u%d@example.org", i))
			if err != nil {
				panic(err)
			}
			made = id
			return string(id.Id())
		})
		if !ok {
			return Case{Skip: "no identity id with the wanted prefix"}
		}
		if err := made.Commit(repo); err != nil {
			panic(err)
		}
		identIDs[i] = string(made.Id())
		if author == nil {
			author = made
		}
	}
	bugIDs := make([]string, len(in.Bugs))
	opIDs := make([][]string, len(in.Bugs)) // operation ids of the comments, [0] = the bug id
	var t int64 = 1600000000
	maxShare := map[string]int{}
	note := func(k string, v int) {
		if v > maxShare[k] {
			maxShare[k] = v
		}
	}
	for i, spec := range in.Bugs {
		if spec.ViaCache {
			continue
		}
		want := ""
		if spec.With >= 0 && bugIDs[spec.With] != "" {
			want = bugIDs[spec.With][:spec.Share]
		}
		note("bug", len(want))
		t++
		var create *bug.CreateOperation
		if !c13Until(want, func(n int) string {
			create = bug.NewCreateOp(author, t, fmt.Sprintf("bug %d", i), fmt.Sprintf("first message of bug %d", i), nil)
			return string(create.Id())
		}) {
			return Case{Skip: "no bug id with the wanted prefix"}
		}
		b := bug.NewBug()
		b.Append(create)
		bugIDs[i] = string(create.Id())
		opIDs[i] = []string{bugIDs[i]}
		nops := 1
		commitIfSplit := func() {
			if spec.Split > 0 && nops == spec.Split {
				if err := b.Commit(repo); err != nil {
					panic(err)
				}
			}
		}
		commitIfSplit()
		for k, cs := range spec.Comments {
			want := ""
			if cs.WithBug >= 0 && cs.WithBug < len(opIDs) && cs.WithCom < len(opIDs[cs.WithBug]) {
				want = opIDs[cs.WithBug][cs.WithCom][:cs.Share]
			}
			if cs.WithBug == i {
				note("op-same-bug", len(want))
			} else if cs.WithBug >= 0 {
				note("op-other-bug", len(want))
			}
			t++
			var add *bug.AddCommentOperation
			if !c13Until(want, func(n int) string {
				add = bug.NewAddCommentOp(author, t, fmt.Sprintf("comment %d of bug %d", k+1, i), nil)
				return string(add.Id())
			}) {
				return Case{Skip: "no operation id with the wanted prefix"}
			}
			b.Append(add)
			opIDs[i] = append(opIDs[i], string(add.Id()))
			nops++
			commitIfSplit()
		}
		for k := 0; k < spec.Extra; k++ {
			t++
			if k%2 == 0 {
				b.Append(bug.NewSetTitleOp(author, t, fmt.Sprintf("bug %d retitled %d", i, k), fmt.Sprintf("bug %d", i)))
			} else {
				b.Append(bug.NewEditCommentOp(author, t, entity.Id(opIDs[i][len(opIDs[i])-1]), fmt.Sprintf("edited text %d", k), nil))
			}
		}
		if b.NeedCommit() {
			if err := b.Commit(repo); err != nil {
				panic(err)
			}
		}
	}

	// ---- the cache
	rc, err := cache.NewRepoCacheNoEvents(repo)
	if err != nil {
		panic(err)
	}
	closeCache := func() {
		if err := rc.Close(); err != nil {
			panic(err)
		}
		closed = true
	}
	defer func() {
		if !closed {
			_ = rc.Close()
			closed = true
		}
	}()
	authorC, err := rc.Identities().Resolve(author.Id())
	if err != nil {
		panic(err)
	}
	for i, spec := range in.Idents {
		if spec.ViaCache {
			ic, err := rc.Identities().New(fmt.Sprintf("cache user %d", i), fmt.Sprintf("c%d@example.org", i))
			if err != nil {
				panic(err)
			}
			identIDs[i] = string(ic.Id())
		}
	}
	for i, spec := range in.Bugs {
		if !spec.ViaCache {
			continue
		}
		t++
		bc, _, err := rc.Bugs().NewRaw(authorC, t, fmt.Sprintf("cache bug %d", i), fmt.Sprintf("first message of bug %d", i), nil, nil)
		if err != nil {
			panic(err)
		}
		bugIDs[i] = string(bc.Id())
		for k := range spec.Comments {
			t++
			if _, _, err := bc.AddCommentRaw(authorC, t, fmt.Sprintf("comment %d of bug %d", k+1, i), nil, nil); err != nil {
				panic(err)
			}
		}
	}
	if in.Reopen {
		closeCache()
		repo, err = c13OpenRepo(dir)
		if err != nil {
			panic(err)
		}
		closed = false
		rc, err = cache.NewRepoCacheNoEvents(repo)
		if err != nil {
			panic(err)
		}
	}

	// ---- the population as the cache presents it
	pop := &c13Pop{bugIdx: map[string]int{}, identIdx: map[string]int{}}
	for _, id := range rc.Bugs().AllIds() {
		pop.bugIDs = append(pop.bugIDs, string(id))
	}
	for _, id := range rc.Identities().AllIds() {
		pop.identIDs = append(pop.identIDs, string(id))
	}
	sort.Strings(pop.bugIDs)
	sort.Strings(pop.identIDs)
	for i, id := range pop.bugIDs {
		pop.bugIdx[id] = i
	}
	for i, id := range pop.identIDs {
		pop.identIdx[id] = i
	}
	if len(pop.bugIDs) != len(in.Bugs) || len(pop.identIDs) != len(in.Idents) {
		return Case{Skip: fmt.Sprintf("population differs from the request: %d bugs, %d identities", len(pop.bugIDs), len(pop.identIDs))}
	}
	ncom := 0
	for _, id := range pop.bugIDs {
		bc, err := rc.Bugs().Resolve(entity.Id(id))
		if err != nil {
			panic(err)
		}
		var cs [][2]string
		for _, c := range bc.Snapshot().Comments {
			cs = append(cs, [2]string{string(c.TargetId()), string(c.CombinedId())})
		}
		ncom += len(cs)
		pop.comments = append(pop.comments, cs)
	}

	// ---- the questions
	counts := map[string]int{}
	count := func(o string) {
		k := o
		if i := strings.IndexByte(o, ' '); i > 0 {
			k = o[1:i]
		}
		counts[k]++
	}
	// the object handed out is used; a use that blocks for ever costs a second: after a few of them the remaining
	// small-cache questions are dropped (the case fails anyway)
	nLocked, lockedBudget := 0, 6
	locked := func(o string) string {
		nLocked++
		lockedBudget--
		return "(OLocked " + o + ")"
	}
	useBug := func(bc *cache.BugCache) bool {
		return c13Use(func() { _ = bc.Snapshot() })
	}
	askBug := func(p string) string {
		bc, err := rc.Bugs().ResolvePrefix(p)
		id := ""
		if err == nil {
			id = string(bc.Id())
		}
		o := pop.entityObs(id, err, pop.bugIdx)
		if err == nil && !useBug(bc) {
			return locked(o)
		}
		return o
	}
	askBugEx := func(p string) string {
		ex, err := rc.Bugs().ResolveExcerptPrefix(p)
		id := ""
		if err == nil {
			id = string(ex.Id())
		}
		return pop.entityObs(id, err, pop.bugIdx)
	}
	askIdent := func(p string) string {
		ic, err := rc.Identities().ResolvePrefix(p)
		id := ""
		if err == nil {
			id = string(ic.Id())
		}
		return pop.entityObs(id, err, pop.identIdx)
	}
	// an identity is used by CommitAsNeeded (nothing to commit; it takes the lock, then refreshes the excerpt): only asked
	// in the small-cache questions
	askIdentUse := func(p string) string {
		ic, err := rc.Identities().ResolvePrefix(p)
		id := ""
		if err == nil {
			id = string(ic.Id())
		}
		o := pop.entityObs(id, err, pop.identIdx)
		if err == nil && !c13Use(func() { _ = ic.CommitAsNeeded() }) {
			return locked(o)
		}
		return o
	}
	askIdentEx := func(p string) string {
		ex, err := rc.Identities().ResolveExcerptPrefix(p)
		id := ""
		if err == nil {
			id = string(ex.Id())
		}
		return pop.entityObs(id, err, pop.identIdx)
	}
	askComment := func(p string) string {
		bc, cid, err := rc.Bugs().ResolveComment(p)
		if err != nil {
			if t, ok := pop.multiple(err, pop.bugIdx); ok {
				return t
			}
			return "ONoComment" // a plain error in the code under test; any non-multiple error means "no such comment"
		}
		b, ok := pop.bugIdx[string(bc.Id())]
		if !ok {
			return "OUnknown"
		}
		o := "OUnknown"
		for j, c := range pop.comments[b] {
			if c[1] == string(cid) {
				o = fmt.Sprintf("(OFoundC %d %d %d)", b, b, j)
				break
			}
		}
		for cb, cs := range pop.comments {
			for j, c := range cs {
				if o == "OUnknown" && c[1] == string(cid) {
					o = fmt.Sprintf("(OFoundC %d %d %d)", b, cb, j)
				}
			}
		}
		if !useBug(bc) {
			return locked(o)
		}
		return o
	}
	// select.Resolve with the stored selection set as asked (a dangling selection is removed by the code, so it is
	// written again before every call)
	askSelect := func(sel string, nrest int) func(p string) string {
		return func(p string) string {
			if sel == "" {
				_ = _select.Clear(rc, bug.Namespace)
			} else if err := _select.Select(rc, bug.Namespace, entity.Id(sel)); err != nil {
				panic(err)
			}
			args := []string{p}
			for i := 0; i < nrest; i++ {
				args = append(args, fmt.Sprintf("arg%d", i))
			}
			bc, rest, err := _select.Resolve[*cache.BugCache](rc, bug.Typename, bug.Namespace, rc.Bugs(), args)
			if err != nil {
				if t, ok := pop.multiple(err, pop.bugIdx); ok {
					return t
				}
				if _select.IsErrNoValidId(err) {
					return "ONoValidId"
				}
				if entity.IsErrNotFound(err) {
					return "ONotFound"
				}
				return "OOther"
			}
			i, ok := pop.bugIdx[string(bc.Id())]
			if !ok {
				return "OUnknown"
			}
			o := fmt.Sprintf("(OSelFound %d %d)", i, len(rest))
			if !useBug(bc) {
				return locked(o)
			}
			return o
		}
	}

	var runs []c13Run
	nq := 0
	capNow := 1000 // cache.defaultMaxLoadedBugs
	sweep := func(api string, ask func(string) string, base, str, tweakTerm, tweakKind string, ch byte, from, to int) {
		ru := c13Run{api: api, base: base, tweak: tweakTerm, cap: capNow, from: from}
		for k := from; k <= to && k <= len(str); k++ {
			o := ask(c13Tweak(tweakKind, ch, str[:k]))
			count(o)
			nq++
			ru.obs = append(ru.obs, o)
		}
		runs = append(runs, ru)
	}
	qr := NewRand(in.QSeed)
	selOther := func(i int) (string, string) { // a selection different from bug i when possible
		j := (i + 1 + qr.Intn(len(pop.bugIDs))) % len(pop.bugIDs)
		return fmt.Sprintf("(ASelect (SelBug %d) 2)", j), pop.bugIDs[j]
	}
	dangling := strings.Repeat("0123456789abcdef", 4)
	if _, ok := pop.bugIdx[dangling]; ok {
		return Case{Skip: "improbable id"}
	}
	selDanglingTerm := fmt.Sprintf("(ASelect (SelRaw %s) 1)", coqRunes(dangling))

	for i, id := range pop.bugIDs {
		base := fmt.Sprintf("(BBug %d)", i)
		sweep("ABug", askBug, base, id, "TNone", "", 0, 0, 64)
		sweep("ABugExcerpt", askBugEx, base, id, "TNone", "", 0, 0, 64)
		sweep("(ASelect SelNone 1)", askSelect("", 1), base, id, "TNone", "", 0, 0, 64)
		if i < 2 {
			term, sid := selOther(i)
			sweep(term, askSelect(sid, 2), base, id, "TNone", "", 0, 0, 64)
			sweep(selDanglingTerm, askSelect(dangling, 1), base, id, "TNone", "", 0, 0, 3)
		}
		// a bug id used where a combined id is expected
		if i == 0 {
			sweep("AComment", askComment, base, id, "TNone", "", 0, 0, 64)
		}
	}
	for i, id := range pop.identIDs {
		base := fmt.Sprintf("(BIdent %d)", i)
		sweep("AIdent", askIdent, base, id, "TNone", "", 0, 0, 64)
		sweep("AIdentExcerpt", askIdentEx, base, id, "TNone", "", 0, 0, 64)
	}
	for b, cs := range pop.comments {
		for j, c := range cs {
			base := fmt.Sprintf("(BCom %d %d)", b, j)
			sweep("AComment", askComment, base, c[1], "TNone", "", 0, 0, 64)
			if b == 0 && j == 0 {
				// a combined id used where a bug id is expected
				sweep("ABug", askBug, base, c[1], "TNone", "", 0, 0, 64)
			}
		}
	}
	// upper-case sweeps
	{
		i := qr.Intn(len(pop.bugIDs))
		base := fmt.Sprintf("(BBug %d)", i)
		sweep("ABug", askBug, base, pop.bugIDs[i], "TUpper", "upper", 0, 0, 64)
		sweep("(ASelect SelNone 0)", askSelect("", 0), base, pop.bugIDs[i], "TUpper", "upper", 0, 0, 64)
		i = qr.Intn(len(pop.identIDs))
		sweep("AIdentExcerpt", askIdentEx, fmt.Sprintf("(BIdent %d)", i), pop.identIDs[i], "TUpper", "upper", 0, 0, 64)
		b := qr.Intn(len(pop.comments))
		j := qr.Intn(len(pop.comments[b]))
		sweep("AComment", askComment, fmt.Sprintf("(BCom %d %d)", b, j), pop.comments[b][j][1], "TUpper", "upper", 0, 0, 64)
	}
	// foreign prefixes: one symbol altered, one symbol too many, strings of the population's alphabet
	for f := 0; f < in.NForeign && f < 200; f++ {
		var base, str string
		kind := qr.Intn(3)
		switch kind {
		case 0:
			i := qr.Intn(len(pop.bugIDs))
			base, str = fmt.Sprintf("(BBug %d)", i), pop.bugIDs[i]
		case 1:
			i := qr.Intn(len(pop.identIDs))
			base, str = fmt.Sprintf("(BIdent %d)", i), pop.identIDs[i]
		default:
			b := qr.Intn(len(pop.comments))
			j := qr.Intn(len(pop.comments[b]))
			base, str = fmt.Sprintf("(BCom %d %d)", b, j), pop.comments[b][j][1]
		}
		if len(str) != 64 {
			continue
		}
		k := qr.Range(1, 64)
		if qr.Chance(1, 2) {
			k = qr.Range(1, 6)
		}
		var ch byte
		tweakKind := "mut"
		switch qr.Intn(4) {
		case 0:
			ch = c13Alnum[qr.Intn(len(c13Alnum))]
		case 1:
			ch = "GZ-_ ./"[qr.Intn(7)]
		case 2:
			ch = c13Hex[qr.Intn(16)]
			tweakKind, k = "snoc", 64-qr.Intn(2)*qr.Intn(4)
		default:
			ch = c13Hex[qr.Intn(16)]
		}
		tterm := fmt.Sprintf("(TMut %d)", ch)
		if tweakKind == "snoc" {
			tterm = fmt.Sprintf("(TSnoc %d)", ch)
		}
		switch kind {
		case 0:
			sweep("ABug", askBug, base, str, tterm, tweakKind, ch, k, k)
			sweep("ABugExcerpt", askBugEx, base, str, tterm, tweakKind, ch, k, k)
			sweep("(ASelect SelNone 1)", askSelect("", 1), base, str, tterm, tweakKind, ch, k, k)
			term, sid := selOther(0)
			sweep(term, askSelect(sid, 2), base, str, tterm, tweakKind, ch, k, k)
			sweep(selDanglingTerm, askSelect(dangling, 1), base, str, tterm, tweakKind, ch, k, k)
			sweep("AComment", askComment, base, str, tterm, tweakKind, ch, k, k)
		case 1:
			sweep("AIdent", askIdent, base, str, tterm, tweakKind, ch, k, k)
			sweep("AIdentExcerpt", askIdentEx, base, str, tterm, tweakKind, ch, k, k)
		default:
			sweep("AComment", askComment, base, str, tterm, tweakKind, ch, k, k)
			sweep("ABug", askBug, base, str, tterm, tweakKind, ch, k, k)
		}
	}
	for f := 0; f < 6; f++ {
		s := c13RandStr(qr, c13Hex, qr.Range(1, 3))
		if f == 5 {
			s = c13RandStr(qr, c13Hex, qr.Range(65, 90))
		}
		base := "(BRaw " + coqRunes(s) + ")"
		sweep("ABug", askBug, base, s, "TNone", "", 0, len(s), len(s))
		sweep("AIdent", askIdent, base, s, "TNone", "", 0, len(s), len(s))
		sweep("AComment", askComment, base, s, "TNone", "", 0, len(s), len(s))
		sweep("(ASelect SelNone 1)", askSelect("", 1), base, s, "TNone", "", 0, len(s), len(s))
	}

	// ---- the same entities and comments addressed with room for a few loaded entities only: resolving one candidate evicts
	// others, and the object handed out has to be the loaded instance (it is used). Asked: the shortest prefix that identifies
	// the target (the largest set of other candidates) and the next length.
	var cids []string
	for _, cs := range pop.comments {
		for _, c := range cs {
			cids = append(cids, c[1])
		}
	}
	shortest := func(id string, all []string) int { // the shortest prefix of id that no other element of all has
		k := 0
		for _, o := range all {
			if o == id {
				continue
			}
			l := 0
			for l < len(o) && l < len(id) && o[l] == id[l] {
				l++
			}
			if l+1 > k {
				k = l + 1
			}
		}
		if k > len(id) {
			k = len(id)
		}
		return k
	}
	sizes := c13CacheSizes(&in)
	nLive, nPressure := 0, 0
	if len(sizes) > 0 && !in.Reopen {
		// the entities loaded while the cache was BUILT are not in the LRU list and are never evicted: the questions are asked
		// as a new process asks them, on a cache loaded from its files (pending operations are committed first, the
		// population stays what it is)
		for _, id := range pop.bugIDs {
			bc, err := rc.Bugs().Resolve(entity.Id(id))
			if err != nil {
				panic(err)
			}
			if bc.NeedCommit() {
				if err := bc.Commit(); err != nil {
					panic(err)
				}
			}
		}
		closeCache()
		repo, err = c13OpenRepo(dir)
		if err != nil {
			panic(err)
		}
		closed = false
		rc, err = cache.NewRepoCacheNoEvents(repo)
		if err != nil {
			panic(err)
		}
	}
	for _, size := range sizes {
		if lockedBudget <= 0 {
			break
		}
		rc.Bugs().SetCacheSize(size)
		rc.Identities().SetCacheSize(size)
		capNow = size
		room := size
		if room < 1 {
			room = 1 // the entity being handed out is never evicted
		}
		type comq struct{ b, j int }
		var cq []comq
		for b, cs := range pop.comments {
			for j := range cs {
				cq = append(cq, comq{b, j})
			}
		}
		for i := len(cq) - 1; i > 0; i-- { // at most 24 comments, drawn at random
			j := qr.Intn(i + 1)
			cq[i], cq[j] = cq[j], cq[i]
		}
		if len(cq) > 24 {
			cq = cq[:24]
		}
		for _, q := range cq {
			if lockedBudget <= 0 {
				break
			}
			cid := pop.comments[q.b][q.j][1]
			if len(cid) != 64 {
				continue
			}
			k := shortest(cid, cids)
			to := k + 1
			if to > 64 {
				to = 64
			}
			bp, _ := entity.SeparateIds(cid[:k])
			ncand := 0
			for _, id := range pop.bugIDs {
				if strings.HasPrefix(id, bp) {
					ncand++
				}
			}
			if ncand > room {
				nPressure++
			}
			nLive++
			sweep("AComment", askComment, fmt.Sprintf("(BCom %d %d)", q.b, q.j), cid, "TNone", "", 0, k, to)
		}
		for i, id := range pop.bugIDs {
			if lockedBudget <= 0 {
				break
			}
			base := fmt.Sprintf("(BBug %d)", i)
			k := shortest(id, pop.bugIDs)
			nLive += 2
			sweep("ABug", askBug, base, id, "TNone", "", 0, k, k)
			sweep("(ASelect SelNone 1)", askSelect("", 1), base, id, "TNone", "", 0, k, k)
			if i < 2 {
				// no bug is addressed: the stored selection is resolved
				term, sid := selOther(i)
				nLive++
				sweep(term, askSelect(sid, 2), "(BRaw "+coqRunes("zz")+")", "zz", "TNone", "", 0, 2, 2)
			}
		}
		for i, id := range pop.identIDs {
			if lockedBudget <= 0 {
				break
			}
			k := shortest(id, pop.identIDs)
			nLive++
			sweep("AIdent", askIdentUse, fmt.Sprintf("(BIdent %d)", i), id, "TNone", "", 0, k, k)
		}
	}
	capNow = 1000
	rc.Bugs().SetCacheSize(capNow)
	rc.Identities().SetCacheSize(capNow)
	_ = _select.Clear(rc, bug.Namespace)

	// ---- the case
	var bugTerms []string
	for i, id := range pop.bugIDs {
		var cs []string
		for _, c := range pop.comments[i] {
			cs = append(cs, coqPair(coqRunes(c[0]), coqRunes(c[1])))
		}
		bugTerms = append(bugTerms, coqPair(coqRunes(id), coqList(cs)))
	}
	var identTerms []string
	for _, id := range pop.identIDs {
		identTerms = append(identTerms, coqRunes(id))
	}
	var runTerms []string
	for _, ru := range runs {
		runTerms = append(runTerms, "("+ru.coq()+")")
	}
	term := fmt.Sprintf("mkccase %s %s %s", coqList(bugTerms), coqList(identTerms), coqList(runTerms))

	// longest common prefix actually present between two different ids of one kind
	lcp := func(xs []string) int {
		m := 0
		ys := append([]string(nil), xs...)
		sort.Strings(ys)
		for i := 1; i < len(ys); i++ {
			k := 0
			for k < len(ys[i]) && k < len(ys[i-1]) && ys[i][k] == ys[i-1][k] {
				k++
			}
			if k > m && k < 64 {
				m = k
			}
		}
		return m
	}
	tags := []string{fmt.Sprintf("lcp-bug:%d", lcp(pop.bugIDs)), fmt.Sprintf("lcp-ident:%d", lcp(pop.identIDs)), fmt.Sprintf("lcp-combined:%d", lcp(cids))}
	if in.Reopen {
		tags = append(tags, "cache:reloaded")
	} else {
		tags = append(tags, "cache:built")
	}
	for _, b := range in.Bugs {
		if b.ViaCache {
			tags = append(tags, "bugs-added-through-cache")
			break
		}
	}
	if nPressure > 0 {
		tags = append(tags, "small-cache:more-candidates-than-room")
	} else if nLive > 0 {
		tags = append(tags, "small-cache:no-eviction-pressure")
	}
	if nLocked > 0 {
		tags = append(tags, "handle:locked")
	}
	sort.Strings(tags)
	obs := map[string]interface{}{
		"bugs": len(pop.bugIDs), "comments": ncom, "identities": len(pop.identIDs), "questions": nq, "answers": counts,
		"cache_sizes": sizes, "small_cache_questions": nLive, "small_cache_comment_questions_with_more_candidates_than_room": nPressure,
		"locked_objects_handed_out": nLocked, "small_cache_questions_dropped": lockedBudget <= 0,
		"bug_ids": pop.bugIDs, "identity_ids": pop.identIDs, "combined_ids": cids,
	}
	return Case{Coq: term, Obs: obs, Tags: tags, NonTrivial: len(pop.bugIDs) >= 2 && counts["OMultiple"] > 0 && counts["OFound"] > 0, Key: string(raw)}
}
