package main

// C12: queries parse as documented and return exactly the matching bugs, ordered.
//
// Driver C12p: strings given to query.Parse (exhaustive small strings over a character alphabet and over a
// word alphabet, random strings, structured queries rendered through the grammar of doc/queries.md, and
// one-edit mutations of rendered queries). A panic kills the worker and is reported by the parent as a crash.
//
// Driver C12c (c12cli.go): the `git-bug bug` command as a process, from argv to the listed ids.
//
// Driver C12e: generated populations (1-4 identities, 1-30 bugs in one or two go-git repositories merged into
// one) behind a real cache.RepoCache; a batch of structured queries is parsed with query.Parse and evaluated
// with RepoCacheBug.Query (twice). The reference data is read from the resolved snapshots.

import (
	"encoding/hex"
	"encoding/json"
	"fmt"
	"os"
	"sort"
	"strings"
	"unicode"

	"github.com/MichaelMure/git-bug/cache"
	"github.com/MichaelMure/git-bug/entities/bug"
	"github.com/MichaelMure/git-bug/entities/identity"
	"github.com/MichaelMure/git-bug/entity"
	"github.com/MichaelMure/git-bug/query"
	"github.com/MichaelMure/git-bug/repository"
)

// ---------------------------------------------------------------- structured queries

type c12Idp struct {
	I int  `json:"i"` // identity index
	L int  `json:"l"` // prefix length
	U bool `json:"u"` // upper-cased
}
type c12Val struct {
	S int     `json:"s"`           // 0 bare, 1 double-quoted, 2 single-quoted
	T string  `json:"t"`           // text
	P *c12Idp `json:"p,omitempty"` // evaluation only: the text is a prefix of an identity's id, filled in at run time
}
type c12Item struct {
	K string  `json:"k"` // search status state author actor participant label title metadata no sort
	V c12Val  `json:"v"`
	W *c12Val `json:"w,omitempty"` // metadata: V is the key, W the value
}

func (v c12Val) render() string {
	switch v.S {
	case 0:
		return v.T
	case 1:
		return `"` + v.T + `"`
	default:
		return "'" + v.T + "'"
	}
}
func (it c12Item) render() string {
	switch it.K {
	case "search":
		return it.V.render()
	case "metadata":
		return "metadata:" + it.V.render() + ":" + it.W.render()
	default:
		return it.K + ":" + it.V.render()
	}
}
func c12Render(items []c12Item) string {
	fs := make([]string, len(items))
	for i, it := range items {
		fs[i] = it.render()
	}
	return strings.Join(fs, " ")
}

func (v c12Val) coq() string {
	return "(" + []string{"Bare", "DQ", "SQ"}[v.S%3] + ", " + coqRunes(v.T) + ")"
}
func (it c12Item) coq() string {
	switch it.K {
	case "search":
		return "ISearch " + it.V.coq()
	case "status":
		return "IStatus true " + it.V.coq()
	case "state":
		return "IStatus false " + it.V.coq()
	case "author":
		return "IAuthor " + it.V.coq()
	case "actor":
		return "IActor " + it.V.coq()
	case "participant":
		return "IParticipant " + it.V.coq()
	case "label":
		return "ILabel " + it.V.coq()
	case "title":
		return "ITitle " + it.V.coq()
	case "metadata":
		return "IMeta " + it.V.coq() + " " + it.W.coq()
	case "no":
		return "INo " + it.V.coq()
	case "sort":
		return "ISort " + it.V.coq()
	}
	panic("c12: unknown item kind " + it.K)
}
func c12ItemsCoq(items []c12Item) string {
	xs := make([]string, len(items))
	for i, it := range items {
		xs[i] = it.coq()
	}
	return coqList(xs)
}

func c12IsSpace(r rune) bool { return unicode.IsSpace(r) }

// legal styles for a text: bare needs a non-empty text without quote, white space, colon
func c12Styles(t string) []int {
	var res []int
	bare := t != ""
	for _, r := range t {
		if r == '"' || r == '\'' || r == ':' || c12IsSpace(r) {
			bare = false
		}
	}
	if bare {
		res = append(res, 0)
	}
	if !strings.ContainsRune(t, '"') {
		res = append(res, 1)
	}
	if !strings.ContainsRune(t, '\'') {
		res = append(res, 2)
	}
	return res
}

// a value with a legal spelling if there is one (wild: once in a while any spelling)
func c12MkVal(r *Rand, t string, wild bool) c12Val {
	st := c12Styles(t)
	if len(st) == 0 || (wild && r.Chance(1, 12)) {
		return c12Val{S: r.Intn(3), T: t}
	}
	// prefer bare when legal, as people write it
	if st[0] == 0 && r.Chance(2, 3) {
		return c12Val{S: 0, T: t}
	}
	return c12Val{S: st[r.Intn(len(st))], T: t}
}

var c12Texts = []string{
	"rene", "René", "Descartes", "descartes", "René Descartes", "Good first issue", "a:b", "it's", `say "hi"`, "", " ",
	"x y", "é", "日本語", "open", "closed", "label", "id", "sort", "author", "a\tb", "\u00a0", "a\u2003b", `C:\dir`, ":", "::", "'", `"`,
	`"'`, "x", "prod", "key", "k:v:w", "Ünï code", "\ufffd", "a b c d e", "status:open", "-", "edit-asc", "no",
}
var c12StatusVals = []string{"open", "closed", "OPEN", "Closed", "cLoSeD", " open", "closed\t", "open", "closed", "opened", "", "o pen"}
var c12SortVals = []string{"id", "id-asc", "id-desc", "creation", "creation-asc", "creation-desc", "edit", "edit-asc", "edit-desc"}
var c12BadSortVals = []string{"ID", "id-up", "", "edit asc", "creation-des", "title"}
var c12Kinds = []string{"search", "status", "state", "author", "actor", "participant", "label", "title", "metadata", "no", "sort"}

func c12RandText(r *Rand) string {
	if r.Chance(3, 4) {
		return c12Texts[r.Intn(len(c12Texts))]
	}
	alpha := []rune{'a', 'b', 'Z', ' ', ':', '"', '\'', 'é', '\t', '0', '-', '日'}
	n := r.Range(0, 6)
	var sb strings.Builder
	for i := 0; i < n; i++ {
		sb.WriteRune(alpha[r.Intn(len(alpha))])
	}
	return sb.String()
}

// c12GenItems: a list of qualifiers; mostly well formed (legal spellings, closed vocabularies respected, one sort)
func c12GenItems(r *Rand, wild bool) []c12Item {
	n := r.Range(0, 6)
	if r.Chance(1, 15) {
		n = r.Range(7, 40)
	}
	var items []c12Item
	sorted := false
	for i := 0; i < n; i++ {
		k := c12Kinds[r.Intn(len(c12Kinds))]
		it := c12Item{K: k}
		switch k {
		case "status", "state":
			t := c12StatusVals[r.Intn(len(c12StatusVals)-3)]
			if wild && r.Chance(1, 10) {
				t = c12StatusVals[r.Intn(len(c12StatusVals))]
			}
			it.V = c12MkVal(r, t, wild)
		case "no":
			t := "label"
			if wild && r.Chance(1, 8) {
				t = []string{"labels", "Label", "title", ""}[r.Intn(4)]
			}
			it.V = c12MkVal(r, t, wild)
		case "sort":
			if sorted && !(wild && r.Chance(1, 4)) {
				i--
				continue
			}
			sorted = true
			t := c12SortVals[r.Intn(len(c12SortVals))]
			if wild && r.Chance(1, 10) {
				t = c12BadSortVals[r.Intn(len(c12BadSortVals))]
			}
			it.V = c12MkVal(r, t, wild)
		case "metadata":
			it.V = c12MkVal(r, c12RandText(r), wild)
			w := c12MkVal(r, c12RandText(r), wild)
			it.W = &w
		default:
			it.V = c12MkVal(r, c12RandText(r), wild)
		}
		items = append(items, it)
	}
	return items
}

// ---------------------------------------------------------------- C12p: parsing

type c12pInput struct {
	Fam   string     `json:"fam"`
	Hex   string     `json:"hex,omitempty"`   // the string, hex encoded (may be invalid UTF-8)
	Items *[]c12Item `json:"items,omitempty"` // structured: the string is the rendering of these
}

type c12pDriver struct{}

func init() {
	register("C12p", c12pDriver{})
	register("C12e", c12eDriver{})
}

func c12Raw(fam, s string) json.RawMessage {
	return mustJSON(c12pInput{Fam: fam, Hex: hex.EncodeToString([]byte(s))})
}

func c12AllStrings(alpha []string, maxLen int, emit func(string)) {
	var rec func(prefix string, left int)
	rec = func(prefix string, left int) {
		emit(prefix)
		if left == 0 {
			return
		}
		for _, a := range alpha {
			rec(prefix+a, left-1)
		}
	}
	rec("", maxLen)
}

func c12Mutate(r *Rand, s string) string {
	b := []byte(s)
	switch r.Intn(9) {
	case 8: // an empty chunk: a colon next to a colon
		var idx []int
		for i, c := range b {
			if c == ':' {
				idx = append(idx, i)
			}
		}
		if len(idx) > 0 {
			i := idx[r.Intn(len(idx))]
			n := 1
			if r.Chance(1, 4) {
				n = 2
			}
			b = append(b[:i:i], append([]byte(strings.Repeat(":", n)), b[i:]...)...)
		}
	case 0: // delete a byte
		if len(b) > 0 {
			i := r.Intn(len(b))
			b = append(b[:i:i], b[i+1:]...)
		}
	case 1, 2: // insert a structural character
		i := r.Intn(len(b) + 1)
		c := []byte{'"', '\'', ':', ' ', '\t'}[r.Intn(5)]
		b = append(b[:i:i], append([]byte{c}, b[i:]...)...)
	case 3: // a second sort
		b = append(b, []byte(" sort:"+c12SortVals[r.Intn(len(c12SortVals))])...)
	case 4: // upper-case one letter
		var idx []int
		for i, c := range b {
			if c >= 'a' && c <= 'z' {
				idx = append(idx, i)
			}
		}
		if len(idx) > 0 {
			i := idx[r.Intn(len(idx))]
			b[i] -= 32
		}
	case 5: // another white space for a space
		var idx []int
		for i, c := range b {
			if c == ' ' {
				idx = append(idx, i)
			}
		}
		if len(idx) > 0 {
			i := idx[r.Intn(len(idx))]
			rep := []string{"\t", "  ", "\u00a0", "\n", "\u3000"}[r.Intn(5)]
			b = append(b[:i:i], append([]byte(rep), b[i+1:]...)...)
		}
	case 6: // duplicate a field
		fs := strings.Split(string(b), " ")
		f := fs[r.Intn(len(fs))]
		b = append(b, []byte(" "+f)...)
	case 7: // an invalid byte
		i := r.Intn(len(b) + 1)
		b = append(b[:i:i], append([]byte{0xff}, b[i:]...)...)
	}
	return string(b)
}

func (c12pDriver) Gen(r *Rand, tier string) []json.RawMessage {
	thorough := tier == "thorough"
	var res []json.RawMessage
	// (a) every string up to a small length over {", ', :, space, tab, a, é, invalid byte}
	chars := []string{`"`, "'", ":", " ", "\t", "a", "é", "\xff"}
	n1 := 4
	if thorough {
		n1 = 5
	}
	c12AllStrings(chars, n1, func(s string) { res = append(res, c12Raw("exh-chars", s)) })
	// (b) every string up to a small length over an alphabet of words of the language
	words := []string{`"`, "'", ":", "::", " ", "x", "author", "status", "open", "sort", "id", "no", "label", "metadata", "edit-asc"}
	n2 := 3
	if thorough {
		n2 = 4
	}
	c12AllStrings(words, n2, func(s string) { res = append(res, c12Raw("exh-words", s)) })
	// (c) random strings up to length 60
	nr := 1500
	if thorough {
		nr = 30000
	}
	mixed := append(append([]string{}, chars...), words...)
	mixed = append(mixed, "closed", "state", "title", "actor", "participant", "creation", "Z", "日", "\u00a0", "\u2003", "\xc3", "-", "desc", "\n",
		"\u0085", "\u1680", "\u2028", "\u205f", "\u3000", "\u200b", "\v")
	for i := 0; i < nr; i++ {
		n := r.Range(1, 60)
		var sb strings.Builder
		cnt := 0
		for cnt < n {
			w := mixed[r.Intn(len(mixed))]
			sb.WriteString(w)
			cnt += len([]rune(w))
		}
		res = append(res, c12Raw("random", sb.String()))
	}
	// (d) structured queries rendered through the grammar
	ns := 2400
	if thorough {
		ns = 48000
	}
	var rendered []string
	for i := 0; i < ns; i++ {
		items := c12GenItems(r, i%3 == 2)
		fam := "structured"
		if i%3 == 2 {
			fam = "structured-wild"
		}
		res = append(res, mustJSON(c12pInput{Fam: fam, Items: &items}))
		rendered = append(rendered, c12Render(items))
	}
	// (e) one or two edits of a rendered query
	nm := 800
	if thorough {
		nm = 16000
	}
	for i := 0; i < nm; i++ {
		s := c12Mutate(r, rendered[r.Intn(len(rendered))])
		if r.Chance(1, 4) {
			s = c12Mutate(r, s)
		}
		res = append(res, c12Raw("mutated", s))
	}
	return res
}

func c12ErrClass(err error) string {
	m := err.Error()
	switch {
	case strings.Contains(m, "unmatched quote"):
		return "unmatched-quote"
	case strings.Contains(m, "empty qualifier or value"):
		return "colon-edge"
	case strings.Contains(m, "too many separators"):
		return "too-many-separators"
	case strings.Contains(m, "unknown qualifier"):
		return "unknown-qualifier"
	case strings.Contains(m, "unknown status"):
		return "unknown-status"
	case strings.Contains(m, "unknown \"no\" filter"):
		return "unknown-no"
	case strings.Contains(m, "multiple sorting"):
		return "second-sort"
	case strings.Contains(m, "unknown sorting"):
		return "unknown-sort"
	}
	return "other"
}

func c12QueryCoq(q *query.Query) string {
	st := make([]string, len(q.Status))
	for i, s := range q.Status {
		st[i] = coqN(uint64(s))
	}
	meta := make([]string, len(q.Metadata))
	for i, p := range q.Metadata {
		meta[i] = coqPair(coqRunes(p.Key), coqRunes(p.Value))
	}
	return fmt.Sprintf("(mkq %s %s %s %s %s %s %s %s %s %s %s)", coqStrs(q.Search), coqList(st), coqStrs(q.Author), coqList(meta),
		coqStrs(q.Actor), coqStrs(q.Participant), coqStrs(q.Label), coqStrs(q.Title), coqBool(q.NoLabel),
		coqN(uint64(q.OrderBy)), coqN(uint64(q.OrderDirection)))
}

func (c12pDriver) Run(raw json.RawMessage) Case {
	var in c12pInput
	if err := json.Unmarshal(raw, &in); err != nil {
		return Case{Skip: "bad input"}
	}
	var s string
	items := "None"
	if in.Items != nil {
		s = c12Render(*in.Items)
		items = coqSome(c12ItemsCoq(*in.Items))
	} else {
		b, err := hex.DecodeString(in.Hex)
		if err != nil {
			return Case{Skip: "bad hex"}
		}
		s = string(b)
	}
	// no recover: a panic of the parser is a crash of this worker, reported as such by the parent
	q, err := query.Parse(s)
	tags := []string{"fam:" + in.Fam}
	obs := map[string]interface{}{"query": s}
	var o string
	if err != nil {
		o = "None"
		cl := c12ErrClass(err)
		tags = append(tags, "rejected:"+cl)
		obs["error"] = err.Error()
		if q != nil {
			tags = append(tags, "query-and-error")
		}
	} else if q == nil {
		return Case{Coq: fmt.Sprintf("mkpcase %s %s None", coqRunes(s), items), Tags: append(tags, "nil-without-error"), Obs: obs, NonTrivial: true, Key: in.Hex}
	} else {
		o = coqSome(c12QueryCoq(q))
		tags = append(tags, "accepted")
		obs["parsed"] = q
	}
	n := len([]rune(s))
	switch {
	case n <= 5:
		tags = append(tags, "len:0-5")
	case n <= 20:
		tags = append(tags, "len:6-20")
	case n <= 60:
		tags = append(tags, "len:21-60")
	default:
		tags = append(tags, "len:61+")
	}
	sort.Strings(tags)
	return Case{Coq: fmt.Sprintf("mkpcase %s %s %s", coqRunes(s), items, o), Obs: obs, Tags: tags, NonTrivial: n > 0,
		Key: hex.EncodeToString([]byte(s))}
}

// ---------------------------------------------------------------- C12e: evaluation

type c12Ident struct {
	Name  string `json:"name"`
	Login string `json:"login"`
}
type c12Op struct {
	K    string   `json:"k"` // comment | labels | close | open | title | meta | commit
	By   int      `json:"by"`
	T    int64    `json:"t"`
	Text string   `json:"text,omitempty"`
	Add  []string `json:"add,omitempty"`
	Rm   []string `json:"rm,omitempty"`
	KV   []string `json:"kv,omitempty"`
}
type c12Bug struct {
	Repo   int               `json:"repo"`
	Author int               `json:"author"`
	Title  string            `json:"title"`
	Msg    string            `json:"msg"`
	Meta   map[string]string `json:"meta,omitempty"`
	T      int64             `json:"t"`
	Ops    []c12Op           `json:"ops,omitempty"`
}
type c12eInput struct {
	Idents  []c12Ident  `json:"idents"`
	Share   bool        `json:"share"` // try to give identity 1 the same first id character as identity 0
	Bugs    []c12Bug    `json:"bugs"`
	Queries [][]c12Item `json:"queries"`
}

type c12eDriver struct{}

// analyzer-neutral vocabulary of the texts: the "en" analyzer lower-cases, drops stop words and stems; these
// words are no stop words and have pairwise distinct stems; the non-ASCII ones are never used as search terms
var c12Lexicon = []string{"Zork", "quux", "BLIP", "frob", "Glorp", "snarf", "Émile", "ÜBER"}
var c12SearchWords = []string{"zork", "quux", "blip", "frob", "glorp", "snarf", "plugh"}
var c12Names = []c12Ident{{"René Descartes", "rene"}, {"Robert Descartes", "rdesc"}, {"rené", ""}, {"DESCARTES jr", "Junior"},
	{"", "renegade"}, {"Émile Zola", "zola"}, {"abe cafe", "deadbeef"}, {"Ada", "ada"}}
var c12NameQueries = []string{"descartes", "DESCARTES", "rené", "RENÉ", "René Descartes", "rene", "ren", "e", "", "zzz", "Robert", "jr", "junior",
	"émile", "ÉMILE", "zola", "a", "ad", "ADA", "cafe", "dead", "rené descartes", "descartes jr", "s r", "Renegade"}
var c12Labels = []string{"bug", "Bug", "Good first issue", "prod", "a:b", "wontfix"}
var c12LabelQueries = []string{"bug", "Bug", "BUG", "Good first issue", "good first issue", "prod", "a:b", "wontfix", "zzz", "Good"}
var c12MetaKeys = []string{"origin", "k", "github-id"}
var c12MetaVals = []string{"github", "gitlab", "a:b c", "1", "u?id=12", "u?id", "k=v=w"}
var c12TitleQueries = []string{"zork", "ZORK", "Zork quux", "qu", "émile", "über", "ÜBER", "blip frob", "x", "", " ", "glorp", "p s"}

// what stands between two words of a text: mostly a space, now and then punctuation (all of it cuts words for the
// index, see c12Neutral)
var c12Joiners = []string{" -> ", "/", "://", " >= ", "-", " (", ") ", ", ", ": ", " = ", ". ", " + ", "!", " | ", "? ", "\\"}

func c12ASCII(w string) bool {
	for _, c := range w {
		if c > 127 {
			return false
		}
	}
	return w != ""
}

func c12Words(r *Rand, n int) string {
	var sb strings.Builder
	for i := 0; i < n; i++ {
		w := c12Lexicon[r.Intn(len(c12Lexicon))]
		switch r.Intn(4) {
		case 0:
			w = strings.ToLower(w)
		case 1:
			w = strings.ToUpper(w)
		}
		if i > 0 {
			if r.Chance(1, 5) {
				sb.WriteString(c12Joiners[r.Intn(len(c12Joiners))])
			} else {
				sb.WriteString(" ")
			}
		}
		sb.WriteString(w)
	}
	return sb.String()
}

// shapes of a search term that is not a plain word: operators of bleve's query string language around or between
// words (%w, %v: two words, adjacent in some text of the population more often than not), or alone
var c12Deco = []string{"-%w", "+%w", "!%w", "%w^2", "%w~", "%w~2", "%w*", "(%w)", "[%w]", "{%w}", "%w->%v", "%w>=%v", "%w=>%v", "%w/%v",
	"%w://%v", "%w=%v", "%w&&%v", "%w||%v", `"%w"`, `%w\%v`, "%w: %v", "%w :%v", "%w:/%v", "<%w", "%w?", "/%w/", "-%w %v", "%w -%v", "+%w +%v",
	"%w:", "%w (%v)", "%w, %v", "%w-%v", "-%w-%v",
	"->", ">=", "=>", "<", "^", "~", "-", "/", "+", "!", "&&", "||", `\`, "*", "?", "(", ")", "-> =>", "~2"}

// c12Word: is r part of a word for the full-text index (mirror of QueryEval.is_word_rune)
func c12Word(r rune) bool {
	return (r >= '0' && r <= '9') || (r >= 'A' && r <= 'Z') || (r >= 'a' && r <= 'z') || r >= 128
}

// c12Neutral: the index (unicode word segmentation) cuts s into words exactly where c12Tokens does: letters and
// digits are the code points c12Word says, no underscore, and none of . : ' , ; between two word code points
// (there the segmentation keeps one word: example.com, it's, a:b, 1,5)
func c12Neutral(s string) bool {
	rs := []rune(s)
	for i, r := range rs {
		if (unicode.IsLetter(r) || unicode.IsDigit(r)) != c12Word(r) {
			return false
		}
		switch r {
		case '_':
			return false
		case '.', ':', '\'', ',', ';':
			if i > 0 && i+1 < len(rs) && c12Word(rs[i-1]) && c12Word(rs[i+1]) {
				return false
			}
		}
	}
	return true
}

func c12Subset(r *Rand, xs []string, max int) []string {
	var res []string
	n := r.Range(0, max)
	for i := 0; i < n; i++ {
		x := xs[r.Intn(len(xs))]
		dup := false
		for _, y := range res {
			if y == x {
				dup = true
			}
		}
		if !dup {
			res = append(res, x)
		}
	}
	return res
}

func c12GenPopulation(r *Rand) c12eInput {
	in := c12eInput{Share: r.Bool()}
	nid := r.Range(1, 4)
	perm := make([]int, len(c12Names))
	for i := range perm {
		perm[i] = i
	}
	for i := len(perm) - 1; i > 0; i-- {
		j := r.Intn(i + 1)
		perm[i], perm[j] = perm[j], perm[i]
	}
	for i := 0; i < nid; i++ {
		in.Idents = append(in.Idents, c12Names[perm[i]])
	}
	nb := r.Range(1, 30)
	if r.Chance(1, 3) {
		nb = r.Range(1, 8)
	}
	two := r.Chance(2, 3)
	for i := 0; i < nb; i++ {
		b := c12Bug{Author: r.Intn(nid), Title: c12Words(r, r.Range(1, 3)), Msg: c12Words(r, r.Range(0, 3)), T: int64(1000 + r.Intn(3))}
		if two && r.Chance(1, 3) {
			b.Repo = 1
		}
		if r.Chance(1, 2) {
			b.Meta = map[string]string{}
			for k := r.Range(1, 2); k > 0; k-- {
				b.Meta[c12MetaKeys[r.Intn(len(c12MetaKeys))]] = c12MetaVals[r.Intn(len(c12MetaVals))]
			}
		}
		t := b.T
		nops := r.Range(0, 4)
		for k := 0; k < nops; k++ {
			t += int64(r.Intn(2))
			op := c12Op{By: r.Intn(nid), T: t}
			switch r.Intn(8) {
			case 0, 1:
				op.K = "comment"
				op.Text = c12Words(r, r.Range(1, 3))
			case 2, 3:
				op.K = "labels"
				op.Add = c12Subset(r, c12Labels, 2)
				op.Rm = c12Subset(r, c12Labels, 1)
			case 4:
				op.K = "close"
			case 5:
				op.K = "open"
			case 6:
				op.K = "title"
				op.Text = c12Words(r, r.Range(1, 3))
			case 7:
				if r.Bool() {
					op.K = "meta"
					op.KV = []string{c12MetaKeys[r.Intn(len(c12MetaKeys))], c12MetaVals[r.Intn(len(c12MetaVals))]}
				} else {
					op.K = "commit"
				}
			}
			b.Ops = append(b.Ops, op)
		}
		in.Bugs = append(in.Bugs, b)
	}
	return in
}

func c12GenQuery(r *Rand, in *c12eInput) []c12Item {
	var items []c12Item
	add := func(k, t string) { items = append(items, c12Item{K: k, V: c12MkVal(r, t, false)}) }
	pick := func(xs []string) string { return xs[r.Intn(len(xs))] }
	identVal := func(k string) {
		switch r.Intn(5) {
		case 0: // an id prefix
			l := []int{1, 1, 2, 3, 7, 64, 40}[r.Intn(7)]
			items = append(items, c12Item{K: k, V: c12Val{S: r.Intn(2), P: &c12Idp{I: r.Intn(len(in.Idents)), L: l, U: r.Chance(1, 3)}}})
		case 1, 2: // a fragment of a name or login of the population, in some case
			id := in.Idents[r.Intn(len(in.Idents))]
			src := id.Name
			if src == "" || r.Chance(1, 3) {
				src = id.Login
			}
			rs := []rune(src)
			if len(rs) == 0 {
				add(k, "")
				return
			}
			a := r.Intn(len(rs))
			b := r.Range(a+1, len(rs))
			t := string(rs[a:b])
			switch r.Intn(3) {
			case 0:
				t = strings.ToUpper(t)
			case 1:
				t = strings.ToLower(t)
			}
			add(k, t)
		default:
			add(k, pick(c12NameQueries))
		}
	}
	// the qualifier kinds used: mostly one to three of them
	kinds := []string{"status", "author", "actor", "participant", "label", "title", "metadata", "no", "search"}
	for i := len(kinds) - 1; i > 0; i-- {
		j := r.Intn(i + 1)
		kinds[i], kinds[j] = kinds[j], kinds[i]
	}
	nk := []int{0, 1, 1, 1, 1, 1, 1, 2, 2, 2, 2, 2, 2, 3, 3, 3, 4, 5, 6}[r.Intn(19)]
	var popLabels []string
	var popMeta [][2]string
	for _, b := range in.Bugs {
		for _, op := range b.Ops {
			popLabels = append(popLabels, op.Add...)
		}
		for k, v := range b.Meta {
			popMeta = append(popMeta, [2]string{k, v})
		}
	}
	sort.Slice(popMeta, func(i, j int) bool { return popMeta[i][0]+"\x00"+popMeta[i][1] < popMeta[j][0]+"\x00"+popMeta[j][1] })
	for _, k := range kinds[:nk] {
		reps := 1
		if r.Chance(1, 2) {
			reps = r.Range(2, 3)
		}
		switch k {
		case "status":
			for i := 0; i < reps; i++ {
				kw := "status"
				if r.Chance(1, 4) {
					kw = "state"
				}
				add(kw, c12StatusVals[r.Intn(5)])
			}
		case "author", "actor", "participant":
			for i := 0; i < reps; i++ {
				identVal(k)
			}
		case "label":
			for i := 0; i < reps; i++ {
				if len(popLabels) > 0 && r.Chance(3, 5) {
					add(k, pick(popLabels))
				} else {
					add(k, pick(c12LabelQueries))
				}
			}
		case "title":
			for i := 0; i < reps; i++ {
				if r.Bool() {
					add(k, pick(c12TitleQueries))
				} else {
					w := c12Lexicon[r.Intn(len(c12Lexicon))]
					if r.Bool() {
						w = strings.ToLower(w)
					}
					add(k, w)
				}
			}
		case "metadata":
			for i := 0; i < reps; i++ {
				mk, mv := pick(c12MetaKeys), pick(c12MetaVals)
				if len(popMeta) > 0 && r.Chance(3, 5) {
					p := popMeta[r.Intn(len(popMeta))]
					mk, mv = p[0], p[1]
				}
				kv := c12MkVal(r, mk, false)
				vv := c12MkVal(r, mv, false)
				items = append(items, c12Item{K: "metadata", V: kv, W: &vv})
			}
		case "no":
			add("no", "label")
		case "search":
			for i := 0; i < reps; i++ {
				if r.Chance(1, 3) {
					// a term with operators of the index's query string language in it
					w, v := pick(c12SearchWords), pick(c12SearchWords)
					if r.Chance(2, 3) {
						b := in.Bugs[r.Intn(len(in.Bugs))]
						ws := c12Tokens(b.Title + " " + b.Msg)
						k := r.Intn(len(ws))
						if c12ASCII(ws[k]) {
							w = ws[k]
							if k+1 < len(ws) && c12ASCII(ws[k+1]) {
								v = ws[k+1]
							}
						}
					}
					if r.Chance(1, 4) {
						w = strings.ToUpper(w)
					}
					t := strings.ReplaceAll(strings.ReplaceAll(c12Deco[r.Intn(len(c12Deco))], "%w", w), "%v", v)
					add("search", t)
				} else if r.Chance(1, 2) {
					// a phrase: two or three words in a row of some text of the population, or any two words
					b := in.Bugs[r.Intn(len(in.Bugs))]
					ws := c12Tokens(b.Title + " " + b.Msg)
					var ph []string
					for _, w := range ws {
						ascii := true
						for _, c := range w {
							if c > 127 {
								ascii = false
							}
						}
						if !ascii {
							ph = nil
							continue
						}
						ph = append(ph, w)
						if len(ph) >= 2 && r.Chance(1, 2) {
							break
						}
					}
					if len(ph) < 2 || r.Chance(1, 4) {
						ph = []string{pick(c12SearchWords), pick(c12SearchWords)}
					}
					if len(ph) > 3 {
						ph = ph[len(ph)-3:]
					}
					tagPhrase := strings.Join(ph, " ")
					items = append(items, c12Item{K: "search", V: c12Val{S: 1 + r.Intn(2), T: tagPhrase}})
				} else {
					w := pick(c12SearchWords)
					if r.Chance(1, 5) {
						w = strings.ToUpper(w)
					}
					add("search", w)
				}
			}
		}
	}
	if r.Chance(5, 6) {
		add("sort", pick(c12SortVals))
	}
	// qualifiers come in any order
	for i := len(items) - 1; i > 0; i-- {
		j := r.Intn(i + 1)
		items[i], items[j] = items[j], items[i]
	}
	return items
}

func (c12eDriver) Gen(r *Rand, tier string) []json.RawMessage {
	n, nq := 300, 12
	if tier == "thorough" {
		n, nq = 6000, 12
	}
	var res []json.RawMessage
	for i := 0; i < n; i++ {
		in := c12GenPopulation(r)
		for k := 0; k < nq; k++ {
			in.Queries = append(in.Queries, c12GenQuery(r, &in))
		}
		res = append(res, mustJSON(in))
	}
	return res
}

// mirror of QueryEval.lower_rune; validated against unicode.ToLower on every text of a case
func c12Lower(r rune) rune {
	switch {
	case r >= 65 && r <= 90:
		return r + 32
	case r >= 192 && r <= 222 && r != 215:
		return r + 32
	case r >= 913 && r <= 939 && r != 930:
		return r + 32
	case r >= 1040 && r <= 1071:
		return r + 32
	case r >= 1024 && r <= 1039:
		return r + 80
	}
	return r
}
func c12LowerOK(texts ...string) bool {
	for _, t := range texts {
		for _, r := range t {
			if unicode.ToLower(r) != c12Lower(r) {
				return false
			}
		}
	}
	return true
}

// tokens of a text as the full-text index sees them, for the controlled vocabulary: maximal runs of
// letters and digits, lower-cased, in order
func c12Tokens(text string) []string {
	ws := strings.FieldsFunc(text, func(r rune) bool { return !unicode.IsLetter(r) && !unicode.IsDigit(r) })
	for i := range ws {
		ws[i] = strings.ToLower(ws[i])
	}
	return ws
}

func c12DrainMerge(ch <-chan entity.MergeResult) error {
	var first error
	for mr := range ch {
		if mr.Err != nil && first == nil {
			first = mr.Err
		}
		if mr.Status == entity.MergeStatusInvalid && first == nil {
			first = fmt.Errorf("invalid merge: %s", mr.Reason)
		}
	}
	return first
}

// c12RefBug: a bug as read back from its resolved snapshot (the reference data of the evaluation)
type c12RefBug struct {
	Id           string            `json:"id"`
	Rank         int               `json:"rank"`
	Status       string            `json:"status"`
	Title        string            `json:"title"`
	Labels       []string          `json:"labels"`
	Author       int               `json:"author"`
	Actors       []int             `json:"actors"`
	Participants []int             `json:"participants"`
	Meta         map[string]string `json:"meta"`
	Keys         [4]uint64         `json:"keys"`
}

// c12Pop: a generated population behind a real cache
type c12Pop struct {
	dir        string
	rc         *cache.RepoCache
	identsA    []*identity.Identity
	identTerms []string
	bugTerms   []string
	refs       []c12RefBug
	rk         ranker
	lowerOK    bool
	neutral    bool // every indexed text is cut into words by the index as by c12Tokens
	needB      bool
	tieC, tieE map[[2]uint64]int
	nClosed    int
	nLabeled   int
	cleanup    []func()
}

func (p *c12Pop) close() {
	for i := len(p.cleanup) - 1; i >= 0; i-- {
		p.cleanup[i]()
	}
	p.cleanup = nil
}

// c12BuildPop creates the identities and bugs of the input in one or two go-git repositories, merges them and
// builds a cache on the result; a non-empty string is the reason why the scenario could not be built
func c12BuildPop(in *c12eInput) (*c12Pop, string) {
	p := &c12Pop{lowerOK: true, neutral: true, tieC: map[[2]uint64]int{}, tieE: map[[2]uint64]int{}}
	dir, err := os.MkdirTemp("", "verif-c12-")
	if err != nil {
		panic(err)
	}
	p.dir = dir
	p.cleanup = append(p.cleanup, func() { os.RemoveAll(dir) })
	fail := func(why string) (*c12Pop, string) {
		p.close()
		return nil, why
	}
	repoA, err := newTestRepo(dir+"/a", false)
	if err != nil {
		panic(err)
	}
	needB := false
	for _, b := range in.Bugs {
		if b.Repo == 1 {
			needB = true
		}
	}
	// identities, created in A
	var identsA []*identity.Identity
	for i, d := range in.Idents {
		var id *identity.Identity
		for try := 0; try < 200; try++ {
			id, err = identity.NewIdentityFull(repoA, d.Name, fmt.Sprintf("u%d@example.org", i), d.Login, "", nil)
			if err != nil {
				return fail("identity: " + err.Error())
			}
			if !(in.Share && i == 1) || string(id.Id())[0] == string(identsA[0].Id())[0] {
				break
			}
		}
		if err := id.Commit(repoA); err != nil {
			return fail("identity commit: " + err.Error())
		}
		identsA = append(identsA, id)
	}
	// The cache is opened while the repository holds identities only, and rebuilt below, one sub-cache after the
	// other, once the bugs exist: RepoCache builds its sub-caches concurrently, and on the pinned tree the bug
	// builder reads the identity sub-cache's maps while they are being filled (a data race that kills the process
	// now and then; it belongs to the cache properties, not to this one).
	rc, err := cache.NewRepoCacheNoEvents(repoA)
	if err != nil {
		return fail("cache: " + err.Error())
	}
	p.rc = rc
	p.cleanup = append(p.cleanup, func() {
		if p.rc != nil {
			p.rc.Close()
		}
	})
	idents := [][]*identity.Identity{identsA}
	repos := []repository.TestedRepo{repoA}
	if needB {
		repoB, err := newTestRepo(dir+"/b", false)
		if err != nil {
			panic(err)
		}
		p.cleanup = append(p.cleanup, func() { repoB.Close() })
		if err := repoB.AddRemote("a", repoA.GetLocalRemote()); err != nil {
			panic(err)
		}
		if err := identity.Pull(repoB, "a"); err != nil {
			return fail("identity pull: " + err.Error())
		}
		var identsB []*identity.Identity
		for _, id := range identsA {
			x, err := identity.ReadLocal(repoB, id.Id())
			if err != nil {
				return fail("identity read: " + err.Error())
			}
			identsB = append(identsB, x)
		}
		idents = append(idents, identsB)
		repos = append(repos, repoB)
	}
	// bugs
	for _, d := range in.Bugs {
		rp := d.Repo
		if rp >= len(repos) {
			rp = 0
		}
		repo, ids := repos[rp], idents[rp]
		b, _, err := bug.Create(ids[d.Author%len(ids)], d.T, d.Title, d.Msg, nil, d.Meta)
		if err != nil {
			return fail("create: " + err.Error())
		}
		if err := b.Commit(repo); err != nil {
			return fail("commit: " + err.Error())
		}
		for _, op := range d.Ops {
			by := ids[op.By%len(ids)]
			switch op.K {
			case "comment":
				_, _, _ = bug.AddComment(b, by, op.T, op.Text, nil, nil)
			case "labels":
				_, _, _ = bug.ChangeLabels(b, by, op.T, op.Add, op.Rm, nil)
			case "close":
				_, _ = bug.Close(b, by, op.T, nil)
			case "open":
				_, _ = bug.Open(b, by, op.T, nil)
			case "title":
				_, _ = bug.SetTitle(b, by, op.T, op.Text, nil)
			case "meta":
				if len(op.KV) == 2 {
					_, _ = bug.SetMetadata(b, by, op.T, b.FirstOp().Id(), map[string]string{op.KV[0]: op.KV[1]})
				}
			case "commit":
				if b.NeedCommit() {
					if err := b.Commit(repo); err != nil {
						return fail("commit: " + err.Error())
					}
				}
			}
		}
		if b.NeedCommit() {
			if err := b.Commit(repo); err != nil {
				return fail("commit: " + err.Error())
			}
		}
	}
	if needB {
		if err := repoA.AddRemote("b", repos[1].GetLocalRemote()); err != nil {
			panic(err)
		}
		if _, err := bug.Fetch(repoA, "b"); err != nil {
			return fail("fetch: " + err.Error())
		}
		resolvers := entity.Resolvers{&identity.Identity{}: identity.NewSimpleResolver(repoA)}
		if err := c12DrainMerge(bug.MergeAll(repoA, resolvers, "b", identsA[0])); err != nil {
			return fail("merge: " + err.Error())
		}
	}
	// the cache, built from the git data (SubCache.Build: excerpts and full-text index from scratch)
	for ev := range rc.Identities().Build() {
		if ev.Err != nil {
			return fail("identity cache build: " + ev.Err.Error())
		}
	}
	for ev := range rc.Bugs().Build() {
		if ev.Err != nil {
			return fail("bug cache build: " + ev.Err.Error())
		}
	}

	p.identsA, p.needB = identsA, needB
	identIdx := map[entity.Id]int{}
	var identTerms []string
	for i, id := range identsA {
		identIdx[id.Id()] = i
		identTerms = append(identTerms, fmt.Sprintf("(mkident %s %s %s)", coqRunes(string(id.Id())), coqRunes(in.Idents[i].Name), coqRunes(in.Idents[i].Login)))
	}
	lowerOK := true
	for _, d := range in.Idents {
		lowerOK = lowerOK && c12LowerOK(d.Name, d.Login)
	}
	// reference data from the resolved snapshots
	allIds := rc.Bugs().AllIds()
	if len(allIds) != len(in.Bugs) {
		return fail(fmt.Sprintf("population has %d bugs, expected %d", len(allIds), len(in.Bugs)))
	}
	var idStrs []string
	for _, id := range allIds {
		idStrs = append(idStrs, string(id))
	}
	rk := rankOf(idStrs)
	sort.Strings(idStrs)
	var refs []c12RefBug
	var bugTerms []string
	tieC, tieE := p.tieC, p.tieE
	nClosed, nLabeled := 0, 0
	neutral := true
	for _, ids := range idStrs {
		bc, err := rc.Bugs().Resolve(entity.Id(ids))
		if err != nil {
			return fail("resolve: " + err.Error())
		}
		snap := bc.Snapshot()
		rb := c12RefBug{Id: ids, Rank: rk.m[ids], Status: snap.Status.String(), Title: snap.Title, Meta: bc.FirstOp().AllMetadata()}
		cu, eu := bc.FirstOp().Time().Unix(), snap.EditTime().Unix()
		if cu < 0 || eu < 0 {
			return fail("negative time")
		}
		rb.Keys = [4]uint64{uint64(bc.CreateLamportTime()), uint64(cu), uint64(bc.EditLamportTime()), uint64(eu)}
		tieC[[2]uint64{rb.Keys[0], rb.Keys[1]}]++
		tieE[[2]uint64{rb.Keys[2], rb.Keys[3]}]++
		ai, ok := identIdx[snap.Author.Id()]
		if !ok {
			return fail("unknown author")
		}
		rb.Author = ai
		for _, a := range snap.Actors {
			rb.Actors = append(rb.Actors, identIdx[a.Id()])
		}
		for _, a := range snap.Participants {
			rb.Participants = append(rb.Participants, identIdx[a.Id()])
		}
		var labels []string
		for _, l := range snap.Labels {
			rb.Labels = append(rb.Labels, string(l))
			labels = append(labels, coqRunes(string(l)))
		}
		if len(labels) > 0 {
			nLabeled++
		}
		if snap.Status.String() == "closed" {
			nClosed++
		}
		lowerOK = lowerOK && c12LowerOK(snap.Title)
		neutral = neutral && c12Neutral(snap.Title)
		texts := []string{coqStrs(c12Tokens(snap.Title))}
		for _, c := range snap.Comments {
			neutral = neutral && c12Neutral(c.Message)
			if ts := c12Tokens(c.Message); len(ts) > 0 {
				texts = append(texts, coqStrs(ts))
			}
		}
		var mk []string
		for k := range rb.Meta {
			mk = append(mk, k)
		}
		sort.Strings(mk)
		var meta []string
		for _, k := range mk {
			meta = append(meta, coqPair(coqRunes(k), coqRunes(rb.Meta[k])))
		}
		bugTerms = append(bugTerms, fmt.Sprintf("(mkrbug %s %s %s %s %s %d %s %s %s %s %s %s %s)", coqN(uint64(rb.Rank)),
			coqN(rb.Keys[0]), coqN(rb.Keys[1]), coqN(rb.Keys[2]), coqN(rb.Keys[3]), rb.Author, coqN(uint64(snap.Status)),
			coqList(labels), coqRunes(snap.Title), coqNats(rb.Actors), coqNats(rb.Participants), coqList(meta), coqList(texts)))
		refs = append(refs, rb)
	}
	p.identTerms, p.bugTerms, p.refs, p.rk = identTerms, bugTerms, refs, rk
	p.lowerOK, p.neutral, p.nClosed, p.nLabeled = lowerOK, neutral, nClosed, nLabeled
	return p, ""
}

func (c12eDriver) Run(raw json.RawMessage) Case {
	var in c12eInput
	if err := json.Unmarshal(raw, &in); err != nil || len(in.Idents) == 0 || len(in.Bugs) == 0 {
		return Case{Skip: "bad input"}
	}
	p, why := c12BuildPop(&in)
	if p == nil {
		return Case{Skip: why}
	}
	defer p.close()
	rc, identsA, refs, rk, lowerOK, neutral := p.rc, p.identsA, p.refs, p.rk, p.lowerOK, p.neutral
	identTerms, bugTerms, needB, tieC, tieE, nClosed, nLabeled := p.identTerms, p.bugTerms, p.needB, p.tieC, p.tieE, p.nClosed, p.nLabeled
	// queries
	type qObs struct {
		Query  string   `json:"query"`
		Error  string   `json:"error,omitempty"`
		Result []int    `json:"result"`
		Second []int    `json:"second,omitempty"`
		Notes  []string `json:"notes,omitempty"`
	}
	var qobs []qObs
	var qTerms []string
	tagset := map[string]bool{}
	nonEmpty, partial := 0, 0
	for _, items0 := range in.Queries {
		items := make([]c12Item, len(items0))
		copy(items, items0)
		for i := range items {
			if p := items[i].V.P; p != nil {
				id := string(identsA[p.I%len(identsA)].Id())
				l := p.L
				if l > len(id) {
					l = len(id)
				}
				t := id[:l]
				if p.U {
					t = strings.ToUpper(t)
				}
				items[i].V = c12Val{S: items[i].V.S, T: t}
				tagset["q:id-prefix"] = true
			}
			lowerOK = lowerOK && c12LowerOK(items[i].V.T)
			tagset["q:"+items[i].K] = true
			if items[i].K == "search" {
				neutral = neutral && c12Neutral(items[i].V.T)
				if strings.Contains(items[i].V.T, " ") {
					tagset["q:search-phrase"] = true
				}
				for _, c := range items[i].V.T {
					if c != ' ' && !c12Word(c) {
						tagset["q:search-operators"] = true
					}
				}
			}
		}
		s := c12Render(items)
		o := qObs{Query: s}
		evalOnce := func(q *query.Query) (string, []int, string) {
			ids, err := rc.Bugs().Query(q)
			if err != nil {
				return "EQueryErr", nil, err.Error()
			}
			ranks := make([]int, len(ids))
			xs := make([]string, len(ids))
			for i, id := range ids {
				ranks[i] = rk.m[string(id)] // unknown id -> 0, which is no bug of the population
				xs[i] = coqN(uint64(ranks[i]))
			}
			return "(EIds " + coqList(xs) + ")", ranks, ""
		}
		var t1, t2 string
		q, perr := query.Parse(s)
		if perr != nil {
			t1, t2 = "EParseErr", "EParseErr"
			o.Error = perr.Error()
			tagset["parse-error"] = true
		} else {
			var e1, e2 string
			t1, o.Result, e1 = evalOnce(q)
			t2, o.Second, e2 = evalOnce(q)
			if e1 != "" || e2 != "" {
				o.Error = e1 + e2
				tagset["query-error"] = true
			}
			if fmt.Sprint(o.Result) != fmt.Sprint(o.Second) {
				a, b := append([]int(nil), o.Result...), append([]int(nil), o.Second...)
				sort.Ints(a)
				sort.Ints(b)
				if fmt.Sprint(a) != fmt.Sprint(b) {
					tagset["eval-twice-differs"] = true
				}
			}
			if len(o.Result) > 0 {
				nonEmpty++
				if len(o.Result) < len(refs) {
					partial++
				}
			}
		}
		qobs = append(qobs, o)
		qTerms = append(qTerms, fmt.Sprintf("(mkeq %s %s %s %s)", c12ItemsCoq(items), coqRunes(s), t1, t2))
	}
	if !lowerOK {
		return Case{Skip: "a text uses a code point outside the validated lower-casing table"}
	}
	if !neutral {
		return Case{Skip: "a text or search term is not cut into words by the index as by the model"}
	}
	// Excerpt values are immutable: an excerpt obtained before a label change (the one a concurrent Query is
	// matching) keeps its labels whatever happens to the live bug afterwards. Two bugs, one removal and four
	// additions each; the added labels sort first, so that an in-place change of a shared array shows.
	type stabObs struct {
		Bug    int      `json:"bug"`
		Change string   `json:"change"`
		Before []string `json:"before"`
		After  []string `json:"after"`
	}
	var stab []stabObs
	var stabTerms []string
	author, aerr := rc.Identities().Resolve(identsA[0].Id())
	for k := 0; k < len(refs) && k < 2 && aerr == nil; k++ {
		id := entity.Id(refs[k].Id)
		bc, err := rc.Bugs().Resolve(id)
		if err != nil {
			break
		}
		var changes [][2][]string
		if len(refs[k].Labels) > 0 {
			changes = append(changes, [2][]string{nil, {refs[k].Labels[0]}})
		}
		for j := 3; j >= 0; j-- {
			changes = append(changes, [2][]string{{fmt.Sprintf("!%d-probe", j)}, nil})
		}
		for _, ch := range changes {
			ex, err := rc.Bugs().ResolveExcerpt(id)
			if err != nil {
				break
			}
			labelsOf := func() []string {
				res := []string{}
				for _, l := range ex.Labels {
					res = append(res, string(l))
				}
				return res
			}
			before := labelsOf()
			if _, _, err := bc.ChangeLabelsRaw(author, 2000, ch[0], ch[1], nil); err != nil {
				break
			}
			after := labelsOf()
			o := stabObs{Bug: refs[k].Rank, Change: fmt.Sprintf("+%v -%v", ch[0], ch[1]), Before: before, After: after}
			stab = append(stab, o)
			stabTerms = append(stabTerms, coqPair(coqStrs(before), coqStrs(after)))
			if fmt.Sprint(before) != fmt.Sprint(after) {
				tagset["excerpt-changed-after-the-fact"] = true
			}
		}
	}
	term := fmt.Sprintf("mkecase %s %s %s %s", coqList(identTerms), coqList(bugTerms), coqList(qTerms), coqList(stabTerms))
	tags := []string{fmt.Sprintf("idents:%d", len(identsA))}
	switch n := len(refs); {
	case n <= 3:
		tags = append(tags, "bugs:1-3")
	case n <= 10:
		tags = append(tags, "bugs:4-10")
	default:
		tags = append(tags, "bugs:11-30")
	}
	if needB {
		tags = append(tags, "two-repos")
	}
	for _, n := range tieC {
		if n > 1 {
			tagset["tie:creation"] = true
		}
	}
	for _, n := range tieE {
		if n > 1 {
			tagset["tie:edit"] = true
		}
	}
	if len(identsA) > 1 && string(identsA[0].Id())[0] == string(identsA[1].Id())[0] {
		tagset["shared-id-prefix"] = true
	}
	if nClosed > 0 && nClosed < len(refs) {
		tagset["mixed-status"] = true
	}
	if nLabeled > 0 && nLabeled < len(refs) {
		tagset["mixed-labels"] = true
	}
	for t := range tagset {
		tags = append(tags, t)
	}
	sort.Strings(tags)
	return Case{Coq: term, Obs: map[string]interface{}{"bugs": refs, "queries": qobs, "excerpts": stab}, Tags: tags,
		NonTrivial: partial > 0 || nonEmpty > 0, Key: string(raw)}
}
