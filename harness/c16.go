package main

// C16: the real GitLab importer (bridge/gitlab behind core.Bridge.ImportAll / ImportAllSince) is run against an
// in-process simulated GitLab REST API (net/http/httptest) that serves generated tracker histories. One case =
// 1..4 import rounds over a growing tracker, plus fault experiments: the rounds before round k replayed on a
// fresh repository, round k with one request failing - answered 403 (go-gitlab retries 5xx for ~12 s, so status
// faults are 4xx), or its connection closed without an answer (a transport failure: go-gitlab then returns no response
// at all) -, then round k again without failure. The simulated GitLab sends X-Total / X-Total-Pages or, as GitLab does
// for collections of more than 10000 items, only X-Page / X-Per-Page / X-Next-Page. Observed per run: the ImportResult stream, whether the cursor was stored,
// the identities created, the operations appended to each bug (kind, gitlab-id, author, time, payload, result of
// the real Validate()), and the set of requests the simulated GitLab received.
//
// Time. The importer stores time.Now()-5s as cursor; the tracker lives in logical time (seconds after c16Base).
// Before each round the harness rewrites the stored cursor into logical time (c16Base+cursor), after the round it
// reads the key back: a changed value means the run stored the cursor, which then stands for (now of the round - 5).
// Each round opens a fresh cache on the repository, like one `git bug bridge pull` process.

import (
	"context"
	"encoding/json"
	"fmt"
	"net"
	"net/http"
	"net/http/httptest"
	"os"
	"sort"
	"strconv"
	"strings"
	"sync"
	"time"
	"unicode"

	"github.com/MichaelMure/git-bug/bridge/core"
	"github.com/MichaelMure/git-bug/bridge/core/auth"
	"github.com/MichaelMure/git-bug/bridge/gitlab"
	"github.com/MichaelMure/git-bug/cache"
	"github.com/MichaelMure/git-bug/entities/bug"
	"github.com/MichaelMure/git-bug/entities/common"
	"github.com/MichaelMure/git-bug/entity"
	"github.com/MichaelMure/git-bug/entity/dag"
	"github.com/MichaelMure/git-bug/repository"
)

const c16Base = int64(1600000000)
const c16BridgeName = "sim"
const c16CursorKey = "git-bug.bridge." + c16BridgeName + ".lastImportTime"

// ---------------------------------------------------------------- input

type gUser struct {
	ID    int    `json:"id"`
	Name  string `json:"name"`
	Login string `json:"login"`
	Email string `json:"email"`
	Gone  bool   `json:"gone,omitempty"`
}
type gNote struct {
	ID   int    `json:"id"`
	A    int    `json:"a"`
	Sys  bool   `json:"sys,omitempty"`
	Body string `json:"body"`
	C    int64  `json:"c"`
	U    int64  `json:"u"`
}
type gLabel struct {
	ID   int    `json:"id"`
	A    int    `json:"a"`   // 0: the user was deleted ("user": null)
	Act  int    `json:"act"` // 0 add, 1 remove, 2 something else
	Name string `json:"name"`
	C    int64  `json:"c"`
}
type gState struct {
	ID int   `json:"id"`
	A  int   `json:"a"`
	St int   `json:"st"` // 0 closed, 1 reopened, 2 something else
	C  int64 `json:"c"`
}
type gIssue struct {
	IID    int      `json:"iid"`
	A      int      `json:"a"`
	C      int64    `json:"c"`
	U      int64    `json:"u"`
	Title  string   `json:"title"`
	Desc   string   `json:"desc"`
	Notes  []gNote  `json:"notes,omitempty"`
	Labels []gLabel `json:"labels,omitempty"`
	States []gState `json:"states,omitempty"`
}
type gTracker struct {
	Users  []gUser  `json:"users"`
	Issues []gIssue `json:"issues"`
}
type gRound struct {
	Snap int   `json:"snap"`
	Full bool  `json:"full,omitempty"`
	Now  int64 `json:"now"`
}
type c16Input struct {
	Page       int        `json:"page"`
	Snaps      []gTracker `json:"snaps"`
	Rounds     []gRound   `json:"rounds"`
	FaultRound int        `json:"fault_round"`
	FaultIdx   []int      `json:"fault_idx,omitempty"`  // indices into the sorted request list of the clean run of that round
	FaultAll   int        `json:"fault_all,omitempty"`  // >0: every request of that round, at most this many
	FaultMode  string     `json:"fault_mode,omitempty"` // "" or "403": the request is answered 403; "drop": its connection is closed
	NoTotals   bool       `json:"no_totals,omitempty"`  // the server does not send X-Total and X-Total-Pages
	Gen        string     `json:"gen,omitempty"`
}

// ---------------------------------------------------------------- the character tables of coq/Import.v, checked against Go

func c16IsControl(r rune) bool { return r <= 31 || (127 <= r && r <= 159) }
func c16IsSpace(r rune) bool {
	return (9 <= r && r <= 13) || r == 32 || r == 133 || r == 160 || r == 5760 || (8192 <= r && r <= 8202) || r == 8232 || r == 8233 || r == 8239 || r == 8287 || r == 12288
}
func c16IsGraphic(r rune) bool {
	if c16IsControl(r) {
		return false
	}
	for _, x := range []rune{173, 8203, 8206, 8207, 8232, 8233, 65279} {
		if r == x {
			return false
		}
	}
	return true
}

// every rune the generator can put into a text
var c16Alphabet = []rune{'a', 'b', 'c', 'T', 'x', ' ', '\n', '\r', '\t', 0, 0x1b, 0x7f, 0x85, 0xa0, 0xad, 0x200b, 0x2028, 0xe9, 0x4e2d, 0x1f600, '*', '{', '+', '}', '-', '@', '%', '#'}

// c16TextOK: all runes of s are in the domain on which the Coq tables were validated
func c16TextOK(s string) bool {
	for _, r := range s {
		if r == unicode.ReplacementChar {
			return false // invalid UTF-8 does not survive JSON; keep it out of the comparison
		}
		if unicode.IsControl(r) != c16IsControl(r) || unicode.IsSpace(r) != c16IsSpace(r) || unicode.IsGraphic(r) != c16IsGraphic(r) {
			return false
		}
	}
	return true
}

// ---------------------------------------------------------------- simulated GitLab

type c16CtxKey struct{}

type c16Sim struct {
	mu        sync.Mutex
	epoch     int // number of the current import run; a connection belongs to the run during which it was accepted
	tr        *gTracker
	page      int
	log       []string
	fault     string
	faultDone bool
	drop      bool // the failing request gets no answer: its connection is closed
	noTotals  bool
	srv       *httptest.Server
}

func c16Time(off int64) string { return time.Unix(c16Base+off, 0).UTC().Format(time.RFC3339) }

func (s *c16Sim) userJSON(id int) interface{} {
	if id == 0 {
		return nil
	}
	return map[string]interface{}{"id": id, "username": fmt.Sprintf("u%d", id), "name": fmt.Sprintf("user %d", id)}
}

func (s *c16Sim) paginate(w http.ResponseWriter, n, page, per int) (lo, hi int) {
	if page < 1 {
		page = 1
	}
	total := (n + per - 1) / per
	if total < 1 {
		total = 1
	}
	lo = (page - 1) * per
	if lo > n {
		lo = n
	}
	hi = lo + per
	if hi > n {
		hi = n
	}
	w.Header().Set("X-Page", strconv.Itoa(page))
	w.Header().Set("X-Per-Page", strconv.Itoa(per))
	if !s.noTotals {
		w.Header().Set("X-Total", strconv.Itoa(n))
		w.Header().Set("X-Total-Pages", strconv.Itoa(total))
	}
	if page < total {
		w.Header().Set("X-Next-Page", strconv.Itoa(page+1))
	}
	return
}

func (s *c16Sim) ServeHTTP(w http.ResponseWriter, r *http.Request) {
	s.mu.Lock()
	defer s.mu.Unlock()
	if ep, _ := r.Context().Value(c16CtxKey{}).(int); ep != s.epoch {
		// a request of an earlier run: the issue-listing goroutine of a run that returned early may still be asking for
		// its next page. Every run has its own client and connections, so such a request is recognised and kept out of
		// this run's log (and cannot use up its injected failure).
		http.Error(w, `{"message":"410 stale"}`, 410)
		return
	}
	path := strings.TrimPrefix(r.URL.Path, "/api/v4/")
	parts := strings.Split(strings.Trim(path, "/"), "/")
	page, _ := strconv.Atoi(r.URL.Query().Get("page"))
	if page < 1 {
		page = 1
	}
	var key string
	var iid int
	switch {
	case len(parts) == 2 && parts[0] == "users":
		key = "U/" + parts[1]
	case len(parts) == 3 && parts[0] == "projects" && parts[2] == "issues":
		key = fmt.Sprintf("I/%d", page)
	case len(parts) == 5 && parts[0] == "projects" && parts[2] == "issues":
		iid, _ = strconv.Atoi(parts[3])
		switch parts[4] {
		case "notes":
			key = fmt.Sprintf("N/%d/%d", iid, page)
		case "resource_label_events":
			key = fmt.Sprintf("L/%d/%d", iid, page)
		case "resource_state_events":
			key = fmt.Sprintf("S/%d/%d", iid, page)
		}
	}
	if key == "" {
		s.log = append(s.log, "?"+r.URL.Path)
		http.Error(w, `{"message":"404 Not found"}`, 404)
		return
	}
	s.log = append(s.log, key)
	w.Header().Set("Content-Type", "application/json")
	if key == s.fault && !s.faultDone {
		s.faultDone = true
		if s.drop {
			if hj, ok := w.(http.Hijacker); ok {
				if conn, _, err := hj.Hijack(); err == nil {
					_ = conn.Close()
					return
				}
			}
		}
		w.WriteHeader(403)
		_, _ = w.Write([]byte(`{"message":"403 Forbidden (injected)"}`))
		return
	}
	var out interface{}
	switch key[0] {
	case 'U':
		id, _ := strconv.Atoi(parts[1])
		var u *gUser
		for i := range s.tr.Users {
			if s.tr.Users[i].ID == id {
				u = &s.tr.Users[i]
			}
		}
		if u == nil || u.Gone {
			w.WriteHeader(404)
			_, _ = w.Write([]byte(`{"message":"404 User Not Found"}`))
			return
		}
		out = map[string]interface{}{"id": u.ID, "username": u.Login, "name": u.Name, "public_email": u.Email, "avatar_url": "", "state": "active"}
	case 'I':
		var since int64 = -1 << 62
		if v := r.URL.Query().Get("updated_after"); v != "" {
			if t, err := time.Parse(time.RFC3339, v); err == nil && t.Year() > 1971 {
				since = t.Unix() - c16Base
			}
		}
		var sel []gIssue
		for _, is := range s.tr.Issues {
			if is.U >= since {
				sel = append(sel, is)
			}
		}
		lo, hi := s.paginate(w, len(sel), page, s.page)
		arr := []interface{}{}
		for _, is := range sel[lo:hi] {
			arr = append(arr, map[string]interface{}{
				"id": 1000 + is.IID, "iid": is.IID, "project_id": 1, "title": is.Title, "description": is.Desc, "state": "opened",
				"created_at": c16Time(is.C), "updated_at": c16Time(is.U), "author": s.userJSON(is.A),
				"web_url": fmt.Sprintf("%s/p/-/issues/%d", s.srv.URL, is.IID),
			})
		}
		out = arr
	default:
		var is *gIssue
		for i := range s.tr.Issues {
			if s.tr.Issues[i].IID == iid {
				is = &s.tr.Issues[i]
			}
		}
		if is == nil {
			http.Error(w, `{"message":"404 Not found"}`, 404)
			return
		}
		arr := []interface{}{}
		switch key[0] {
		case 'N':
			lo, hi := s.paginate(w, len(is.Notes), page, s.page)
			for _, n := range is.Notes[lo:hi] {
				arr = append(arr, map[string]interface{}{"id": n.ID, "body": n.Body, "system": n.Sys, "author": s.userJSON(n.A),
					"created_at": c16Time(n.C), "updated_at": c16Time(n.U), "noteable_id": 1000 + is.IID, "noteable_type": "Issue", "noteable_iid": is.IID})
			}
		case 'L':
			lo, hi := s.paginate(w, len(is.Labels), page, s.page)
			for _, l := range is.Labels[lo:hi] {
				act := []string{"add", "remove", "touch"}[l.Act%3]
				arr = append(arr, map[string]interface{}{"id": l.ID, "action": act, "created_at": c16Time(l.C), "user": s.userJSON(l.A),
					"resource_type": "Issue", "resource_id": 1000 + is.IID, "label": map[string]interface{}{"id": 7, "name": l.Name}})
			}
		case 'S':
			lo, hi := s.paginate(w, len(is.States), page, s.page)
			for _, st := range is.States[lo:hi] {
				state := []string{"closed", "reopened", "merged"}[st.St%3]
				arr = append(arr, map[string]interface{}{"id": st.ID, "state": state, "created_at": c16Time(st.C), "user": s.userJSON(st.A),
					"resource_type": "Issue", "resource_id": 1000 + is.IID})
			}
		}
		out = arr
	}
	_ = json.NewEncoder(w).Encode(out)
}

// ---------------------------------------------------------------- observations

type c16Op struct {
	K      string `json:"k"`   // create comment edit title status label other
	Gid    int    `json:"gid"` // -1: no gitlab-id metadata
	Author int    `json:"author"`
	Time   int64  `json:"time"`
	T1     string `json:"t1,omitempty"`
	T2     string `json:"t2,omitempty"`
	Target int    `json:"target,omitempty"`
	Flag   bool   `json:"flag,omitempty"`
	Valid  bool   `json:"valid"`
	id     string
}
type c16Delta struct {
	IID int     `json:"iid"`
	Ops []c16Op `json:"ops"`
}
type c16Res struct {
	K string `json:"k"`
	N int    `json:"n,omitempty"`
}
type c16Run struct {
	Results []c16Res   `json:"results"`
	Errors  []string   `json:"errors,omitempty"`
	Stored  bool       `json:"stored"`
	Idents  []int      `json:"idents,omitempty"`
	Delta   []c16Delta `json:"delta,omitempty"`
	Reqs    []string   `json:"reqs"`
	Invalid int        `json:"invalid,omitempty"`
}

type c16Env struct {
	in      *c16Input
	sim     *c16Sim
	repo    repository.TestedRepo
	dir     string
	cursor  *int64
	bugOps  map[string][]string // bug entity id -> op ids seen so far
	bugIID  map[string]int
	idents  map[string]int // identity entity id -> gitlab id
	stable  bool
	problem string
}

var c16SweepOnce sync.Once

// c16Sweep removes repositories left behind by worker processes that died on a case (a crash of the importer is an
// observation, but nobody is left to clean up): anything of ours older than 20 minutes.
func c16Sweep() {
	for _, base := range []string{"/dev/shm", os.TempDir()} {
		ents, err := os.ReadDir(base)
		if err != nil {
			continue
		}
		for _, e := range ents {
			if !strings.HasPrefix(e.Name(), "verif-c16-") {
				continue
			}
			if fi, err := e.Info(); err == nil && time.Since(fi.ModTime()) > 20*time.Minute {
				_ = os.RemoveAll(base + "/" + e.Name())
			}
		}
	}
}

func c16NewEnv(in *c16Input) *c16Env {
	c16SweepOnce.Do(c16Sweep)
	e := &c16Env{in: in, bugOps: map[string][]string{}, bugIID: map[string]int{}, idents: map[string]int{}, stable: true}
	e.sim = &c16Sim{page: in.Page, drop: in.FaultMode == "drop", noTotals: in.NoTotals}
	e.sim.srv = httptest.NewUnstartedServer(e.sim)
	sim := e.sim
	e.sim.srv.Config.ConnContext = func(ctx context.Context, _ net.Conn) context.Context {
		sim.mu.Lock()
		defer sim.mu.Unlock()
		return context.WithValue(ctx, c16CtxKey{}, sim.epoch)
	}
	if e.sim.drop {
		// one connection per request: net/http silently sends a GET again when a connection that was already used
		// is closed before the answer, which would hide the failure from the importer
		e.sim.srv.Config.SetKeepAlivesEnabled(false)
	}
	e.sim.srv.Start()
	must := func(err error) {
		if err != nil {
			panic(err)
		}
	}
	// a go-git repository on disk: the in-memory test repository keeps its files in a go-billy memfs, which is
	// not safe for the concurrent sub-cache builds of cache.NewRepoCache
	base := ""
	if st, err := os.Stat("/dev/shm"); err == nil && st.IsDir() {
		base = "/dev/shm" // memory backed: the import rounds are dominated by go-git file I/O
	}
	dir, err := os.MkdirTemp(base, "verif-c16-")
	if err != nil {
		dir, err = os.MkdirTemp("", "verif-c16-")
	}
	must(err)
	e.dir = dir
	repo, err := newTestRepo(dir, false)
	must(err)
	e.repo = repo
	pre := "git-bug.bridge." + c16BridgeName + "."
	must(repo.LocalConfig().StoreString(pre+"target", "gitlab"))
	must(repo.LocalConfig().StoreString(pre+"project-id", "1"))
	must(repo.LocalConfig().StoreString(pre+"base-url", e.sim.srv.URL))
	must(repo.LocalConfig().StoreString(pre+"default-login", "tester"))
	tok := auth.NewToken("gitlab", "secret")
	tok.SetMetadata(auth.MetaKeyLogin, "tester")
	tok.SetMetadata(auth.MetaKeyBaseURL, e.sim.srv.URL)
	must(auth.Store(repo, tok))
	return e
}

func (e *c16Env) close() {
	e.sim.srv.Close()
	if c, ok := e.repo.(interface{ Close() error }); ok {
		_ = c.Close()
	}
	_ = os.RemoveAll(e.dir)
}

// runRound performs one import round; fault == "" for none.
func (e *c16Env) runRound(rd gRound, fault string) c16Run {
	var obs c16Run
	e.sim.mu.Lock()
	e.sim.epoch++
	e.sim.tr = &e.in.Snaps[rd.Snap]
	e.sim.log = nil
	e.sim.fault = fault
	e.sim.faultDone = false
	e.sim.mu.Unlock()

	// the cursor, in logical time
	var planted int64 = -1
	if e.cursor != nil {
		planted = c16Base + *e.cursor
		if err := e.repo.LocalConfig().StoreTimestamp(c16CursorKey, time.Unix(planted, 0)); err != nil {
			panic(err)
		}
	} else {
		_ = e.repo.LocalConfig().RemoveAll(c16CursorKey)
	}

	backend, err := cache.NewRepoCacheNoEvents(e.repo)
	if err != nil {
		panic(fmt.Errorf("open cache: %v", err))
	}
	b, err := core.LoadBridge(backend, c16BridgeName)
	if err != nil {
		panic(fmt.Errorf("load bridge: %v", err))
	}
	ctx, cancel := context.WithTimeout(context.Background(), 60*time.Second)
	var events <-chan core.ImportResult
	if rd.Full {
		events, err = b.ImportAllSince(ctx, time.Time{})
	} else {
		events, err = b.ImportAll(ctx)
	}
	if err != nil {
		panic(fmt.Errorf("import: %v", err))
	}
	var raw []core.ImportResult
	for ev := range events {
		raw = append(raw, ev)
	}
	cancel()
	if err := backend.Close(); err != nil {
		panic(fmt.Errorf("close cache: %v", err))
	}

	// cursor stored?
	if ts, err := e.repo.LocalConfig().ReadTimestamp(c16CursorKey); err == nil && ts.Unix() != planted {
		obs.Stored = true
		c := rd.Now - 5
		e.cursor = &c
	}

	// read everything back through a fresh cache
	backend, err = cache.NewRepoCacheNoEvents(e.repo)
	if err != nil {
		panic(fmt.Errorf("reopen cache: %v", err))
	}
	for _, id := range backend.Identities().AllIds() {
		if _, ok := e.idents[string(id)]; ok {
			continue
		}
		ic, err := backend.Identities().Resolve(id)
		if err != nil {
			panic(err)
		}
		g, err := strconv.Atoi(ic.ImmutableMetadata()["gitlab-id"])
		if err != nil {
			g = -1
		}
		e.idents[string(id)] = g
		obs.Idents = append(obs.Idents, g)
	}
	sort.Ints(obs.Idents)
	ids := backend.Bugs().AllIds()
	sort.Slice(ids, func(i, j int) bool { return ids[i] < ids[j] })
	for _, id := range ids {
		bc, err := backend.Bugs().Resolve(id)
		if err != nil {
			panic(err)
		}
		ops := bc.Snapshot().Operations
		var opIDs []string
		for _, op := range ops {
			opIDs = append(opIDs, string(op.Id()))
		}
		old := e.bugOps[string(id)]
		if len(old) > len(opIDs) {
			e.stable = false
			e.problem = "a bug lost operations"
			old = nil
		}
		for i := range old {
			if old[i] != opIDs[i] {
				e.stable = false
				e.problem = "stored operations changed"
			}
		}
		if _, seen := e.bugIID[string(id)]; !seen {
			iid := -1
			if len(ops) > 0 {
				if v, ok := ops[0].GetMetadata("gitlab-id"); ok {
					iid, _ = strconv.Atoi(v)
				}
			}
			for _, other := range e.bugIID {
				if other == iid {
					e.stable = false
					e.problem = "two bugs for one issue"
				}
			}
			e.bugIID[string(id)] = iid
		}
		e.bugOps[string(id)] = opIDs
		if len(opIDs) == len(old) {
			continue
		}
		d := c16Delta{IID: e.bugIID[string(id)]}
		for i := len(old); i < len(ops); i++ {
			o := c16ObserveOp(ops, i, e.idents)
			if !o.Valid {
				obs.Invalid++
			}
			d.Ops = append(d.Ops, o)
		}
		obs.Delta = append(obs.Delta, d)
	}
	sort.Slice(obs.Delta, func(i, j int) bool { return obs.Delta[i].IID < obs.Delta[j].IID })
	if err := backend.Close(); err != nil {
		panic(err)
	}

	// results
	bugOf := func(id entity.Id) int {
		if v, ok := e.bugIID[string(id)]; ok {
			return v
		}
		return -1
	}
	for _, ev := range raw {
		switch ev.Event {
		case core.ImportEventBug:
			obs.Results = append(obs.Results, c16Res{"bug", bugOf(ev.EntityId)})
		case core.ImportEventIdentity:
			g, ok := e.idents[string(ev.EntityId)]
			if !ok {
				g = -1
			}
			obs.Results = append(obs.Results, c16Res{"ident", g})
		case core.ImportEventComment:
			obs.Results = append(obs.Results, c16Res{"comment", bugOf(ev.EntityId)})
		case core.ImportEventCommentEdition:
			obs.Results = append(obs.Results, c16Res{"comment-edit", bugOf(ev.EntityId)})
		case core.ImportEventStatusChange:
			obs.Results = append(obs.Results, c16Res{"status", bugOf(ev.EntityId)})
		case core.ImportEventTitleEdition:
			obs.Results = append(obs.Results, c16Res{"title", bugOf(ev.EntityId)})
		case core.ImportEventNothing:
			obs.Results = append(obs.Results, c16Res{"nothing", bugOf(ev.EntityId)})
		case core.ImportEventError:
			msg := "error"
			if ev.Err != nil {
				msg = ev.Err.Error()
			}
			if len(msg) > 120 {
				msg = msg[:120]
			}
			obs.Errors = append(obs.Errors, msg)
		default:
			obs.Results = append(obs.Results, c16Res{fmt.Sprintf("other-%d", ev.Event), 0})
		}
	}

	e.sim.mu.Lock()
	set := map[string]bool{}
	for _, k := range e.sim.log {
		set[k] = true
	}
	e.sim.mu.Unlock()
	for k := range set {
		obs.Reqs = append(obs.Reqs, k)
	}
	sort.Strings(obs.Reqs)
	return obs
}

func c16ObserveOp(ops []dag.Operation, i int, idents map[string]int) c16Op {
	op := ops[i]
	o := c16Op{Gid: -1, Author: -1, Time: op.Time().Unix() - c16Base, Valid: op.Validate() == nil, id: string(op.Id())}
	if v, ok := op.GetMetadata("gitlab-id"); ok {
		if g, err := strconv.Atoi(v); err == nil {
			o.Gid = g
		} else {
			o.Gid = -2
		}
	}
	if g, ok := idents[string(op.Author().Id())]; ok {
		o.Author = g
	}
	switch x := op.(type) {
	case *bug.CreateOperation:
		o.K, o.T1, o.T2 = "create", x.Title, x.Message
	case *bug.AddCommentOperation:
		o.K, o.T1 = "comment", x.Message
	case *bug.EditCommentOperation:
		o.K, o.T1 = "edit", x.Message
		o.Target = -1
		for j := range ops {
			if ops[j].Id() == x.Target {
				o.Target = j
			}
		}
	case *bug.SetTitleOperation:
		o.K, o.T1, o.T2 = "title", x.Title, x.Was
	case *bug.SetStatusOperation:
		o.K, o.Flag = "status", x.Status == common.ClosedStatus
	case *bug.LabelChangeOperation:
		switch {
		case len(x.Added) == 1 && len(x.Removed) == 0:
			o.K, o.Flag, o.T1 = "label", true, string(x.Added[0])
		case len(x.Added) == 0 && len(x.Removed) == 1:
			o.K, o.Flag, o.T1 = "label", false, string(x.Removed[0])
		default:
			o.K = "other"
		}
	default:
		o.K = "other"
	}
	return o
}

// ---------------------------------------------------------------- Coq terms

func c16CoqUser(u gUser) string {
	return fmt.Sprintf("mkuser %d %s %s %s %s", u.ID, coqRunes(u.Name), coqRunes(u.Login), coqRunes(u.Email), coqBool(u.Gone))
}
func c16CoqTracker(t gTracker) string {
	var us, is []string
	for _, u := range t.Users {
		us = append(us, c16CoqUser(u))
	}
	for _, i := range t.Issues {
		var ns, ls, ss []string
		for _, n := range i.Notes {
			ns = append(ns, fmt.Sprintf("mknote %d %d %s %s %d %d", n.ID, n.A, coqBool(n.Sys), coqRunes(n.Body), n.C, n.U))
		}
		for _, l := range i.Labels {
			ls = append(ls, fmt.Sprintf("mklab %d %d %d %s %d", l.ID, l.A, l.Act%3, coqRunes(l.Name), l.C))
		}
		for _, s := range i.States {
			ss = append(ss, fmt.Sprintf("mkst %d %d %d %d", s.ID, s.A, s.St%3, s.C))
		}
		is = append(is, fmt.Sprintf("mkissue %d %d %d %d %s %s %s %s %s", i.IID, i.A, i.C, i.U, coqRunes(i.Title), coqRunes(i.Desc), coqList(ns), coqList(ls), coqList(ss)))
	}
	return fmt.Sprintf("mktracker %s %s", coqList(us), coqList(is))
}
func c16CoqReq(k string) string {
	p := strings.Split(k, "/")
	switch p[0] {
	case "I":
		return "QIssues " + p[1]
	case "N":
		return fmt.Sprintf("QNotes %s %s", p[1], p[2])
	case "L":
		return fmt.Sprintf("QLabels %s %s", p[1], p[2])
	case "S":
		return fmt.Sprintf("QStates %s %s", p[1], p[2])
	case "U":
		return "QUser " + p[1]
	}
	return "QUser 999999"
}
func c16N(n int) int {
	if n < 0 {
		return 999999 // never a gitlab id of the tracker
	}
	return n
}
func c16CoqOp(o c16Op) string {
	gid := "None"
	if o.Gid != -1 {
		gid = fmt.Sprintf("(Some %d%%N)", c16N(o.Gid))
	}
	var k string
	switch o.K {
	case "create":
		k = fmt.Sprintf("OCreate %s %s", coqRunes(o.T1), coqRunes(o.T2))
	case "comment":
		k = fmt.Sprintf("OComment %s", coqRunes(o.T1))
	case "edit":
		t := o.Target
		if t < 0 {
			t = 999999
		}
		k = fmt.Sprintf("OEdit %d %s", t, coqRunes(o.T1))
	case "title":
		k = fmt.Sprintf("OTitle %s %s", coqRunes(o.T1), coqRunes(o.T2))
	case "status":
		k = "OStatus " + coqBool(o.Flag)
	case "label":
		k = fmt.Sprintf("OLabel %s %s", coqBool(o.Flag), coqRunes(o.T1))
	default:
		k = "OLabel true [0]%N" // an operation the importer is not supposed to create: never matches, never valid
	}
	tm := o.Time
	if tm < 0 {
		tm = 0
	}
	return fmt.Sprintf("mkop %s %d %d (%s)", gid, c16N(o.Author), tm, k)
}
func c16CoqRun(r c16Run) string {
	var rs, ds, qs, is []string
	for _, x := range r.Results {
		switch x.K {
		case "bug":
			rs = append(rs, fmt.Sprintf("RBug %d", c16N(x.N)))
		case "ident":
			rs = append(rs, fmt.Sprintf("RIdent %d", c16N(x.N)))
		case "comment":
			rs = append(rs, fmt.Sprintf("RComment %d", c16N(x.N)))
		case "comment-edit":
			rs = append(rs, fmt.Sprintf("RCommentEdit %d", c16N(x.N)))
		case "status":
			rs = append(rs, fmt.Sprintf("RStatus %d", c16N(x.N)))
		case "title":
			rs = append(rs, fmt.Sprintf("RTitle %d", c16N(x.N)))
		case "nothing":
			rs = append(rs, fmt.Sprintf("RNothing %d", c16N(x.N)))
		default:
			rs = append(rs, "RBug 999999")
		}
	}
	for _, d := range r.Delta {
		var os []string
		for _, o := range d.Ops {
			os = append(os, c16CoqOp(o))
		}
		ds = append(ds, fmt.Sprintf("(%d%%N, %s)", c16N(d.IID), coqList(os)))
	}
	for _, q := range r.Reqs {
		qs = append(qs, c16CoqReq(q))
	}
	for _, i := range r.Idents {
		is = append(is, strconv.Itoa(c16N(i)))
	}
	return fmt.Sprintf("mkrobs %s %d %s %s %s %s %d", coqList(rs), len(r.Errors), coqBool(r.Stored), "["+strings.Join(is, "; ")+"]%N", coqList(ds), coqList(qs), r.Invalid)
}

// c16Stable: what must be the same when a round is replayed on a fresh repository. The issue-listing requests are left
// out: the listing goroutine is one page ahead of the importer, so when ImportAll returns early (an issue that cannot be
// created) it is a race whether the next page was already asked for.
func c16Stable(r c16Run) string {
	var reqs []string
	for _, q := range r.Reqs {
		if !strings.HasPrefix(q, "I/") {
			reqs = append(reqs, q)
		}
	}
	r.Reqs = reqs
	return c16CoqRun(r)
}

// ---------------------------------------------------------------- the driver

type c16Driver struct{}

func init() {
	core.Register(&gitlab.Gitlab{})
	register("C16", c16Driver{})
}

type c16FaultObs struct {
	Round   int    `json:"round"`
	Req     string `json:"req"`
	Fault   c16Run `json:"fault"`
	Recover c16Run `json:"recover"`
}

func c16InputOK(in *c16Input) string {
	if in.Page < 1 || len(in.Snaps) == 0 || len(in.Rounds) == 0 || len(in.Rounds) > 8 {
		return "bad shape"
	}
	if in.FaultMode != "" && in.FaultMode != "403" && in.FaultMode != "drop" {
		return "bad fault mode"
	}
	for _, rd := range in.Rounds {
		if rd.Snap < 0 || rd.Snap >= len(in.Snaps) || rd.Now < 5 {
			return "bad round"
		}
	}
	for _, t := range in.Snaps {
		for _, u := range t.Users {
			if !c16TextOK(u.Name) || !c16TextOK(u.Login) || !c16TextOK(u.Email) || u.ID <= 0 {
				return "text outside the validated alphabet"
			}
		}
		seen := map[int]bool{}
		for _, i := range t.Issues {
			if seen[i.IID] || i.IID <= 0 {
				return "duplicate iid"
			}
			if i.A <= 0 {
				return "issue without author" // GitLab hands the issues of a deleted user over to its ghost user
			}
			seen[i.IID] = true
			if !c16TextOK(i.Title) || !c16TextOK(i.Desc) {
				return "text outside the validated alphabet"
			}
			for _, n := range i.Notes {
				if !c16TextOK(n.Body) {
					return "text outside the validated alphabet"
				}
			}
			for _, l := range i.Labels {
				if !c16TextOK(l.Name) {
					return "text outside the validated alphabet"
				}
			}
		}
	}
	return ""
}

func (c16Driver) Run(raw json.RawMessage) Case {
	var in c16Input
	if err := json.Unmarshal(raw, &in); err != nil {
		return Case{Skip: "bad input: " + err.Error()}
	}
	if why := c16InputOK(&in); why != "" {
		return Case{Skip: why}
	}
	stable := true
	var problems []string

	// clean run
	env := c16NewEnv(&in)
	var clean []c16Run
	for _, rd := range in.Rounds {
		clean = append(clean, env.runRound(rd, ""))
	}
	env.close()
	if !env.stable {
		stable = false
		problems = append(problems, env.problem)
	}

	// fault experiments
	var faults []c16FaultObs
	if in.FaultRound >= 0 && in.FaultRound < len(in.Rounds) {
		keys := clean[in.FaultRound].Reqs
		var chosen []string
		seen := map[string]bool{}
		add := func(k string) {
			if !seen[k] {
				seen[k] = true
				chosen = append(chosen, k)
			}
		}
		if len(keys) > 0 {
			for _, i := range in.FaultIdx {
				if i < 0 {
					i = -i
				}
				add(keys[i%len(keys)])
			}
			for i := 0; i < len(keys) && i < in.FaultAll; i++ {
				add(keys[i])
			}
		}
		for _, k := range chosen {
			env := c16NewEnv(&in)
			for r := 0; r < in.FaultRound; r++ {
				o := env.runRound(in.Rounds[r], "")
				if c16Stable(o) != c16Stable(clean[r]) {
					stable = false
					problems = append(problems, fmt.Sprintf("replaying round %d gave a different observation", r))
				}
			}
			f := c16FaultObs{Round: in.FaultRound, Req: k}
			f.Fault = env.runRound(in.Rounds[in.FaultRound], k)
			f.Recover = env.runRound(in.Rounds[in.FaultRound], "")
			env.close()
			if !env.stable {
				stable = false
				problems = append(problems, env.problem)
			}
			faults = append(faults, f)
		}
	}

	// Coq term
	var snaps, rounds, cl, fs []string
	for _, t := range in.Snaps {
		snaps = append(snaps, c16CoqTracker(t))
	}
	for _, rd := range in.Rounds {
		rounds = append(rounds, fmt.Sprintf("mkround %d %s %d", rd.Snap, coqBool(rd.Full), rd.Now))
	}
	for _, o := range clean {
		cl = append(cl, c16CoqRun(o))
	}
	for _, f := range faults {
		fs = append(fs, fmt.Sprintf("mkfexp %d (%s) (%s) (%s)", f.Round, c16CoqReq(f.Req), c16CoqRun(f.Fault), c16CoqRun(f.Recover)))
	}
	term := fmt.Sprintf("mkcase %d %s %s %s %s %s %s", in.Page, coqList(snaps), coqList(rounds), coqList(cl), coqList(fs), coqBool(!in.NoTotals), coqBool(stable))

	tags := c16Tags(&in, clean, faults)
	if !stable {
		tags = append(tags, "viol:unstable")
	}
	nops := 0
	for _, o := range clean {
		for _, d := range o.Delta {
			nops += len(d.Ops)
		}
	}
	sort.Strings(tags)
	obs := map[string]interface{}{"clean": clean, "faults": faults}
	if len(problems) > 0 {
		obs["problems"] = problems
	}
	return Case{Coq: term, Obs: obs, Tags: tags, NonTrivial: nops > 1 && (len(in.Rounds) > 1 || len(faults) > 0), Key: string(raw)}
}

// ---------------------------------------------------------------- tags: input features, and a mirror of the property clauses (used for
// histograms and the narrow signatures of known findings only; the verdict is computed in Coq)

type c16State struct {
	idents map[int]bool
	bugs   map[int][]c16Op
}

func c16Empty() *c16State { return &c16State{idents: map[int]bool{}, bugs: map[int][]c16Op{}} }
func (s *c16State) clone() *c16State {
	t := c16Empty()
	for k := range s.idents {
		t.idents[k] = true
	}
	for k, v := range s.bugs {
		t.bugs[k] = append([]c16Op(nil), v...)
	}
	return t
}
func (s *c16State) apply(r c16Run) *c16State {
	t := s.clone()
	for _, i := range r.Idents {
		t.idents[i] = true
	}
	for _, d := range r.Delta {
		t.bugs[d.IID] = append(t.bugs[d.IID], d.Ops...)
	}
	return t
}
func c16Canon(ops []c16Op) []string {
	// edits are replaced by their effect (the final text of each comment); a title change does not say which title it replaced
	final := map[int]string{}
	for i, o := range ops {
		switch o.K {
		case "create":
			final[i] = o.T2
		case "comment":
			final[i] = o.T1
		case "edit":
			if _, ok := final[o.Target]; ok {
				final[o.Target] = o.T1
			}
		}
	}
	var xs []string
	for i, o := range ops {
		t1, t2 := o.T1, o.T2
		switch o.K {
		case "edit":
			continue
		case "create":
			t2 = final[i]
		case "comment":
			t1 = final[i]
		case "title":
			t2 = ""
		}
		xs = append(xs, fmt.Sprintf("%s|%d|%d|%d|%q|%q|%v", o.K, o.Gid, o.Author, o.Time, t1, t2, o.Flag))
	}
	sort.Strings(xs)
	return xs
}
func c16View(ops []c16Op) string {
	title, closed := "", false
	var labels []string
	for _, o := range ops {
		switch o.K {
		case "create", "title":
			title = o.T1
		case "status":
			closed = o.Flag
		case "label":
			idx := -1
			for i, l := range labels {
				if l == o.T1 {
					idx = i
				}
			}
			if o.Flag && idx < 0 {
				labels = append(labels, o.T1)
			}
			if !o.Flag && idx >= 0 {
				labels = append(labels[:idx], labels[idx+1:]...)
			}
		}
	}
	sort.Strings(labels)
	return fmt.Sprintf("%q|%v|%q", title, closed, labels)
}

func c16Tags(in *c16Input, clean []c16Run, faults []c16FaultObs) []string {
	set := map[string]bool{}
	add := func(t string) { set[t] = true }
	add(fmt.Sprintf("rounds:%d", len(in.Rounds)))
	add(fmt.Sprintf("snaps:%d", len(in.Snaps)))
	if in.Gen != "" {
		add("gen:" + in.Gen)
	}
	if in.NoTotals {
		add("in:no-total-pages")
	}
	if in.FaultMode == "drop" && len(faults) > 0 {
		add("fault-mode:drop")
	}
	invisible := func(s string) bool { // nothing left for text.Empty
		for _, r := range s {
			if !unicode.IsControl(r) && !unicode.IsSpace(r) && unicode.IsGraphic(r) {
				return false
			}
		}
		return true
	}
	control := func(s string) bool {
		for _, r := range s {
			if unicode.IsControl(r) {
				return true
			}
		}
		return false
	}
	hostile := func(s string) bool {
		for _, r := range s {
			if r < 32 || r > 126 {
				return true
			}
		}
		return false
	}
	for _, t := range in.Snaps {
		for _, u := range t.Users {
			if u.Gone {
				add("in:gone-user")
			}
			if hostile(u.Name) || hostile(u.Login) {
				add("in:hostile-user")
			}
			if control(u.Name) || control(u.Login) || control(u.Email) {
				add("in:user-with-control-character")
			}
		}
		for _, i := range t.Issues {
			if hostile(i.Title) || hostile(i.Desc) {
				add("in:hostile-text")
			}
			if invisible(i.Title) {
				add("in:invisible-title")
			}
			if len(i.Notes) > in.Page || len(i.Labels) > in.Page || len(i.States) > in.Page || len(t.Issues) > in.Page {
				add("in:paged")
			}
			other := map[int]bool{}
			for _, l := range i.Labels {
				other[l.ID] = true
				if l.A == 0 {
					add("in:null-user")
				}
				if hostile(l.Name) {
					add("in:hostile-text")
				}
				if invisible(l.Name) {
					add("in:invisible-label")
				}
			}
			for _, s := range i.States {
				if other[s.ID] {
					add("collide:cross")
				}
				other[s.ID] = true
				if s.A == 0 {
					add("in:null-user")
				}
			}
			for _, n := range i.Notes {
				if n.ID == i.IID {
					add("collide:note-iid")
				}
				if other[n.ID] {
					add("collide:cross")
				}
				if hostile(n.Body) {
					add("in:hostile-text")
				}
				if n.Sys && strings.HasPrefix(n.Body, "changed title from") && !strings.Contains(n.Body, "** to **") {
					add("in:title-note-without-separator")
				}
				if n.Sys && strings.HasPrefix(n.Body, "changed title from") && control(n.Body) {
					add("in:title-note-with-control-character")
				}
				if n.U != n.C {
					add("in:edited-note")
				}
			}
			for _, l := range i.Labels {
				if l.ID == i.IID {
					add("collide:cross")
				}
			}
			for _, s := range i.States {
				if s.ID == i.IID {
					add("collide:cross")
				}
			}
		}
	}
	for i, rd := range in.Rounds {
		if rd.Full {
			add("in:full-round")
		}
		if i > 0 && in.Rounds[i-1].Snap == rd.Snap {
			add("in:repeated-round")
			if len(clean[i].Delta) > 0 || len(clean[i].Idents) > 0 {
				add("viol:idempotent")
			}
		}
	}
	for _, f := range faults {
		add("fault:" + f.Req[:1])
	}
	all := append([]c16Run(nil), clean...)
	for _, f := range faults {
		all = append(all, f.Fault, f.Recover)
	}
	for _, o := range all {
		if len(o.Errors) > 0 && o.Stored {
			add("viol:cursor")
		}
		if o.Invalid > 0 {
			add("viol:invalid")
		}
	}
	for _, o := range clean {
		if len(o.Errors) > 0 {
			add("out:clean-run-reports-errors")
		}
	}
	// resume
	states := []*c16State{c16Empty()}
	for _, o := range clean {
		states = append(states, states[len(states)-1].apply(o))
	}
	for _, f := range faults {
		got := states[f.Round].apply(f.Fault).apply(f.Recover)
		want := states[f.Round+1]
		same := len(got.bugs) == len(want.bugs) && len(got.idents) == len(want.idents)
		for k := range got.idents {
			if !want.idents[k] {
				same = false
			}
		}
		view := true
		for iid, ops := range got.bugs {
			w, ok := want.bugs[iid]
			if !ok {
				same = false
				continue
			}
			if strings.Join(c16Canon(ops), "\n") != strings.Join(c16Canon(w), "\n") {
				same = false
			}
			if c16View(ops) != c16View(w) {
				view = false
			}
		}
		if !same {
			add("viol:resume-events")
		} else if !view {
			add("viol:resume-order")
		}
		if len(f.Fault.Errors) == 0 {
			add("out:fault-not-reported")
		}
	}
	var tags []string
	for t := range set {
		tags = append(tags, t)
	}
	return tags
}

// ---------------------------------------------------------------- generator

type c16Gen struct {
	r       *Rand
	clock   int64
	tr      gTracker
	noteID  int
	labelID int
	stateID int
	style   map[int]int // per issue: 0 status through state events, 1 through system notes, 2 both
	hostile bool
	collide int // 0 none, 1 note id = iid, 2 ids shared between the event kinds
	quirks  bool
}

func (g *c16Gen) text(min, max int) string {
	n := g.r.Range(min, max)
	var rs []rune
	for i := 0; i < n; i++ {
		if g.hostile && g.r.Chance(1, 3) {
			rs = append(rs, c16Alphabet[g.r.Intn(len(c16Alphabet))])
		} else {
			rs = append(rs, []rune{'a', 'b', 'c', 'T', 'x', ' '}[g.r.Intn(6)])
		}
	}
	return string(rs)
}
func (g *c16Gen) word() string {
	s := g.text(1, 4)
	if strings.TrimSpace(s) == "" && !g.hostile {
		return "w" + s
	}
	return s
}
func (g *c16Gen) tick() int64 {
	// one time in four within the same second as the previous event (ties between the three event streams)
	g.clock += int64(g.r.Range(0, 3))
	return g.clock
}
func (g *c16Gen) someUser(allowNull bool) int {
	if allowNull && g.quirks && g.r.Chance(1, 8) {
		return 0
	}
	return g.tr.Users[g.r.Intn(len(g.tr.Users))].ID
}

// liveUser: a user that exists and has a visible name or login (whatever else these texts hold): the author of an issue
func (g *c16Gen) liveUser() int {
	visible := func(s string) bool {
		for _, r := range s {
			if !unicode.IsControl(r) && !unicode.IsSpace(r) && unicode.IsGraphic(r) {
				return true
			}
		}
		return false
	}
	var xs []int
	for _, u := range g.tr.Users {
		if !u.Gone && (visible(u.Name) || visible(u.Login)) {
			xs = append(xs, u.ID)
		}
	}
	return xs[g.r.Intn(len(xs))]
}
func (g *c16Gen) newNoteID(is *gIssue) int {
	if g.collide == 1 && g.r.Chance(1, 2) {
		free := true
		for _, n := range is.Notes {
			if n.ID == is.IID {
				free = false
			}
		}
		if free {
			return is.IID
		}
	}
	g.noteID += g.r.Range(1, 3)
	return g.noteID
}
func (g *c16Gen) addNote(is *gIssue, sys bool, body string, author int) {
	t := g.tick()
	is.Notes = append(is.Notes, gNote{ID: g.newNoteID(is), A: author, Sys: sys, Body: body, C: t, U: t})
	is.U = t
}
func (g *c16Gen) newIssue() {
	t := g.tick()
	iid := len(g.tr.Issues) + 1
	title := g.word()
	if !g.hostile || g.r.Chance(3, 4) {
		title = "T" + title
	}
	g.tr.Issues = append(g.tr.Issues, gIssue{IID: iid, A: g.liveUser(), C: t, U: t, Title: title, Desc: g.text(0, 5)})
	g.style[iid] = g.r.Intn(3)
	if !g.quirks && g.style[iid] == 2 {
		g.style[iid] = 0
	}
}
func (g *c16Gen) mutate() {
	if len(g.tr.Issues) == 0 || (len(g.tr.Issues) < 3 && g.r.Chance(1, 5)) {
		g.newIssue()
		return
	}
	is := &g.tr.Issues[g.r.Intn(len(g.tr.Issues))]
	switch g.r.Intn(9) {
	case 0, 1:
		g.addNote(is, false, g.text(0, 6), g.someUser(false))
	case 2: // edit a comment
		var idx []int
		for i, n := range is.Notes {
			if !n.Sys {
				idx = append(idx, i)
			}
		}
		if len(idx) == 0 {
			g.addNote(is, false, g.text(0, 6), g.someUser(false))
			return
		}
		n := &is.Notes[idx[g.r.Intn(len(idx))]]
		n.Body = g.text(0, 6)
		n.U = g.tick()
		is.U = n.U
	case 3: // title change
		old := is.Title
		is.Title = g.word()
		if !g.hostile || g.r.Chance(3, 4) {
			is.Title = "T" + is.Title
		}
		body := fmt.Sprintf("changed title from **%s** to **%s**", old, is.Title)
		if g.r.Chance(1, 3) {
			// the diff markup of GitLab
			body = fmt.Sprintf("changed title from **{-%s-}** to **{+%s+}**", old, is.Title)
		}
		if g.quirks && g.r.Chance(1, 10) {
			body = "changed title from " + old
		}
		g.addNote(is, true, body, g.someUser(false))
	case 4: // description change
		is.Desc = g.text(0, 6)
		g.addNote(is, true, "changed the description", g.someUser(false))
	case 5, 6: // label event
		t := g.tick()
		name := []string{"bug", "ui", "p1"}[g.r.Intn(3)]
		if g.hostile && g.r.Chance(1, 2) {
			name = g.text(0, 3)
		}
		act := g.r.Intn(2)
		if g.quirks && g.r.Chance(1, 15) {
			act = 2
		}
		id := 0
		if g.collide == 2 && g.r.Chance(1, 2) && len(is.Notes) > 0 {
			id = is.Notes[g.r.Intn(len(is.Notes))].ID
			for _, l := range is.Labels {
				if l.ID == id {
					id = 0
				}
			}
		}
		if id == 0 {
			g.labelID += g.r.Range(1, 3)
			id = g.labelID
		}
		is.Labels = append(is.Labels, gLabel{ID: id, A: g.someUser(true), Act: act, Name: name, C: t})
		is.U = t
	case 7: // status change
		closedNow := false
		// the tracker's current status: last status-changing thing
		var last int64 = -1
		for _, s := range is.States {
			if s.C >= last && s.St < 2 {
				last, closedNow = s.C, s.St == 0
			}
		}
		for _, n := range is.Notes {
			if n.Sys && (n.Body == "closed" || n.Body == "reopened") && n.C >= last {
				last, closedNow = n.C, n.Body == "closed"
			}
		}
		who := g.someUser(true)
		style := g.style[is.IID]
		if style == 0 || style == 2 {
			t := g.tick()
			st := 0
			if closedNow {
				st = 1
			}
			if g.quirks && g.r.Chance(1, 15) {
				st = 2
			}
			id := 0
			if g.collide == 2 && g.r.Chance(1, 2) && len(is.Notes) > 0 {
				id = is.Notes[g.r.Intn(len(is.Notes))].ID
				for _, s := range is.States {
					if s.ID == id {
						id = 0
					}
				}
			}
			if id == 0 {
				g.stateID += g.r.Range(1, 3)
				id = g.stateID
			}
			is.States = append(is.States, gState{ID: id, A: who, St: st, C: t})
			is.U = t
		}
		if style == 1 || style == 2 {
			body := "closed"
			if closedNow {
				body = "reopened"
			}
			if who == 0 {
				who = g.someUser(false)
			}
			g.addNote(is, true, body, who)
		}
	case 8: // other system notes
		bodies := []string{"assigned to @u11", "unassigned @u11", "mentioned in issue #2", "locked this issue", "changed milestone to %1", "removed due date", "mentioned in commit abc"}
		body := bodies[g.r.Intn(len(bodies))]
		if g.quirks && g.r.Chance(1, 4) {
			body = []string{"marked this issue as related to #2", "made the issue confidential", "closed via commit abc"}[g.r.Intn(3)]
		}
		g.addNote(is, true, body, g.someUser(false))
	}
}

func c16Clone(t gTracker) gTracker {
	b, _ := json.Marshal(t)
	var c gTracker
	_ = json.Unmarshal(b, &c)
	return c
}

// flavour: 0 plain (disjoint ids, tame text, no quirks), 1 hostile text, 2 quirks (null users, unknown events, mixed
// status sources), 3 shared ids (note id = iid), 4 shared ids across event kinds
func genC16(r *Rand, flavour int, tier string) c16Input {
	g := &c16Gen{r: r, clock: 100, style: map[int]int{}, noteID: 100, labelID: 200, stateID: 300}
	names := []string{"plain", "hostile", "quirks", "note-iid", "cross-ids"}
	switch flavour {
	case 1:
		g.hostile = true
	case 2:
		g.quirks = true
	case 3:
		g.collide = 1
	case 4:
		g.collide = 2
	}
	nu := r.Range(2, 3)
	for i := 0; i < nu; i++ {
		id := 11 + i
		g.tr.Users = append(g.tr.Users, gUser{ID: id, Name: fmt.Sprintf("user %d", id), Login: fmt.Sprintf("u%d", id), Email: fmt.Sprintf("u%d@example.org", id)})
	}
	if g.quirks && r.Chance(1, 3) {
		g.tr.Users = append(g.tr.Users, gUser{ID: 19, Name: "gone", Login: "gone", Gone: true})
	}
	if g.hostile && r.Chance(1, 2) {
		g.tr.Users = append(g.tr.Users, gUser{ID: 18, Name: g.text(0, 4), Login: g.text(0, 3), Email: "x@example.org"})
	}
	in := c16Input{Page: []int{1, 2, 3, 20}[r.Intn(4)], Gen: names[flavour]}
	g.newIssue()
	for k := r.Range(2, 7); k > 0; k-- {
		g.mutate()
	}
	nr := r.Range(1, 4)
	if tier == "thorough" && r.Chance(1, 4) {
		nr = r.Range(3, 5)
	}
	for i := 0; i < nr; i++ {
		if i > 0 && !r.Chance(1, 3) {
			for k := r.Range(1, 4); k > 0; k-- {
				g.mutate()
			}
			in.Snaps = append(in.Snaps, c16Clone(g.tr))
		} else if i == 0 {
			in.Snaps = append(in.Snaps, c16Clone(g.tr))
		}
		now := g.clock + int64(r.Range(0, 3))
		in.Rounds = append(in.Rounds, gRound{Snap: len(in.Snaps) - 1, Full: i > 0 && r.Chance(1, 5), Now: now})
		g.clock = now + int64(r.Range(0, 2))
	}
	in.NoTotals = r.Chance(1, 4)
	if r.Chance(1, 2) {
		in.FaultMode = "drop"
	}
	in.FaultRound = r.Intn(nr)
	if r.Chance(1, 4) {
		in.FaultAll = 12
	} else {
		for k := r.Range(1, 3); k > 0; k-- {
			in.FaultIdx = append(in.FaultIdx, r.Intn(40))
		}
	}
	return in
}

func (c16Driver) Gen(r *Rand, tier string) []json.RawMessage {
	n := 840
	if tier == "thorough" {
		n *= 20
	}
	var res []json.RawMessage
	for i := 0; i < n; i++ {
		flavour := 0
		switch x := r.Intn(20); {
		case x < 9:
			flavour = 0
		case x < 13:
			flavour = 1
		case x < 17:
			flavour = 2
		case x < 19:
			flavour = 3
		default:
			flavour = 4
		}
		res = append(res, mustJSON(genC16(r.Fork(), flavour, tier)))
	}
	return res
}
