package main

// C10 (cache part): the snapshot a cache.BugCache maintains incrementally, operation by operation
// (cache/with_snapshot.go), against a compilation from scratch of the same operations read back
// from git.

import (
	"encoding/json"
	"fmt"
	"os"
	"sort"

	"github.com/MichaelMure/git-bug/cache"
	"github.com/MichaelMure/git-bug/entities/bug"
	"github.com/MichaelMure/git-bug/entity"
	"github.com/MichaelMure/git-bug/repository"
	"github.com/MichaelMure/git-bug/util/lamport"
)

type c10cOp struct {
	K    string `json:"k"` // comment edit editfirst title open close label meta commit failcommit
	A    int    `json:"a"`
	X    int    `json:"x"`
	Y    int    `json:"y"`
	Meta int    `json:"meta,omitempty"`
}
type c10cInput struct {
	Ops []c10cOp `json:"ops"`
}

type c10cDriver struct{}

// c10cFaultRepo: storage whose Lamport clocks cannot be written while *fail is set (disk full, clock file not
// writable): a commit attempted meanwhile fails half-way.
type c10cFaultRepo struct {
	repository.TestedRepo
	fail *bool
}

func (r c10cFaultRepo) Increment(name string) (lamport.Time, error) {
	if *r.fail {
		return 0, fmt.Errorf("injected: no space left on device")
	}
	return r.TestedRepo.Increment(name)
}

func init() { register("C10c", c10cDriver{}) }

func (c10cDriver) Gen(r *Rand, tier string) []json.RawMessage {
	n := 40
	if tier == "thorough" {
		n = 1200
	}
	kinds := []string{"comment", "comment", "edit", "editfirst", "title", "open", "close", "label", "label", "meta", "meta", "commit", "failcommit"}
	var res []json.RawMessage
	for c := 0; c < n; c++ {
		var in c10cInput
		for i, l := 0, r.Range(2, 14); i < l; i++ {
			in.Ops = append(in.Ops, c10cOp{K: kinds[r.Intn(len(kinds))], A: r.Intn(2), X: r.Intn(6), Y: r.Intn(6), Meta: r.Intn(3)})
		}
		res = append(res, mustJSON(in))
	}
	return res
}

func snapDigest(s *bug.Snapshot) string {
	type opd struct {
		Id   string
		Meta []string
	}
	d := struct {
		Id, Title     string
		Status        int
		Labels        []string
		Comments      []string
		Actors, Parts []string
		Timeline      []string
		Ops           []opd
	}{Id: string(s.Id()), Title: s.Title, Status: int(s.Status)}
	for _, l := range s.Labels {
		d.Labels = append(d.Labels, string(l))
	}
	for _, c := range s.Comments {
		d.Comments = append(d.Comments, fmt.Sprintf("%s|%s|%s|%v", c.CombinedId(), c.Author.Id(), c.Message, c.Files))
	}
	for _, a := range s.Actors {
		d.Actors = append(d.Actors, string(a.Id()))
	}
	for _, a := range s.Participants {
		d.Parts = append(d.Parts, string(a.Id()))
	}
	for _, it := range s.Timeline {
		x := string(it.CombinedId())
		switch v := it.(type) {
		case *bug.CreateTimelineItem:
			x += fmt.Sprintf("|c|%d|%s", len(v.History), v.Message)
		case *bug.AddCommentTimelineItem:
			x += fmt.Sprintf("|c|%d|%s", len(v.History), v.Message)
		}
		d.Timeline = append(d.Timeline, x)
	}
	for _, op := range s.Operations {
		var kv []string
		for k, v := range op.AllMetadata() {
			kv = append(kv, k+"="+v)
		}
		sort.Strings(kv)
		d.Ops = append(d.Ops, opd{string(op.Id()), kv})
	}
	b, _ := json.Marshal(d)
	return string(b)
}

func (c10cDriver) Run(raw json.RawMessage) Case {
	var in c10cInput
	if err := json.Unmarshal(raw, &in); err != nil {
		return Case{Skip: "bad input"}
	}
	dir, err := os.MkdirTemp("", "verif-c10c-")
	if err != nil {
		panic(err)
	}
	defer os.RemoveAll(dir)
	repo0, err := newTestRepo(dir+"/r", false)
	if err != nil {
		panic(err)
	}
	clockFault := false
	repo := c10cFaultRepo{TestedRepo: repo0, fail: &clockFault}
	rc, err := cache.NewRepoCacheNoEvents(repo)
	if err != nil {
		return Case{Skip: "cache: " + err.Error()}
	}
	closed := false
	defer func() {
		if !closed {
			rc.Close()
		}
	}()
	var authors []*cache.IdentityCache
	for a := 0; a < 2; a++ {
		ic, err := rc.Identities().New(fmt.Sprintf("user%d", a), fmt.Sprintf("u%d@x.org", a))
		if err != nil {
			return Case{Skip: "identity: " + err.Error()}
		}
		authors = append(authors, ic)
	}
	_ = rc.SetUserIdentity(authors[0])
	bc, _, err := rc.Bugs().NewRaw(authors[0], 1600000000, "cached bug", "first message", nil, nil)
	if err != nil {
		return Case{Skip: "new bug: " + err.Error()}
	}
	id := bc.Id()
	var flags []bool
	tags := map[string]bool{}
	compare := func() {
		if err := bc.CommitAsNeeded(); err != nil {
			flags = append(flags, false)
			tags["commit-error"] = true
			return
		}
		live := snapDigest(bc.Snapshot())
		fresh, err := bug.Read(repo, id)
		if err != nil {
			flags = append(flags, false)
			tags["read-error"] = true
			return
		}
		ok := live == snapDigest(fresh.Compile())
		if !ok {
			tags["incremental-differs"] = true
		}
		flags = append(flags, ok)
	}
	var opIds []entity.Id
	for _, op := range bc.Snapshot().Operations {
		opIds = append(opIds, op.Id())
	}
	for i, o := range in.Ops {
		au := authors[o.A%2]
		t := int64(1600000001 + i)
		var md map[string]string
		if o.Meta > 0 {
			md = map[string]string{fmt.Sprintf("own%d", o.Meta): "v"}
		}
		snap := bc.Snapshot()
		switch o.K {
		case "comment":
			_, op, err := bc.AddCommentRaw(au, t, fmt.Sprintf("comment %d", o.X), nil, md)
			if err == nil {
				opIds = append(opIds, op.Id())
			}
		case "edit":
			if len(snap.Comments) > 0 {
				c := snap.Comments[o.X%len(snap.Comments)]
				op, err := bc.EditCommentRaw(au, t, c.CombinedId(), fmt.Sprintf("edited %d", o.Y), md)
				if err == nil {
					opIds = append(opIds, op.Id())
				}
			}
		case "editfirst":
			_, op, err := bc.EditCreateCommentRaw(au, t, fmt.Sprintf("edited first %d", o.Y), md)
			if err == nil {
				opIds = append(opIds, op.Id())
			}
		case "title":
			op, err := bc.SetTitleRaw(au, t, fmt.Sprintf("title %d", o.X), md)
			if err == nil {
				opIds = append(opIds, op.Id())
			}
		case "open":
			if op, err := bc.OpenRaw(au, t, md); err == nil {
				opIds = append(opIds, op.Id())
			}
		case "close":
			if op, err := bc.CloseRaw(au, t, md); err == nil {
				opIds = append(opIds, op.Id())
			}
		case "label":
			if _, op, err := bc.ChangeLabelsRaw(au, t, []string{fmt.Sprintf("l%d", o.X), fmt.Sprintf("L%d", o.Y)}, []string{fmt.Sprintf("l%d", o.Y)}, md); err == nil && op != nil {
				opIds = append(opIds, op.Id())
			}
		case "meta":
			target := opIds[o.X%len(opIds)]
			if op, err := bc.SetMetadataRaw(au, t, target, map[string]string{fmt.Sprintf("k%d", o.Y%3): fmt.Sprintf("v%d", i)}); err == nil {
				opIds = append(opIds, op.Id())
				tags["set-metadata"] = true
			}
		case "commit":
			compare()
		case "failcommit":
			// a commit attempted while the clocks cannot be written fails; the cached snapshot must go on mirroring
			// the bug (next comparison: what the snapshot shows is what a commit stores)
			if bc.NeedCommit() {
				clockFault = true
				if err := bc.CommitAsNeeded(); err != nil {
					tags["commit-fault"] = true
				}
				clockFault = false
			}
		}
		tags["op:"+o.K] = true
	}
	compare()
	// ---- the same state through the cache's other accessor, on a REOPENED cache ----
	// ResolveOperationWithMetadata(key, value) is asked on a freshly loaded BugCache before anything else touched
	// the bug (no Snapshot() yet): the metadata of an operation is a function of the operation sequence, so the
	// answer must be the one read off a from-scratch compile of the stored operations.
	var resolves []bool
	func() {
		fresh, err := bug.Read(repo, id)
		if err != nil {
			resolves = append(resolves, false)
			tags["read-error"] = true
			return
		}
		want := map[string][]entity.Id{}
		var questions []string
		for _, op := range fresh.Compile().Operations {
			for k, v := range op.AllMetadata() {
				q := k + "\x00" + v
				if _, ok := want[q]; !ok {
					questions = append(questions, q)
				}
				want[q] = append(want[q], op.Id())
			}
		}
		sort.Strings(questions)
		questions = append(questions, "k0\x00no-such-value", "no-such-key\x00v")
		if err := rc.Close(); err != nil {
			resolves = append(resolves, false)
			tags["close-error"] = true
			return
		}
		closed = true
		rc2, err := cache.NewRepoCacheNoEvents(repo)
		if err != nil {
			resolves = append(resolves, false)
			tags["reopen-error"] = true
			return
		}
		defer rc2.Close()
		for _, q := range questions {
			var k, v string
			for i := 0; i < len(q); i++ {
				if q[i] == 0 {
					k, v = q[:i], q[i+1:]
					break
				}
			}
			// nothing but these questions touches the reloaded bug: no Snapshot() is ever called on it
			b2, err := rc2.Bugs().Resolve(id)
			if err != nil {
				resolves = append(resolves, false)
				tags["reopen-error"] = true
				return
			}
			got, err := b2.ResolveOperationWithMetadata(k, v)
			ok := false
			switch w := want[q]; {
			case len(w) == 0:
				ok = err == cache.ErrNoMatchingOp
			case len(w) == 1:
				ok = err == nil && got == w[0]
			default:
				_, multiple := err.(*entity.ErrMultipleMatch)
				ok = multiple
			}
			if len(want[q]) > 0 {
				tags["resolve-metadata"] = true
			}
			if !ok {
				tags["resolve-differs"] = true
			}
			resolves = append(resolves, ok)
		}
	}()
	var fl, rl []string
	for _, f := range flags {
		fl = append(fl, coqBool(f))
	}
	for _, f := range resolves {
		rl = append(rl, coqBool(f))
	}
	var tg []string
	for t := range tags {
		tg = append(tg, t)
	}
	sort.Strings(tg)
	return Case{Coq: "mkcase10c " + coqList(fl) + " " + coqList(rl), Obs: map[string]interface{}{"compared": len(flags), "resolved": len(resolves), "ops": len(opIds)}, Tags: tg, NonTrivial: len(opIds) > 2, Key: string(raw)}
}
